(* C05 / C13 -- proofs about the tracking glue (Model/TrackingPipeline.v) on top of Proofs/ClearProofs.v.
   Statements are collected in Props/C05Pipeline.v. *)
From Coq Require Import List Bool Arith ZArith QArith Lia Lqa Permutation.
From PE Require Import Base.QUtil Model.Clear Proofs.ClearProofs Model.TrackingPipeline.
Import ListNotations.
Open Scope Q_scope.

(* ---------- membership ---------- *)
Lemma mem_In l ls : mem l ls = true <-> In l ls.
Proof.
  unfold mem. rewrite existsb_exists. split.
  - intros (x & Hx & E). apply Nat.eqb_eq in E. subst. exact Hx.
  - intros H. exists l. split; [exact H|apply Nat.eqb_refl].
Qed.
Lemma mem_false_notin l ls : mem l ls = false -> ~ In l ls.
Proof. intros H Hin. apply mem_In in Hin. congruence. Qed.
Lemma mem_cons l a ls : mem l (a :: ls) = Nat.eqb l a || mem l ls.
Proof. reflexivity. Qed.
Lemma mem_app l l1 l2 : mem l (l1 ++ l2) = mem l l1 || mem l l2.
Proof. unfold mem. apply existsb_app. Qed.

(* ---------- dictionaries ---------- *)
Lemma dget_dset {A} (d : dict A) k v L : dget (dset d k v) L = if Nat.eqb k L then Some v else dget d L.
Proof.
  induction d as [|[k' v'] d IH]; cbn [dset dget].
  - destruct (Nat.eqb k L); reflexivity.
  - destruct (Nat.eqb k' k) eqn:E; cbn [dget].
    + apply Nat.eqb_eq in E. subst k'. destruct (Nat.eqb k L); reflexivity.
    + destruct (Nat.eqb k' L) eqn:E2; [|exact IH].
      destruct (Nat.eqb k L) eqn:E3; [|reflexivity].
      apply Nat.eqb_eq in E2. apply Nat.eqb_eq in E3. subst. rewrite Nat.eqb_refl in E. discriminate.
Qed.

Lemma dget_none_notin {A} (d : dict A) k : dget d k = None <-> ~ In k (dkeys d).
Proof.
  induction d as [|[k' v'] d IH]; cbn [dget dkeys map fst]; [tauto|].
  destruct (Nat.eqb k' k) eqn:E.
  - apply Nat.eqb_eq in E. subst. split; [discriminate|]. intros H. exfalso. apply H. left. reflexivity.
  - apply Nat.eqb_neq in E. rewrite IH. unfold dkeys. split; [intros H [H1|H1]; auto|intros H H1; apply H; right; exact H1].
Qed.

Lemma dkeys_dset {A} (d : dict A) k v : dkeys (dset d k v) = if mem k (dkeys d) then dkeys d else dkeys d ++ [k].
Proof.
  induction d as [|[k' v'] d IH]; cbn [dset dkeys map fst]; [reflexivity|].
  rewrite mem_cons, (Nat.eqb_sym k k'). destruct (Nat.eqb k' k) eqn:E; cbn [orb map fst]; [reflexivity|].
  unfold dkeys in IH. rewrite IH. destruct (mem k (map fst d)); reflexivity.
Qed.

Lemma NoDup_snoc {A} (l : list A) x : NoDup l -> ~ In x l -> NoDup (l ++ [x]).
Proof.
  induction l as [|a l IH]; cbn [app]; intros H Hn; [constructor; [intros []|constructor]|].
  inversion H; subst. constructor.
  - intros Hin. apply in_app_or in Hin. destruct Hin as [Hin|[Hin|[]]]; [contradiction|]. subst. apply Hn. left. reflexivity.
  - apply IH; [assumption|]. intros Hin. apply Hn. right. exact Hin.
Qed.

Lemma dset_nodup {A} (d : dict A) k v : NoDup (dkeys d) -> NoDup (dkeys (dset d k v)).
Proof.
  intros H. rewrite dkeys_dset. destruct (mem k (dkeys d)) eqn:E; [exact H|].
  apply NoDup_snoc; [exact H|apply mem_false_notin; exact E].
Qed.

Lemma dget_map {A B} (f : A -> B) (d : dict A) L :
  dget (map (fun kv => (fst kv, f (snd kv))) d) L = option_map f (dget d L).
Proof. induction d as [|[k v] d IH]; [reflexivity|]. cbn [map dget fst snd]. destruct (Nat.eqb k L); [reflexivity|exact IH]. Qed.

Lemma dinit_fold_get {A} (v0 : A) labels : forall d0 L,
  dget (fold_left (fun d l => dset d l v0) labels d0) L = if mem L labels then Some v0 else dget d0 L.
Proof.
  induction labels as [|a labels IH]; intros d0 L; cbn [fold_left]; [reflexivity|].
  rewrite IH, mem_cons, dget_dset, (Nat.eqb_sym L a). destruct (mem L labels); [rewrite orb_true_r; reflexivity|].
  rewrite orb_false_r. reflexivity.
Qed.
Lemma dinit_get {A} labels (v0 : A) L : dget (dinit labels v0) L = if mem L labels then Some v0 else None.
Proof. unfold dinit. rewrite dinit_fold_get. reflexivity. Qed.

Lemma dinit_fold_nodup {A} (v0 : A) labels : forall d0, NoDup (dkeys d0) -> NoDup (dkeys (fold_left (fun d l => dset d l v0) labels d0)).
Proof. induction labels as [|a labels IH]; intros d0 H; cbn [fold_left]; [exact H|]. apply IH. apply dset_nodup. exact H. Qed.
Lemma dinit_nodup {A} labels (v0 : A) : NoDup (dkeys (dinit labels v0)).
Proof. unfold dinit. apply dinit_fold_nodup. constructor. Qed.

(* ---------- buckets ---------- *)
Lemma filter_snoc {A} (p : A -> bool) l x : filter p (l ++ [x]) = filter p l ++ (if p x then [x] else []).
Proof. rewrite filter_app. cbn [filter]. destruct (p x); reflexivity. Qed.

Lemma existsb_false_filter {A} (p : A -> bool) l : existsb p l = false -> filter p l = [].
Proof.
  induction l as [|a l IH]; [reflexivity|]. cbn [existsb filter]. destruct (p a); [discriminate|]. exact IH.
Qed.

Lemma has_key_snoc bl f r L : has_key bl (f ++ [r]) L = has_key bl f L || in_bucket bl L r.
Proof. unfold has_key. rewrite existsb_app. cbn [existsb]. rewrite orb_false_r, orb_assoc. reflexivity. Qed.

Lemma in_bucket_label bl L r l : bucket_label bl r = Some l -> in_bucket bl L r = Nat.eqb l L.
Proof. unfold in_bucket. intros ->. reflexivity. Qed.
Lemma in_bucket_none bl L r : bucket_label bl r = None -> in_bucket bl L r = false.
Proof. unfold in_bucket. intros ->. reflexivity. Qed.


(* divide_objects = the filter by bucket label, key present iff target label or non-empty bucket *)
Theorem divide_get bl f : forall L, dget (divide bl f) L = if has_key bl f L then Some (bucket bl L f) else None.
Proof.
  induction f as [|r f IH] using rev_ind; intros L.
  - unfold divide, has_key, bucket. cbn [fold_left existsb filter]. rewrite dinit_get, orb_false_r. reflexivity.
  - unfold divide in *. rewrite fold_left_app. cbn [fold_left]. unfold divide_step at 1.
    rewrite has_key_snoc. unfold bucket at 1. rewrite filter_snoc. fold (bucket bl L f).
    destruct (bucket_label bl r) as [l|] eqn:B.
    + rewrite (in_bucket_label bl L r l B), (IH l).
      destruct (has_key bl f l) eqn:Hl; rewrite dget_dset; (destruct (Nat.eqb l L) eqn:E; [|rewrite IH, orb_false_r, app_nil_r; reflexivity]).
      * apply Nat.eqb_eq in E. subst L. rewrite orb_true_r. reflexivity.
      * apply Nat.eqb_eq in E. subst L. rewrite orb_true_r. unfold has_key in Hl. apply orb_false_iff in Hl. destruct Hl as [_ Hl].
        unfold bucket. rewrite (existsb_false_filter _ _ Hl). reflexivity.
    + rewrite (in_bucket_none bl L r B), IH, orb_false_r, app_nil_r. reflexivity.
Qed.

Lemma divide_step_nodup bl d r : NoDup (dkeys d) -> NoDup (dkeys (divide_step bl d r)).
Proof.
  intros H. unfold divide_step. destruct (bucket_label bl r); [|exact H].
  destruct (dget d n); apply dset_nodup; exact H.
Qed.
Lemma divide_nodup bl f : NoDup (dkeys (divide bl f)).
Proof.
  unfold divide. generalize (dinit_nodup bl (@nil pres)). generalize (dinit bl (@nil pres)).
  induction f as [|r f IH]; intros d H; cbn [fold_left]; [exact H|]. apply IH. apply divide_step_nodup. exact H.
Qed.

(* the keys: the target labels in order (first occurrences), then the other bucket labels in order of appearance *)
Lemma divide_key_iff bl f L : In L (dkeys (divide bl f)) <-> has_key bl f L = true.
Proof.
  pose proof (divide_get bl f L) as H. pose proof (dget_none_notin (divide bl f) L) as N.
  destruct (has_key bl f L); split; intros; auto; try discriminate.
  - destruct (in_dec Nat.eq_dec L (dkeys (divide bl f))) as [Hi|Hi]; [exact Hi|]. apply N in Hi. congruence.
  - exfalso. apply N in H; auto.
Qed.

(* divide_objects_to_num on ground-truth objects *)
Lemma count_label_snoc L gts l : count_label L (gts ++ [l]) = (count_label L gts + (if Nat.eqb L l then 1 else 0))%nat.
Proof. unfold count_label. rewrite filter_snoc, app_length. destruct (Nat.eqb L l); reflexivity. Qed.

Theorem divide_num_get bl gts : forall L, dget (divide_num bl gts) L = if mem L bl then Some (count_label L gts) else None.
Proof.
  induction gts as [|l gts IH] using rev_ind; intros L.
  - unfold divide_num, count_label. cbn [fold_left filter length]. apply dinit_get.
  - unfold divide_num in *. rewrite fold_left_app. cbn [fold_left]. unfold num_step at 1. rewrite count_label_snoc.
    destruct (mem l bl) eqn:Ml.
    + rewrite (IH l), Ml, dget_dset, (Nat.eqb_sym L l). destruct (Nat.eqb l L) eqn:E.
      * apply Nat.eqb_eq in E. subst L. rewrite Ml. f_equal. lia.
      * rewrite IH, Nat.add_0_r. reflexivity.
    + rewrite IH. destruct (mem L bl) eqn:ML; [|reflexivity].
      destruct (Nat.eqb L l) eqn:E; [apply Nat.eqb_eq in E; subst; congruence|]. rewrite Nat.add_0_r. reflexivity.
Qed.

(* sum(num_ground_truth.values()) *)
Lemma dsum_dset_new d k v : dget d k = None -> dsum (dset d k v) = (dsum d + v)%nat.
Proof.
  induction d as [|[k' v'] d IH]; cbn [dget dset dsum fold_right snd]; [intros _; lia|].
  destruct (Nat.eqb k' k); [discriminate|]. intros H. cbn [dsum fold_right snd]. fold (dsum (dset d k v)). fold (dsum d). rewrite (IH H). lia.
Qed.
Lemma dsum_dset_old d k n v : dget d k = Some n -> (dsum (dset d k v) + n = dsum d + v)%nat.
Proof.
  induction d as [|[k' v'] d IH]; cbn [dget dset]; [discriminate|].
  destruct (Nat.eqb k' k).
  - intros H. inversion H; subst. cbn [dsum fold_right snd]. lia.
  - intros H. cbn [dsum fold_right snd]. fold (dsum (dset d k v)). fold (dsum d). specialize (IH H). lia.
Qed.
Lemma dsum_dinit labels : forall d0, dsum d0 = 0%nat -> dsum (fold_left (fun d l => dset d l 0%nat) labels d0) = 0%nat.
Proof.
  induction labels as [|a labels IH]; intros d0 H; cbn [fold_left]; [exact H|]. apply IH.
  destruct (dget d0 a) as [n|] eqn:E.
  - pose proof (dsum_dset_old d0 a n 0%nat E). lia.
  - rewrite (dsum_dset_new d0 a 0%nat E). lia.
Qed.
Lemma num_step_dsum bl d l : dsum (num_step bl d l) = (dsum d + (if mem l bl then 1 else 0))%nat.
Proof.
  unfold num_step. destruct (mem l bl); [|lia]. destruct (dget d l) as [n|] eqn:E.
  - pose proof (dsum_dset_old d l n (S n) E). lia.
  - apply dsum_dset_new. exact E.
Qed.
Theorem frame_num_gt_count fr : frame_num_gt fr = countb (fun l => mem l (f_bl fr)) (f_gts fr).
Proof.
  unfold frame_num_gt, divide_num. set (bl := f_bl fr).
  assert (G : forall gts d, dsum (fold_left (num_step bl) gts d) = (dsum d + countb (fun l => mem l bl) gts)%nat).
  { induction gts as [|l gts IH]; intros d; cbn [fold_left]; [unfold countb; cbn; lia|].
    rewrite IH, num_step_dsum. unfold countb. cbn [filter]. destruct (mem l bl); cbn [length]; lia. }
  rewrite G. unfold dinit. rewrite dsum_dinit; reflexivity.
Qed.

(* ---------- evaluate_frame: the nesting loop ---------- *)
Lemma nest_fold items : NoDup (dkeys items) -> forall tr,
  (forall k, In k (dkeys items) -> dget tr k = None \/ exists c, dget tr k = Some (Flat c)) ->
  forall L, dget (fold_left nest_step items tr) L =
    match dget items L with
    | Some pv => Some (Nested pv (match dget tr L with Some (Flat c) => c | _ => [] end))
    | None => dget tr L
    end.
Proof.
  induction items as [|[k pv] items IH]; intros Hn tr Hf L; cbn [fold_left]; [reflexivity|].
  cbn [dkeys map fst] in Hn. apply NoDup_cons_iff in Hn. destruct Hn as [Hk Hn].
  set (c0 := match dget tr k with Some (Flat c) => c | _ => [] end).
  assert (E1 : nest_step tr (k, pv) = dset tr k (Nested pv c0)).
  { unfold nest_step, c0. cbn [fst snd]. destruct (Hf k (or_introl eq_refl)) as [H|[c H]]; rewrite H; reflexivity. }
  rewrite E1. rewrite IH; [|exact Hn|].
  - cbn [dget]. rewrite dget_dset. destruct (Nat.eqb k L) eqn:E.
    + apply Nat.eqb_eq in E. subst L. assert (Hnone : dget items k = None) by (apply dget_none_notin; exact Hk).
      rewrite Hnone. reflexivity.
    + reflexivity.
  - intros k' Hk'. rewrite dget_dset. destruct (Nat.eqb k k') eqn:E.
    + apply Nat.eqb_eq in E. subst k'. contradiction.
    + apply Hf. right. exact Hk'.
Qed.

Lemma prev_dict_get bl prev L : mem L bl = true ->
  dget (prev_dict bl prev) L = Some (bucket bl L (match prev with Some p => p | None => [] end)).
Proof.
  intros H. destruct prev as [p|]; cbn [prev_dict].
  - rewrite divide_get. unfold has_key. rewrite H. reflexivity.
  - rewrite dinit_get, H. reflexivity.
Qed.
Lemma prev_dict_nodup bl prev : NoDup (dkeys (prev_dict bl prev)).
Proof. destruct prev; [apply divide_nodup|apply dinit_nodup]. Qed.

(* for every target label of the critical filter: [bucket of the previous frame, bucket of this frame] *)
Theorem tracking_results_get bl prev cur L : mem L bl = true ->
  dget (tracking_results bl prev cur) L =
  Some (Nested (bucket bl L (match prev with Some p => p | None => [] end)) (bucket bl L cur)).
Proof.
  intros H. unfold tracking_results. rewrite nest_fold.
  - rewrite (prev_dict_get bl prev L H), dget_map, divide_get. unfold has_key. rewrite H. reflexivity.
  - apply prev_dict_nodup.
  - intros k _. rewrite dget_map. destruct (dget (divide bl cur) k); [right; eexists; reflexivity|left; reflexivity].
Qed.
(* no key is ever visited twice *)
Theorem tracking_results_never_renested bl prev cur L : dget (tracking_results bl prev cur) L <> Some Renested.
Proof.
  unfold tracking_results. rewrite nest_fold.
  - destruct (dget (prev_dict bl prev) L); [discriminate|]. rewrite dget_map. destruct (dget (divide bl cur) L); discriminate.
  - apply prev_dict_nodup.
  - intros k _. rewrite dget_map. destruct (dget (divide bl cur) k); [right; eexists; reflexivity|left; reflexivity].
Qed.

(* ---------- TrackingMetricsScore / MetricsScore.evaluate_tracking ---------- *)
Lemma all_some_map {A B} (f : A -> option B) (g : A -> B) l :
  (forall x, In x l -> f x = Some (g x)) -> all_some (map f l) = Some (map g l).
Proof.
  induction l as [|a l IH]; intros H; [reflexivity|]. cbn [map all_some].
  rewrite (H a (or_introl eq_refl)), IH; [reflexivity|]. intros x Hx. apply H. right. exact Hx.
Qed.

Theorem frame_tracking_spec tl cfg prev cur :
  (forall L, In L tl -> mem L (f_bl cur) = true) ->
  frame_tracking tl cfg prev cur = Some (scores_spec tl cfg (fun mm Lt => frame_clear mm Lt prev cur)).
Proof.
  intros Hin. unfold frame_tracking, scores_spec. apply all_some_map. intros [mm thrs] _. cbn [fst snd].
  apply all_some_map. intros [L t] HLt. apply in_combine_l in HLt. specialize (Hin L HLt).
  unfold clear_for_frame. cbn [fst]. rewrite (tracking_results_get _ _ _ L Hin), divide_num_get, Hin.
  unfold frame_clear, frame_history, prev_res. cbn [fst]. destruct prev; reflexivity.
Qed.

(* ---------- what CLEAR([L],[t]) does with the results of bucket L ---------- *)
(* the label whose threshold CLEAR looks up *)
Definition pthr_label (r : pres) : nat := match pr_gt r with Some g => pg_lab g | None => pr_elab r end.

Lemma view_thr_label mm r : thr_label (view mm r) = pthr_label r.
Proof. unfold thr_label, view, pthr_label. cbn. destruct (pr_gt r); reflexivity. Qed.

Lemma is_target_single mm L t r : is_target [(L, t)] (view mm r) = Nat.eqb L (pthr_label r).
Proof. unfold is_target. cbn [label_threshold]. rewrite view_thr_label. destruct (Nat.eqb L (pthr_label r)); reflexivity. Qed.

Lemma in_bucket_true bl L r : in_bucket bl L r = true -> bucket_label bl r = Some L.
Proof. unfold in_bucket. destruct (bucket_label bl r) as [b|]; [|discriminate]. intros H. apply Nat.eqb_eq in H. subst. reflexivity. Qed.

(* a result of bucket L is skipped by the label's CLEAR exactly when it is a cross-label pair: the estimate
   carries the target label L but its ground truth another label *)
Lemma bucket_skipped_iff bl L r : in_bucket bl L r = true ->
  (Nat.eqb L (pthr_label r) = false <-> pr_elab r = L /\ exists g, pr_gt r = Some g /\ pg_lab g <> L).
Proof.
  intros H. apply in_bucket_true in H. unfold bucket_label in H. unfold pthr_label.
  destruct (mem (pr_elab r) bl).
  - inversion H as [E]. destruct (pr_gt r) as [g|].
    + split.
      * intros N. apply Nat.eqb_neq in N. split; [reflexivity|]. exists g. split; [reflexivity|]. congruence.
      * intros (_ & g' & Eg & Ng). inversion Eg; subst g'. apply Nat.eqb_neq. congruence.
    + split; [rewrite E, Nat.eqb_refl; discriminate|]. intros (_ & g & Eg & _). discriminate.
  - destruct (pr_gt r) as [g|]; [|discriminate]. inversion H as [E]. split; [rewrite Nat.eqb_refl; discriminate|].
    intros (_ & g' & Eg & Ng). inversion Eg; subst g'. contradiction.
Qed.

Theorem frame_clear_partition mm L t prev cur :
  let k := frame_clear mm (L, t) prev cur in
  let b := bucket (f_bl cur) L (f_res cur) in
  (c_tp (k_cnt k) + c_fp (k_cnt k) = countb (fun r => Nat.eqb L (pthr_label r)) b)%nat /\
  c_num (k_cnt k) = length b /\ k_numgt k = count_label L (f_gts cur).
Proof.
  cbv zeta. unfold frame_clear, frame_history, make_clear. cbn [k_cnt k_numgt fst].
  destruct (clear_partition (mode_of mm) [(L, t)] [map (view mm) (bucket (f_bl cur) L (prev_res prev)); map (view mm) (bucket (f_bl cur) L (f_res cur))]) as [H1 H2].
  cbv zeta in H1, H2. rewrite H1, H2. unfold evaluated. cbn [tl concat]. rewrite app_nil_r, map_length.
  split; [|split; reflexivity]. rewrite countb_map. apply countb_ext_in. intros r _. apply is_target_single.
Qed.

(* ---------- the manager: add_frame_result threads the immediate predecessor ---------- *)
Fixpoint frame_outs (tl : list nat) (cfg : tcfg) (prev : option pfr) (frs : list pfr) : list (option scores) :=
  match frs with
  | [] => []
  | fr :: rest => frame_tracking tl cfg prev fr :: frame_outs tl cfg (Some fr) rest
  end.

Lemma last_opt_snoc {A} (l : list A) x : last_opt (l ++ [x]) = Some x.
Proof. unfold last_opt. rewrite rev_unit. reflexivity. Qed.

Theorem run_frames_spec tl cfg : forall frs st,
  run_frames tl cfg st frs = (st ++ frs, frame_outs tl cfg (last_opt st) frs).
Proof.
  induction frs as [|fr rest IH]; intros st; cbn [run_frames frame_outs]; [rewrite app_nil_r; reflexivity|].
  unfold add_frame. rewrite IH, last_opt_snoc, <- app_assoc. reflexivity.
Qed.

(* ---------- get_scene_result ---------- *)
Lemma scene_inner od nd : forall labels ad an, NoDup labels ->
  (forall L, In L labels -> dget ad L <> None /\ dget od L <> None /\ dget an L <> None /\ dget nd L <> None) ->
  exists ad' an', fold_left (scene_label_step od nd) labels (Some (ad, an)) = Some (ad', an') /\
    (forall L, dget ad' L = if mem L labels
                            then match dget ad L, dget od L with Some h, Some b => Some (h ++ [b]) | _, _ => None end
                            else dget ad L) /\
    (forall L, dget an' L = if mem L labels
                            then match dget an L, dget nd L with Some n, Some k => Some (n + k)%nat | _, _ => None end
                            else dget an L).
Proof.
  induction labels as [|a labels IH]; intros ad an Hn Hk; cbn [fold_left].
  - exists ad, an. split; [reflexivity|split; intros L; reflexivity].
  - apply NoDup_cons_iff in Hn. destruct Hn as [Ha Hn].
    destruct (Hk a (or_introl eq_refl)) as (H1 & H2 & H3 & H4).
    destruct (dget ad a) as [h|] eqn:E1; [|congruence]. destruct (dget od a) as [b|] eqn:E2; [|congruence].
    destruct (dget an a) as [n|] eqn:E3; [|congruence]. destruct (dget nd a) as [k|] eqn:E4; [|congruence].
    unfold scene_label_step at 2. rewrite E1, E2, E3, E4.
    destruct (IH (dset ad a (h ++ [b])) (dset an a (n + k)%nat) Hn) as (ad' & an' & EF & G1 & G2).
    { intros L HL. rewrite !dget_dset. destruct (Nat.eqb a L) eqn:E; [apply Nat.eqb_eq in E; subst; contradiction|].
      apply Hk. right. exact HL. }
    exists ad', an'. split; [exact EF|]. split; intros L; [rewrite G1|rewrite G2]; rewrite mem_cons, dget_dset, (Nat.eqb_sym L a);
      (destruct (Nat.eqb a L) eqn:E; cbn [orb];
       [apply Nat.eqb_eq in E; subst L; destruct (mem a labels) eqn:M; [apply mem_In in M; contradiction|]|reflexivity]).
    + rewrite E1, E2. reflexivity.
    + rewrite E3, E4. reflexivity.
Qed.

Lemma sum_nat_app l1 l2 : sum_nat (l1 ++ l2) = (sum_nat l1 + sum_nat l2)%nat.
Proof. induction l1 as [|a l1 IH]; cbn [app sum_nat]; [reflexivity|]. rewrite IH. lia. Qed.

Theorem scene_dicts_spec tl : NoDup tl -> forall frames, exists ad an,
  scene_dicts tl frames = Some (ad, an) /\
  (forall L, dget ad L = if mem L tl then Some ([] :: map (fun fr => bucket tl L (f_res fr)) frames) else None) /\
  (forall L, dget an L = if mem L tl then Some (sum_nat (map (fun fr => count_label L (f_gts fr)) frames)) else None).
Proof.
  intros Hn. induction frames as [|fr frames IH] using rev_ind.
  - exists (dinit tl [[]]), (dinit tl 0%nat). split; [reflexivity|]. split; intros L; apply dinit_get.
  - destruct IH as (ad & an & E & G1 & G2). unfold scene_dicts in *. rewrite fold_left_app. cbn [fold_left]. rewrite E.
    unfold scene_frame_step.
    destruct (scene_inner (divide tl (f_res fr)) (divide_num tl (f_gts fr)) tl ad an Hn) as (ad' & an' & EF & K1 & K2).
    { intros L HL. apply mem_In in HL. rewrite G1, G2, divide_get, divide_num_get. unfold has_key. rewrite HL. repeat split; discriminate. }
    exists ad', an'. split; [exact EF|]. split; intros L; [rewrite K1, G1, divide_get|rewrite K2, G2, divide_num_get]; unfold has_key;
      destruct (mem L tl); cbn [orb]; try reflexivity.
    + rewrite map_app. reflexivity.
    + rewrite map_app, sum_nat_app. cbn [map sum_nat]. rewrite Nat.add_0_r. reflexivity.
Qed.

Theorem scene_tracking_spec tl cfg frames : NoDup tl ->
  scene_tracking tl cfg frames = Some (scores_spec tl cfg (fun mm Lt => scene_clear tl mm Lt frames)).
Proof.
  intros Hn. destruct (scene_dicts_spec tl Hn frames) as (ad & an & E & G1 & G2).
  unfold scene_tracking, scores_spec. rewrite E. apply all_some_map. intros [mm thrs] _. cbn [fst snd].
  apply all_some_map. intros [L t] HLt. apply in_combine_l in HLt. apply mem_In in HLt.
  unfold clear_for_scene. cbn [fst]. rewrite G1, G2, HLt. unfold scene_clear, scene_history. cbn [fst map]. rewrite map_map. reflexivity.
Qed.

(* ---------- the scene CLEAR is the sum of the frame CLEARs ---------- *)
Definition cadd (a b : counters) : counters :=
  mkC (c_tp a + c_tp b) (c_fp a + c_fp b) (c_sw a + c_sw b) (c_score a + c_score b) (c_num a + c_num b).
Fixpoint csum (l : list counters) : counters := match l with [] => zero | x :: t => cadd x (csum t) end.

(* the counters of the two-frame histories [f_{i-1}; f_i] along a history *)
Fixpoint pair_counts (m : mode) (T : targets) (prev : frame) (rest : list frame) : list counters :=
  match rest with
  | [] => []
  | cur :: r => clear_counts m T [prev; cur] :: pair_counts m T cur r
  end.

Lemma accumulate_pairs m T : forall rest prev a,
  counters_eq (accumulate m T prev rest a) (cadd a (csum (pair_counts m T prev rest))).
Proof.
  induction rest as [|cur rest IH]; intros prev a; cbn [accumulate pair_counts csum].
  - unfold counters_eq, cadd. cbn. repeat split; try lia. ring.
  - destruct (IH cur (add_counters a (calc_tp_fp m T prev cur) (length cur))) as (H1 & H2 & H3 & H4 & H5).
    unfold counters_eq. rewrite H1, H2, H3, H4, H5. unfold clear_counts. cbn [accumulate].
    destruct (calc_tp_fp_partition m T prev cur) as [_ Hz].
    unfold cadd, add_counters. cbn [c_tp c_fp c_sw c_score c_num zero]. repeat split; try lia. ring.
Qed.

Theorem clear_counts_pairs m T f0 rest :
  counters_eq (clear_counts m T (f0 :: rest)) (csum (pair_counts m T f0 rest)).
Proof.
  unfold clear_counts. destruct (accumulate_pairs m T rest f0 zero) as (H1 & H2 & H3 & H4 & H5).
  unfold counters_eq. rewrite H1, H2, H3, H4, H5. unfold cadd. cbn. repeat split; try lia. ring.
Qed.

(* same membership => same buckets *)
Lemma bucket_label_ext bl bl' r : (forall l, mem l bl = mem l bl') -> bucket_label bl r = bucket_label bl' r.
Proof. intros H. unfold bucket_label. rewrite H. reflexivity. Qed.
Lemma bucket_ext bl bl' L f : (forall l, mem l bl = mem l bl') -> bucket bl L f = bucket bl' L f.
Proof. intros H. unfold bucket. apply filter_ext. intros r. unfold in_bucket. rewrite (bucket_label_ext bl bl' r H). reflexivity. Qed.

Lemma frame_pairs tl mm L t : forall frames prev,
  (forall fr, In fr frames -> forall l, mem l (f_bl fr) = mem l tl) ->
  pair_counts (mode_of mm) [(L, t)] (map (view mm) (bucket tl L (prev_res prev)))
              (map (fun fr => map (view mm) (bucket tl L (f_res fr))) frames) =
  map k_cnt (frame_clears mm (L, t) prev frames).
Proof.
  induction frames as [|fr frames IH]; intros prev Hb; cbn [map pair_counts frame_clears]; [reflexivity|].
  pose proof (IH (Some fr) (fun fr' Hf => Hb fr' (or_intror Hf))) as IH'. cbn [prev_res] in IH'. rewrite IH'.
  f_equal. unfold frame_clear, frame_history, make_clear. cbn [k_cnt fst].
  rewrite !(bucket_ext (f_bl fr) tl) by (apply Hb; left; reflexivity). reflexivity.
Qed.

Lemma csum_components (ks : list clear) :
  c_tp (csum (map k_cnt ks)) = sumN k_tp ks /\ c_fp (csum (map k_cnt ks)) = sumN (fun k => c_fp (k_cnt k)) ks /\
  c_sw (csum (map k_cnt ks)) = sumN k_sw ks /\ c_score (csum (map k_cnt ks)) == sumQ (fun k => c_score (k_cnt k)) ks /\
  c_num (csum (map k_cnt ks)) = sumN (fun k => c_num (k_cnt k)) ks.
Proof.
  induction ks as [|k ks (H1 & H2 & H3 & H4 & H5)]; cbn [map csum sumN fold_right]; [cbn; repeat split; reflexivity|].
  unfold cadd. cbn [c_tp c_fp c_sw c_score c_num]. unfold sumN in *. rewrite H1, H2, H3, H5. repeat split.
  unfold sumQ in *. cbn [map qsum]. rewrite H4. reflexivity.
Qed.

Lemma frame_clears_numgt mm Lt : forall frames prev,
  sum_nat (map (fun fr => count_label (fst Lt) (f_gts fr)) frames) = sumN k_numgt (frame_clears mm Lt prev frames).
Proof.
  induction frames as [|fr frames IH]; intros prev; cbn [map sum_nat frame_clears sumN fold_right]; [reflexivity|].
  rewrite (IH (Some fr)). reflexivity.
Qed.

Lemma scene_counts_eq tl mm L t frames :
  (forall fr, In fr frames -> forall l, mem l (f_bl fr) = mem l tl) ->
  counters_eq (k_cnt (scene_clear tl mm (L, t) frames)) (csum (map k_cnt (frame_clears mm (L, t) None frames))).
Proof.
  intros Hb. unfold scene_clear, scene_history, make_clear. cbn [k_cnt fst].
  rewrite <- (frame_pairs tl mm L t frames None Hb). cbn [prev_res bucket filter map]. apply clear_counts_pairs.
Qed.

Theorem scene_sums_frames tl mm L t frames :
  (forall fr, In fr frames -> forall l, mem l (f_bl fr) = mem l tl) ->
  let ks := frame_clears mm (L, t) None frames in
  let s := scene_clear tl mm (L, t) frames in
  let TP := sumN k_tp ks in let FP := sumN (fun k => c_fp (k_cnt k)) ks in
  let SW := sumN k_sw ks in let G := sumN k_numgt ks in
  let SC := sumQ (fun k => c_score (k_cnt k)) ks in
  c_tp (k_cnt s) = TP /\ c_fp (k_cnt s) = FP /\ c_sw (k_cnt s) = SW /\
  c_num (k_cnt s) = sumN (fun k => c_num (k_cnt k)) ks /\
  c_score (k_cnt s) == SC /\ k_numgt s = G /\
  k_mota s = match G with O => None | _ => Some (max0 ((Qnat TP - Qnat FP - Qnat SW) / Qnat G)) end /\
  oq_eq (k_motp s) (match TP with O => None | _ => Some (SC / Qnat TP) end).
Proof.
  intros Hb. cbv zeta.
  destruct (scene_counts_eq tl mm L t frames Hb) as (H1 & H2 & H3 & H4 & H5).
  destruct (csum_components (frame_clears mm (L, t) None frames)) as (G1 & G2 & G3 & G4 & G5).
  rewrite G1 in H1. rewrite G2 in H2. rewrite G3 in H3. rewrite G4 in H4. rewrite G5 in H5.
  assert (EN : k_numgt (scene_clear tl mm (L, t) frames) = sumN k_numgt (frame_clears mm (L, t) None frames)).
  { unfold scene_clear, make_clear. cbn [k_numgt]. apply (frame_clears_numgt mm (L, t)). }
  repeat split; try assumption.
  - unfold scene_clear, make_clear in *. cbn [k_cnt k_numgt k_mota fst] in *. unfold mota_of. rewrite EN, H1, H2, H3. reflexivity.
  - unfold scene_clear, make_clear in *. cbn [k_cnt k_numgt k_motp fst] in *. unfold motp_of. rewrite H1.
    destruct (sumN k_tp (frame_clears mm (L, t) None frames)) as [|n]; [exact I|]. cbn [oq_eq]. rewrite H4. reflexivity.
Qed.

(* ---------- the buckets partition the object results ---------- *)
Lemma in_bucket_unique bl L1 L2 r : in_bucket bl L1 r = true -> in_bucket bl L2 r = true -> L1 = L2.
Proof. intros H1 H2. apply in_bucket_true in H1. apply in_bucket_true in H2. congruence. Qed.

Lemma in_bucket_target_estimate bl L r : mem (pr_elab r) bl = true -> in_bucket bl L r = Nat.eqb (pr_elab r) L.
Proof. intros H. unfold in_bucket, bucket_label. rewrite H. reflexivity. Qed.

Lemma in_bucket_or_dropped bl r : is_dropped bl r = true \/ exists L, in_bucket bl L r = true.
Proof.
  unfold is_dropped, in_bucket. destruct (bucket_label bl r) as [l|]; [right; exists l; apply Nat.eqb_refl|left; reflexivity].
Qed.

Lemma dropped_iff bl r : is_dropped bl r = true <-> mem (pr_elab r) bl = false /\ pr_gt r = None.
Proof.
  unfold is_dropped, bucket_label. destruct (mem (pr_elab r) bl); [split; [discriminate|intros [H _]; discriminate]|].
  destruct (pr_gt r); split; try discriminate; auto. intros [_ H]. discriminate.
Qed.

Lemma concat_buckets_cons bl r f l : bucket_label bl r = Some l -> forall keys, NoDup keys -> In l keys ->
  Permutation (concat (map (fun L => bucket bl L (r :: f)) keys)) (r :: concat (map (fun L => bucket bl L f) keys)).
Proof.
  intros B. induction keys as [|a keys IH]; intros Hn Hin; [destruct Hin|].
  apply NoDup_cons_iff in Hn. destruct Hn as [Ha Hn]. cbn [map concat].
  unfold bucket at 1. cbn [filter]. fold (bucket bl a f). rewrite (in_bucket_label bl a r l B).
  destruct (Nat.eqb l a) eqn:E.
  - apply Nat.eqb_eq in E. subst a. cbn [app]. constructor.
    assert (Em : map (fun L => bucket bl L (r :: f)) keys = map (fun L => bucket bl L f) keys).
    { apply map_ext_in. intros L HL. unfold bucket. cbn [filter]. rewrite (in_bucket_label bl L r l B).
      destruct (Nat.eqb l L) eqn:E2; [apply Nat.eqb_eq in E2; subst; contradiction|reflexivity]. }
    rewrite Em. apply Permutation_refl.
  - destruct Hin as [Hin|Hin]; [subst; rewrite Nat.eqb_refl in E; discriminate|].
    eapply Permutation_trans; [apply Permutation_app_head; apply (IH Hn Hin)|]. apply Permutation_sym. apply Permutation_middle.
Qed.

Lemma concat_buckets_skip bl r f : bucket_label bl r = None -> forall keys,
  map (fun L => bucket bl L (r :: f)) keys = map (fun L => bucket bl L f) keys.
Proof.
  intros B keys. apply map_ext. intros L. unfold bucket. cbn [filter]. rewrite (in_bucket_none bl L r B). reflexivity.
Qed.

Lemma concat_buckets_nil bl keys : concat (map (fun L => bucket bl L []) keys) ++ dropped bl [] = [].
Proof. induction keys as [|a keys IH]; [reflexivity|]. cbn [map concat]. exact IH. Qed.

(* results = disjoint union of the buckets ++ the dropped ones, for any duplicate-free key list covering the bucket labels *)
Theorem buckets_partition bl keys : NoDup keys -> forall f,
  (forall r l, In r f -> bucket_label bl r = Some l -> In l keys) ->
  Permutation f (concat (map (fun L => bucket bl L f) keys) ++ dropped bl f).
Proof.
  intros Hn. induction f as [|r f IH]; intros Hc.
  - rewrite concat_buckets_nil. apply perm_nil.
  - assert (Hc' : forall r' l, In r' f -> bucket_label bl r' = Some l -> In l keys) by (intros r' l Hr; apply Hc; right; exact Hr).
    specialize (IH Hc'). unfold dropped. cbn [filter]. fold (dropped bl f). unfold is_dropped.
    destruct (bucket_label bl r) as [l|] eqn:B.
    + eapply Permutation_trans; [apply perm_skip; exact IH|].
      eapply Permutation_trans; [|apply Permutation_app_tail; apply Permutation_sym; apply (concat_buckets_cons bl r f l B keys Hn)].
      * reflexivity.
      * apply (Hc r l); [left; reflexivity|exact B].
    + rewrite (concat_buckets_skip bl r f B). eapply Permutation_trans; [apply perm_skip; exact IH|]. apply Permutation_middle.
Qed.

Corollary divide_partition bl f :
  NoDup (dkeys (divide bl f)) /\
  (forall L, dget (divide bl f) L = if has_key bl f L then Some (bucket bl L f) else None) /\
  Permutation f (concat (map (fun L => bucket bl L f) (dkeys (divide bl f))) ++ dropped bl f).
Proof.
  split; [apply divide_nodup|split; [apply divide_get|]]. apply buckets_partition; [apply divide_nodup|].
  intros r l Hr B. apply divide_key_iff. unfold has_key. apply orb_true_iff. right. apply existsb_exists. exists r.
  split; [exact Hr|]. rewrite (in_bucket_label bl l r l B). apply Nat.eqb_refl.
Qed.

(* ---------- renaming of track ids ---------- *)
Lemma filter_map_commute {A} (p : A -> bool) (g : A -> A) l : (forall x, p (g x) = p x) -> filter p (map g l) = map g (filter p l).
Proof.
  intros H. induction l as [|a l IH]; [reflexivity|]. cbn [map filter]. rewrite H. destruct (p a); cbn [map]; rewrite IH; reflexivity.
Qed.

Lemma rename_bucket_label fe fg bl r : bucket_label bl (rename_pres fe fg r) = bucket_label bl r.
Proof. unfold bucket_label, rename_pres. cbn. destruct (mem (pr_elab r) bl); [reflexivity|]. destruct (pr_gt r); reflexivity. Qed.

Lemma rename_bucket fe fg bl L f : bucket bl L (map (rename_pres fe fg) f) = map (rename_pres fe fg) (bucket bl L f).
Proof. unfold bucket. apply filter_map_commute. intros r. unfold in_bucket. rewrite rename_bucket_label. reflexivity. Qed.

Lemma view_rename fe fg mm r : view mm (rename_pres fe fg r) = rename_result fe fg (view mm r).
Proof. unfold view, rename_pres, rename_result. cbn. destruct (pr_gt r); reflexivity. Qed.

Lemma view_rename_bucket fe fg mm bl L f :
  map (view mm) (bucket bl L (map (rename_pres fe fg) f)) = map (rename_result fe fg) (map (view mm) (bucket bl L f)).
Proof. rewrite rename_bucket, !map_map. apply map_ext. intros r. apply view_rename. Qed.

Theorem frame_clear_rename fe fg : injective fe -> injective fg -> forall mm Lt prev cur,
  frame_clear mm Lt (option_map (rename_pfr fe fg) prev) (rename_pfr fe fg cur) = frame_clear mm Lt prev cur.
Proof.
  intros He Hg mm Lt prev cur. unfold frame_clear, frame_history. cbn [rename_pfr f_bl f_res f_gts].
  replace (prev_res (option_map (rename_pfr fe fg) prev)) with (map (rename_pres fe fg) (prev_res prev)) by (destruct prev; reflexivity).
  rewrite !view_rename_bucket.
  change [map (rename_result fe fg) (map (view mm) (bucket (f_bl cur) (fst Lt) (prev_res prev)));
          map (rename_result fe fg) (map (view mm) (bucket (f_bl cur) (fst Lt) (f_res cur)))]
    with (rename_history fe fg [map (view mm) (bucket (f_bl cur) (fst Lt) (prev_res prev)); map (view mm) (bucket (f_bl cur) (fst Lt) (f_res cur))]).
  apply clear_rename_invariant; assumption.
Qed.

Theorem scene_clear_rename fe fg : injective fe -> injective fg -> forall tl mm Lt frames,
  scene_clear tl mm Lt (map (rename_pfr fe fg) frames) = scene_clear tl mm Lt frames.
Proof.
  intros He Hg tl mm Lt frames. unfold scene_clear, scene_history. rewrite !map_map. cbn [rename_pfr f_gts f_res].
  replace ([] :: map (fun x => map (view mm) (bucket tl (fst Lt) (map (rename_pres fe fg) (f_res x)))) frames)
    with (rename_history fe fg ([] :: map (fun fr => map (view mm) (bucket tl (fst Lt) (f_res fr))) frames)).
  - apply clear_rename_invariant; assumption.
  - unfold rename_history. cbn [map]. rewrite map_map. f_equal. apply map_ext. intros fr. symmetry. apply view_rename_bucket.
Qed.

Lemma scores_spec_ext tl cfg f g : (forall mm Lt, f mm Lt = g mm Lt) -> scores_spec tl cfg f = scores_spec tl cfg g.
Proof. intros H. unfold scores_spec. apply map_ext. intros s. apply map_ext. intros Lt. apply H. Qed.

Theorem frame_tracking_rename fe fg : injective fe -> injective fg -> forall tl cfg prev cur,
  (forall L, In L tl -> mem L (f_bl cur) = true) ->
  frame_tracking tl cfg (option_map (rename_pfr fe fg) prev) (rename_pfr fe fg cur) = frame_tracking tl cfg prev cur.
Proof.
  intros He Hg tl cfg prev cur Hin. rewrite !frame_tracking_spec by assumption. f_equal.
  apply scores_spec_ext. intros mm Lt. apply frame_clear_rename; assumption.
Qed.

Theorem scene_tracking_rename fe fg : injective fe -> injective fg -> forall tl cfg frames, NoDup tl ->
  scene_tracking tl cfg (map (rename_pfr fe fg) frames) = scene_tracking tl cfg frames.
Proof.
  intros He Hg tl cfg frames Hn. rewrite !scene_tracking_spec by assumption. f_equal.
  apply scores_spec_ext. intros mm Lt. apply scene_clear_rename; assumption.
Qed.

(* the whole run of the manager *)
Lemma frame_outs_rename fe fg : injective fe -> injective fg -> forall tl cfg frs prev,
  (forall fr, In fr frs -> forall L, In L tl -> mem L (f_bl fr) = true) ->
  frame_outs tl cfg (option_map (rename_pfr fe fg) prev) (map (rename_pfr fe fg) frs) = frame_outs tl cfg prev frs.
Proof.
  intros He Hg tl cfg. induction frs as [|fr frs IH]; intros prev Hb; cbn [map frame_outs]; [reflexivity|].
  rewrite (frame_tracking_rename fe fg He Hg) by (apply Hb; left; reflexivity).
  f_equal. apply (IH (Some fr)). intros fr' Hf. apply Hb. right. exact Hf.
Qed.

Theorem run_frames_rename fe fg : injective fe -> injective fg -> forall tl cfg frs,
  (forall fr, In fr frs -> forall L, In L tl -> mem L (f_bl fr) = true) ->
  snd (run_frames tl cfg [] (map (rename_pfr fe fg) frs)) = snd (run_frames tl cfg [] frs) /\
  fst (run_frames tl cfg [] (map (rename_pfr fe fg) frs)) = map (rename_pfr fe fg) (fst (run_frames tl cfg [] frs)).
Proof.
  intros He Hg tl cfg frs Hb. rewrite !run_frames_spec. cbn [fst snd app]. split; [|reflexivity].
  apply (frame_outs_rename fe fg He Hg tl cfg frs None Hb).
Qed.

(* ---------- totals ---------- *)
Lemma scores_spec_wf tl cfg f : (forall mm Lt, wf_clear (f mm Lt)) -> Forall (Forall wf_clear) (scores_spec tl cfg f).
Proof.
  intros H. unfold scores_spec. apply Forall_forall. intros ks Hks. apply in_map_iff in Hks. destruct Hks as (s & <- & _).
  apply Forall_forall. intros k Hk. apply in_map_iff in Hk. destruct Hk as (Lt & <- & _). apply H.
Qed.
Lemma frame_clear_wf mm Lt prev cur : wf_clear (frame_clear mm Lt prev cur).
Proof. apply make_clear_wf. Qed.
Lemma scene_clear_wf tl mm Lt frames : wf_clear (scene_clear tl mm Lt frames).
Proof. apply make_clear_wf. Qed.

(* MetricsScore.num_ground_truth of the scene *)
Lemma scene_label_fold_none od nd labels : fold_left (scene_label_step od nd) labels None = None.
Proof. induction labels as [|a labels IH]; [reflexivity|exact IH]. Qed.

Lemma scene_inner_dsum od nd : forall labels ad an ad' an',
  fold_left (scene_label_step od nd) labels (Some (ad, an)) = Some (ad', an') ->
  exists ks, Forall2 (fun L k => dget nd L = Some k) labels ks /\ dsum an' = (dsum an + sum_nat ks)%nat.
Proof.
  induction labels as [|a labels IH]; intros ad an ad' an' H; cbn [fold_left] in H.
  - inversion H; subst. exists []. split; [constructor|cbn; lia].
  - unfold scene_label_step at 2 in H.
    destruct (dget ad a) as [h|]; [|rewrite scene_label_fold_none in H; discriminate].
    destruct (dget od a) as [b|]; [|rewrite scene_label_fold_none in H; discriminate].
    destruct (dget an a) as [n|] eqn:En; [|rewrite scene_label_fold_none in H; discriminate].
    destruct (dget nd a) as [k|] eqn:Ek; [|rewrite scene_label_fold_none in H; discriminate].
    destruct (IH _ _ _ _ H) as (ks & F & E). exists (k :: ks). split; [constructor; assumption|].
    pose proof (dsum_dset_old an a n (n + k)%nat En). cbn [sum_nat]. lia.
Qed.

Lemma count_label_cons L g gts : count_label L (g :: gts) = ((if Nat.eqb L g then 1 else 0) + count_label L gts)%nat.
Proof. unfold count_label. cbn [filter]. destruct (Nat.eqb L g); reflexivity. Qed.

Lemma count_labels_sum tl : NoDup tl -> forall gts ks,
  Forall2 (fun L k => k = count_label L gts) tl ks -> sum_nat ks = countb (fun l => mem l tl) gts.
Proof.
  intros Hn gts. induction gts as [|g gts IH]; intros ks F.
  - unfold countb, count_label in *. cbn [filter length] in *. clear Hn. induction F as [|L k tl ks E F IHF]; [reflexivity|]. subst. exact IHF.
  - assert (F' : Forall2 (fun L k => k = count_label L gts) tl (map (fun L => count_label L gts) tl)).
    { clear. induction tl; constructor; auto. }
    specialize (IH _ F'). unfold countb in *. cbn [filter]. 
    assert (E : sum_nat ks = (sum_nat (map (fun L => count_label L gts) tl) + (if mem g tl then 1 else 0))%nat).
    { clear IH F'. revert ks F. induction tl as [|a tl IHt]; intros ks F; inversion F; subst; [reflexivity|].
      apply NoDup_cons_iff in Hn. destruct Hn as [Ha Hn]. cbn [map sum_nat]. rewrite (IHt Hn _ H3), mem_cons.
      rewrite count_label_cons, (Nat.eqb_sym g a).
      destruct (Nat.eqb a g) eqn:Eg; cbn [orb].
      - apply Nat.eqb_eq in Eg. subst g. destruct (mem a tl) eqn:M; [apply mem_In in M; contradiction|]. lia.
      - lia. }
    rewrite E, IH. destruct (mem g tl); cbn [length]; lia.
Qed.

Lemma forall2_nd tl gts : forall labels ks, (forall L, In L labels -> mem L tl = true) ->
  Forall2 (fun L k => dget (divide_num tl gts) L = Some k) labels ks -> Forall2 (fun L k => k = count_label L gts) labels ks.
Proof.
  intros labels ks Hm F. induction F as [|L k ls ks0 HL F IHF]; constructor.
  - rewrite divide_num_get, (Hm L (or_introl eq_refl)) in HL. congruence.
  - apply IHF. intros L' HL'. apply Hm. right. exact HL'.
Qed.

Theorem scene_num_gt_spec tl : NoDup tl -> forall frames,
  scene_num_gt tl frames = Some (sum_nat (map (fun fr => countb (fun l => mem l tl) (f_gts fr)) frames)).
Proof.
  intros Hn frames. unfold scene_num_gt.
  assert (G : forall frames, exists ad an, scene_dicts tl frames = Some (ad, an) /\
              dsum an = sum_nat (map (fun fr => countb (fun l => mem l tl) (f_gts fr)) frames)).
  { clear frames. induction frames as [|fr frames IH] using rev_ind.
    - exists (dinit tl [[]]), (dinit tl 0%nat). split; [reflexivity|]. unfold dinit. rewrite dsum_dinit; reflexivity.
    - destruct IH as (ad & an & E & D). destruct (scene_dicts_spec tl Hn (frames ++ [fr])) as (ad' & an' & E' & _ & _).
      exists ad', an'. split; [exact E'|]. unfold scene_dicts in *. rewrite fold_left_app in E'. cbn [fold_left] in E'. rewrite E in E'.
      unfold scene_frame_step in E'. destruct (scene_inner_dsum _ _ _ _ _ _ _ E') as (ks & F & S).
      rewrite S, D, map_app, sum_nat_app. cbn [map sum_nat]. rewrite Nat.add_0_r. f_equal.
      apply (count_labels_sum tl Hn). apply (forall2_nd tl (f_gts fr) tl ks); [intros L HL; apply mem_In; exact HL|exact F]. }
  destruct (G frames) as (ad & an & E & D). rewrite E, D. reflexivity.
Qed.

Corollary scene_num_gt_sums_frames tl frames : NoDup tl ->
  (forall fr, In fr frames -> forall l, mem l (f_bl fr) = mem l tl) ->
  scene_num_gt tl frames = Some (sum_nat (map frame_num_gt frames)).
Proof.
  intros Hn Hb. rewrite (scene_num_gt_spec tl Hn). f_equal. f_equal. apply map_ext_in. intros fr Hf.
  rewrite frame_num_gt_count. apply countb_ext_in. intros l _. symmetry. apply Hb. exact Hf.
Qed.

(* each result of bucket L is exactly one of TP / FP when its threshold label is L, and changes nothing otherwise *)
Lemma bucket_step_partition mm L t prevs a r :
  let a' := apply_dec a (decide (mode_of mm) [(L, t)] prevs (view mm r)) in
  if Nat.eqb L (pthr_label r)
  then (c_tp a' = S (c_tp a) /\ c_fp a' = c_fp a) \/ (c_tp a' = c_tp a /\ c_fp a' = S (c_fp a))
  else a' = a.
Proof.
  pose proof (step_partition (mode_of mm) [(L, t)] prevs a (view mm r)) as H. cbv zeta in *.
  rewrite is_target_single in H. exact H.
Qed.

Lemma scores_totals_weighted tl cfg f ks : (forall mm Lt, wf_clear (f mm Lt)) -> In ks (scores_spec tl cfg f) ->
  let G := sumN k_numgt ks in
  let Tp := sumN k_tp ks in
  oq_eq (fst (fst (sum_clear ks))) (match G with O => None | _ => Some (sumQ mota_weight ks / Qnat G) end) /\
  oq_eq (snd (fst (sum_clear ks))) (match Tp with O => None | _ => Some (sumQ motp_weight ks / Qnat Tp) end) /\
  snd (sum_clear ks) = sumN k_sw ks /\
  sumQ mota_weight ks == sumQ clamp_num ks /\
  sumQ motp_weight ks == sumQ (fun k => c_score (k_cnt k)) ks.
Proof.
  intros Hw Hin. apply sum_clear_weighted. pose proof (scores_spec_wf tl cfg f Hw) as W. rewrite Forall_forall in W. apply W. exact Hin.
Qed.

(* ---------- the declarative CLEAR specification at the pipeline level ---------- *)
(* no two results of the frame share the estimated track (uuid, label), no two share the ground-truth uuid
   (the matcher pairs every estimate and every ground truth at most once: C01) *)
Definition pgt_ids (f : pframe) : list nat := flat_map (fun r => match pr_gt r with Some g => [pg_id g] | None => [] end) f.
Definition pframe_unique (f : pframe) : Prop := NoDup (map (fun r => (pr_est r, pr_elab r)) f) /\ NoDup (pgt_ids f).

Lemma NoDup_map_filter {A B} (g : A -> B) (p : A -> bool) l : NoDup (map g l) -> NoDup (map g (filter p l)).
Proof.
  induction l as [|a l IH]; cbn [map filter]; intros H; [constructor|].
  apply NoDup_cons_iff in H. destruct H as [Ha H]. destruct (p a); [|apply IH; exact H].
  cbn [map]. constructor; [|apply IH; exact H]. intros Hin. apply Ha. apply in_map_iff in Hin. destruct Hin as (x & E & Hx).
  apply filter_In in Hx. rewrite <- E. apply in_map. tauto.
Qed.

Lemma NoDup_app_intro {A} (l1 l2 : list A) : NoDup l1 -> NoDup l2 -> (forall x, In x l1 -> ~ In x l2) -> NoDup (l1 ++ l2).
Proof.
  induction l1 as [|a l1 IH]; intros H1 H2 Hd; [exact H2|]. apply NoDup_cons_iff in H1. destruct H1 as [Ha H1].
  cbn [app]. constructor.
  - intros Hin. apply in_app_or in Hin. destruct Hin as [Hin|Hin]; [contradiction|]. apply (Hd a); [left; reflexivity|exact Hin].
  - apply IH; [exact H1|exact H2|]. intros x Hx. apply Hd. right. exact Hx.
Qed.

Lemma NoDup_app_left {A} (l1 l2 : list A) : NoDup (l1 ++ l2) -> NoDup l1.
Proof.
  induction l1 as [|a l1 IH]; cbn [app]; intros H; [constructor|]. apply NoDup_cons_iff in H. destruct H as [Ha H].
  constructor; [intros Hin; apply Ha; apply in_or_app; left; exact Hin|apply IH; exact H].
Qed.

Lemma NoDup_flat_map_filter {A B} (g : A -> list B) (p : A -> bool) l : NoDup (flat_map g l) -> NoDup (flat_map g (filter p l)).
Proof.
  induction l as [|a l IH]; cbn [flat_map filter]; intros H; [constructor|].
  pose proof (NoDup_app_left _ _ H) as H1. destruct (NoDup_app_disj _ _ H) as [H2 Hd].
  destruct (p a); [|apply IH; exact H2]. cbn [flat_map]. apply NoDup_app_intro; [exact H1|apply IH; exact H2|].
  intros x Hx Hin. apply (Hd x Hx). apply in_flat_map in Hin. destruct Hin as (y & Hy & Hxy). apply in_flat_map. exists y.
  apply filter_In in Hy. tauto.
Qed.

Lemma flat_map_map {A B C} (v : A -> B) (h : B -> list C) l : flat_map h (map v l) = flat_map (fun x => h (v x)) l.
Proof. induction l as [|a l IH]; [reflexivity|]. cbn [map flat_map]. rewrite IH. reflexivity. Qed.

Lemma bucket_view_unique mm bl L f : pframe_unique f -> frame_unique (map (view mm) (bucket bl L f)).
Proof.
  intros [He Hg]. unfold frame_unique, bucket. split.
  - rewrite map_map. apply (NoDup_map_filter (fun r => est_key (view mm r))). exact He.
  - unfold gt_ids. rewrite flat_map_map.
    assert (E : forall l, flat_map (fun x => match r_gt (view mm x) with Some g => [g_id g] | None => [] end) l = pgt_ids l).
    { intros l. unfold pgt_ids. apply flat_map_ext. intros r. unfold view. cbn. destruct (pr_gt r); reflexivity. }
    rewrite E. unfold pgt_ids. apply NoDup_flat_map_filter. exact Hg.
Qed.

(* under per-frame uniqueness the frame-level and the scene-level counters of every label are the declarative
   TP / FP / switch / score counts of C05_clear_refines_spec on the label's buckets *)
Theorem frame_clear_refines_spec mm Lt prev cur :
  pframe_unique (prev_res prev) -> pframe_unique (f_res cur) ->
  counters_eq (k_cnt (frame_clear mm Lt prev cur))
              (spec_counts (mode_of mm) [Lt] (frame_history (f_bl cur) mm (fst Lt) prev cur)).
Proof.
  intros Hp Hc. unfold frame_clear, make_clear. cbn [k_cnt]. apply clear_refines_spec_unique.
  unfold frame_history. intros f [<-|[<-|[]]]; apply bucket_view_unique; assumption.
Qed.

Theorem scene_clear_refines_spec tl mm Lt frames :
  (forall fr, In fr frames -> pframe_unique (f_res fr)) ->
  counters_eq (k_cnt (scene_clear tl mm Lt frames)) (spec_counts (mode_of mm) [Lt] (scene_history tl mm (fst Lt) frames)).
Proof.
  intros Hu. unfold scene_clear, make_clear. cbn [k_cnt]. apply clear_refines_spec_unique.
  unfold scene_history. intros f [<-|Hf]; [split; constructor|].
  apply in_map_iff in Hf. destruct Hf as (fr & <- & Hfr). apply bucket_view_unique. apply Hu. exact Hfr.
Qed.
