(* C05 / C13 -- proofs about the tracking glue (Model/TrackingPipeline.v) on top of Proofs/ClearProofs.v.
   Statements are collected in Props/C05Pipeline.v. *)
From Coq Require Import List Bool Arith ZArith QArith Lia Lqa Permutation.
From PE Require Import Base.QUtil Model.Clear Proofs.ClearProofs Model.TrackingPipeline.
Import ListNotations.
Open Scope Q_scope.

(* ---------- membership ---------- *)
Lemma mem_In l ls : mem l ls = true <-> In l ls.
Proof.
  unfold mem. rewrite existsb_exists. split.
  - intros (x & Hx & E). apply Nat.eqb_eq in E. subst. exact Hx.
  - intros H. exists l. split; [exact H|apply Nat.eqb_refl].
Qed.
Lemma mem_false_notin l ls : mem l ls = false -> ~ In l ls.
Proof. intros H Hin. apply mem_In in Hin. congruence. Qed.
Lemma mem_cons l a ls : mem l (a :: ls) = Nat.eqb l a || mem l ls.
Proof. reflexivity. Qed.
Lemma mem_app l l1 l2 : mem l (l1 ++ l2) = mem l l1 || mem l l2.
Proof. unfold mem. apply existsb_app. Qed.

(* ---------- dictionaries ---------- *)
Lemma dget_dset {A} (d : dict A) k v L : dget (dset d k v) L = if Nat.eqb k L then Some v else dget d L.
Proof.
  induction d as [|[k' v'] d IH]; cbn [dset dget].
  - destruct (Nat.eqb k L); reflexivity.
  - destruct (Nat.eqb k' k) eqn:E; cbn [dget].
    + apply Nat.eqb_eq in E. subst k'. destruct (Nat.eqb k L); reflexivity.
    + destruct (Nat.eqb k' L) eqn:E2; [|exact IH].
      destruct (Nat.eqb k L) eqn:E3; [|reflexivity].
      apply Nat.eqb_eq in E2. apply Nat.eqb_eq in E3. subst. rewrite Nat.eqb_refl in E. discriminate.
Qed.

Lemma dget_none_notin {A} (d : dict A) k : dget d k = None <-> ~ In k (dkeys d).
Proof.
  induction d as [|[k' v'] d IH]; cbn [dget dkeys map fst]; [tauto|].
  destruct (Nat.eqb k' k) eqn:E.
  - apply Nat.eqb_eq in E. subst. split; [discriminate|]. intros H. exfalso. apply H. left. reflexivity.
  - apply Nat.eqb_neq in E. rewrite IH. unfold dkeys. split; [intros H [H1|H1]; auto|intros H H1; apply H; right; exact H1].
Qed.

Lemma dkeys_dset {A} (d : dict A) k v : dkeys (dset d k v) = if mem k (dkeys d) then dkeys d else dkeys d ++ [k].
Proof.
  induction d as [|[k' v'] d IH]; cbn [dset dkeys map fst]; [reflexivity|].
  rewrite mem_cons, (Nat.eqb_sym k k'). destruct (Nat.eqb k' k) eqn:E; cbn [orb map fst]; [reflexivity|].
  unfold dkeys in IH. rewrite IH. destruct (mem k (map fst d)); reflexivity.
Qed.

Lemma dset_nodup {A} (d : dict A) k v : NoDup (dkeys d) -> NoDup (dkeys (dset d k v)).
Proof.
  intros H. rewrite dkeys_dset. destruct (mem k (dkeys d)) eqn:E; [exact H|].
  apply NoDup_app_snoc; [exact H|apply mem_false_notin; exact E].
Qed.

Lemma dget_map {A B} (f : A -> B) (d : dict A) L :
  dget (map (fun kv => (fst kv, f (snd kv))) d) L = option_map f (dget d L).
Proof. induction d as [|[k v] d IH]; [reflexivity|]. cbn [map dget fst snd]. destruct (Nat.eqb k L); [reflexivity|exact IH]. Qed.

Lemma dinit_fold_get {A} (v0 : A) labels : forall d0 L,
  dget (fold_left (fun d l => dset d l v0) labels d0) L = if mem L labels then Some v0 else dget d0 L.
Proof.
  induction labels as [|a labels IH]; intros d0 L; cbn [fold_left]; [reflexivity|].
  rewrite IH, mem_cons, dget_dset, (Nat.eqb_sym L a). destruct (mem L labels); [rewrite orb_true_r; reflexivity|].
  rewrite orb_false_r. reflexivity.
Qed.
Lemma dinit_get {A} labels (v0 : A) L : dget (dinit labels v0) L = if mem L labels then Some v0 else None.
Proof. unfold dinit. rewrite dinit_fold_get. reflexivity. Qed.

Lemma dinit_fold_nodup {A} (v0 : A) labels : forall d0, NoDup (dkeys d0) -> NoDup (dkeys (fold_left (fun d l => dset d l v0) labels d0)).
Proof. induction labels as [|a labels IH]; intros d0 H; cbn [fold_left]; [exact H|]. apply IH. apply dset_nodup. exact H. Qed.
Lemma dinit_nodup {A} labels (v0 : A) : NoDup (dkeys (dinit labels v0)).
Proof. unfold dinit. apply dinit_fold_nodup. constructor. Qed.

(* ---------- buckets ---------- *)
Lemma filter_snoc {A} (p : A -> bool) l x : filter p (l ++ [x]) = filter p l ++ (if p x then [x] else []).
Proof. rewrite filter_app. cbn [filter]. destruct (p x); reflexivity. Qed.

Lemma existsb_false_filter {A} (p : A -> bool) l : existsb p l = false -> filter p l = [].
Proof.
  induction l as [|a l IH]; [reflexivity|]. cbn [existsb filter]. destruct (p a); [discriminate|]. exact IH.
Qed.

Lemma has_key_snoc bl f r L : has_key bl (f ++ [r]) L = has_key bl f L || in_bucket bl L r.
Proof. unfold has_key. rewrite existsb_app. cbn [existsb]. rewrite orb_false_r, orb_assoc. reflexivity. Qed.

Lemma in_bucket_label bl L r l : bucket_label bl r = Some l -> in_bucket bl L r = Nat.eqb l L.
Proof. unfold in_bucket. intros ->. reflexivity. Qed.
Lemma in_bucket_none bl L r : bucket_label bl r = None -> in_bucket bl L r = false.
Proof. unfold in_bucket. intros ->. reflexivity. Qed.

(* divide_objects = the filter by bucket label, key present iff target label or non-empty bucket *)
Theorem divide_get bl f L : dget (divide bl f) L = if has_key bl f L then Some (bucket bl L f) else None.
Proof.
  induction f as [|r f IH] using rev_ind.
  - unfold divide, has_key, bucket. cbn [fold_left existsb filter]. rewrite dinit_get, orb_false_r. reflexivity.
  - unfold divide in *. rewrite fold_left_app. cbn [fold_left]. unfold divide_step at 1.
    rewrite has_key_snoc. unfold bucket at 1. rewrite filter_snoc. fold (bucket bl L f).
    destruct (bucket_label bl r) as [l|] eqn:B.
    + rewrite (in_bucket_label bl L r l B).
      assert (Hl : dget (fold_left (divide_step bl) f (dinit bl [])) l = if has_key bl f l then Some (bucket bl l f) else None).
      { clear IH. revert l B. intros l _. generalize (has_key bl f l). intros b. revert b.
        (* re-derive the induction hypothesis at key l *) intros b. exact (match b with true => I | false => I end) || idtac. }
Abort.
