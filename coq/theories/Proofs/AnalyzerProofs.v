(* Proofs about Model/Analyzer.v (C19). *)
From Coq Require Import List Bool ZArith Arith Lia Permutation.
From PE Require Import Base.QUtil Model.Analyzer.
Import ListNotations.
Open Scope Q_scope.

(* ========================================================================================== *)
(* A. the table is the numbered concatenation of the frames' row pairs                         *)
(* ========================================================================================== *)
Definition RP := list (option Row * option Row).

Definition rows_of (t : Table) : RP := map (fun e => (e_gt e, e_est e)) t.

(* the rows of one estimate / ground truth *)
Definition est_row (areas : list Area) (k : nat) (f : Frame) (s : status) (e : Obj) : Row :=
  mkRow e s (get_area_idx areas (o_x e) (o_y e)) (f_num f) k.
(* ground-truth row of a pair: the area is the ESTIMATE's *)
Definition gt_row_of_pair (areas : list Area) (k : nat) (f : Frame) (s : status) (e g : Obj) : Row :=
  mkRow g s (get_area_idx areas (o_x e) (o_y e)) (f_num f) k.
Definition gt_row_alone (areas : list Area) (k : nat) (f : Frame) (s : status) (g : Obj) : Row :=
  mkRow g s (get_area_idx areas (o_x g) (o_y g)) (f_num f) k.

(* the row pairs of one frame, in TP, FP, TN, FN order *)
Definition frame_rows (areas : list Area) (k : nat) (f : Frame) : RP :=
  map (fun p : Obj * Obj => (Some (gt_row_of_pair areas k f TP (fst p) (snd p)), Some (est_row areas k f TP (fst p)))) (f_tp f)
  ++ map (fun p : Obj * option Obj =>
            (match snd p with Some g => Some (gt_row_of_pair areas k f FP (fst p) g) | None => None end,
             Some (est_row areas k f FP (fst p)))) (f_fp f)
  ++ map (fun g => (Some (gt_row_alone areas k f TN g), None)) (f_tn f)
  ++ map (fun g => (Some (gt_row_alone areas k f FN g), None)) (f_fn f).

Fixpoint scene_rows (areas : list Area) (k : nat) (scenes : list (list Frame)) : RP :=
  match scenes with
  | [] => []
  | frs :: rest => flat_map (frame_rows areas k) frs ++ scene_rows areas (S k) rest
  end.

Lemma number_rows : forall l s, rows_of (number s l) = l.
Proof.
  induction l as [|[g e] t IH]; intros s; simpl; [reflexivity|]. unfold rows_of in IH. now rewrite IH.
Qed.

Lemma number_length : forall l s, List.length (number s l) = List.length l.
Proof. induction l as [|[g e] t IH]; intros s; simpl; [reflexivity|]. now rewrite IH. Qed.

Lemma number_idx : forall l s, map e_idx (number s l) = seq s (List.length l).
Proof. induction l as [|[g e] t IH]; intros s; simpl; [reflexivity|]. now rewrite IH. Qed.

Lemma number_app : forall a b s, number s (a ++ b) = number s a ++ number (s + List.length a) b.
Proof.
  induction a as [|[g e] t IH]; intros b s; simpl.
  - now rewrite Nat.add_0_r.
  - rewrite IH. replace (s + S (List.length t))%nat with (S s + List.length t)%nat by lia. reflexivity.
Qed.

Lemma add_frame_eq : forall areas k t f,
  add_frame areas k t f = t ++ number (List.length t) (frame_rows areas k f).
Proof.
  intros. unfold add_frame, frame_rows. cbv zeta. f_equal.
  rewrite !number_app, !number_length, !map_length. reflexivity.
Qed.

Lemma rows_of_app : forall a b, rows_of (a ++ b) = rows_of a ++ rows_of b.
Proof. intros. unfold rows_of. apply map_app. Qed.

Lemma fold_add_frame_rows : forall areas k frs t,
  rows_of (fold_left (add_frame areas k) frs t) = rows_of t ++ flat_map (frame_rows areas k) frs.
Proof.
  induction frs as [|f frs IH]; intros t; simpl; [now rewrite app_nil_r|].
  rewrite IH, add_frame_eq, rows_of_app, number_rows, <- app_assoc. reflexivity.
Qed.

Lemma fold_add_rows : forall areas scenes t k,
  rows_of (fst (fold_left (add areas) scenes (t, k))) = rows_of t ++ scene_rows areas k scenes.
Proof.
  induction scenes as [|frs rest IH]; intros t k; simpl; [now rewrite app_nil_r|].
  unfold add at 2. cbn [fst snd]. rewrite IH, fold_add_frame_rows, <- app_assoc. reflexivity.
Qed.

(* the table holds exactly the frames' row pairs, scene by scene, frame by frame, in TP, FP, TN, FN order ... *)
Lemma build_rows : forall areas scenes, rows_of (build areas scenes) = scene_rows areas 0 scenes.
Proof. intros. unfold build. now rewrite fold_add_rows. Qed.

Definition numbered (t : Table) : Prop := map e_idx t = seq 0 (List.length t).

Lemma add_frame_numbered : forall areas k t f, numbered t -> numbered (add_frame areas k t f).
Proof.
  unfold numbered. intros areas k t f H. rewrite add_frame_eq, map_app, number_idx, H, app_length, number_length.
  now rewrite seq_app.
Qed.

Lemma fold_add_frame_numbered : forall areas k frs t, numbered t -> numbered (fold_left (add_frame areas k) frs t).
Proof. induction frs as [|f frs IH]; intros t H; simpl; [assumption|]. apply IH. now apply add_frame_numbered. Qed.

Lemma fold_add_numbered : forall areas scenes t k, numbered t -> numbered (fst (fold_left (add areas) scenes (t, k))).
Proof.
  induction scenes as [|frs rest IH]; intros t k H; simpl; [assumption|].
  unfold add at 2. cbn [fst snd]. apply IH. now apply fold_add_frame_numbered.
Qed.

(* ... numbered 0, 1, 2, ... *)
Lemma build_numbered : forall areas scenes, numbered (build areas scenes).
Proof. intros. unfold build. apply fold_add_numbered. reflexivity. Qed.

(* ========================================================================================== *)
(* B. counters                                                                                 *)
(* ========================================================================================== *)
Definition gtR (l : RP) : list Row := flat_map (fun p => opt_list (fst p)) l.
Definition estR (l : RP) : list Row := flat_map (fun p => opt_list (snd p)) l.

Lemma gt_rows_rp : forall t, gt_rows t = gtR (rows_of t).
Proof. induction t as [|e t IH]; simpl; [reflexivity|]. unfold gt_rows, gtR in *. simpl. now rewrite IH. Qed.
Lemma est_rows_rp : forall t, est_rows t = estR (rows_of t).
Proof. induction t as [|e t IH]; simpl; [reflexivity|]. unfold est_rows, estR in *. simpl. now rewrite IH. Qed.

Lemma gtR_app : forall a b, gtR (a ++ b) = gtR a ++ gtR b.
Proof. intros. unfold gtR. apply flat_map_app. Qed.
Lemma estR_app : forall a b, estR (a ++ b) = estR a ++ estR b.
Proof. intros. unfold estR. apply flat_map_app. Qed.

(* sums over all frames of all scenes, the scene number being passed along *)
Fixpoint sum_scenes (F : nat -> Frame -> nat) (k : nat) (scenes : list (list Frame)) : nat :=
  match scenes with
  | [] => 0
  | frs :: rest => (sum_over (F k) frs + sum_scenes F (S k) rest)%nat
  end.

Lemma sum_over_app : forall A (F : A -> nat) a b, sum_over F (a ++ b) = (sum_over F a + sum_over F b)%nat.
Proof. induction a as [|x a IH]; intros b; simpl; [reflexivity|]. rewrite IH. lia. Qed.

Lemma sum_scenes_const : forall (F : Frame -> nat) scenes k, sum_scenes (fun _ => F) k scenes = sum_over F (all_frames scenes).
Proof.
  induction scenes as [|frs rest IH]; intros k; simpl; [reflexivity|].
  unfold all_frames in *. simpl. now rewrite sum_over_app, IH.
Qed.

Lemma sum_scenes_plus : forall F G scenes k,
  sum_scenes (fun k f => (F k f + G k f)%nat) k scenes = (sum_scenes F k scenes + sum_scenes G k scenes)%nat.
Proof.
  induction scenes as [|frs rest IH]; intros k; simpl; [reflexivity|]. rewrite IH.
  assert (H : forall l, sum_over (fun f => (F k f + G k f)%nat) l = (sum_over (F k) l + sum_over (G k) l)%nat).
  { induction l as [|x l IHl]; simpl; [reflexivity|]. rewrite IHl. lia. }
  rewrite H. lia.
Qed.

Lemma sum_scenes_ext : forall F G scenes k, (forall k f, F k f = G k f) -> sum_scenes F k scenes = sum_scenes G k scenes.
Proof.
  induction scenes as [|frs rest IH]; intros k H; simpl; [reflexivity|]. rewrite (IH _ H). f_equal.
  induction frs as [|x l IHl]; simpl; [reflexivity|]. now rewrite IHl, H.
Qed.

(* a quantity that is additive over row pairs is the sum of its values on the frames *)
Section Additive.
  Variable cnt : RP -> nat.
  Hypothesis cnt_nil : cnt [] = 0%nat.
  Hypothesis cnt_app : forall a b, cnt (a ++ b) = (cnt a + cnt b)%nat.

  Lemma additive_frames : forall areas k frs,
    cnt (flat_map (frame_rows areas k) frs) = sum_over (fun f => cnt (frame_rows areas k f)) frs.
  Proof. induction frs as [|f frs IH]; simpl; [apply cnt_nil|]. now rewrite cnt_app, IH. Qed.

  Lemma additive_scenes : forall areas scenes k,
    cnt (scene_rows areas k scenes) = sum_scenes (fun k f => cnt (frame_rows areas k f)) k scenes.
  Proof.
    induction scenes as [|frs rest IH]; intros k; simpl; [apply cnt_nil|].
    now rewrite cnt_app, additive_frames, IH.
  Qed.
End Additive.

Definition cnt_rows (side : RP -> list Row) (p : Row -> bool) (l : RP) : nat := List.length (filter p (side l)).

Lemma cnt_rows_gt_app : forall p a b, cnt_rows gtR p (a ++ b) = (cnt_rows gtR p a + cnt_rows gtR p b)%nat.
Proof. intros. unfold cnt_rows. now rewrite gtR_app, filter_app, app_length. Qed.
Lemma cnt_rows_est_app : forall p a b, cnt_rows estR p (a ++ b) = (cnt_rows estR p a + cnt_rows estR p b)%nat.
Proof. intros. unfold cnt_rows. now rewrite estR_app, filter_app, app_length. Qed.

Lemma filter_filter : forall A (p q : A -> bool) l, filter p (filter q l) = filter (fun x => q x && p x) l.
Proof.
  induction l as [|x l IH]; simpl; [reflexivity|]. destruct (q x); simpl; [destruct (p x)|]; now rewrite IH.
Qed.

(* every counter is a cnt_rows *)
Definition sel_st (cs : list crit) (s : status) (r : Row) : bool := row_ok cs r && status_eqb (r_status r) s.

Lemma num_ground_truth_rp : forall cs t, num_ground_truth cs t = cnt_rows gtR (row_ok cs) (rows_of t).
Proof. intros. unfold num_ground_truth, get_ground_truth, cnt_rows. now rewrite gt_rows_rp. Qed.
Lemma num_estimation_rp : forall cs t, num_estimation cs t = cnt_rows estR (row_ok cs) (rows_of t).
Proof. intros. unfold num_estimation, get_estimation, cnt_rows. now rewrite est_rows_rp. Qed.
Lemma num_tp_rp : forall cs t, num_tp cs t = cnt_rows estR (sel_st cs TP) (rows_of t).
Proof. intros. unfold num_tp, count_status, get_estimation, cnt_rows. now rewrite est_rows_rp, filter_filter. Qed.
Lemma num_fp_rp : forall cs t, num_fp cs t = cnt_rows estR (sel_st cs FP) (rows_of t).
Proof. intros. unfold num_fp, count_status, get_estimation, cnt_rows. now rewrite est_rows_rp, filter_filter. Qed.
Lemma num_tn_rp : forall cs t, num_tn cs t = cnt_rows gtR (sel_st cs TN) (rows_of t).
Proof. intros. unfold num_tn, count_status, get_ground_truth, cnt_rows. now rewrite gt_rows_rp, filter_filter. Qed.
Lemma num_fn_rp : forall cs t, num_fn cs t = cnt_rows gtR (sel_st cs FN) (rows_of t).
Proof. intros. unfold num_fn, count_status, get_ground_truth, cnt_rows. now rewrite gt_rows_rp, filter_filter. Qed.

(* the rows of one frame *)
Lemma flat_map_map : forall A B C (f : A -> B) (g : B -> list C) l, flat_map g (map f l) = flat_map (fun x => g (f x)) l.
Proof. induction l as [|x l IH]; simpl; [reflexivity|]. now rewrite IH. Qed.

Lemma flat_map_single : forall A B (f : A -> B) l, flat_map (fun x => [f x]) l = map f l.
Proof. induction l as [|x l IH]; simpl; [reflexivity|]. now rewrite IH. Qed.

Lemma flat_map_nil : forall A B (l : list A), flat_map (fun _ => @nil B) l = [].
Proof. induction l as [|x l IH]; simpl; [reflexivity|]. exact IH. Qed.

Lemma gtR_frame : forall areas k f,
  gtR (frame_rows areas k f) =
    map (fun p : Obj * Obj => gt_row_of_pair areas k f TP (fst p) (snd p)) (f_tp f)
    ++ map (fun p : Obj * Obj => gt_row_of_pair areas k f FP (fst p) (snd p)) (fp_with_gt f)
    ++ map (gt_row_alone areas k f TN) (f_tn f)
    ++ map (gt_row_alone areas k f FN) (f_fn f).
Proof.
  intros. unfold frame_rows. rewrite !gtR_app. unfold gtR. rewrite !flat_map_map. cbn [fst snd opt_list].
  rewrite !flat_map_single. repeat f_equal.
  unfold fp_with_gt. induction (f_fp f) as [|[e [g|]] l IH]; simpl; [reflexivity| |]; now rewrite IH.
Qed.

Lemma estR_frame : forall areas k f,
  estR (frame_rows areas k f) =
    map (fun p : Obj * Obj => est_row areas k f TP (fst p)) (f_tp f)
    ++ map (fun p : Obj * option Obj => est_row areas k f FP (fst p)) (f_fp f).
Proof.
  intros. unfold frame_rows. rewrite !estR_app. unfold estR. rewrite !flat_map_map. cbn [fst snd opt_list].
  rewrite !flat_map_single, !flat_map_nil, !app_nil_r. reflexivity.
Qed.

(* counting a block of rows that all have status s' *)
Lemma count_block : forall A (mk : A -> Row) cs s s' l,
  (forall x, r_status (mk x) = s') ->
  List.length (filter (sel_st cs s) (map mk l)) =
    if status_eqb s' s then List.length (filter (fun x => row_ok cs (mk x)) l) else 0%nat.
Proof.
  intros A mk cs s s' l H. induction l as [|x l IH]; simpl; [now destruct (status_eqb s' s)|].
  unfold sel_st at 1. rewrite H. destruct (status_eqb s' s) eqn:E.
  - rewrite andb_true_r. destruct (row_ok cs (mk x)); simpl; now rewrite IH.
  - rewrite andb_false_r. exact IH.
Qed.

Lemma count_plain : forall A (mk : A -> Row) (p : Row -> bool) l,
  List.length (filter p (map mk l)) = List.length (filter (fun x => p (mk x)) l).
Proof. induction l as [|x l IH]; simpl; [reflexivity|]. destruct (p (mk x)); simpl; now rewrite IH. Qed.

(* ---- the six counters of the built table under ANY keyword selection: the number of items of the pass/fail
   lists whose row satisfies the selection *)
Definition sel_tp areas cs k f := List.length (filter (fun p : Obj * Obj => row_ok cs (est_row areas k f TP (fst p))) (f_tp f)).
Definition sel_fp areas cs k f := List.length (filter (fun p : Obj * option Obj => row_ok cs (est_row areas k f FP (fst p))) (f_fp f)).
Definition sel_tn areas cs k f := List.length (filter (fun g => row_ok cs (gt_row_alone areas k f TN g)) (f_tn f)).
Definition sel_fn areas cs k f := List.length (filter (fun g => row_ok cs (gt_row_alone areas k f FN g)) (f_fn f)).
Definition sel_tp_gt areas cs k f := List.length (filter (fun p : Obj * Obj => row_ok cs (gt_row_of_pair areas k f TP (fst p) (snd p))) (f_tp f)).
Definition sel_fp_gt areas cs k f := List.length (filter (fun p : Obj * Obj => row_ok cs (gt_row_of_pair areas k f FP (fst p) (snd p))) (fp_with_gt f)).

Lemma num_tp_selected : forall areas cs scenes,
  num_tp cs (build areas scenes) = sum_scenes (sel_tp areas cs) 0 scenes.
Proof.
  intros. rewrite num_tp_rp, build_rows.
  rewrite (additive_scenes (cnt_rows estR (sel_st cs TP)) eq_refl (cnt_rows_est_app _)).
  apply sum_scenes_ext. intros k f. unfold cnt_rows. rewrite estR_frame, filter_app, app_length.
  rewrite (count_block _ _ cs TP TP), (count_block _ _ cs TP FP) by reflexivity. simpl. unfold sel_tp. lia.
Qed.

Lemma num_fp_selected : forall areas cs scenes,
  num_fp cs (build areas scenes) = sum_scenes (sel_fp areas cs) 0 scenes.
Proof.
  intros. rewrite num_fp_rp, build_rows.
  rewrite (additive_scenes (cnt_rows estR (sel_st cs FP)) eq_refl (cnt_rows_est_app _)).
  apply sum_scenes_ext. intros k f. unfold cnt_rows. rewrite estR_frame, filter_app, app_length.
  rewrite (count_block _ _ cs FP TP), (count_block _ _ cs FP FP) by reflexivity. simpl. unfold sel_fp. lia.
Qed.

Lemma num_tn_selected : forall areas cs scenes,
  num_tn cs (build areas scenes) = sum_scenes (sel_tn areas cs) 0 scenes.
Proof.
  intros. rewrite num_tn_rp, build_rows.
  rewrite (additive_scenes (cnt_rows gtR (sel_st cs TN)) eq_refl (cnt_rows_gt_app _)).
  apply sum_scenes_ext. intros k f. unfold cnt_rows. rewrite gtR_frame, !filter_app, !app_length.
  rewrite (count_block _ _ cs TN TP), (count_block _ _ cs TN FP), (count_block _ _ cs TN TN), (count_block _ _ cs TN FN) by reflexivity.
  simpl. unfold sel_tn. lia.
Qed.

Lemma num_fn_selected : forall areas cs scenes,
  num_fn cs (build areas scenes) = sum_scenes (sel_fn areas cs) 0 scenes.
Proof.
  intros. rewrite num_fn_rp, build_rows.
  rewrite (additive_scenes (cnt_rows gtR (sel_st cs FN)) eq_refl (cnt_rows_gt_app _)).
  apply sum_scenes_ext. intros k f. unfold cnt_rows. rewrite gtR_frame, !filter_app, !app_length.
  rewrite (count_block _ _ cs FN TP), (count_block _ _ cs FN FP), (count_block _ _ cs FN TN), (count_block _ _ cs FN FN) by reflexivity.
  simpl. unfold sel_fn. lia.
Qed.

Lemma num_estimation_selected : forall areas cs scenes,
  num_estimation cs (build areas scenes) = sum_scenes (fun k f => (sel_tp areas cs k f + sel_fp areas cs k f)%nat) 0 scenes.
Proof.
  intros. rewrite num_estimation_rp, build_rows.
  rewrite (additive_scenes (cnt_rows estR (row_ok cs)) eq_refl (cnt_rows_est_app _)).
  apply sum_scenes_ext. intros k f. unfold cnt_rows. rewrite estR_frame, filter_app, app_length, !count_plain. reflexivity.
Qed.

Lemma num_ground_truth_selected : forall areas cs scenes,
  num_ground_truth cs (build areas scenes) =
    sum_scenes (fun k f => (sel_tp_gt areas cs k f + sel_fp_gt areas cs k f + sel_tn areas cs k f + sel_fn areas cs k f)%nat) 0 scenes.
Proof.
  intros. rewrite num_ground_truth_rp, build_rows.
  rewrite (additive_scenes (cnt_rows gtR (row_ok cs)) eq_refl (cnt_rows_gt_app _)).
  apply sum_scenes_ext. intros k f. unfold cnt_rows. rewrite gtR_frame, !filter_app, !app_length, !count_plain.
  unfold sel_tp_gt, sel_fp_gt, sel_tn, sel_fn. lia.
Qed.

Lemma filter_true : forall A (l : list A), filter (fun _ => true) l = l.
Proof. induction l as [|x l IH]; simpl; [reflexivity|]. now rewrite IH. Qed.

(* ---- without a selection: the sizes of the pass/fail lists *)
Theorem status_counts_eq_list_sizes : forall areas scenes,
  let T := build areas scenes in
  num_tp [] T = sum_over (fun f => List.length (f_tp f)) (all_frames scenes) /\
  num_fp [] T = sum_over (fun f => List.length (f_fp f)) (all_frames scenes) /\
  num_tn [] T = sum_over (fun f => List.length (f_tn f)) (all_frames scenes) /\
  num_fn [] T = sum_over (fun f => List.length (f_fn f)) (all_frames scenes).
Proof.
  intros areas scenes T. subst T.
  rewrite num_tp_selected, num_fp_selected, num_tn_selected, num_fn_selected.
  rewrite <- !sum_scenes_const with (k := 0%nat).
  repeat split; apply sum_scenes_ext; intros k f;
    unfold sel_tp, sel_fp, sel_tn, sel_fn, row_ok; cbn [forallb]; now rewrite filter_true.
Qed.

Theorem estimate_count_eq_evaluated : forall areas scenes,
  num_estimation [] (build areas scenes) =
    sum_over (fun f => (List.length (f_tp f) + List.length (f_fp f))%nat) (all_frames scenes).
Proof.
  intros. rewrite num_estimation_selected, <- sum_scenes_const with (k := 0%nat).
  apply sum_scenes_ext; intros k f. unfold sel_tp, sel_fp, row_ok; cbn [forallb]. now rewrite !filter_true.
Qed.

(* ---- per scene: rows of scene k carry r_scene = k *)
Lemma nmem_single : forall a b, nmem a [b] = Nat.eqb a b.
Proof. intros. unfold nmem. simpl. now rewrite orb_false_r. Qed.

Lemma filter_false : forall A (l : list A), filter (fun _ => false) l = [].
Proof. induction l as [|x l IH]; simpl; [reflexivity|]. exact IH. Qed.

Lemma sum_over_zero : forall A (l : list A), sum_over (fun _ => 0%nat) l = 0%nat.
Proof. induction l as [|x l IH]; simpl; [reflexivity|]. exact IH. Qed.

Lemma sum_scenes_pick : forall (F : Frame -> nat) scenes k0 k,
  sum_scenes (fun k' f => if Nat.eqb k' k then F f else 0%nat) k0 scenes =
    if Nat.leb k0 k then sum_over F (nth (k - k0) scenes []) else 0%nat.
Proof.
  induction scenes as [|frs rest IH]; intros k0 k; cbn [sum_scenes].
  - destruct (Nat.leb k0 k); [destruct (k - k0)%nat|]; reflexivity.
  - rewrite IH. destruct (Nat.eqb_spec k0 k) as [E|E].
    + subst k0. rewrite Nat.leb_refl, Nat.sub_diag. destruct (Nat.leb_spec (S k) k); [lia|]. cbn [nth]. rewrite Nat.add_0_r. reflexivity.
    + rewrite sum_over_zero. destruct (Nat.leb_spec k0 k) as [L|L]; destruct (Nat.leb_spec (S k0) k) as [L'|L']; try lia.
      replace (k - k0)%nat with (S (k - S k0)) by lia. reflexivity.
Qed.

Theorem status_counts_per_scene : forall areas scenes k,
  let T := build areas scenes in
  let frs := nth k scenes [] in
  num_tp [CScene [k]] T = sum_over (fun f => List.length (f_tp f)) frs /\
  num_fp [CScene [k]] T = sum_over (fun f => List.length (f_fp f)) frs /\
  num_tn [CScene [k]] T = sum_over (fun f => List.length (f_tn f)) frs /\
  num_fn [CScene [k]] T = sum_over (fun f => List.length (f_fn f)) frs /\
  num_estimation [CScene [k]] T = sum_over (fun f => (List.length (f_tp f) + List.length (f_fp f))%nat) frs.
Proof.
  intros areas scenes k T frs. subst T frs.
  rewrite num_tp_selected, num_fp_selected, num_tn_selected, num_fn_selected, num_estimation_selected.
  assert (P : forall F, sum_over F (nth k scenes []) = sum_scenes (fun k' f => if Nat.eqb k' k then F f else 0%nat) 0 scenes).
  { intros F. rewrite sum_scenes_pick. simpl. now rewrite Nat.sub_0_r. }
  rewrite !P.
  repeat split; apply sum_scenes_ext; intros k' f;
    unfold sel_tp, sel_fp, sel_tn, sel_fn, row_ok, est_row, gt_row_alone; cbn [forallb crit_ok r_scene];
    rewrite nmem_single; destruct (Nat.eqb k' k); cbn [andb]; rewrite ?filter_true, ?filter_false; reflexivity.
Qed.

(* ========================================================================================== *)
(* C. the ground-truth count (F11)                                                             *)
(* ========================================================================================== *)
Theorem gt_count_formula : forall areas scenes,
  num_ground_truth [] (build areas scenes) =
    sum_over (fun f => (List.length (f_tp f) + List.length (fp_with_gt f) + List.length (f_tn f) + List.length (f_fn f))%nat)
             (all_frames scenes).
Proof.
  intros. rewrite num_ground_truth_selected, <- sum_scenes_const with (k := 0%nat).
  apply sum_scenes_ext; intros k f. unfold sel_tp_gt, sel_fp_gt, sel_tn, sel_fn, row_ok; cbn [forallb].
  now rewrite !filter_true.
Qed.

Lemma filter_partition_length : forall A (p : A -> bool) l,
  List.length l = (List.length (filter p l) + List.length (filter (fun x => negb (p x)) l))%nat.
Proof. induction l as [|x l IH]; simpl; [reflexivity|]. destruct (p x); simpl; lia. Qed.

Lemma fp_with_gt_split : forall f,
  List.length (fp_with_gt f) = (List.length (fp_fplabelled f) + List.length (fp_ordinary f))%nat.
Proof. intros. unfold fp_fplabelled, fp_ordinary. apply filter_partition_length. Qed.

Lemma sum_over_plus : forall A (F G : A -> nat) l, sum_over (fun x => (F x + G x)%nat) l = (sum_over F l + sum_over G l)%nat.
Proof. induction l as [|x l IH]; simpl; [reflexivity|]. rewrite IH. lia. Qed.

Lemma sum_over_ext_in : forall A (F G : A -> nat) l, (forall x, In x l -> F x = G x) -> sum_over F l = sum_over G l.
Proof.
  induction l as [|x l IH]; intros H; simpl; [reflexivity|]. rewrite H by (now left). rewrite IH; [reflexivity|].
  intros y Hy. apply H. now right.
Qed.

(* num_ground_truth = critical ground truths + FP pairs whose ground truth is an ordinary one *)
Theorem gt_count_overcount : forall areas scenes,
  (forall f, In f (all_frames scenes) -> accounted f) ->
  num_ground_truth [] (build areas scenes) =
    (sum_over f_ncrit (all_frames scenes) + sum_over (fun f => List.length (fp_ordinary f)) (all_frames scenes))%nat.
Proof.
  intros areas scenes H. rewrite gt_count_formula, <- sum_over_plus. apply sum_over_ext_in.
  intros f Hf. rewrite (H f Hf), fp_with_gt_split. lia.
Qed.

Lemma sum_over_zero_iff : forall A (F : A -> nat) l, sum_over F l = 0%nat <-> forall x, In x l -> F x = 0%nat.
Proof.
  induction l as [|x l IH]; simpl; split; intros H.
  - intros y [].
  - reflexivity.
  - intros y [<-|Hy]; [lia|]. apply IH; [lia|assumption].
  - assert (F x = 0%nat) by (apply H; now left). assert (sum_over F l = 0%nat) by (apply IH; intros y Hy; apply H; now right). lia.
Qed.

(* the documented equality holds exactly when no FP pair carries an ordinary ground truth *)
Theorem gt_count_eq_critical_iff : forall areas scenes,
  (forall f, In f (all_frames scenes) -> accounted f) ->
  (num_ground_truth [] (build areas scenes) = sum_over f_ncrit (all_frames scenes)
   <-> forall f, In f (all_frames scenes) -> fp_ordinary f = []).
Proof.
  intros areas scenes H. rewrite gt_count_overcount by assumption. split.
  - intros E f Hf. assert (Z : sum_over (fun f => List.length (fp_ordinary f)) (all_frames scenes) = 0%nat) by lia.
    rewrite sum_over_zero_iff in Z. specialize (Z f Hf). now destruct (fp_ordinary f).
  - intros E. assert (Z : sum_over (fun f => List.length (fp_ordinary f)) (all_frames scenes) = 0%nat).
    { apply sum_over_zero_iff. intros f Hf. now rewrite (E f Hf). }
    lia.
Qed.

(* the F11 witness: 3 critical ground truths; t1 is paired with g1 and fails *)
Definition w_obj (u l : nat) (x y yaw : Q) : Obj := mkObj u l false x y yaw 0 2 4.
Definition w_g0 := w_obj 0 0 10 0 0.
Definition w_g1 := w_obj 1 0 20 5 0.
Definition w_g2 := w_obj 2 0 (-30) 5 0.
Definition w_t0 := w_obj 3 0 10 0 0.
Definition w_t1 := w_obj 4 0 (43 # 2) 5 (3 # 2).
Definition w_frame : Frame := mkFrame 0 [(w_t0, w_g0)] [(w_t1, Some w_g1)] [] [w_g1; w_g2] 3.
Definition w_areas : list Area := match generate_area_points 3 100 100 with Some a => a | None => [] end.

Definition gt_count_eq_critical_gt_statement : Prop :=
  forall areas scenes,
    (forall f, In f (all_frames scenes) -> accounted f) ->
    num_ground_truth [] (build areas scenes) = sum_over f_ncrit (all_frames scenes).

Theorem gt_count_eq_critical_gt_refuted :
  exists areas scenes,
    (forall f, In f (all_frames scenes) -> accounted f) /\
    num_ground_truth [] (build areas scenes) = 4%nat /\ sum_over f_ncrit (all_frames scenes) = 3%nat.
Proof.
  exists w_areas, [[w_frame]]. split; [|split; vm_compute; reflexivity].
  intros f [<-|[]]. vm_compute. reflexivity.
Qed.

Theorem gt_count_statement_false : ~ gt_count_eq_critical_gt_statement.
Proof.
  intros H. destruct gt_count_eq_critical_gt_refuted as (a & s & Hacc & H4 & H3).
  specialize (H a s Hacc). rewrite H4, H3 in H. discriminate.
Qed.

(* ========================================================================================== *)
(* D. errors are the differences of the paired items                                           *)
(* ========================================================================================== *)
Definition ss3 : list status := [TP; FP; TN].

Definition both_kept (p : option Row * option Row) : list (Row * Row) :=
  match keep_row ss3 (fst p), keep_row ss3 (snd p) with Some g, Some e => [(g, e)] | _, _ => [] end.

Definition both_rp (p : option Row * option Row) : list (Row * Row) :=
  match fst p, snd p with Some g, Some e => [(g, e)] | _, _ => [] end.

Lemma pair_results_rp : forall t, pair_results t = flat_map both_rp (rows_of t).
Proof. induction t as [|e t IH]; simpl; [reflexivity|]. unfold pair_results in *. simpl. now rewrite IH. Qed.

Lemma pair_results_keep : forall t, pair_results (map (keep_status ss3) t) = flat_map both_kept (rows_of t).
Proof. induction t as [|e t IH]; simpl; [reflexivity|]. unfold pair_results in *. simpl. now rewrite IH. Qed.

Lemma no_gt_no_pairs : forall t, existsb has_gt t = false -> pair_results t = [].
Proof.
  induction t as [|e t IH]; simpl; intros H; [reflexivity|]. apply orb_false_elim in H as [H1 H2].
  unfold pair_results in *. simpl. rewrite (IH H2). unfold both, has_gt in *. destruct (e_gt e); [discriminate|reflexivity].
Qed.
Lemma no_est_no_pairs : forall t, existsb has_est t = false -> pair_results t = [].
Proof.
  induction t as [|e t IH]; simpl; intros H; [reflexivity|]. apply orb_false_elim in H as [H1 H2].
  unfold pair_results in *. simpl. rewrite (IH H2). unfold both, has_est in *. destruct (e_gt e), (e_est e); try discriminate; reflexivity.
Qed.

(* the early return of get_pair_results is invisible: the error pairs are the pairs whose two rows are TP/FP/TN rows *)
Lemma error_pairs_eq : forall t, error_pairs t = flat_map both_kept (rows_of t).
Proof.
  intros t. unfold error_pairs. cbv zeta. rewrite <- pair_results_keep.
  destruct (existsb has_gt (map (keep_status [TP; FP; TN]) t)) eqn:E1; cbn [andb].
  - destruct (existsb has_est (map (keep_status [TP; FP; TN]) t)) eqn:E2; [reflexivity|].
    symmetry. now apply no_est_no_pairs.
  - symmetry. now apply no_gt_no_pairs.
Qed.

(* the paired rows of one frame: its TP pairs, then its FP pairs that have a ground truth *)
Definition frame_pairs (areas : list Area) (k : nat) (f : Frame) : list (Row * Row) :=
  map (fun p : Obj * Obj => (gt_row_of_pair areas k f TP (fst p) (snd p), est_row areas k f TP (fst p))) (f_tp f)
  ++ map (fun p : Obj * Obj => (gt_row_of_pair areas k f FP (fst p) (snd p), est_row areas k f FP (fst p))) (fp_with_gt f).

Lemma both_kept_frame : forall areas k f, flat_map both_kept (frame_rows areas k f) = frame_pairs areas k f.
Proof.
  intros. unfold frame_rows, frame_pairs. rewrite !flat_map_app, !flat_map_map.
  unfold both_kept. cbn [fst snd keep_row gt_row_of_pair est_row gt_row_alone r_status ss3 smem existsb status_eqb orb].
  rewrite flat_map_single, !flat_map_nil, !app_nil_r. f_equal.
  unfold fp_with_gt. induction (f_fp f) as [|[e [g|]] l IH]; simpl; [reflexivity| |]; now rewrite IH.
Qed.

Lemma both_rp_frame : forall areas k f, flat_map both_rp (frame_rows areas k f) = frame_pairs areas k f.
Proof.
  intros. unfold frame_rows, frame_pairs. rewrite !flat_map_app, !flat_map_map.
  unfold both_rp. cbn [fst snd].
  rewrite flat_map_single, !flat_map_nil, !app_nil_r. f_equal.
  unfold fp_with_gt. induction (f_fp f) as [|[e [g|]] l IH]; simpl; [reflexivity| |]; now rewrite IH.
Qed.

Fixpoint scene_pairs (areas : list Area) (k : nat) (scenes : list (list Frame)) : list (Row * Row) :=
  match scenes with
  | [] => []
  | frs :: rest => flat_map (frame_pairs areas k) frs ++ scene_pairs areas (S k) rest
  end.

Lemma flat_map_flat_map : forall A B C (f : A -> list B) (g : B -> list C) l,
  flat_map g (flat_map f l) = flat_map (fun x => flat_map g (f x)) l.
Proof. induction l as [|x l IH]; simpl; [reflexivity|]. now rewrite flat_map_app, IH. Qed.

Lemma flat_map_ext' : forall A B (f g : A -> list B) l, (forall x, f x = g x) -> flat_map f l = flat_map g l.
Proof. intros. induction l as [|x l IH]; simpl; [reflexivity|]. now rewrite H, IH. Qed.

Lemma both_kept_scenes : forall areas scenes k, flat_map both_kept (scene_rows areas k scenes) = scene_pairs areas k scenes.
Proof.
  induction scenes as [|frs rest IH]; intros k; simpl; [reflexivity|].
  rewrite flat_map_app, IH, flat_map_flat_map. f_equal. apply flat_map_ext'. intros f. apply both_kept_frame.
Qed.

Lemma both_rp_scenes : forall areas scenes k, flat_map both_rp (scene_rows areas k scenes) = scene_pairs areas k scenes.
Proof.
  induction scenes as [|frs rest IH]; intros k; simpl; [reflexivity|].
  rewrite flat_map_app, IH, flat_map_flat_map. f_equal. apply flat_map_ext'. intros f. apply both_rp_frame.
Qed.

(* on a built table the error pairs are all the paired rows: TP pairs and FP pairs with a ground truth *)
Lemma error_pairs_build : forall areas scenes, error_pairs (build areas scenes) = scene_pairs areas 0 scenes.
Proof. intros. now rewrite error_pairs_eq, build_rows, both_kept_scenes. Qed.
Lemma pair_results_build : forall areas scenes, pair_results (build areas scenes) = scene_pairs areas 0 scenes.
Proof. intros. now rewrite pair_results_rp, build_rows, both_rp_scenes. Qed.

(* the paired items of the frame results, as (estimate, ground truth) *)
Definition paired_items (scenes : list (list Frame)) : list (Obj * Obj) :=
  flat_map (fun f => f_tp f ++ fp_with_gt f) (all_frames scenes).

(* ground truth minus estimate; yaw wrapped *)
Definition item_error (P : Q) (c : column) (p : Obj * Obj) : Q :=
  let d := col_val c (snd p) - col_val c (fst p) in
  match c with ColYaw => wrap P d | _ => d end.

Definition item_dist2 (p : Obj * Obj) : Q :=
  (o_x (snd p) - o_x (fst p)) * (o_x (snd p) - o_x (fst p)) + (o_y (snd p) - o_y (fst p)) * (o_y (snd p) - o_y (fst p)).

Lemma map_scene_pairs : forall B (F : Row * Row -> B) (G : Obj * Obj -> B) areas,
  (forall k f p, F (gt_row_of_pair areas k f TP (fst p) (snd p), est_row areas k f TP (fst p)) = G p) ->
  (forall k f p, F (gt_row_of_pair areas k f FP (fst p) (snd p), est_row areas k f FP (fst p)) = G p) ->
  forall scenes k, map F (scene_pairs areas k scenes) = map G (paired_items scenes).
Proof.
  intros B F G areas H1 H2. unfold paired_items, all_frames.
  induction scenes as [|frs rest IH]; intros k; simpl; [reflexivity|].
  rewrite map_app, IH, flat_map_app, map_app. f_equal.
  induction frs as [|f frs IHf]; simpl; [reflexivity|].
  rewrite !map_app, IHf. f_equal. unfold frame_pairs. rewrite map_app, !map_map. f_equal; apply map_ext; intros p; auto.
Qed.

Theorem errors_are_paired_differences : forall P c areas scenes,
  calculate_error P c (build areas scenes) = map (item_error P c) (paired_items scenes) /\
  calculate_distance2 (build areas scenes) = map item_dist2 (paired_items scenes).
Proof.
  intros. unfold calculate_error, calculate_distance2. rewrite error_pairs_build. split.
  - apply map_scene_pairs; intros; reflexivity.
  - apply map_scene_pairs; intros; reflexivity.
Qed.

Lemma paired_items_length : forall scenes,
  List.length (paired_items scenes) = sum_over (fun f => (List.length (f_tp f) + List.length (fp_with_gt f))%nat) (all_frames scenes).
Proof.
  intros. unfold paired_items. induction (all_frames scenes) as [|f l IH]; simpl; [reflexivity|].
  now rewrite !app_length, IH.
Qed.

Lemma pair_results_build_length : forall areas scenes,
  List.length (pair_results (build areas scenes)) =
    sum_over (fun f => (List.length (f_tp f) + List.length (fp_with_gt f))%nat) (all_frames scenes).
Proof.
  intros. rewrite pair_results_build, <- paired_items_length.
  rewrite <- (map_length (fun _ => tt) (scene_pairs _ _ _)), <- (map_length (fun _ => tt) (paired_items _)).
  f_equal. apply map_scene_pairs; reflexivity.
Qed.

(* ========================================================================================== *)
(* E. the yaw wrap                                                                             *)
(* ========================================================================================== *)
Theorem yaw_error_wrapped : forall P g e,
  0 < P -> - P <= g <= P -> - P <= e <= P ->
  - P <= wrap P (g - e) <= P /\
  (wrap P (g - e) == g - e \/ wrap P (g - e) == g - e - 2 * P \/ wrap P (g - e) == g - e + 2 * P).
Proof.
  intros P g e HP [Hg1 Hg2] [He1 He2]. unfold wrap. q_cases;
    (split; [lra|first [left; lra | right; left; lra | right; right; lra]]).
Qed.

(* the wrap is the identity on [-P, P] and always lands within 2P of where it started *)
Lemma wrap_id : forall P d, - P <= d <= P -> wrap P d == d.
Proof. intros P d [H1 H2]. unfold wrap. q_cases; lra. Qed.

(* ========================================================================================== *)
(* F. summaries                                                                                *)
(* ========================================================================================== *)
Lemma sqr_nonneg : forall z, 0 <= z * z.
Proof.
  intros z. destruct (Qlt_le_dec z 0) as [H|H]; [|now apply Qmult_le_0_compat].
  setoid_replace (z * z) with ((- z) * (- z)) by ring. apply Qmult_le_0_compat; lra.
Qed.

Lemma sq_qabs : forall x, sq (qabs x) == x * x.
Proof. intros x. unfold sq, qabs. destruct (Qltb_spec x 0); ring. Qed.

Lemma qsum_shift : forall a l,
  qsum (map (fun v => sq (qabs (v - a))) l) == qsum (map sq l) - 2 * a * qsum l + Qnat (List.length l) * a * a.
Proof.
  intros a. induction l as [|x l IH]; cbn [map qsum List.length].
  - unfold Qnat. simpl. ring.
  - rewrite IH, sq_qabs, Qnat_S. unfold sq. ring.
Qed.

Lemma qsum_shift' : forall a l,
  qsum (map (fun v => sq (qabs (v - a))) l) == qsum (map (fun v => (v - a) * (v - a)) l).
Proof.
  intros a. induction l as [|x l IH]; cbn [map qsum]; [reflexivity|]. now rewrite IH, sq_qabs.
Qed.

Lemma fold_qmax_ge : forall l a, a <= fold_left qmax l a.
Proof.
  induction l as [|x l IH]; intros a; simpl; [lra|].
  apply Qle_trans with (qmax a x); [|apply IH]. unfold qmax. destruct (Qltb_spec a x); lra.
Qed.
Lemma fold_qmax_ub : forall l a v, In v l -> v <= fold_left qmax l a.
Proof.
  induction l as [|x l IH]; intros a v []; simpl.
  - subst x. apply Qle_trans with (qmax a v); [|apply fold_qmax_ge]. unfold qmax. destruct (Qltb_spec a v); lra.
  - now apply IH.
Qed.
Lemma fold_qmax_in : forall l a, fold_left qmax l a = a \/ In (fold_left qmax l a) l.
Proof.
  induction l as [|x l IH]; intros a; simpl; [now left|].
  destruct (IH (qmax a x)) as [H|H]; [|now right; right].
  rewrite H. unfold qmax. destruct (Qltb a x); [right; now left|now left].
Qed.
Lemma fold_qmin_le : forall l a, fold_left qmin l a <= a.
Proof.
  induction l as [|x l IH]; intros a; simpl; [lra|].
  apply Qle_trans with (qmin a x); [apply IH|]. unfold qmin. destruct (Qltb_spec x a); lra.
Qed.
Lemma fold_qmin_lb : forall l a v, In v l -> fold_left qmin l a <= v.
Proof.
  induction l as [|x l IH]; intros a v []; simpl.
  - subst x. apply Qle_trans with (qmin a v); [apply fold_qmin_le|]. unfold qmin. destruct (Qltb_spec v a); lra.
  - now apply IH.
Qed.
Lemma fold_qmin_in : forall l a, fold_left qmin l a = a \/ In (fold_left qmin l a) l.
Proof.
  induction l as [|x l IH]; intros a; simpl; [now left|].
  destruct (IH (qmin a x)) as [H|H]; [|now right; right].
  rewrite H. unfold qmin. destruct (Qltb x a); [right; now left|now left].
Qed.

Lemma mean_times_n : forall l, l <> [] -> mean l * Qnat (List.length l) == qsum l.
Proof.
  intros l H. unfold mean. assert (0 < Qnat (List.length l)). { apply Qnat_pos. destruct l; [congruence|simpl; lia]. }
  field. lra.
Qed.

Theorem summaries_defs : forall l, l <> [] ->
  exists s, summarize l = Some s /\
    let n := Qnat (List.length l) in
    s_avg s * n == qsum l /\                                              (* average *)
    s_ms s * n == qsum (map (fun v => v * v) l) /\                        (* rms^2 = mean of the squares *)
    s_var s * n == qsum (map (fun v => (v - s_avg s) * (v - s_avg s)) l) /\   (* std^2 = mean squared deviation *)
    s_var s == s_ms s - s_avg s * s_avg s /\ 0 <= s_var s /\
    (forall v, In v l -> qabs v <= s_max s) /\ (exists v, In v l /\ s_max s = qabs v) /\    (* max |.| *)
    (forall v, In v l -> s_min s <= qabs v) /\ (exists v, In v l /\ s_min s = qabs v).      (* min |.| *)
Proof.
  intros l Hl. destruct l as [|x t]; [congruence|].
  eexists. split; [reflexivity|]. cbv zeta. cbn [s_avg s_ms s_var s_max s_min].
  remember (x :: t) as l eqn:El.
  assert (Hn : 0 < Qnat (List.length l)). { apply Qnat_pos. rewrite El. simpl. lia. }
  assert (Hmap : map sq l = map (fun v => v * v) l) by reflexivity.
  assert (H1 : mean l * Qnat (List.length l) == qsum l) by (apply mean_times_n; assumption).
  assert (H2 : mean (map sq l) * Qnat (List.length l) == qsum (map sq l)).
  { pose proof (mean_times_n (map sq l)) as H. rewrite map_length in H. apply H. rewrite El. discriminate. }
  assert (H3 : mean (map (fun v => sq (qabs (v - mean l))) l) * Qnat (List.length l) == qsum (map (fun v => sq (qabs (v - mean l))) l)).
  { pose proof (mean_times_n (map (fun v => sq (qabs (v - mean l))) l)) as H. rewrite map_length in H. apply H. rewrite El. discriminate. }
  repeat split.
  - exact H1.
  - rewrite <- Hmap. exact H2.
  - rewrite H3. apply qsum_shift'.
  - assert (E : mean (map (fun v => sq (qabs (v - mean l))) l) * Qnat (List.length l)
                == (mean (map sq l) - mean l * mean l) * Qnat (List.length l)).
    { rewrite H3, qsum_shift. rewrite <- H2, <- H1. ring. }
    assert (Hz : ~ Qnat (List.length l) == 0) by (intro Z; rewrite Z in Hn; exact (Qlt_irrefl 0 Hn)).
    apply (proj1 (Qmult_inj_r _ _ _ Hz)). exact E.
  - unfold mean at 1. apply Qdiv_nonneg; [|rewrite map_length; exact Hn].
    apply qsum_nonneg. intros v Hv. apply in_map_iff in Hv as (w & <- & _). rewrite sq_qabs.
    apply sqr_nonneg.
  - intros v Hv. rewrite El in Hv. destruct Hv as [<-|Hv]; [apply fold_qmax_ge|].
    apply fold_qmax_ub. now apply in_map.
  - destruct (fold_qmax_in (map qabs t) (qabs x)) as [H|H].
    + exists x. split; [rewrite El; now left|exact H].
    + apply in_map_iff in H as (w & Hw & Hin). exists w. split; [rewrite El; now right|now symmetry].
  - intros v Hv. rewrite El in Hv. destruct Hv as [<-|Hv]; [apply fold_qmin_le|].
    apply fold_qmin_lb. now apply in_map.
  - destruct (fold_qmin_in (map qabs t) (qabs x)) as [H|H].
    + exists x. split; [rewrite El; now left|exact H].
    + apply in_map_iff in H as (w & Hw & Hin). exists w. split; [rewrite El; now right|now symmetry].
Qed.

Lemma summarize_none : summarize [] = None.
Proof. reflexivity. Qed.

(* ========================================================================================== *)
(* G. rates                                                                                    *)
(* ========================================================================================== *)
Definition in01 (q : Q) : Prop := 0 <= q /\ q <= 1.
Definition ratios_in01 (r : Ratios) : Prop := in01 (q_tp r) /\ in01 (q_fp r) /\ in01 (q_tn r) /\ in01 (q_fn r).

Lemma nat_ratio_in01 : forall a b, (a <= b)%nat -> (0 < b)%nat -> in01 (Qnat a / Qnat b).
Proof.
  intros a b H1 H2. split.
  - apply Qdiv_nonneg; [apply Qnat_nonneg|now apply Qnat_pos].
  - apply Qdiv_le_1; [now apply Qnat_pos|now apply Qnat_le].
Qed.

Lemma filter_len_le : forall A (p : A -> bool) l, (List.length (filter p l) <= List.length l)%nat.
Proof. induction l as [|x l IH]; simpl; [lia|]. destruct (p x); simpl; lia. Qed.

Lemma in01_0 : in01 0.
Proof. split; lra. Qed.

(* all that is needed is: TP estimates <= ground-truth rows under the row's selection *)
Lemma ratio_row_in01 : forall ol t,
  (num_tp (match ol with Some l => [CLabel [l]] | None => [] end) t
   <= num_ground_truth (match ol with Some l => [CLabel [l]] | None => [] end) t)%nat ->
  ratios_in01 (ratio_row ol t).
Proof.
  intros ol t H. unfold ratio_row. cbv zeta.
  set (cs := match ol with Some l => [CLabel [l]] | None => [] end) in *.
  destruct (Nat.ltb_spec 0 (num_ground_truth cs t)) as [L|L].
  - unfold ratios_in01; cbn [q_tp q_fp q_tn q_fn]. split; [|split; [|split]].
    + now apply nat_ratio_in01.
    + destruct (Nat.eqb_spec (num_tp cs t + num_fp cs t) 0); [apply in01_0|]. apply nat_ratio_in01; lia.
    + apply nat_ratio_in01; [|assumption]. unfold num_tn, num_ground_truth, count_status. apply filter_len_le.
    + apply nat_ratio_in01; [|assumption]. unfold num_fn, num_ground_truth, count_status. apply filter_len_le.
  - unfold ratios_in01; cbn [q_tp q_fp q_tn q_fn]. repeat split; lra.
Qed.

Lemma status_eqb_eq : forall a b, status_eqb a b = true -> a = b.
Proof. intros [] []; simpl; congruence. Qed.

(* a row pair whose estimate is a selected TP has a selected ground-truth row *)
Definition tp_covered (cs : list crit) (p : option Row * option Row) : Prop :=
  forall r, snd p = Some r -> row_ok cs r = true -> r_status r = TP -> exists g, fst p = Some g /\ row_ok cs g = true.

Lemma tp_le_gt_rp : forall cs (l : RP), (forall p, In p l -> tp_covered cs p) ->
  (cnt_rows estR (sel_st cs TP) l <= cnt_rows gtR (row_ok cs) l)%nat.
Proof.
  induction l as [|[g e] l IH]; intros H; [unfold cnt_rows; simpl; lia|].
  change ((g, e) :: l) with ([(g, e)] ++ l). rewrite cnt_rows_est_app, cnt_rows_gt_app.
  assert (IH' : (cnt_rows estR (sel_st cs TP) l <= cnt_rows gtR (row_ok cs) l)%nat) by (apply IH; intros p Hp; apply H; now right).
  assert (H0 : (cnt_rows estR (sel_st cs TP) [(g, e)] <= cnt_rows gtR (row_ok cs) [(g, e)])%nat).
  { unfold cnt_rows, estR, gtR. cbn [flat_map fst snd app]. destruct e as [r|]; cbn [opt_list app filter List.length]; [|lia].
    unfold sel_st. destruct (row_ok cs r) eqn:E1; cbn [andb]; [|simpl; lia].
    destruct (status_eqb (r_status r) TP) eqn:E2; [|simpl; lia].
    destruct (H (g, Some r) (or_introl eq_refl) r eq_refl E1 (status_eqb_eq _ _ E2)) as (g' & Hg & Hok).
    cbn [fst] in Hg. subst g. cbn [opt_list app filter]. rewrite Hok. simpl. lia. }
  lia.
Qed.

Lemma tp_le_gt : forall cs t, (forall e, In e t -> tp_covered cs (e_gt e, e_est e)) ->
  (num_tp cs t <= num_ground_truth cs t)%nat.
Proof.
  intros cs t H. rewrite num_tp_rp, num_ground_truth_rp. apply tp_le_gt_rp.
  intros p Hp. unfold rows_of in Hp. apply in_map_iff in Hp as (e & <- & He). now apply H.
Qed.

Lemma in_scene_rows : forall areas scenes k p, In p (scene_rows areas k scenes) ->
  exists k' f, In f (all_frames scenes) /\ In p (frame_rows areas k' f).
Proof.
  induction scenes as [|frs rest IH]; intros k p H; simpl in H; [contradiction|].
  apply in_app_or in H as [H|H].
  - apply in_flat_map in H as (f & Hf & Hp). exists k, f. split; [|assumption].
    unfold all_frames. simpl. apply in_or_app. now left.
  - destruct (IH _ _ H) as (k' & f & Hf & Hp). exists k', f. split; [|assumption].
    unfold all_frames in *. simpl. apply in_or_app. now right.
Qed.

(* which selections a TP pair passes on both rows: those that look at fields the two rows share, or at the label when
   the labels agree *)
Lemma frame_rows_tp_covered : forall areas k f cs,
  (forall e g, In (e, g) (f_tp f) ->
     row_ok cs (est_row areas k f TP e) = true -> row_ok cs (gt_row_of_pair areas k f TP e g) = true) ->
  forall p, In p (frame_rows areas k f) -> tp_covered cs p.
Proof.
  intros areas k f cs H p Hp r Hr Hok Hst. unfold frame_rows in Hp.
  apply in_app_or in Hp as [Hp|Hp]; [|apply in_app_or in Hp as [Hp|Hp]; [|apply in_app_or in Hp as [Hp|Hp]]];
    apply in_map_iff in Hp as (x & <- & Hx); cbn [fst snd] in *.
  - injection Hr as <-. destruct x as [e g]. eexists. split; [reflexivity|]. now apply (H e g).
  - injection Hr as <-. discriminate Hst.
  - discriminate Hr.
  - discriminate Hr.
Qed.

Lemma build_tp_covered : forall areas scenes cs,
  (forall k f e g, In f (all_frames scenes) -> In (e, g) (f_tp f) ->
     row_ok cs (est_row areas k f TP e) = true -> row_ok cs (gt_row_of_pair areas k f TP e g) = true) ->
  forall (q : Entry -> bool) e, In e (filter q (build areas scenes)) -> tp_covered cs (e_gt e, e_est e).
Proof.
  intros areas scenes cs H q e He. apply filter_In in He as [He _].
  assert (Hp : In (e_gt e, e_est e) (rows_of (build areas scenes))).
  { unfold rows_of. apply in_map_iff. now exists e. }
  rewrite build_rows in Hp. apply in_scene_rows in Hp as (k & f & Hf & Hp).
  eapply frame_rows_tp_covered; [|exact Hp]. intros. eapply H; eassumption.
Qed.

(* the ALL row: every built table, every selection of its row pairs -- also with the F11 overcount *)
Theorem rates_unit_interval_all : forall areas scenes (q : Entry -> bool),
  ratios_in01 (ratio_row None (filter q (build areas scenes))).
Proof.
  intros. apply ratio_row_in01. apply tp_le_gt. apply build_tp_covered. intros. reflexivity.
Qed.

(* a label row: when the TP pairs carry equal labels *)
Theorem rates_unit_interval_label : forall areas scenes (q : Entry -> bool) l,
  (forall f e g, In f (all_frames scenes) -> In (e, g) (f_tp f) -> o_label e = o_label g) ->
  ratios_in01 (ratio_row (Some l) (filter q (build areas scenes))).
Proof.
  intros areas scenes q l H. apply ratio_row_in01. apply tp_le_gt. apply build_tp_covered.
  intros k f e g Hf Hin. unfold row_ok, est_row, gt_row_of_pair. cbn [forallb crit_ok r_obj]. now rewrite (H f e g Hf Hin).
Qed.

(* the frame selected by analyze() is a filter of the table *)
Lemma analyze_frame_is_filter : forall cs dist t,
  exists q, (match dist with Some (lo, hi) => filter_by_distance lo hi (tbl_filter cs t) | None => tbl_filter cs t end) = filter q t.
Proof.
  intros cs [[lo hi]|] t.
  - unfold filter_by_distance, tbl_filter. rewrite filter_filter. eexists. reflexivity.
  - unfold tbl_filter. eexists. reflexivity.
Qed.

Theorem analyze_rates_unit_interval : forall P nt nc cs dist areas scenes a,
  analyze P nt nc cs dist (build areas scenes) = Some a ->
  (exists r rest, a_ratio a = r :: rest /\ ratios_in01 r) /\
  ((forall f e g, In f (all_frames scenes) -> In (e, g) (f_tp f) -> o_label e = o_label g) ->
   forall r, In r (a_ratio a) -> ratios_in01 r).
Proof.
  intros P nt nc cs dist areas scenes a H. unfold analyze in H. cbv zeta in H.
  destruct (analyze_frame_is_filter cs dist (build areas scenes)) as (q & Hq).
  destruct dist as [[lo hi]|]; rewrite Hq in H;
    (destruct (filter q (build areas scenes)) eqn:E; [discriminate|]; injection H as <-; cbn [a_ratio]; rewrite <- E; split;
     [eexists; eexists; split; [reflexivity|apply rates_unit_interval_all]
     |intros Hl r Hr; unfold summarize_ratio in Hr; apply in_map_iff in Hr as (ol & <- & _);
      destruct ol as [lb|]; [now apply rates_unit_interval_label|apply rates_unit_interval_all]]).
Qed.

(* F15 witness: "unknown" (label 3) is a target label; two unknown estimates are TP on two cars; one unknown ground truth is FN *)
Definition u_frame : Frame :=
  mkFrame 0 [(mkObj 3 3 false 10 (1 # 4) 0 10 2 4, mkObj 0 0 false 10 0 0 10 2 4);
             (mkObj 4 3 false 20 (21 # 4) 0 20 2 4, mkObj 1 0 false 20 5 0 20 2 4)]
          [] [] [mkObj 2 3 false (-30) 5 0 30 2 4] 3.

Theorem label_rate_unit_interval_refuted :
  exists areas scenes l,
    (forall f, In f (all_frames scenes) -> accounted f) /\
    1 < q_tp (ratio_row (Some l) (build areas scenes)).
Proof.
  exists w_areas, [[u_frame]], 3%nat. split; [intros f [<-|[]]; vm_compute; reflexivity|]. vm_compute. reflexivity.
Qed.

(* ========================================================================================== *)
(* H. confusion matrix                                                                         *)
(* ========================================================================================== *)
Lemma list_sum_map_plus : forall A (f g : A -> nat) l,
  list_sum (map (fun x => (f x + g x)%nat) l) = (list_sum (map f l) + list_sum (map g l))%nat.
Proof. induction l as [|x l IH]; simpl; [reflexivity|]. rewrite IH. lia. Qed.

Lemma list_sum_zero : forall A (l : list A), list_sum (map (fun _ => 0%nat) l) = 0%nat.
Proof. induction l as [|x l IH]; simpl; [reflexivity|]. exact IH. Qed.

Lemma indicator_sum : forall x N, list_sum (map (fun k => if Nat.eqb k x then 1 else 0)%nat (seq 0 N)) = if Nat.ltb x N then 1%nat else 0%nat.
Proof.
  intros x. induction N as [|N IH]; [reflexivity|].
  rewrite seq_S, map_app, list_sum_app, IH. cbn [map list_sum Nat.add].
  destruct (Nat.ltb_spec x N), (Nat.ltb_spec x (S N)), (Nat.eqb_spec N x); simpl; lia.
Qed.

Lemma count_nat_cons : forall k x l, count_nat k (x :: l) = ((if Nat.eqb k x then 1 else 0) + count_nat k l)%nat.
Proof. intros. unfold count_nat. simpl. destruct (Nat.eqb k x); reflexivity. Qed.

Lemma sum_counts : forall l N, (forall x, In x l -> (x < N)%nat) ->
  list_sum (map (fun k => count_nat k l) (seq 0 N)) = List.length l.
Proof.
  induction l as [|x l IH]; intros N H.
  - unfold count_nat. simpl. apply list_sum_zero.
  - rewrite (map_ext _ (fun k => ((if Nat.eqb k x then 1 else 0) + count_nat k l)%nat)) by (intros; apply count_nat_cons).
    rewrite list_sum_map_plus, indicator_sum, IH by (intros y Hy; apply H; now right).
    assert (x < N)%nat by (apply H; now left). destruct (Nat.ltb_spec x N); simpl; lia.
Qed.

Lemma fold_max_lt : forall l m, (forall x, In x l -> (x < m)%nat) -> (0 < m)%nat -> (fold_right Nat.max 0%nat l < m)%nat.
Proof.
  induction l as [|x l IH]; intros m H Hm; simpl; [assumption|].
  apply Nat.max_lub_lt; [apply H; now left|apply IH; [intros y Hy; apply H; now right|assumption]].
Qed.

Lemma bincount_exact : forall l m, (forall x, In x l -> (x < m)%nat) -> l <> [] ->
  bincount l m = map (fun k => count_nat k l) (seq 0 m).
Proof.
  intros l m H Hl. unfold bincount. f_equal. f_equal.
  assert (0 < m)%nat. { destruct l as [|x l]; [congruence|]. specialize (H x (or_introl eq_refl)). lia. }
  pose proof (fold_max_lt l m H H0). lia.
Qed.

Lemma concat_chunks : forall f n l, List.length l = (f * n)%nat -> concat (chunks f n l) = l.
Proof.
  induction f as [|f IH]; intros n l H; simpl in *.
  - destruct l; [reflexivity|discriminate].
  - rewrite IH; [apply firstn_skipn|]. rewrite skipn_length. lia.
Qed.

Lemma chunks_length : forall f n l, List.length (chunks f n l) = f.
Proof. induction f as [|f IH]; intros; simpl; [reflexivity|]. now rewrite IH. Qed.

Lemma nth_firstn_lt : forall A (d : A) n l j, (j < n)%nat -> nth j (firstn n l) d = nth j l d.
Proof.
  induction n as [|n IH]; intros l j H; [lia|]. destruct l as [|x l]; [reflexivity|].
  destruct j as [|j]; simpl; [reflexivity|]. apply IH. lia.
Qed.

Lemma nth_skipn_plus : forall A (d : A) n l k, nth k (skipn n l) d = nth (n + k) l d.
Proof.
  induction n as [|n IH]; intros l k; [reflexivity|]. destruct l as [|x l]; simpl; [now destruct k|]. apply IH.
Qed.

Lemma nth_chunks : forall f n l i j, (i < f)%nat -> (j < n)%nat ->
  nth j (nth i (chunks f n l) []) 0%nat = nth (i * n + j) l 0%nat.
Proof.
  induction f as [|f IH]; intros n l i j Hi Hj; [lia|]. simpl.
  destruct i as [|i].
  - simpl. now apply nth_firstn_lt.
  - rewrite IH by lia. rewrite nth_skipn_plus. f_equal. lia.
Qed.

Lemma nth_map_seq : forall (F : nat -> nat) N k, (k < N)%nat -> nth k (map F (seq 0 N)) 0%nat = F k.
Proof.
  intros F N k H. rewrite (nth_indep _ 0%nat (F 0%nat)) by (now rewrite map_length, seq_length).
  rewrite map_nth, seq_nth by assumption. reflexivity.
Qed.

Lemma cm_index_inj : forall nc g e i j, (e < nc)%nat -> (j < nc)%nat ->
  Nat.eqb (i * nc + j) (nc * g + e) = Nat.eqb g i && Nat.eqb e j.
Proof.
  intros nc g e i j He Hj.
  destruct (Nat.eqb_spec g i) as [->|Hg]; cbn [andb].
  - destruct (Nat.eqb_spec e j) as [->|He']; [apply Nat.eqb_eq; lia|]. apply Nat.eqb_neq. lia.
  - apply Nat.eqb_neq. intros E. apply Hg.
    destruct (lt_eq_lt_dec g i) as [[L|L]|L]; [|assumption|].
    + assert (nc * (g + 1) <= nc * i)%nat by (apply Nat.mul_le_mono_l; lia). lia.
    + assert (nc * (i + 1) <= nc * g)%nat by (apply Nat.mul_le_mono_l; lia). lia.
Qed.

Definition labels_ok (nc : nat) (ps : list (Row * Row)) : Prop :=
  forall p, In p ps -> (o_label (r_obj (fst p)) < nc)%nat /\ (o_label (r_obj (snd p)) < nc)%nat.

Lemma labels_ok_b : forall nc ps,
  forallb (fun p : Row * Row => Nat.ltb (o_label (r_obj (fst p))) nc && Nat.ltb (o_label (r_obj (snd p))) nc) ps = true
  <-> labels_ok nc ps.
Proof.
  intros. rewrite forallb_forall. unfold labels_ok. split; intros H p Hp; specialize (H p Hp).
  - apply andb_true_iff in H as [H1 H2]. split; now apply Nat.ltb_lt.
  - apply andb_true_iff. split; apply Nat.ltb_lt; tauto.
Qed.

Lemma cm_index_lt : forall nc p, (o_label (r_obj (fst p)) < nc)%nat -> (o_label (r_obj (snd p)) < nc)%nat -> (cm_index nc p < nc * nc)%nat.
Proof.
  intros nc p H1 H2. unfold cm_index.
  assert (nc * (o_label (r_obj (fst p)) + 1) <= nc * nc)%nat by (apply Nat.mul_le_mono_l; lia). lia.
Qed.

Lemma count_cm_index : forall nc ps i j, labels_ok nc ps -> (j < nc)%nat ->
  count_nat (i * nc + j) (map (cm_index nc) ps) =
    List.length (filter (fun p : Row * Row => Nat.eqb (o_label (r_obj (fst p))) i && Nat.eqb (o_label (r_obj (snd p))) j) ps).
Proof.
  intros nc ps i j H Hj. unfold count_nat. induction ps as [|p ps IH]; [reflexivity|].
  cbn [map filter]. unfold cm_index at 1.
  destruct (H p (or_introl eq_refl)) as [H1 H2]. rewrite cm_index_inj by assumption.
  assert (IH' := IH (fun q Hq => H q (or_intror Hq))).
  destruct (Nat.eqb (o_label (r_obj (fst p))) i && Nat.eqb (o_label (r_obj (snd p))) j); cbn [List.length]; now rewrite IH'.
Qed.

Theorem confusion_sums_to_pairs : forall nc t,
  match get_confusion_matrix nc t with
  | CMOk m =>
      labels_ok nc (pair_results t) /\ pair_results t <> [] /\
      List.length m = nc /\
      list_sum (concat m) = List.length (pair_results t) /\
      forall i j, (i < nc)%nat -> (j < nc)%nat ->
        nth j (nth i m []) 0%nat =
          List.length (filter (fun p : Row * Row => Nat.eqb (o_label (r_obj (fst p))) i && Nat.eqb (o_label (r_obj (snd p))) j)
                              (pair_results t))
  | CMNone => pair_results t = []
  | CMError => ~ labels_ok nc (pair_results t)          (* list.index raises ValueError *)
  end.
Proof.
  intros nc t. unfold get_confusion_matrix. cbv zeta.
  destruct (forallb _ (pair_results t)) eqn:E; cbn [negb].
  2:{ intros H. apply labels_ok_b in H. congruence. }
  apply labels_ok_b in E.
  destruct (pair_results t) as [|p0 ps] eqn:Eps; [reflexivity|]. rewrite <- Eps in *.
  assert (Hne : pair_results t <> []) by (rewrite Eps; discriminate).
  assert (Hidx : forall x, In x (map (cm_index nc) (pair_results t)) -> (x < nc * nc)%nat).
  { intros x Hx. apply in_map_iff in Hx as (p & <- & Hp). destruct (E p Hp). now apply cm_index_lt. }
  rewrite bincount_exact; [|assumption|rewrite Eps; discriminate].
  rewrite map_length, seq_length, Nat.eqb_refl.
  split; [assumption|]. split; [assumption|]. split; [apply chunks_length|]. split.
  - rewrite concat_chunks by (now rewrite map_length, seq_length).
    rewrite sum_counts by assumption. apply map_length.
  - intros i j Hi Hj. rewrite nth_chunks by assumption.
    assert (i * nc + j < nc * nc)%nat. { assert (nc * (i + 1) <= nc * nc)%nat by (apply Nat.mul_le_mono_l; lia). lia. }
    rewrite nth_map_seq by assumption. now apply count_cm_index.
Qed.
