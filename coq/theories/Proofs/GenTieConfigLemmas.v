(* Lemmas, the model slices and the proof tactic of Props/GenTieConfig.v (generated definitions of Gen/decisions_config.v = hand model
   Model/Config.v).

   Model/Config.v models the whole constructor ([accept]) as one chain of binds; the source is divided into methods.  This file
   names the SLICE of [accept] that each translated method covers ([extract_filters] = the part of [accept] that
   PerceptionEvaluationConfig._extract_params performs after the target labels are known) and proves that [accept] is the
   composition of the slices ([accept_factors]), so that an equation about a slice is an equation about the executable definition
   of the model.  [today] is the variant of the model's defect switches that describes the code as it is now: finding F7 (both range
   kinds given) is REPAIRED in /repo (commit b21c3b8), finding F8 (an unknown key is ignored) is not. *)
From Coq Require Import String Ascii List Bool Arith ZArith Lia Morphisms Setoid.
From PE Require Import Base.QUtil Base.StrUtil Model.EnumParse Gen.Enums Gen.ConfigTables Gen.LabelTables
                       Model.PyVal Model.Threshold Model.Config Proofs.ThresholdProofs Proofs.GenTieThresholdLemmas.
From PE Require Import Gen.decisions_threshold Gen.decisions_config.
From PE Require Props.GenTieThreshold.
Import ListNotations.
Open Scope string_scope.
Open Scope list_scope.
Open Scope nat_scope.

(* ---- the variant of Model/Config.v that describes the source today --------------------------------------------------------- *)
Definition today : repairs := {| rejects_both_ranges := true; rejects_unknown_keys := false |}.

(* ---- dictionaries: the generated prelude's dict = the model's association list --------------------------------------------- *)
Lemma dict_find_lookup (c : cfg) k : dict_find c k = Config.lookup k c.
Proof. induction c as [|[k' v] t IH]; simpl; [reflexivity|]. destruct (String.eqb k k'); auto. Qed.

(* d.get(k, dflt) on the model side *)
Definition get_or (k : string) (dflt : pyval) (c : cfg) : pyval :=
  match Config.lookup k c with Some v => v | None => dflt end.

Lemma dict_get_get (c : cfg) k : dict_get c k NoneV = Config.get k c.
Proof. unfold dict_get, Config.get. rewrite dict_find_lookup. reflexivity. Qed.
Lemma dict_get_get_or (c : cfg) k d : dict_get c k d = get_or k d c.
Proof. unfold dict_get, get_or. rewrite dict_find_lookup. reflexivity. Qed.
Lemma dict_getitem_lookup (c : cfg) k :
  dict_getitem c k = match Config.lookup k c with Some v => XOk v | None => XErr (Py KeyError) end.
Proof. unfold dict_getitem. rewrite dict_find_lookup. reflexivity. Qed.
Lemma dict_getitem_or_lookup (c : cfg) k e :
  dict_getitem_or c k e = match Config.lookup k c with Some v => XOk v | None => XErr (Py e) end.
Proof. unfold dict_getitem_or. rewrite dict_find_lookup. reflexivity. Qed.
Lemma dict_mem_lookup (c : cfg) k :
  dict_mem c k = match Config.lookup k c with Some _ => true | None => false end.
Proof. unfold dict_mem. rewrite dict_find_lookup. reflexivity. Qed.

(* ---- the threshold layer: the equations of Props/GenTieThreshold.v (set_thresholds / check_thresholds translated from the source
   = Model/Threshold.v), imported so that they are proved once ---------------------------------------------------------------- *)
Lemma set_thresholds_tie (v : pyval) (n : nat) (nest : bool) :
  Gen_set_thresholds.f v n nest = of_res (Threshold.set_thresholds v n nest).
Proof. exact (GenTieThreshold.GenTie_set_thresholds v n nest). Qed.
Lemma check_thresholds_tie (v : pyval) (n : nat) :
  Gen_check_thresholds.f v n = of_res (Threshold.check_thresholds v n).
Proof. exact (GenTieThreshold.GenTie_check_thresholds v n). Qed.

(* ---- model slices ----------------------------------------------------------------------------------------------------------- *)
(* None of the model = None of Python *)
Definition opt_py (o : option pyval) : pyval := match o with Some w => w | None => NoneV end.

(* the part of [accept] performed by _extract_params once len(target_labels) = n is known *)
Definition extract_filters (sw : repairs) (task : string) (c : cfg) (n : nat) : res filters :=
  bind (ranges sw task c n) (fun rg =>
  bind (opt_thresholds (get "max_matchable_radii" c) n) (fun radii =>
  bind (opt_thresholds (get "min_point_numbers" c) n) (fun minp =>
  if String.eqb task "DETECTION" && match minp with None => true | Some _ => false end
  then Err RuntimeError
  else
  bind (opt_thresholds (get "confidence_threshold" c) n) (fun conf =>
  match rg with
  | (mx, my, md, mnd) =>
      Ok {| f_max_x := mx; f_max_y := my; f_max_dist := md; f_min_dist := mnd;
            f_radii := radii; f_min_points := minp; f_conf := conf |}
  end)))).

(* [accept] is the composition of its slices (the executable definition of the model, regrouped) *)
Lemma accept_factors sw c frames :
  accept sw c frames =
  bind (check_tasks c) (fun task =>
  bind (label_policy c) (fun _ =>
  bind (label_count c) (fun n_all =>
  bind (target_count (get "target_labels" c) n_all) (fun n =>
  bind (extract_filters sw task c n) (fun f =>
  bind (check_frames task frames) (fun _ =>
  bind (if rejects_unknown_keys sw && has_unknown_key c then Err MetricsParameterError else Ok tt) (fun _ =>
  bind (metrics task c n) (fun m =>
  Ok {| a_task := task; a_n := n; a_filters := f; a_metrics := m |})))))))).
Proof.
  unfold accept, extract_filters.
  destruct (check_tasks c) as [task|]; simpl; [|reflexivity].
  destruct (label_policy c); simpl; [|reflexivity].
  destruct (label_count c) as [n_all|]; simpl; [|reflexivity].
  destruct (target_count (get "target_labels" c) n_all) as [n|]; simpl; [|reflexivity].
  destruct (ranges sw task c n) as [[[[mx my] md] mnd]|]; simpl; [|reflexivity].
  destruct (opt_thresholds (get "max_matchable_radii" c) n); simpl; [|reflexivity].
  destruct (opt_thresholds (get "min_point_numbers" c) n) as [minp|]; simpl; [|reflexivity].
  destruct (String.eqb task "DETECTION" && match minp with None => true | Some _ => false end); simpl; [reflexivity|].
  destruct (opt_thresholds (get "confidence_threshold" c) n); simpl; reflexivity.
Qed.

(* the two dictionaries _extract_params returns, from the model's filters *)
Definition f_params_of (labels : list string) (f : filters) (c : cfg) : odict :=
  [("target_labels", DLabels labels);
   ("ignore_attributes", DPy (get "ignore_attributes" c));
   ("max_x_position_list", DPy (opt_py (f_max_x f)));
   ("max_y_position_list", DPy (opt_py (f_max_y f)));
   ("max_distance_list", DPy (opt_py (f_max_dist f)));
   ("min_distance_list", DPy (opt_py (f_min_dist f)));
   ("max_matchable_radii", DPy (opt_py (f_radii f)));
   ("min_point_numbers", DPy (opt_py (f_min_points f)));
   ("confidence_threshold_list", DPy (opt_py (f_conf f)));
   ("target_uuids", DPy (get "target_uuids" c));
   ("uuid_matching_first", DPy (get_or "uuid_matching_first" (Bool false) c))].
Definition m_params_of (labels : list string) (c : cfg) : odict :=
  [("target_labels", DLabels labels);
   ("center_distance_thresholds", DPy (get "center_distance_thresholds" c));
   ("plane_distance_thresholds", DPy (get "plane_distance_thresholds" c));
   ("iou_2d_thresholds", DPy (get "iou_2d_thresholds" c));
   ("iou_3d_thresholds", DPy (get "iou_3d_thresholds" c))].

(* _extract_label_params: the member the policy keys select (Model/Config.label_policy keeps only its error) *)
Definition policy_member (c : cfg) : res string :=
  let p := get "matching_label_policy" c in
  if py_truthy p then
    match p with
    | Str s => match run_parser MatchingLabelPolicy_enum MatchingLabelPolicy_from_str s with
               | Member k => Ok k
               | _ => Err AssertionError
               end
    | _ => Err AttributeError
    end
  else Ok (if py_truthy (get_or "allow_matching_unknown" (Bool false) c) then "ALLOW_UNKNOWN" else "DEFAULT").

Lemma policy_member_label_policy c : bind (policy_member c) (fun _ => Ok tt) = label_policy c.
Proof.
  unfold policy_member, label_policy. cbv zeta.
  destruct (py_truthy (get "matching_label_policy" c)); [|reflexivity].
  destruct (get "matching_label_policy" c); try reflexivity.
  destruct (run_parser MatchingLabelPolicy_enum MatchingLabelPolicy_from_str s); reflexivity.
Qed.

Definition l_params_of (prefix : pyval) (pol : string) (c : cfg) : odict :=
  [("label_prefix", DPy prefix);
   ("merge_similar_labels", DPy (get_or "merge_similar_labels" (Bool false) c));
   ("matching_label_policy", DMember pol);
   ("count_label_number", DPy (get_or "count_label_number" (Bool true) c))].

(* ---- set_target_lists: the number of labels is Model/Config.target_count ------------------------------------------------- *)
Lemma mmap_convert_length (conv : string -> string) (l : list pyval) :
  xbind (mmap (py_convert_name conv) l) (fun r => XOk (length r)) =
  if forallb is_str l then XOk (length l) else XErr (Py AttributeError).
Proof.
  induction l as [|x l IH]; [reflexivity|].
  cbn [mmap forallb]. destruct x; cbn [py_convert_name is_str xbind andb]; try reflexivity.
  destruct (mmap (py_convert_name conv) l) as [r|e]; cbn [xbind] in *.
  - destruct (forallb is_str l); [|discriminate]. injection IH as IH. cbn [length]. rewrite IH. reflexivity.
  - destruct (forallb is_str l); [discriminate|]. exact IH.
Qed.
Lemma mmap_convert_chars (conv : string -> string) (s : string) :
  exists r, mmap (py_convert_name conv) (str_chars s) = XOk r /\ length r = String.length s.
Proof.
  induction s as [|a s [r [H L]]]; [exists []; split; reflexivity|].
  cbn [str_chars mmap py_convert_name xbind]. rewrite H. cbn [xbind]. eexists. split; [reflexivity|]. simpl. now rewrite L.
Qed.

(* what a successful / failing set_target_lists says about the model's count *)
Lemma target_count_of_labels (count : xres nat) (v : pyval) (n_all : nat) :
  count = of_res (target_count v n_all) ->
  forall B (k : nat -> res B),
  of_res (bind (target_count v n_all) k) = xbind count (fun n => of_res (k n)).
Proof. intros -> B k. destruct (target_count v n_all); reflexivity. Qed.

(* ---- per-frame configurations ------------------------------------------------------------------------------------------- *)
Definition critical_keys : list string :=
  ["target_labels"; "ignore_attributes"; "max_x_position_list"; "max_y_position_list"; "max_distance_list";
   "min_distance_list"; "min_point_numbers"; "confidence_threshold_list"; "target_uuids"].
Definition passfail_keys : list string := ["target_labels"; "matching_threshold_list"; "confidence_threshold_list"].

Definition critical_params_of (labels : list string) (k : critical) (a : cfg) : odict :=
  [("target_labels", DLabels labels);
   ("ignore_attributes", DPy (get "ignore_attributes" a));
   ("max_x_position_list", DPy (opt_py (k_max_x k)));
   ("max_y_position_list", DPy (opt_py (k_max_y k)));
   ("max_distance_list", DPy (opt_py (k_max_dist k)));
   ("min_distance_list", DPy (opt_py (k_min_dist k)));
   ("min_point_numbers", DPy (opt_py (k_min_points k)));
   ("confidence_threshold_list", DPy (opt_py (k_conf k)));
   ("target_uuids", DPy (get "target_uuids" a))].

(* the part of [critical_accept] / [passfail_accept] after the target labels are known *)
Definition critical_rest (is2d : bool) (n : nat) (a : cfg) : res critical :=
  let mx := get "max_x_position_list" a in
  let my := get "max_y_position_list" a in
  let md := get "max_distance_list" a in
  let mnd := get "min_distance_list" a in
  bind (if py_truthy mx && py_truthy my then
          bind (check_thresholds mx n) (fun xl => bind (check_thresholds my n) (fun yl =>
          Ok (Some xl, Some yl, None, None)))
        else if py_truthy md && py_truthy mnd then
          bind (check_thresholds md n) (fun dl => bind (check_thresholds mnd n) (fun el =>
          Ok (None, None, Some dl, Some el)))
        else if is2d then Ok no_range
        else Err RuntimeError) (fun rg =>
  bind (opt_check (get "min_point_numbers" a) n) (fun minp =>
  bind (opt_check (get "confidence_threshold_list" a) n) (fun conf =>
  match rg with
  | (x, y, d, e) => Ok {| k_n := n; k_max_x := x; k_max_y := y; k_max_dist := d; k_min_dist := e;
                         k_min_points := minp; k_conf := conf |}
  end))).
Lemma critical_accept_factors is2d n_all a :
  critical_accept is2d n_all a = bind (target_count (get "target_labels" a) n_all) (fun n => critical_rest is2d n a).
Proof. reflexivity. Qed.

Definition passfail_rest (n : nat) (a : cfg) : res passfail :=
  bind (opt_check (get "matching_threshold_list" a) n) (fun m =>
  bind (opt_check (get "confidence_threshold_list" a) n) (fun conf =>
  Ok {| p_n := n; p_matching := m; p_conf := conf |})).
Lemma passfail_accept_factors n_all a :
  passfail_accept n_all a = bind (target_count (get "target_labels" a) n_all) (fun n => passfail_rest n a).
Proof. reflexivity. Qed.

(* ---- the tactic ------------------------------------------------------------------------------------------------------------ *)
(* a normalised flat list is never None (`min_point_numbers is None` is tested AFTER the normalisation) *)
Lemma set_thresholds_flat_not_none v n w : set_thresholds v n false = Ok w -> is_none w = false.
Proof. intros H. destruct (set_thresholds_shape_flat _ _ _ H) as [tup [l [-> _]]]. destruct tup; reflexivity. Qed.

Lemma mmap_convert_chars' (conv : string -> string) (s : string) :
  xbind (mmap (py_convert_name conv) (str_chars s)) (fun r => XOk (length r)) = XOk (String.length s).
Proof. destruct (mmap_convert_chars conv s) as [r [H L]]. rewrite H. cbn [xbind]. now rewrite L. Qed.

(* the dictionary operations of the generated file -> the model's lookup / get *)
Ltac cfgnorm :=
  cbv zeta;
  rewrite ?dict_get_get;
  rewrite ?dict_get_get_or;
  rewrite ?dict_getitem_lookup, ?dict_getitem_or_lookup, ?dict_mem_lookup.

(* both sides perform the same tests on the same ATOMS (is_none (get k c), set_thresholds (get k c) n false, the result of
   set_target_lists, ...), in the same order: compute, rewrite with what is already known, split the test at the head *)
Lemma is_none_true v : is_none v = true -> v = NoneV.
Proof. destruct v; simpl; congruence. Qed.
(* a test that was decided earlier and shows up again once a bound variable is replaced by its value *)
Ltac chyps := repeat match goal with H : is_none ?x = false |- context [is_none ?x] => rewrite H end.
Ltac cties :=
  try match goal with |- context [Gen_set_thresholds.f] => rewrite !set_thresholds_tie end;
  try match goal with |- context [Gen_check_thresholds.f] => rewrite !check_thresholds_tie end.
Ltac cnorm :=
  cbv beta iota zeta delta [xbind of_res bind fst snd andb orb negb
                            f_max_x f_max_y f_max_dist f_min_dist f_radii f_min_points f_conf
                            k_n k_max_x k_max_y k_max_dist k_min_dist k_min_points k_conf p_n p_matching p_conf];
  change (is_none NoneV) with true;
  cties; chyps.
Ltac cdestruct s :=
  lazymatch s with
  | set_thresholds _ _ false => let H := fresh "Hst" in destruct s eqn:H; [apply set_thresholds_flat_not_none in H|]
  | is_none ?x => let H := fresh "Hn" in destruct s eqn:H; [apply is_none_true in H; rewrite ?H|]
  | _ => destruct s eqn:?
  end.
Ltac csplit :=
  match goal with
  | |- ?L = _ => let s := xhead L in cdestruct s
  | |- _ = ?R => let s := xhead R in cdestruct s
  end.
Ltac cabsurd :=
  match goal with
  | H : true = false |- _ => discriminate H
  | H : false = true |- _ => discriminate H
  | H : ?x <> ?x |- _ => exfalso; apply H; reflexivity
  end.
Ltac cauto := repeat (cnorm; first [ reflexivity | cabsurd | csplit ]).
Ltac ctie := cfgnorm; timeout 600 (solve [ cauto ]).

(* a loop of appends whose element can raise is the comprehension *)
Lemma mfold_append_mmap {A B} (f : A -> xres B) (l : list A) (s : list B) :
  mfold (fun acc x => xbind (f x) (fun v => XOk (acc ++ [v]))) l s = xbind (mmap f l) (fun r => XOk (s ++ r)).
Proof.
  revert s. induction l as [|a l IH]; intros s; cbn [mfold mmap xbind]; [now rewrite app_nil_r|].
  destruct (f a) as [b|e]; cbn [xbind]; [|reflexivity]. rewrite IH.
  destruct (mmap f l); cbn [xbind]; [|reflexivity]. now rewrite <- app_assoc.
Qed.
Lemma flat_map_single {A} (l : list A) : flat_map (fun x => [x]) l = l.
Proof. induction l; simpl; congruence. Qed.

(* set_target_lists: the length of the result (a str is iterated character by character; a non-str name has no .lower()) *)
Ltac labels_tie :=
  xnorm; rewrite ?str_chars_length;
  repeat (first [ reflexivity
                | rewrite map_length
                | rewrite mfold_append_mmap
                | rewrite flat_map_single
                | rewrite app_nil_l
                | rewrite (mmap_ext _ (py_convert_name _) _ (fun x _ => eq_refl))
                | rewrite mmap_convert_chars'
                | rewrite mmap_convert_length
                | xsplit_head ]; xnorm).
