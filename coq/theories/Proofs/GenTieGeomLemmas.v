(* Helper definitions and tactics of Props/GenTieGeom.v (generated heading / box-score arithmetic = hand models Model/Heading.v,
   Model/Geom2.v).

   Of Gen/decisions_geom.v only PART 1 is used here (the fixed text: exceptions and the error monad); no generated function is
   mentioned (they are regenerated on every run; this file is not).

   1. EQUALITY OF RESULTS.  The arithmetic of the source is rendered over Q, whose equality is the SETOID equality [==] (2 # 4 and
      1 # 2 are different terms): the equations of Props/GenTieGeom.v are stated with [=r=] = "both sides raise the same exception, or
      both return and the returned rationals are [==]" (and its variants for an optional triple / an optional rational).  Where an
      equation is Leibniz ([=]) it is stated so.
   2. the one generic tactic [gtie]: unfold, case-split every comparison / option / boolean on both sides, close every leaf by
      reflexivity / linear arithmetic / field. *)
From Coq Require Import List Bool ZArith QArith.
From PE Require Import Base.QUtil.
From PE Require Import Model.Heading Model.Geom2.
From PE Require Gen.decisions_geom.
Import Gen.decisions_geom.
Open Scope Q_scope.

(* ---- 1. results up to == --------------------------------------------------------------------------------------------------------------- *)
Definition rel_res {A} (R : A -> A -> Prop) (x y : res A) : Prop :=
  match x, y with
  | Ok a, Ok b => R a b
  | Err e, Err e' => e = e'
  | _, _ => False
  end.
Definition rel_opt {A} (R : A -> A -> Prop) (x y : option A) : Prop :=
  match x, y with
  | Some a, Some b => R a b
  | None, None => True
  | _, _ => False
  end.
Definition Qeq3 (x y : Q * Q * Q) : Prop :=
  fst (fst x) == fst (fst y) /\ snd (fst x) == snd (fst y) /\ snd x == snd y.
Notation "x =r= y" := (rel_res Qeq x y) (at level 70, no associativity).

Lemma rel_res_ok_inv {A} (R : A -> A -> Prop) (x : res A) (b : A) : rel_res R x (Ok b) -> exists a, x = Ok a /\ R a b.
Proof. destruct x; simpl; [eauto | tauto]. Qed.
Lemma rel_res_err_inv {A} (R : A -> A -> Prop) (x : res A) (e : exn) : rel_res R x (Err e) -> x = Err e.
Proof. destruct x; simpl; [tauto | congruence]. Qed.
Lemma rel_res_refl_eq {A} (R : A -> A -> Prop) (x y : res A) : (forall a, R a a) -> x = y -> rel_res R x y.
Proof. intros H ->. destruct y; simpl; auto. Qed.

(* ---- 2. the generic tactic ----------------------------------------------------------------------------------------------------------- *)
Ltac g_destruct s :=
  lazymatch s with
  | Qltb ?a ?b => destruct (Qltb_spec a b)
  | Qleb ?a ?b => destruct (Qleb_spec a b)
  | Qeqb ?a ?b => destruct (Qeqb_spec a b)
  | _ => destruct s eqn:?
  end.

(* a scrutinee that contains no further match (innermost first; bound variables are skipped by `context`) *)
Ltac g_split :=
  match goal with
  | |- context [match ?s with _ => _ end] =>
      lazymatch s with
      | context [match _ with _ => _ end] => fail
      | _ => g_destruct s
      end
  end.

(* everything, down to comparisons of rationals (fst / snd / yaw_of stay folded: atoms for lra) *)
Ltac g_unfold :=
  cbv beta iota zeta delta [bind qabs qmax qmin rel_res rel_opt Qeq3 negb andb orb option_map
                            clip yaw_error wrap_yaw heading_fold heading_bev_ego heading_bev_via
                            aph_weight_h aph_weight_ego aph_weight_map aph_weight
                            height_intersection iou iou3 iou2_box iou3_box iou_roi];
  cbn [fst snd].
(* the same with the callees' models kept folded (their values are related to the callees' results by hypotheses) *)
Ltac g_unfold_top :=
  cbv beta iota zeta delta [bind qabs qmax qmin rel_res rel_opt Qeq3 negb andb orb option_map
                            yaw_error aph_weight_h aph_weight_ego aph_weight_map aph_weight iou iou3 iou2_box iou3_box iou_roi];
  cbn [fst snd].

Ltac g_leaf :=
  first [ reflexivity
        | exact I
        | lra
        | exfalso; lra
        | congruence
        | exfalso; congruence
        | repeat split; first [ reflexivity | lra ] ].

Ltac g_go := g_unfold; first [ g_leaf | g_split; g_go ].
Ltac g_go_top := g_unfold_top; first [ g_leaf | g_split; g_go_top ].
Ltac gtie := intros; timeout 120 (solve [ g_go ]).
Ltac gtie_top := intros; timeout 120 (solve [ g_go_top ]).

(* the equation of a callee, used inside the proof of a caller: from  callee args =r= Ok m  get a value v with callee args = Ok v
   and v == m, rewrite the call, keep v == m for lra *)
Ltac use_callee H :=
  let v := fresh "v" in let E := fresh "E" in let Q := fresh "Q" in
  destruct (rel_res_ok_inv _ _ _ H) as (v & E & Q); rewrite E; clear E; cbn [bind].
Ltac use_callee_as H v Hv :=
  let E := fresh "E" in
  destruct (rel_res_ok_inv _ _ _ H) as (v & E & Hv); rewrite E; clear E; cbn [bind].
