(* Proofs about Model/SlerpR.v (pyquaternion's slerp over the reals).  Uses Coq's axiomatised real numbers: the theorems
   of this file depend on the standard library's real-number axioms (ClassicalDedekindReals.sig_forall_dec, sig_not_dec,
   FunctionalExtensionality.functional_extensionality_dep) and on nothing else -- see Props/C17Slerp.v. *)
From Coq Require Import Reals Lra Psatz.
From PE Require Import Model.SlerpR.
Open Scope R_scope.

(* ------------------------------------------------------------------------------------------ *)
(* quaternion algebra *)
Lemma quat_eq : forall a b, qw a = qw b -> qx a = qx b -> qy a = qy b -> qz a = qz b -> a = b.
Proof. intros [aw ax ay az] [bw bx by_ bz]; simpl; intros; subst; reflexivity. Qed.

Lemma qneg_involutive : forall a, qneg (qneg a) = a.
Proof. intros [w x y z]; unfold qneg; simpl; f_equal; ring. Qed.

Lemma qdot_comm : forall a b, qdot a b = qdot b a.
Proof. intros; unfold qdot; ring. Qed.

Lemma qdot_neg_l : forall a b, qdot (qneg a) b = - qdot a b.
Proof. intros [w x y z] b; unfold qdot, qneg; simpl; ring. Qed.

Lemma qnorm2_neg : forall a, qnorm2 (qneg a) = qnorm2 a.
Proof. intros [w x y z]; unfold qnorm2, qdot, qneg; simpl; ring. Qed.

Lemma qnorm2_nonneg : forall a, 0 <= qnorm2 a.
Proof. intros [w x y z]; unfold qnorm2, qdot; simpl; nra. Qed.

Lemma qnorm2_scale : forall k a, qnorm2 (qscale k a) = k * k * qnorm2 a.
Proof. intros k [w x y z]; unfold qnorm2, qdot, qscale; simpl; ring. Qed.

Lemma qdot_scale_r : forall k a b, qdot a (qscale k b) = k * qdot a b.
Proof. intros k a [w x y z]; unfold qdot, qscale; simpl; ring. Qed.

Lemma qdot_scale_l : forall k a b, qdot (qscale k a) b = k * qdot a b.
Proof. intros k [w x y z] b; unfold qdot, qscale; simpl; ring. Qed.

Lemma qnorm2_comb : forall a b p q,
  qnorm2 (qadd (qscale a p) (qscale b q)) = a * a * qnorm2 p + b * b * qnorm2 q + 2 * a * b * qdot p q.
Proof. intros a b [pw px py pz] [w x y z]; unfold qnorm2, qdot, qadd, qscale; simpl; ring. Qed.

Lemma qdot_comb_r : forall a b p q u,
  qdot u (qadd (qscale a p) (qscale b q)) = a * qdot u p + b * qdot u q.
Proof. intros a b [pw px py pz] [w x y z] [uw ux uy uz]; unfold qdot, qadd, qscale; simpl; ring. Qed.

(* Lagrange's identity in dimension 4, hence Cauchy-Schwarz *)
Lemma lagrange4 : forall a b,
  qnorm2 a * qnorm2 b - qdot a b * qdot a b =
    (qw a * qx b - qx a * qw b) * (qw a * qx b - qx a * qw b) + (qw a * qy b - qy a * qw b) * (qw a * qy b - qy a * qw b)
  + (qw a * qz b - qz a * qw b) * (qw a * qz b - qz a * qw b) + (qx a * qy b - qy a * qx b) * (qx a * qy b - qy a * qx b)
  + (qx a * qz b - qz a * qx b) * (qx a * qz b - qz a * qx b) + (qy a * qz b - qz a * qy b) * (qy a * qz b - qz a * qy b).
Proof. intros [aw ax ay az] [bw bx by_ bz]; unfold qnorm2, qdot; simpl; ring. Qed.

Lemma cauchy_schwarz_unit : forall a b, qunit a -> qunit b -> -1 <= qdot a b <= 1.
Proof.
  intros a b Ha Hb. pose proof (lagrange4 a b) as HL. unfold qunit in *. rewrite Ha, Hb in HL.
  assert (Hsq : qdot a b * qdot a b <= 1).
  { assert (0 <= 1 * 1 - qdot a b * qdot a b); [|lra]. rewrite HL.
    repeat apply Rplus_le_le_0_compat; apply Rle_0_sqr. }
  split; nra.
Qed.

Lemma qnormalise_unit : forall a, qunit a -> qnormalise a = a.
Proof.
  intros [w x y z] H. unfold qnormalise, qunit in *. rewrite H, sqrt_1, Rinv_1.
  unfold qscale; simpl; f_equal; ring.
Qed.

Lemma qnormalise_is_unit : forall a, 0 < qnorm2 a -> qunit (qnormalise a).
Proof.
  intros a H. unfold qunit, qnormalise. rewrite qnorm2_scale.
  pose proof (sqrt_lt_R0 _ H) as Hs. pose proof (sqrt_sqrt (qnorm2 a) (Rlt_le _ _ H)) as Hss.
  set (s := sqrt (qnorm2 a)) in *. rewrite <- Hss. field. lra.
Qed.

Lemma qnormalise_scale : forall a, 0 < qnorm2 a -> exists k, 0 < k /\ qnormalise a = qscale k a.
Proof.
  intros a H. exists (/ sqrt (qnorm2 a)). split; [|reflexivity]. apply Rinv_0_lt_compat, sqrt_lt_R0, H.
Qed.

(* ------------------------------------------------------------------------------------------ *)
(* clip *)
Lemma clip01_id : forall t, 0 <= t <= 1 -> clip01 t = t.
Proof. intros t [H0 H1]. unfold clip01. rewrite (Rmin_right 1 t H1). apply Rmax_right, H0. Qed.

Lemma clip01_range : forall x, 0 <= clip01 x <= 1.
Proof.
  intros x. unfold clip01. split; [apply Rmax_l|]. apply Rmax_lub; [lra|apply Rmin_l].
Qed.

Lemma clip01_idem : forall x, clip01 (clip01 x) = clip01 x.
Proof. intros; apply clip01_id, clip01_range. Qed.

(* ------------------------------------------------------------------------------------------ *)
(* the sign flip *)
Lemma flip_start_unit : forall q0 q1, qunit q0 -> qunit (flip_start q0 q1).
Proof. intros q0 q1 H. unfold flip_start. destruct (Rlt_dec _ _); [unfold qunit; rewrite qnorm2_neg|]; exact H. Qed.

Lemma flip_dot_is_dot : forall q0 q1, flip_dot q0 q1 = qdot (flip_start q0 q1) q1.
Proof. intros. unfold flip_dot, flip_start. destruct (Rlt_dec _ _); [rewrite qdot_neg_l|]; reflexivity. Qed.

Lemma flip_dot_nonneg : forall q0 q1, 0 <= flip_dot q0 q1.
Proof. intros. unfold flip_dot. destruct (Rlt_dec _ _); lra. Qed.

Lemma flip_start_same_rotation : forall q0 q1, same_rotation (flip_start q0 q1) q0.
Proof. intros. unfold flip_start, same_rotation. destruct (Rlt_dec _ _); [right|left]; reflexivity. Qed.

Lemma flip_dot_range : forall q0 q1, qunit q0 -> qunit q1 -> 0 <= flip_dot q0 q1 <= 1.
Proof.
  intros q0 q1 H0 H1. split; [apply flip_dot_nonneg|]. rewrite flip_dot_is_dot.
  apply cauchy_schwarz_unit; [apply flip_start_unit, H0|exact H1].
Qed.

Lemma flip_neg : forall q0 q1, qdot q0 q1 <> 0 ->
  flip_start (qneg q0) q1 = flip_start q0 q1 /\ flip_dot (qneg q0) q1 = flip_dot q0 q1.
Proof.
  intros q0 q1 Hd. unfold flip_start, flip_dot. rewrite qdot_neg_l.
  destruct (Rlt_dec (- qdot q0 q1) 0), (Rlt_dec (qdot q0 q1) 0); try lra; rewrite ?qneg_involutive; split; try reflexivity; lra.
Qed.

(* ------------------------------------------------------------------------------------------ *)
(* the sine branch *)
Section SineBranch.
  Variables (p q1 : quat) (t : R).
  Hypothesis Hp : qunit p.
  Hypothesis Hq : qunit q1.
  Let d := qdot p q1.
  Hypothesis Hd0 : 0 <= d.
  Hypothesis Hd1 : d <= slerp_switch.
  Let th0 := acos d.
  Let th := th0 * t.
  Let s0 := cos th - d * sin th / sin th0.
  Let s1 := sin th / sin th0.

  Lemma sb_d_range : -1 <= d <= 1.
  Proof. unfold slerp_switch in Hd1. lra. Qed.

  Lemma sb_cos_th0 : cos th0 = d.
  Proof. apply cos_acos, sb_d_range. Qed.

  Lemma sb_th0_range : 0 < th0 <= PI / 2.
  Proof.
    unfold th0. split.
    - assert (Hlt : -1 < d < 1) by (unfold slerp_switch in Hd1; lra).
      apply (acos_bound_lt d Hlt).
    - destruct (Rle_lt_dec (acos d) (PI / 2)) as [H|H]; [exact H|exfalso].
      assert (Hb := acos_bound d).
      assert (Hc : cos (acos d) < 0).
      { apply cos_lt_0; [exact H|]. pose proof PI_RGT_0. lra. }
      rewrite (cos_acos d sb_d_range) in Hc. lra.
  Qed.

  Lemma sb_sin_th0_pos : 0 < sin th0.
  Proof. pose proof sb_th0_range. apply sin_gt_0; pose proof PI_RGT_0; lra. Qed.

  Lemma sb_sin2 : sin th0 * sin th0 = 1 - d * d.
  Proof. pose proof (sin2_cos2 th0) as H. unfold Rsqr in H. rewrite sb_cos_th0 in H. lra. Qed.

  Lemma sb_norm : qnorm2 (qadd (qscale s0 p) (qscale s1 q1)) = 1.
  Proof.
    rewrite qnorm2_comb. unfold qunit in Hp, Hq. rewrite Hp, Hq. fold d.
    pose proof sb_sin_th0_pos as Hs. pose proof sb_sin2 as H2. pose proof (sin2_cos2 th) as H1. unfold Rsqr in H1.
    unfold s0, s1. set (S := sin th0) in *. set (c := cos th) in *. set (s := sin th) in *.
    assert (HS : S <> 0) by lra.
    replace ((c - d * s / S) * (c - d * s / S) * 1 + s / S * (s / S) * 1 + 2 * (c - d * s / S) * (s / S) * d)
      with (c * c + s * s * (1 - d * d) / (S * S)) by (field; exact HS).
    rewrite <- H2. replace (s * s * (S * S) / (S * S)) with (s * s) by (field; exact HS). lra.
  Qed.

  Lemma sb_dot_start : qdot p (qadd (qscale s0 p) (qscale s1 q1)) = cos (t * th0).
  Proof.
    rewrite qdot_comb_r. unfold qunit, qnorm2 in Hp. rewrite Hp. fold d. unfold s0, s1, th.
    pose proof sb_sin_th0_pos as Hs. rewrite (Rmult_comm t th0). field. lra.
  Qed.

  Lemma sb_dot_end : qdot (qadd (qscale s0 p) (qscale s1 q1)) q1 = cos ((1 - t) * th0).
  Proof.
    rewrite qdot_comm, qdot_comb_r. unfold qunit, qnorm2 in Hq. rewrite Hq, (qdot_comm q1 p). fold d.
    pose proof sb_sin_th0_pos as Hs. pose proof sb_sin2 as H2.
    replace ((1 - t) * th0) with (th0 - th) by (unfold th; ring). rewrite cos_minus, sb_cos_th0.
    unfold s0, s1. set (S := sin th0) in *. set (c := cos th) in *. set (s := sin th) in *.
    assert (HS : S <> 0) by lra.
    replace ((c - d * s / S) * d + s / S * 1) with (d * c + s * (1 - d * d) / S) by (field; exact HS).
    rewrite <- H2. field. exact HS.
  Qed.

  (* the coefficient of the start quaternion in the form that shows the symmetry of the formula *)
  Lemma sb_s0_sin : s0 = sin ((1 - t) * th0) / sin th0.
  Proof.
    pose proof sb_sin_th0_pos as Hs.
    replace ((1 - t) * th0) with (th0 - th) by (unfold th; ring). rewrite sin_minus, sb_cos_th0.
    unfold s0. field. lra.
  Qed.

  Lemma sb_coeffs_nonneg : 0 <= t <= 1 -> 0 <= s0 /\ 0 <= s1.
  Proof.
    intros [Ht0 Ht1]. pose proof sb_th0_range as [Hth0 Hth1]. pose proof sb_sin_th0_pos as Hs. pose proof PI_RGT_0 as Hpi.
    split.
    - rewrite sb_s0_sin. apply Rmult_le_pos; [|left; apply Rinv_0_lt_compat, Hs].
      apply sin_ge_0; nra.
    - unfold s1. apply Rmult_le_pos; [|left; apply Rinv_0_lt_compat, Hs].
      apply sin_ge_0; unfold th; nra.
  Qed.
End SineBranch.

(* ------------------------------------------------------------------------------------------ *)
(* the linear branch *)
Section LinearBranch.
  Variables (p q1 : quat) (t : R).
  Hypothesis Hp : qunit p.
  Hypothesis Hq : qunit q1.
  Let d := qdot p q1.
  Hypothesis Hd : slerp_switch < d.
  Hypothesis Ht : 0 <= t <= 1.
  Let v := qadd p (qscale t (qadd q1 (qneg p))).

  Lemma lb_as_comb : v = qadd (qscale (1 - t) p) (qscale t q1).
  Proof. unfold v. destruct p, q1; unfold qadd, qscale, qneg; simpl; f_equal; ring. Qed.

  Lemma lb_norm2 : qnorm2 v = (1 - t) * (1 - t) + t * t + 2 * (1 - t) * t * d.
  Proof. rewrite lb_as_comb, qnorm2_comb. unfold qunit in *. rewrite Hp, Hq. fold d. ring. Qed.

  Lemma lb_norm2_pos : 0 < qnorm2 v.
  Proof.
    rewrite lb_norm2. unfold slerp_switch in Hd.
    assert (H1 : 0 <= (1 - t) * t) by (apply Rmult_le_pos; lra).
    assert (H2 : 0 <= (1 - t) * t * d) by (apply Rmult_le_pos; lra).
    assert (H3 : 0 < (1 - t) * (1 - t) + t * t) by nra.
    lra.
  Qed.

  Lemma lb_norm2_le1 : qnorm2 v <= 1.
  Proof.
    rewrite lb_norm2. assert (Hd1 : d <= 1) by (apply cauchy_schwarz_unit; assumption).
    assert (H1 : 0 <= (1 - t) * t) by (apply Rmult_le_pos; lra).
    assert (H2 : (1 - t) * t * d <= (1 - t) * t * 1) by (apply Rmult_le_compat_l; lra).
    nra.
  Qed.

  Lemma lb_unit : qunit (qnormalise v).
  Proof. apply qnormalise_is_unit, lb_norm2_pos. Qed.

  (* the result is at least as close to either end as the ends are to each other *)
  Lemma lb_between : d <= qdot p (qnormalise v) /\ d <= qdot (qnormalise v) q1.
  Proof.
    pose proof lb_norm2_pos as Hpos. pose proof lb_norm2_le1 as Hle.
    assert (Hd1 : d <= 1) by (apply cauchy_schwarz_unit; assumption).
    assert (Hd0 : 0 < d) by (unfold slerp_switch in Hd; lra).
    unfold qnormalise. pose proof (sqrt_lt_R0 _ Hpos) as Hs.
    assert (Hs1 : sqrt (qnorm2 v) <= 1) by (rewrite <- sqrt_1; apply sqrt_le_1; lra).
    set (s := sqrt (qnorm2 v)) in *.
    assert (Hk : 1 <= / s) by (rewrite <- Rinv_1; apply Rinv_le_contravar; lra).
    rewrite qdot_scale_r, qdot_scale_l, (qdot_comm v q1), lb_as_comb, !qdot_comb_r.
    unfold qunit, qnorm2 in Hp, Hq. rewrite Hp, Hq, (qdot_comm q1 p). fold d.
    assert (Hm1 : d <= (1 - t) * 1 + t * d) by nra.
    assert (Hm2 : d <= (1 - t) * d + t * 1) by nra.
    assert (Hmul : forall m, d <= m -> d <= / s * m).
    { intros m Hm. assert (0 <= m) by lra. assert (1 * m <= / s * m) by (apply Rmult_le_compat_r; lra). lra. }
    split; apply Hmul; assumption.
  Qed.
End LinearBranch.

(* ------------------------------------------------------------------------------------------ *)
(* slerp as a whole *)
Lemma slerp_clip : forall q0 q1 a, slerp q0 q1 a = slerp q0 q1 (clip01 a).
Proof. intros. unfold slerp. rewrite clip01_idem. reflexivity. Qed.

Theorem slerp_unit : forall q0 q1 a, qunit q0 -> qunit q1 -> qunit (slerp q0 q1 a).
Proof.
  intros q0 q1 a H0 H1. unfold slerp.
  pose proof (flip_start_unit q0 q1 H0) as Hp. pose proof (clip01_range a) as Ht.
  destruct (Rlt_dec slerp_switch (flip_dot q0 q1)) as [Hd|Hd].
  - apply lb_unit; try assumption. rewrite <- flip_dot_is_dot. exact Hd.
  - rewrite flip_dot_is_dot in *. apply Rnot_lt_le in Hd.
    pose proof (flip_dot_nonneg q0 q1) as Hd0. rewrite flip_dot_is_dot in Hd0.
    rewrite qnormalise_unit; apply (sb_norm _ _ _ Hp H1 Hd0 Hd).
Qed.

(* in the sine branch the result is the point of the great arc from the (flipped) start to the end at the proportional angle *)
Theorem slerp_sine_branch_arc : forall q0 q1 t, qunit q0 -> qunit q1 -> 0 <= t <= 1 ->
  flip_dot q0 q1 <= slerp_switch ->
  let th0 := acos (flip_dot q0 q1) in
  0 < th0 <= PI / 2 /\
  qdot (flip_start q0 q1) (slerp q0 q1 t) = cos (t * th0) /\
  qdot (slerp q0 q1 t) q1 = cos ((1 - t) * th0).
Proof.
  intros q0 q1 t H0 H1 Ht Hd th0. unfold th0, slerp. rewrite (clip01_id t Ht).
  pose proof (flip_start_unit q0 q1 H0) as Hp.
  pose proof (flip_dot_nonneg q0 q1) as Hd0.
  destruct (Rlt_dec slerp_switch (flip_dot q0 q1)) as [Hc|_]; [lra|].
  rewrite flip_dot_is_dot in *.
  rewrite qnormalise_unit by (apply (sb_norm _ _ _ Hp H1 Hd0 Hd)).
  split; [apply (sb_th0_range _ _ Hd0 Hd)|].
  split; [apply sb_dot_start|apply sb_dot_end]; assumption.
Qed.

Theorem slerp_linear_branch_between : forall q0 q1 t, qunit q0 -> qunit q1 -> 0 <= t <= 1 ->
  slerp_switch < flip_dot q0 q1 ->
  flip_dot q0 q1 <= qdot (flip_start q0 q1) (slerp q0 q1 t) /\ flip_dot q0 q1 <= qdot (slerp q0 q1 t) q1.
Proof.
  intros q0 q1 t H0 H1 Ht Hd. unfold slerp. rewrite (clip01_id t Ht).
  destruct (Rlt_dec slerp_switch (flip_dot q0 q1)) as [_|Hc]; [|lra].
  rewrite flip_dot_is_dot in *. apply lb_between; try assumption. apply flip_start_unit, H0.
Qed.

Theorem slerp_start : forall q0 q1, qunit q0 -> qunit q1 -> slerp q0 q1 0 = flip_start q0 q1.
Proof.
  intros q0 q1 H0 H1. unfold slerp. rewrite (clip01_id 0) by lra.
  pose proof (flip_start_unit q0 q1 H0) as Hp. set (p := flip_start q0 q1) in *.
  destruct (Rlt_dec _ _).
  - replace (qadd p (qscale 0 (qadd q1 (qneg p)))) with p; [apply qnormalise_unit, Hp|].
    apply quat_eq; simpl; ring.
  - rewrite Rmult_0_r, sin_0, cos_0.
    match goal with |- qnormalise ?v = _ => replace v with p; [apply qnormalise_unit, Hp|] end.
    apply quat_eq; simpl; unfold Rdiv; ring.
Qed.

Theorem slerp_start_same_rotation : forall q0 q1, qunit q0 -> qunit q1 -> same_rotation (slerp q0 q1 0) q0.
Proof. intros. rewrite slerp_start by assumption. apply flip_start_same_rotation. Qed.

Theorem slerp_end : forall q0 q1, qunit q0 -> qunit q1 -> slerp q0 q1 1 = q1.
Proof.
  intros q0 q1 H0 H1. unfold slerp. rewrite (clip01_id 1) by lra.
  pose proof (flip_start_unit q0 q1 H0) as Hp.
  pose proof (flip_dot_nonneg q0 q1) as Hd0.
  destruct (Rlt_dec _ _) as [Hd|Hd].
  - match goal with |- qnormalise ?v = _ => replace v with q1; [apply qnormalise_unit, H1|] end.
    apply quat_eq; simpl; ring.
  - apply Rnot_lt_le in Hd. rewrite flip_dot_is_dot in *.
    pose proof (sb_sin_th0_pos _ _ Hd0 Hd) as Hs. pose proof (sb_cos_th0 _ _ Hd0 Hd) as Hc.
    rewrite Rmult_1_r, Hc.
    set (S := sin _) in *. set (d := qdot _ _) in *.
    match goal with |- qnormalise ?v = _ => replace v with q1; [apply qnormalise_unit, H1|] end.
    apply quat_eq; simpl; field; lra.
Qed.

(* the sign of the start quaternion is irrelevant (same rotation), except in the antipodal case dot = 0 *)
Theorem slerp_neg_start : forall q0 q1 a, qdot q0 q1 <> 0 -> slerp (qneg q0) q1 a = slerp q0 q1 a.
Proof. intros q0 q1 a Hd. unfold slerp. destruct (flip_neg q0 q1 Hd) as [-> ->]. reflexivity. Qed.

(* ------------------------------------------------------------------------------------------ *)
(* rotations about z: slerp of two yaw rotations is the yaw rotation at the proportional angle of the SHORTER arc *)
Lemma yawq_unit : forall a, qunit (yawq a).
Proof.
  intros a. unfold qunit, qnorm2, qdot, yawq; simpl. pose proof (sin2_cos2 (a / 2)) as H. unfold Rsqr in H. lra.
Qed.

Lemma yawq_dot : forall a b, qdot (yawq a) (yawq b) = cos ((b - a) / 2).
Proof.
  intros. unfold qdot, yawq; simpl. replace ((b - a) / 2) with (b / 2 - a / 2) by field. rewrite cos_minus. ring.
Qed.

Lemma yawq_neg : forall a, qneg (yawq a) = yawq (a + 2 * PI).
Proof.
  intros a. unfold qneg, yawq; simpl. replace ((a + 2 * PI) / 2) with (a / 2 + PI) by field.
  rewrite neg_cos, neg_sin. apply quat_eq; simpl; ring.
Qed.

Lemma yawq_neg' : forall a, qneg (yawq a) = yawq (a - 2 * PI).
Proof.
  intros a. pose proof (yawq_neg (a - 2 * PI)) as H.
  replace (a - 2 * PI + 2 * PI) with a in H by ring.
  rewrite <- H. apply qneg_involutive.
Qed.

Lemma cos_half_nonneg : forall x, - PI <= x <= PI -> 0 <= cos (x / 2).
Proof. intros x H. apply cos_ge_0; lra. Qed.

Lemma cos_half_neg : forall x, PI < x < 3 * PI -> cos (x / 2) < 0.
Proof. intros x H. apply cos_lt_0; lra. Qed.

(* acos (cos x) = |x| on [-pi, pi], used through sin/cos of the multiples only *)
Lemma acos_cos_abs : forall x, - PI <= x <= PI -> acos (cos x) = Rabs x.
Proof.
  intros x H. destruct (Rle_dec 0 x) as [Hx|Hx].
  - rewrite Rabs_right by lra. apply acos_cos; lra.
  - rewrite Rabs_left by lra. rewrite <- cos_neg. apply acos_cos; lra.
Qed.

(* the key trigonometric identity, with a SIGNED half angle h <> 0 (mod pi) *)
Lemma yaw_comb_identity : forall al h u, sin h <> 0 ->
  (cos u - cos h * sin u / sin h) * cos al + sin u / sin h * cos (al + h) = cos (al + u) /\
  (cos u - cos h * sin u / sin h) * sin al + sin u / sin h * sin (al + h) = sin (al + u).
Proof.
  intros al h u Hs. rewrite !cos_plus, !sin_plus.
  pose proof (sin2_cos2 h) as H. unfold Rsqr in H.
  split.
  - replace ((cos u - cos h * sin u / sin h) * cos al + sin u / sin h * (cos al * cos h - sin al * sin h))
      with (cos al * cos u - sin al * sin u * (sin h * sin h) / (sin h * sin h)) by (field; exact Hs).
    field. exact Hs.
  - replace ((cos u - cos h * sin u / sin h) * sin al + sin u / sin h * (sin al * cos h + cos al * sin h))
      with (sin al * cos u + cos al * sin u * (sin h * sin h) / (sin h * sin h)) by (field; exact Hs).
    field. exact Hs.
Qed.

(* main case: |delta| <= pi, no flip *)
Theorem slerp_yaw_short : forall a0 delta t, - PI <= delta <= PI -> 0 <= t <= 1 ->
  cos (delta / 2) <= slerp_switch ->
  slerp (yawq a0) (yawq (a0 + delta)) t = yawq (a0 + t * delta).
Proof.
  intros a0 delta t Hdel Ht Hsw.
  assert (Hdot : qdot (yawq a0) (yawq (a0 + delta)) = cos (delta / 2)).
  { rewrite yawq_dot. f_equal. field. }
  pose proof (cos_half_nonneg delta Hdel) as Hc0.
  unfold slerp. rewrite (clip01_id t Ht). unfold flip_start, flip_dot. rewrite Hdot.
  destruct (Rlt_dec (cos (delta / 2)) 0) as [Hneg|_]; [lra|].
  destruct (Rlt_dec slerp_switch (cos (delta / 2))) as [Hc|_]; [lra|].
  set (h := delta / 2).
  assert (Hh : - PI <= h <= PI) by (unfold h; pose proof PI_RGT_0; lra).
  assert (Hac : acos (cos h) = Rabs h) by (apply acos_cos_abs, Hh).
  assert (Hh0 : h <> 0).
  { intros E. unfold h in *. rewrite E, cos_0 in Hsw. unfold slerp_switch in Hsw. lra. }
  assert (Hsinh : sin h <> 0).
  { destruct (Rlt_dec 0 h) as [Hpos|Hnpos].
    - assert (0 < sin h); [|lra]. apply sin_gt_0; unfold h in *; pose proof PI_RGT_0; lra.
    - assert (sin h < 0); [|lra]. apply sin_lt_0_var; unfold h in *; pose proof PI_RGT_0; lra. }
  (* rewrite the coefficients with the signed half angle *)
  assert (Hcoef : forall x, sin (Rabs h * x) / sin (Rabs h) = sin (h * x) / sin h /\ cos (Rabs h * x) = cos (h * x)).
  { intros x. destruct (Rle_dec 0 h) as [Hx|Hx].
    - rewrite Rabs_right by lra. split; reflexivity.
    - rewrite Rabs_left by lra. replace (- h * x) with (- (h * x)) by ring. rewrite !sin_neg, cos_neg.
      split; [field; exact Hsinh|reflexivity]. }
  rewrite Hac. destruct (Hcoef t) as [Hs1 Hc1].
  assert (HA : cos (Rabs h * t) - cos h * sin (Rabs h * t) / sin (Rabs h) = cos (h * t) - cos h * sin (h * t) / sin h).
  { rewrite Hc1. unfold Rdiv in *. rewrite !Rmult_assoc, Hs1. reflexivity. }
  rewrite HA, Hs1.
  destruct (yaw_comb_identity (a0 / 2) h (h * t) Hsinh) as [Iw Iz].
  match goal with |- qnormalise ?v = _ => replace v with (yawq (a0 + t * delta)); [apply qnormalise_unit, yawq_unit|] end.
  unfold yawq. apply quat_eq; simpl.
  - replace ((a0 + delta) / 2) with (a0 / 2 + h) by (unfold h; field).
    replace ((a0 + t * delta) / 2) with (a0 / 2 + h * t) by (unfold h; field).
    rewrite <- Iw. reflexivity.
  - ring.
  - ring.
  - replace ((a0 + delta) / 2) with (a0 / 2 + h) by (unfold h; field).
    replace ((a0 + t * delta) / 2) with (a0 / 2 + h * t) by (unfold h; field).
    rewrite <- Iz. reflexivity.
Qed.

(* the long way round is never taken: for pi < delta < 2 pi the start is flipped and the result turns by t (delta - 2 pi) *)
Theorem slerp_yaw_long_pos : forall a0 delta t, PI < delta < 2 * PI -> 0 <= t <= 1 ->
  cos ((delta - 2 * PI) / 2) <= slerp_switch ->
  slerp (yawq a0) (yawq (a0 + delta)) t = yawq (a0 + 2 * PI + t * (delta - 2 * PI)).
Proof.
  intros a0 delta t Hdel Ht Hsw.
  assert (Hdot : qdot (yawq a0) (yawq (a0 + delta)) <> 0).
  { rewrite yawq_dot. replace ((a0 + delta - a0) / 2) with (delta / 2) by field.
    pose proof (cos_half_neg delta). pose proof PI_RGT_0. lra. }
  rewrite <- (slerp_neg_start _ _ _ Hdot), yawq_neg.
  replace (a0 + delta) with (a0 + 2 * PI + (delta - 2 * PI)) by ring.
  apply slerp_yaw_short; try assumption. pose proof PI_RGT_0. lra.
Qed.

Theorem slerp_yaw_long_neg : forall a0 delta t, - (2 * PI) < delta < - PI -> 0 <= t <= 1 ->
  cos ((delta + 2 * PI) / 2) <= slerp_switch ->
  slerp (yawq a0) (yawq (a0 + delta)) t = yawq (a0 - 2 * PI + t * (delta + 2 * PI)).
Proof.
  intros a0 delta t Hdel Ht Hsw.
  assert (Hdot : qdot (yawq a0) (yawq (a0 + delta)) <> 0).
  { rewrite yawq_dot. replace ((a0 + delta - a0) / 2) with (delta / 2) by field.
    rewrite <- cos_neg. pose proof (cos_half_neg (- delta)). pose proof PI_RGT_0.
    replace (- (delta / 2)) with (- delta / 2) by field. lra. }
  rewrite <- (slerp_neg_start _ _ _ Hdot), yawq_neg'.
  replace (a0 + delta) with (a0 - 2 * PI + (delta + 2 * PI)) by ring.
  apply slerp_yaw_short; try assumption. pose proof PI_RGT_0. lra.
Qed.

(* the linear branch on yaw rotations: still a rotation about z *)
Theorem slerp_yaw_stays_yaw : forall a0 a1 t, qx (slerp (yawq a0) (yawq a1) t) = 0 /\ qy (slerp (yawq a0) (yawq a1) t) = 0.
Proof.
  intros a0 a1 t. unfold slerp, flip_start.
  destruct (Rlt_dec (qdot (yawq a0) (yawq a1)) 0); destruct (Rlt_dec slerp_switch _);
    unfold qnormalise, qscale, qadd, qneg, yawq; simpl; split; ring.
Qed.

(* ------------------------------------------------------------------------------------------ *)
(* the sign of the END quaternion: the result changes sign with it (the same rotation) *)
Lemma qnormalise_neg : forall a, qnormalise (qneg a) = qneg (qnormalise a).
Proof. intros a. unfold qnormalise. rewrite qnorm2_neg. apply quat_eq; simpl; ring. Qed.

Lemma qdot_neg_r : forall a b, qdot a (qneg b) = - qdot a b.
Proof. intros. rewrite qdot_comm, qdot_neg_l, qdot_comm. reflexivity. Qed.

Theorem slerp_neg_end : forall q0 q1 a, qdot q0 q1 <> 0 -> slerp q0 (qneg q1) a = qneg (slerp q0 q1 a).
Proof.
  intros q0 q1 a Hd. unfold slerp, flip_start, flip_dot. rewrite qdot_neg_r.
  destruct (Rlt_dec (- qdot q0 q1) 0) as [H1|H1], (Rlt_dec (qdot q0 q1) 0) as [H2|H2]; try lra.
  - (* dot > 0: the start is flipped for the negated end *)
    rewrite Ropp_involutive. destruct (Rlt_dec slerp_switch (qdot q0 q1)); rewrite <- qnormalise_neg; f_equal;
      apply quat_eq; simpl; ring.
  - (* dot < 0: the start is flipped for the original end *)
    destruct (Rlt_dec slerp_switch (- qdot q0 q1)); rewrite <- qnormalise_neg; f_equal; apply quat_eq; simpl; ring.
Qed.

(* whole turns: yawq (a + 2 pi k) = (-1)^k yawq a *)
Lemma cos_sin_period_Z : forall x (m : Z), cos (x + 2 * IZR m * PI) = cos x /\ sin (x + 2 * IZR m * PI) = sin x.
Proof.
  intros x m. destruct (Z_le_gt_dec 0 m) as [Hm|Hm].
  - rewrite <- (Z2Nat.id m Hm), <- INR_IZR_INZ. split; [apply cos_period|apply sin_period].
  - assert (Hn : (0 <= - m)%Z) by lia.
    pose proof (cos_period (x + 2 * IZR m * PI) (Z.to_nat (- m))) as Hc.
    pose proof (sin_period (x + 2 * IZR m * PI) (Z.to_nat (- m))) as Hs.
    rewrite INR_IZR_INZ, (Z2Nat.id _ Hn), opp_IZR in Hc, Hs.
    replace (x + 2 * IZR m * PI + 2 * - IZR m * PI) with x in Hc, Hs by ring.
    split; symmetry; assumption.
Qed.

Lemma yawq_turns_even : forall a (m : Z), yawq (a + 2 * PI * IZR (2 * m)) = yawq a.
Proof.
  intros a m. unfold yawq. rewrite mult_IZR.
  replace ((a + 2 * PI * (2 * IZR m)) / 2) with (a / 2 + 2 * IZR m * PI) by field.
  destruct (cos_sin_period_Z (a / 2) m) as [-> ->]. reflexivity.
Qed.

Lemma yawq_turns_odd : forall a (m : Z), yawq (a + 2 * PI * IZR (2 * m + 1)) = qneg (yawq a).
Proof.
  intros a m. rewrite yawq_neg. rewrite plus_IZR, mult_IZR.
  replace (a + 2 * PI * (2 * IZR m + 1)) with (a + 2 * PI + 2 * PI * IZR (2 * m)) by (rewrite mult_IZR; simpl; ring).
  apply yawq_turns_even.
Qed.

(* any two yaw angles: a1 = a0 + delta + whole turns with delta the SHORTER signed arc; the result is the rotation
   a0 + t delta (as a quaternion up to sign) *)
Theorem slerp_yaw_general : forall a0 delta (k : Z) t, - PI < delta < PI -> 0 <= t <= 1 ->
  cos (delta / 2) <= slerp_switch ->
  same_rotation (slerp (yawq a0) (yawq (a0 + delta + 2 * PI * IZR k)) t) (yawq (a0 + t * delta)).
Proof.
  intros a0 delta k t Hdel Ht Hsw.
  assert (Hshort : slerp (yawq a0) (yawq (a0 + delta)) t = yawq (a0 + t * delta)).
  { apply slerp_yaw_short; try assumption. lra. }
  destruct (Z.Even_or_Odd k) as [[m ->]|[m ->]].
  - rewrite yawq_turns_even, Hshort. left. reflexivity.
  - rewrite yawq_turns_odd, slerp_neg_end, Hshort; [right; reflexivity|].
    rewrite yawq_dot. replace ((a0 + delta - a0) / 2) with (delta / 2) by field.
    assert (0 < cos (delta / 2)); [apply cos_gt_0; lra|lra].
Qed.
