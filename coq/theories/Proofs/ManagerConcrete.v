(* C13, concrete: proofs about the manager state machine instantiated with the concrete frame models
   (Model/ManagerConcrete.v).
     0. facts about the abstract machine that Proofs/ManagerProofs.v does not export (cores as a flat_map,
        permutations of call sequences, a run that ends with a query);
     1. corollaries of the abstract theorems of Proofs/ManagerProofs.v at the concrete instances;
     2. well-formed inputs never raise; the tracking view exists on complete inputs;
     3. the scene's detection Maps: ground-truth counts add up, the score is the score of the pooled results, a
        one-frame scene reproduces the frame's Maps, order independence with distinct confidences, and every
        scene AP / APH / mAP / mAPH lies in [0,1] (C04's counting hypothesis proved for the pooled bucket);
     4. tracking: the answers of the machine are TrackingPipeline.run_frames on the tracking views, the scene
        answer is scene_tracking, scene counters = sums of the frame counters (scene_sums_frames lifted). *)
From Coq Require Import List Bool ZArith String Arith QArith Permutation Lia.
From PE Require Import Base.QUtil Model.Matching Model.Filter Model.PassFail Model.Pipeline Model.ManagerConcrete.
From PE Require Import Proofs.FilterProofs Proofs.PassFailProofs Proofs.PipelineProofs.
From PE Require Proofs.MatchingProofs.
From PE Require Model.AP Model.Clear Model.TrackingPipeline Model.Manager.
From PE Require Proofs.APRanking Proofs.APKinds Proofs.APModel Proofs.ManagerProofs Proofs.ClearProofs Proofs.TrackingPipelineProofs.
Import ListNotations.
Open Scope Q_scope.

Module MP := ManagerProofs.
Module TPP := TrackingPipelineProofs.
Module CP := ClearProofs.

Notation Add := Manager.Add.
Notation Query := (@Manager.Query CEsts CCfg).
Notation FrameOut := Manager.FrameOut.
Notation SceneOut := Manager.SceneOut.

(* ================================================================================================ *)
(* 0. facts about the abstract machine that Proofs/ManagerProofs.v does not export                   *)
(* ================================================================================================ *)
Section Abstract.
Variables Frame Ests Cfg Core Track Scene : Type.
Variable G : Frame -> Ests -> Cfg -> Core.
Variable W : Frame -> Ests -> Cfg -> Frame.
Variable T : option Core -> Core -> Track.
Variable Sc : list Core -> Scene.

Notation run := (Manager.run Frame Ests Cfg Core Track Scene G W T Sc).
Notation cores := (Manager.cores Frame Ests Cfg Core G).
Notation spec_out := (Manager.spec_out Frame Ests Cfg Core Track Scene G T Sc).
Notation spec_outs := (Manager.spec_outs Frame Ests Cfg Core Track Scene G T Sc).

(* the Core one call contributes *)
Definition core1 (d : list Frame) (o : Manager.op Ests Cfg) : list Core :=
  match o with
  | Manager.Query => []
  | Manager.Add i e c => match nth_error d i with Some f => [G f e c] | None => [] end
  end.

Lemma cores_flat_map d ops : cores d ops = flat_map (core1 d) ops.
Proof.
  induction ops as [|[i e c|] t IH]; cbn [Manager.cores flat_map core1]; [reflexivity| |exact IH].
  destruct (nth_error d i); cbn [app]; now rewrite IH.
Qed.

Lemma cores_perm d ops ops' : Permutation ops ops' -> Permutation (cores d ops) (cores d ops').
Proof. intros H. rewrite !cores_flat_map. now apply Permutation_flat_map. Qed.

Lemma cores_in d ops k : In k (cores d ops) ->
  exists i e c f, In (Manager.Add i e c) ops /\ nth_error d i = Some f /\ k = G f e c.
Proof.
  rewrite cores_flat_map, in_flat_map. intros [[i e c|] [Ho H]]; cbn [core1] in H; [|destruct H].
  destruct (nth_error d i) as [f|] eqn:E; [|destruct H]. destruct H as [<-|[]]. exists i, e, c, f. auto.
Qed.

Lemma spec_outs_app d : forall a1 before a2,
  spec_outs d before (a1 ++ a2) = spec_outs d before a1 ++ spec_outs d (before ++ a1) a2.
Proof.
  induction a1 as [|o t IH]; intros before a2; cbn [app Manager.spec_outs].
  - now rewrite app_nil_r.
  - rewrite IH, <- app_assoc. reflexivity.
Qed.

(* a run that ends with a scene query: the answers before it, then the score of the Cores of the calls *)
Lemma run_then_query d ops :
  snd (run true (Manager.init Frame Core d) (ops ++ [Manager.Query])) =
  spec_outs d [] ops ++ [Manager.SceneOut (Sc (cores d ops))].
Proof.
  pose proof (MP.manager_refines_spec Frame Ests Cfg Core Track Scene G W T Sc d (ops ++ [Manager.Query])) as H.
  destruct (run true _ _) as [s outs]. destruct H as [_ ->]. cbn [snd].
  rewrite spec_outs_app. reflexivity.
Qed.

Lemma run_hist d ops :
  Manager.hist (fst (run true (Manager.init Frame Core d) ops)) = cores d ops /\
  Manager.ds (fst (run true (Manager.init Frame Core d) ops)) = d.
Proof.
  pose proof (MP.run_copy_refines_spec Frame Ests Cfg Core Track Scene G W T Sc ops d []
                (Manager.init Frame Core d) eq_refl eq_refl) as H.
  destruct (run true _ _) as [s outs]. cbn [fst]. destruct H as (A & B & _). auto.
Qed.
End Abstract.

(* ================================================================================================ *)
(* 1. the abstract theorems at the concrete instances                                                *)
(* ================================================================================================ *)
Theorem concrete_manager_refines_spec : forall (mc : MCfg) (d : list CFrame) (ops : list cop),
  let '(s', outs) := concrete_run mc true (concrete_init d) ops in
  Manager.ds s' = d /\ outs = concrete_spec_outs mc d [] ops.
Proof.
  intros mc. exact (MP.manager_refines_spec CFrame CEsts CCfg CCore CTrack CScene (cG mc) (cW mc) (cT mc) (cSc mc)).
Qed.

Lemma concrete_run_outs mc d ops :
  snd (concrete_run mc true (concrete_init d) ops) = concrete_spec_outs mc d [] ops.
Proof.
  pose proof (concrete_manager_refines_spec mc d ops) as H.
  destruct (concrete_run mc true (concrete_init d) ops) as [s outs]. exact (proj2 H).
Qed.

(* the answer to an evaluation, spelled out: Pipeline.add_frame_result on the facts of THIS call, and
   frame_tracking against the view of the previous call's Core *)
Theorem concrete_frame_answer : forall mc d before i e c f,
  nth_error d i = Some f ->
  concrete_spec_out mc d before (Add i e c) =
  FrameOut (cG mc f e c) (cT mc (Manager.last_opt (concrete_cores mc d before)) (cG mc f e c)).
Proof. intros mc d before i e c f H. unfold concrete_spec_out. cbn [Manager.spec_out]. now rewrite H. Qed.

Theorem concrete_frame_answer_out_of_range : forall mc d before i e c,
  nth_error d i = None -> concrete_spec_out mc d before (Add i e c) = Manager.NoFrame.
Proof. intros mc d before i e c H. unfold concrete_spec_out. cbn [Manager.spec_out]. now rewrite H. Qed.

Theorem concrete_G_is_add_frame_result : forall mc f e c,
  k_out (cG mc f e c) =
  add_frame_result (m_mode mc) (m_policy mc) (m_fpv mc)
    (scene_facts (m_targets mc) (m_radii mc) (e_frame e) (g_frame f) (e_value e) (e_same e) (e_objs e) (g_objs f))
    (e_tables e) (e_objs e) (g_objs f) (cc_crit c) (cc_pf c) (m_det mc).
Proof. reflexivity. Qed.

Theorem concrete_frame_answer_history_independent : forall mc d before1 before2 i e c,
  Manager.last_opt (concrete_cores mc d before1) = Manager.last_opt (concrete_cores mc d before2) ->
  concrete_spec_out mc d before1 (Add i e c) = concrete_spec_out mc d before2 (Add i e c).
Proof.
  intros mc. exact (MP.frame_answer_history_independent CFrame CEsts CCfg CCore CTrack CScene (cG mc) (cT mc) (cSc mc)).
Qed.

Theorem concrete_scene_is_pooled : forall mc d before,
  concrete_spec_out mc d before Query = SceneOut (cSc mc (concrete_cores mc d before)) /\
  concrete_cores mc d (filter (fun o => match o with Manager.Query => false | _ => true end) before)
  = concrete_cores mc d before.
Proof.
  intros mc d before. split; [reflexivity|].
  exact (MP.queries_do_not_matter CFrame CEsts CCfg CCore (cG mc) d before).
Qed.

Theorem concrete_run_then_query : forall mc d ops,
  snd (concrete_run mc true (concrete_init d) (ops ++ [Query])) =
  concrete_spec_outs mc d [] ops ++ [SceneOut (cSc mc (concrete_cores mc d ops))].
Proof.
  intros mc d ops. exact (run_then_query CFrame CEsts CCfg CCore CTrack CScene (cG mc) (cW mc) (cT mc) (cSc mc) d ops).
Qed.

(* ================================================================================================ *)
(* 2. well-formed inputs never raise                                                                 *)
(* ================================================================================================ *)
Theorem concrete_G_done mc f e c cts :
  pipeline_hyps (facts_of mc f e) (e_objs e) (g_objs f) (cc_crit c) (cc_pf c) ->
  c_targets (cc_crit c) = Some cts ->
  m_fpv mc = true \/ keys_ok cts (m_det mc) = true ->
  exists fr cm pm,
    k_out (cG mc f e c) = Done fr cm pm /\
    frame_pipeline (m_mode mc) (m_policy mc) (m_fpv mc) (facts_of mc f e) (e_tables e) (e_objs e) (g_objs f)
                   (cc_crit c) (cc_pf c) = Ok fr.
Proof.
  intros Hh Hc Hk.
  destruct (pipeline_total (m_mode mc) (m_policy mc) (m_fpv mc) (facts_of mc f e) (e_tables e) (e_objs e) (g_objs f)
              (cc_crit c) (cc_pf c) Hh) as [fr Hfr].
  cbn [cG k_out]. unfold add_frame_result. pose proof Hfr as Hfr'. unfold frame_pipeline in Hfr'.
  destruct (matched_results _ _ _ _ _ _ _) as [rs| |]; cbn [bind] in Hfr'; try discriminate.
  pose proof Hfr' as Ev. unfold evaluate_frame in Hfr'.
  destruct (filter_object_results (cc_crit c) true rs) as [rs'| |]; cbn [bind] in Hfr'; try discriminate.
  destruct (filter_objects (cc_crit c) true true (g_objs f)) as [gts'| |]; cbn [bind] in Hfr'; try discriminate.
  rewrite Hc.
  assert (E : negb (m_fpv mc) && negb (keys_ok cts (m_det mc)) = false).
  { destruct Hk as [-> | ->]; [reflexivity|]. now rewrite andb_false_r. }
  rewrite E, Ev.
  destruct (if m_fpv mc then _ else _) as [cm pm]. exists fr, cm, pm. split; [reflexivity|exact Hfr].
Qed.

(* a Core has a tracking view only if its evaluation returned, and the view's bucket labels are the critical
   target labels of the call *)
Lemma cG_view mc f e c p :
  k_view (cG mc f e c) = Some p ->
  is_done (cG mc f e c) = true /\ c_targets (cc_crit c) = Some (TP.f_bl p).
Proof.
  unfold is_done. cbn [cG k_view k_out].
  destruct (add_frame_result _ _ _ _ _ _ _ _ _ _) as [fr cm pm| | |]; try discriminate.
  destruct (c_targets (cc_crit c)) as [cts|]; [|discriminate].
  unfold view_of. destruct (TP.all_some _) as [rs|]; [|discriminate]. intros [= <-]. auto.
Qed.

(* ---- the tracking view exists on complete inputs ---- *)
Lemma table_completeb_ok t n m : table_completeb t n m = true -> table_complete t n m.
Proof.
  unfold table_completeb, table_complete. rewrite forallb_forall. intros H e g He Hg.
  specialize (H e (proj2 (in_seq n 0 e) (conj (Nat.le_0_l e) He))). rewrite forallb_forall in H.
  specialize (H g (proj2 (in_seq m 0 g) (conj (Nat.le_0_l g) Hg))).
  destruct (cell2 t e g) as [v|]; [eauto|discriminate].
Qed.

Lemma track_inputs_okb_ok f e : track_inputs_okb f e = true -> track_inputs_ok f e.
Proof.
  unfold track_inputs_okb, track_inputs_ok. rewrite !andb_true_iff, !Nat.eqb_eq.
  intros [[[[[H1 H2] H3] H4] H5] H6]. repeat split; auto using table_completeb_ok.
Qed.

Lemma all_some_total {A B} (g : A -> option B) l :
  (forall x, In x l -> exists y, g x = Some y) -> exists r, TP.all_some (map g l) = Some r /\ List.length r = List.length l.
Proof.
  induction l as [|x t IH]; intros H; cbn [map TP.all_some]; [exists []; auto|].
  destruct (H x (or_introl eq_refl)) as [y ->]. destruct IH as (r & -> & Hl); [intros z Hz; apply H; now right|].
  exists (y :: r). cbn [List.length]. auto.
Qed.

Lemma ids_ok_In_lt l o : ids_ok l = true -> In o l -> (o_id o < List.length l)%nat.
Proof.
  intros Hi Hin. destruct (In_nth_error _ _ Hin) as [i Hn]. rewrite (ids_ok_nth _ _ _ Hi Hn).
  apply nth_error_Some. congruence.
Qed.

Theorem concrete_view_exists mc f e c fr cm pm cts :
  scene_hyps (facts_of mc f e) (e_objs e) (g_objs f) -> track_inputs_ok f e ->
  k_out (cG mc f e c) = Done fr cm pm -> c_targets (cc_crit c) = Some cts ->
  exists p, k_view (cG mc f e c) = Some p /\
            TP.f_bl p = cts /\ TP.f_gts p = map o_label (f_gts fr) /\ List.length (TP.f_res p) = List.length (f_results fr).
Proof.
  intros Hs (Le & Lg & C1 & C2 & C3 & C4) Hd Hc.
  cbn [cG k_view]. cbn [cG k_out] in Hd. fold (facts_of mc f e) in *. rewrite Hd, Hc.
  destruct (add_frame_result_inv _ _ _ _ _ _ _ _ _ _ _ _ _ Hd) as (Hp & _).
  set (F := facts_of mc f e) in *. set (T := e_tables e) in *.
  destruct Hs as [He Hg Lne Lng Hk].
  (* the matcher's results: estimates and ground truths are members of the input lists *)
  destruct (build_results_spec (m_policy mc) F T (e_objs e) (g_objs f)
              (get_object_results (m_mode mc) (m_policy mc) (m_fpv mc) F) He Hg) as (rs & Hb & _ & Hin).
  { intros e0 og H. rewrite Lne, Lng. exact (MatchingProofs.match_core_in_range _ _ _ _ _ _ e0 og H). }
  unfold frame_pipeline, matched_results in Hp. rewrite Hb in Hp. cbn [bind] in Hp.
  unfold evaluate_frame in Hp.
  destruct (filter_object_results (cc_crit c) true rs) as [rs'| |] eqn:Efr; cbn [bind] in Hp; try discriminate.
  pose proof (filter_results_sublist _ _ _ _ Efr) as Hsub.
  destruct (filter_objects (cc_crit c) true true (g_objs f)) as [gts'| |]; cbn [bind] in Hp; try discriminate.
  destruct (get_positive (cc_pf c) rs') as [[tp fp]| |]; cbn [bind] in Hp; try discriminate.
  destruct (get_negative (cc_pf c) gts' rs') as [[tn fn]| |]; cbn [bind] in Hp; try discriminate.
  injection Hp as <-. cbn [f_results f_gts]. unfold view_of. cbn [f_results f_gts].
  destruct (all_some_total (pres_of F T (track_facts_of f e)) rs') as (ps & -> & Hl).
  - intros r Hr. pose proof (Sublist_In _ _ Hsub _ Hr) as Hr'. destruct (Hin r Hr') as [Ie Ig].
    pose proof (ids_ok_In_lt _ _ He Ie) as Lte. fold (est_id r) in Lte.
    unfold pres_of, track_facts_of. cbn [tf_est tf_gt tf_iou2d tf_iou3d].
    destruct (nth_error (e_track e) (est_id r)) as [ue|] eqn:Eu;
      [|apply nth_error_None in Eu; lia].
    destruct (r_gt r) as [g|] eqn:Eg; [|eauto].
    pose proof (ids_ok_In_lt _ _ Hg (Ig g eq_refl)) as Ltg.
    destruct (nth_error (g_track f) (o_id g)) as [ug|] eqn:Eug; [|apply nth_error_None in Eug; lia].
    destruct (C1 _ _ Lte Ltg) as [v1 E1]. destruct (C2 _ _ Lte Ltg) as [v2 E2].
    destruct (C3 _ _ Lte Ltg) as [v3 E3]. destruct (C4 _ _ Lte Ltg) as [v4 E4].
    unfold center_v, plane_v. change (f_value F) with (e_value e). fold T in E2. rewrite E1, E2, E3, E4. eauto.
  - eexists. split; [reflexivity|]. cbn [TP.f_bl TP.f_gts TP.f_res]. auto.
Qed.

(* ================================================================================================ *)
(* 3. scene detection Maps                                                                           *)
(* ================================================================================================ *)
Lemma fold_add_sum {A} (g : A -> nat) : forall l a,
  fold_left (fun n c => (n + g c)%nat) l a = (a + sum_nat (map g l))%nat.
Proof. induction l as [|x t IH]; intros a; cbn [fold_left map sum_nat]; [lia|]. rewrite IH. lia. Qed.

Lemma core_labels_count L c : AP.count_label L (core_labels c) = num_gt_label L (core_gts c).
Proof. reflexivity. Qed.

(* (a) ground-truth counts add up over the frames *)
Theorem scene_num_is_sum L fs :
  scene_num L fs = sum_nat (map (fun c => num_gt_label L (core_gts c)) fs).
Proof. unfold scene_num. rewrite fold_add_sum. reflexivity. Qed.

Lemma count_label_concat L (gtss : list (list nat)) :
  AP.count_label L (List.concat gtss) = sum_nat (map (AP.count_label L) gtss).
Proof.
  induction gtss as [|g t IH]; [reflexivity|]. cbn [List.concat map sum_nat]. now rewrite MP.count_label_app, IH.
Qed.

(* ... and are the count over the pooled critical ground truths *)
Theorem scene_num_is_pooled L fs :
  scene_num L fs = AP.count_label L (List.concat (map core_labels fs)).
Proof. rewrite scene_num_is_sum, count_label_concat, map_map. reflexivity. Qed.

Theorem scene_map_nums tl vs fs thrs :
  mo_nums (scene_map tl vs fs thrs) =
  map (fun Lt : nat * Q => sum_nat (map (fun c => num_gt_label (fst Lt) (core_gts c)) fs)) (combine tl thrs).
Proof. unfold scene_map. cbn [mo_nums]. apply map_ext. intros Lt. apply scene_num_is_sum. Qed.

(* the Maps of the scene answer, whatever the Cores *)
Lemma cSc_maps mc cs M :
  In M (sc_center (cSc mc cs) ++ sc_plane (cSc mc cs)) ->
  exists vs thrs, M = scene_map (m_targets mc) vs (appended cs) thrs.
Proof.
  unfold cSc. cbn [sc_center sc_plane]. destruct (m_fpv mc); [intros []|].
  intros H. apply in_app_or in H. destruct H as [H|H]; apply in_map_iff in H; destruct H as [thrs [<- _]]; eauto.
Qed.

Theorem scene_gt_counts_add mc cs M :
  In M (sc_center (cSc mc cs) ++ sc_plane (cSc mc cs)) ->
  exists thrs,
    mo_nums M = map (fun Lt : nat * Q => sum_nat (map (fun c => num_gt_label (fst Lt) (core_gts c)) (appended cs)))
                    (combine (m_targets mc) thrs).
Proof.
  intros H. destruct (cSc_maps mc cs M H) as (vs & thrs & ->). exists thrs. apply scene_map_nums.
Qed.

(* the frame's own Maps report the frame's count: the scene count is the sum of what the frames report *)
Theorem frame_map_nums v T cts dts thrs rs' gts' :
  mo_nums (map_out v T cts dts thrs rs' gts') = map (fun Lt : nat * Q => num_gt_label (fst Lt) gts') (combine dts thrs).
Proof. reflexivity. Qed.

(* the scene Ap is the Ap of the POOLED object results with the pooled ground-truth count *)
Theorem scene_ap_is_pooled tl vs ws fs Lt :
  scene_ap tl vs ws fs Lt =
  one_ap tl (List.concat (map core_labels fs)) (List.concat (map (core_lres vs ws) fs)) Lt.
Proof.
  unfold scene_ap, one_ap, ap_inputs, scene_bucket. rewrite scene_num_is_pooled. f_equal.
  cbn [List.concat app]. rewrite MP.label_results_concat, map_map. reflexivity.
Qed.

Lemma in_bucket_ext cts tl L x : same_members cts tl -> AP.in_bucket cts L x = AP.in_bucket tl L x.
Proof. intros H. unfold AP.in_bucket, AP.bucket. now rewrite (H (AP.est_lab x)). Qed.

Lemma label_results_ext cts tl L t xs : same_members cts tl -> AP.label_results cts L t xs = AP.label_results tl L t xs.
Proof.
  intros H. unfold AP.label_results. f_equal. apply filter_ext. intros x. now apply in_bucket_ext.
Qed.

(* (b) one frame: the scene Map IS the frame's Map *)
Lemma scene_map_one_frame cts tl vs c thrs :
  same_members cts tl ->
  scene_map tl vs [c] thrs = map_out (core_v vs c) (k_T c) cts tl thrs (core_results c) (core_gts c).
Proof.
  intros H. unfold scene_map, map_out.
  assert (Hn : forall Lt : nat * Q, scene_num (fst Lt) [c] = AP.count_label (fst Lt) (map o_label (core_gts c))) by reflexivity.
  assert (Ha : forall ws (Lt : nat * Q), scene_ap tl vs ws [c] Lt =
                 one_ap cts (map o_label (core_gts c)) (map (lres_of (core_v vs c) (core_w ws c)) (core_results c)) Lt).
  { intros ws Lt. unfold scene_ap, one_ap, ap_inputs, scene_bucket. rewrite Hn. f_equal.
    cbn [map List.concat app]. rewrite app_nil_r. symmetry. now apply label_results_ext. }
  rewrite (map_ext _ _ Hn), (map_ext _ _ (Ha WAp)), (map_ext _ _ (Ha WAph)). reflexivity.
Qed.

Theorem one_frame_scene_maps mc f e c fr cm pm cts :
  k_out (cG mc f e c) = Done fr cm pm -> c_targets (cc_crit c) = Some cts -> same_members cts (m_targets mc) ->
  sc_center (cSc mc [cG mc f e c]) = cm /\ sc_plane (cSc mc [cG mc f e c]) = pm.
Proof.
  intros Hd Hc Hs. set (k := cG mc f e c) in *.
  assert (Ha : appended [k] = [k]) by (unfold appended, is_done; cbn [filter]; now rewrite Hd).
  pose proof Hd as Hd'. cbn [cG k_out] in Hd'. fold (facts_of mc f e) in Hd'.
  destruct (add_frame_result_inv _ _ _ _ _ _ _ _ _ _ _ _ _ Hd') as (_ & cts' & Hc' & Em).
  assert (cts' = cts) by congruence. subst cts'.
  unfold cSc. cbn [sc_center sc_plane]. rewrite Ha.
  destruct (m_fpv mc); [injection Em as -> ->; auto|].
  unfold frame_maps in Em. injection Em as -> ->.
  assert (Hr : core_results k = f_results fr) by (unfold core_results; now rewrite Hd).
  assert (Hg : core_gts k = f_gts fr) by (unfold core_gts; now rewrite Hd).
  split; apply map_ext; intros thrs; rewrite (scene_map_one_frame cts _ _ _ _ Hs), Hr, Hg; reflexivity.
Qed.

Theorem one_frame_run mc d i e c f fr cm pm cts :
  nth_error d i = Some f ->
  k_out (cG mc f e c) = Done fr cm pm -> c_targets (cc_crit c) = Some cts -> same_members cts (m_targets mc) ->
  exists tr s,
    snd (concrete_run mc true (concrete_init d) [Add i e c; Query]) = [FrameOut (cG mc f e c) tr; SceneOut s] /\
    sc_center s = cm /\ sc_plane s = pm.
Proof.
  intros Hn Hd Hc Hs.
  pose proof (concrete_run_then_query mc d [Add i e c]) as H. cbn [app] in H. rewrite H.
  unfold concrete_spec_outs, concrete_cores. cbn [Manager.spec_outs Manager.spec_out Manager.cores app]. rewrite Hn.
  eexists. eexists. split; [reflexivity|]. exact (one_frame_scene_maps mc f e c fr cm pm cts Hd Hc Hs).
Qed.

(* ---- (d) order independence ---- *)
Lemma sum_nat_perm l l' : Permutation l l' -> sum_nat l = sum_nat l'.
Proof. induction 1; cbn [sum_nat]; lia. Qed.

Lemma scene_num_perm L fs fs' : Permutation fs fs' -> scene_num L fs = scene_num L fs'.
Proof. intros H. rewrite !scene_num_is_sum. now apply sum_nat_perm, Permutation_map. Qed.

Lemma scene_bucket_perm tl vs ws fs fs' Lt :
  Permutation fs fs' -> Permutation (scene_bucket tl vs ws fs Lt) (scene_bucket tl vs ws fs' Lt).
Proof.
  intros H. unfold scene_bucket. cbn [List.concat app]. now apply MP.Permutation_concat, Permutation_map.
Qed.

(* one Ap / Aph of the scene (tp list, fp list and AP): the same whatever the order of the frames, when the
   confidences in its bucket are pairwise distinct *)
Theorem scene_ap_perm tl vs ws fs fs' Lt :
  Permutation fs fs' -> MP.distinct_keys AP.conf (scene_bucket tl vs ws fs Lt) ->
  scene_ap tl vs ws fs Lt = scene_ap tl vs ws fs' Lt.
Proof.
  intros Hp Hd. unfold scene_ap. rewrite (scene_num_perm _ _ _ Hp).
  apply MP.ap_model_perm; [now apply scene_bucket_perm|exact Hd].
Qed.

Lemma appended_perm cs cs' : Permutation cs cs' -> Permutation (appended cs) (appended cs').
Proof. apply MP.Permutation_filter. Qed.

(* distinct keys pass to sub-lists and through maps *)
Lemma distinct_keys_sublist {A} (key : A -> Q) l1 l2 :
  Sublist l1 l2 -> MP.distinct_keys key l2 -> MP.distinct_keys key l1.
Proof.
  induction 1 as [|a l1 l2 H IH|a l1 l2 H IH]; cbn [MP.distinct_keys]; auto.
  - intros [_ Hd]. auto.
  - intros [Ha Hd]. split; [|auto]. intros y Hy. apply Ha. eapply Sublist_In; eauto.
Qed.

Lemma distinct_keys_map {A B} (key : B -> Q) (g : A -> B) l :
  MP.distinct_keys key (map g l) <-> MP.distinct_keys (fun x => key (g x)) l.
Proof.
  induction l as [|x t IH]; cbn [map MP.distinct_keys]; [tauto|]. rewrite IH. split; intros [H1 H2]; split; auto.
  - intros y Hy. apply H1. now apply in_map.
  - intros y Hy. apply in_map_iff in Hy. destruct Hy as [z [<- Hz]]. now apply H1.
Qed.

Lemma Sublist_app {A} (a a' b b' : list A) : Sublist a a' -> Sublist b b' -> Sublist (a ++ b) (a' ++ b').
Proof. intros Ha Hb. induction Ha; cbn [app]; [exact Hb|now constructor|now constructor]. Qed.

Lemma Sublist_concat {A B} (g h : A -> list B) l :
  (forall x, Sublist (g x) (h x)) -> Sublist (List.concat (map g l)) (List.concat (map h l)).
Proof. intros H. induction l as [|x t IH]; cbn [map List.concat]; [constructor|]. now apply Sublist_app. Qed.

Lemma bucket_confs tl L t v w rs :
  Sublist (map AP.conf (AP.label_results tl L t (map (lres_of v w) rs))) (map (fun r => o_conf (r_est r)) rs).
Proof.
  unfold AP.label_results. rewrite map_map.
  induction rs as [|r rt IH]; cbn [map filter]; [constructor|].
  destruct (AP.in_bucket tl L (lres_of v w r)).
  - cbn [map]. replace (AP.conf (AP.with_thr (AP.thr_for L t (lres_of v w r)) (AP.l_res (lres_of v w r))))
      with (o_conf (r_est r)); [now constructor|].
    unfold AP.with_thr, lres_of, ap_res. cbn [AP.l_res AP.conf]. destruct (r_gt r); reflexivity.
  - now constructor.
Qed.

(* pairwise distinct confidences over the whole scene make every bucket's confidences distinct *)
Lemma scene_confs_buckets tl vs ws cs Lt :
  MP.distinct_keys (fun q : Q => q) (scene_confs cs) ->
  MP.distinct_keys AP.conf (scene_bucket tl vs ws (appended cs) Lt).
Proof.
  intros H. apply (distinct_keys_map (fun q : Q => q) AP.conf).
  eapply distinct_keys_sublist; [|exact H].
  unfold scene_bucket, scene_confs. cbn [List.concat app]. rewrite concat_map, map_map.
  apply Sublist_concat. intros c. unfold core_lres. apply bucket_confs.
Qed.

Theorem scene_map_perm tl vs cs cs' thrs :
  Permutation cs cs' -> MP.distinct_keys (fun q : Q => q) (scene_confs cs) ->
  scene_map tl vs (appended cs) thrs = scene_map tl vs (appended cs') thrs.
Proof.
  intros Hp Hd. pose proof (appended_perm _ _ Hp) as Ha. unfold scene_map.
  assert (E : forall ws, map (scene_ap tl vs ws (appended cs)) (combine tl thrs)
                       = map (scene_ap tl vs ws (appended cs')) (combine tl thrs)).
  { intros ws. apply map_ext. intros Lt. apply scene_ap_perm; [exact Ha|]. now apply scene_confs_buckets. }
  rewrite (E WAp), (E WAph). f_equal. apply map_ext. intros Lt. now apply scene_num_perm.
Qed.

(* the whole detection part of the scene answer *)
Theorem scene_detection_perm mc cs cs' :
  Permutation cs cs' -> MP.distinct_keys (fun q : Q => q) (scene_confs cs) ->
  sc_center (cSc mc cs) = sc_center (cSc mc cs') /\ sc_plane (cSc mc cs) = sc_plane (cSc mc cs').
Proof.
  intros Hp Hd. unfold cSc. cbn [sc_center sc_plane]. destruct (m_fpv mc); [auto|].
  split; apply map_ext; intros thrs; now apply scene_map_perm.
Qed.

(* at the level of call sequences: any reordering of the calls (queries interleaved anywhere) *)
Theorem concrete_scene_order_independent mc d ops ops' :
  Permutation ops ops' ->
  MP.distinct_keys (fun q : Q => q) (scene_confs (concrete_cores mc d ops)) ->
  exists outs outs' s s',
    snd (concrete_run mc true (concrete_init d) (ops ++ [Query])) = outs ++ [SceneOut s] /\
    snd (concrete_run mc true (concrete_init d) (ops' ++ [Query])) = outs' ++ [SceneOut s'] /\
    sc_center s = sc_center s' /\ sc_plane s = sc_plane s'.
Proof.
  intros Hp Hd. rewrite !concrete_run_then_query.
  do 4 eexists. split; [reflexivity|]. split; [reflexivity|].
  apply scene_detection_perm; [|exact Hd]. unfold concrete_cores. now apply cores_perm.
Qed.

(* ---- the scene's APs lie in [0,1] (C04 through the pooling) ---- *)
(* a Core left by an evaluation on well-formed inputs: heading weights in [0,1], and, if it returned, a frame
   produced by evaluate_frame from a matching that satisfies C03's hypothesis record *)
Definition core_wf (c : CCore) : Prop :=
  weights_in_unit (k_T c) /\
  forall fr cm pm, k_out c = Done fr cm pm ->
    exists crit pf rs gts, frame_hyps crit pf rs gts /\ evaluate_frame crit pf rs gts = Ok fr.

Lemma cG_wf mc f e c :
  pipeline_hyps (facts_of mc f e) (e_objs e) (g_objs f) (cc_crit c) (cc_pf c) -> weights_in_unit (e_tables e) ->
  core_wf (cG mc f e c).
Proof.
  intros Hh Hw. split; [exact Hw|]. intros fr cm pm Hd. cbn [cG k_out] in Hd. fold (facts_of mc f e) in Hd.
  destruct (add_frame_result_inv _ _ _ _ _ _ _ _ _ _ _ _ _ Hd) as (Hp & _).
  destruct (frame_pipeline_inv _ _ _ _ _ _ _ _ _ _ (ph_scene _ _ _ _ _ Hh) Hp) as (rs & E & _ & Ev).
  exists (cc_crit c), (cc_pf c), rs, (g_objs f). split; [|exact Ev]. eapply pipeline_frame_hyps; eauto.
Qed.

Lemma core_w_unit ws c : weights_in_unit (k_T c) -> forall e g, 0 <= core_w ws c e g <= 1.
Proof. intros H. destruct ws; cbn [core_w]; [apply unit_w_unit|now apply heading_w_unit]. Qed.

Lemma core_tp_le_gt tl vs ws c L t : core_wf c ->
  (APKinds.count_tp (map (AP.classify AP.Minimize) (AP.label_results tl L t (core_lres vs ws c)))
   <= num_gt_label L (core_gts c))%nat.
Proof.
  intros [_ H]. unfold core_lres, core_results, core_gts.
  destruct (k_out c) as [fr cm pm| | |] eqn:Ek; try (cbn; lia).
  destruct (H fr cm pm eq_refl) as (crit & pf & rs & gts & Hh & Ev).
  rewrite <- count_tp_ranking.
  exact (frame_tp_le_gt crit pf rs gts fr (core_v vs c) (core_w ws c) tl L t Hh Ev).
Qed.

Lemma count_tp_app a b : APKinds.count_tp (a ++ b) = (APKinds.count_tp a + APKinds.count_tp b)%nat.
Proof. unfold APKinds.count_tp. now rewrite filter_app, app_length. Qed.

Lemma sum_nat_le {A} (g h : A -> nat) l :
  (forall x, In x l -> (g x <= h x)%nat) -> (sum_nat (map g l) <= sum_nat (map h l))%nat.
Proof.
  induction l as [|x t IH]; intros H; cbn [map sum_nat]; [lia|].
  pose proof (H x (or_introl eq_refl)). assert (sum_nat (map g t) <= sum_nat (map h t))%nat by (apply IH; intros; apply H; now right). lia.
Qed.

(* the counting fact for the pooled bucket: TPs of the scene Ap <= pooled ground truths of its label *)
Theorem scene_tp_le_gt tl vs ws fs Lt :
  (forall c, In c fs -> core_wf c) ->
  (APKinds.count_tp (APModel.ranking AP.Minimize (scene_bucket tl vs ws fs Lt)) <= scene_num (fst Lt) fs)%nat.
Proof.
  intros H. rewrite count_tp_ranking, scene_num_is_sum. unfold scene_bucket. cbn [List.concat app].
  induction fs as [|c t IH]; [cbn; lia|].
  cbn [map List.concat sum_nat]. rewrite map_app, count_tp_app.
  pose proof (core_tp_le_gt tl vs ws c (fst Lt) (snd Lt) (H c (or_introl eq_refl))).
  assert (APKinds.count_tp (map (AP.classify AP.Minimize)
            (List.concat (map (fun c0 => AP.label_results tl (fst Lt) (snd Lt) (core_lres vs ws c0)) t)))
          <= sum_nat (map (fun c0 => num_gt_label (fst Lt) (core_gts c0)) t))%nat
    by (apply IH; intros; apply H; now right).
  lia.
Qed.

Lemma scene_bucket_weights tl vs ws fs Lt :
  (forall c, In c fs -> core_wf c) -> APModel.res_weights_ok (scene_bucket tl vs ws fs Lt).
Proof.
  intros H r Hr. unfold scene_bucket in Hr. cbn [List.concat app] in Hr.
  apply in_concat in Hr. destruct Hr as (l & Hl & Hr). apply in_map_iff in Hl. destruct Hl as (c & <- & Hc).
  unfold core_lres in Hr.
  exact (label_results_weights _ _ tl (fst Lt) (snd Lt) _ (core_w_unit ws c (proj1 (H c Hc))) r Hr).
Qed.

Theorem scene_ap_in_unit tl vs ws fs Lt a :
  (forall c, In c fs -> core_wf c) -> AP.ap (scene_ap tl vs ws fs Lt) = Some a -> 0 <= a <= 1.
Proof.
  intros H. unfold scene_ap. set (xs := scene_bucket tl vs ws fs Lt).
  destruct xs as [|x0 xt] eqn:Ex; [discriminate|].
  assert (Hne : xs <> []) by (rewrite Ex; discriminate). rewrite <- Ex.
  rewrite (APModel.ap_model_nonempty AP.Minimize _ xs Hne). cbn [AP.ap]. intros [= <-].
  apply APKinds.ap_in_unit_interval.
  - apply APModel.ranking_weights_ok. now apply scene_bucket_weights.
  - now apply scene_tp_le_gt.
Qed.

Theorem scene_map_in_unit tl vs fs thrs :
  (forall c, In c fs -> core_wf c) ->
  let M := scene_map tl vs fs thrs in
  (forall r a, In r (mo_aps M ++ mo_aphs M) -> AP.ap r = Some a -> 0 <= a <= 1) /\
  (forall x, mo_map M = Some x -> 0 <= x <= 1) /\ (forall x, mo_maph M = Some x -> 0 <= x <= 1).
Proof.
  intros H. cbv zeta. unfold scene_map. cbn [mo_aps mo_aphs mo_map mo_maph].
  assert (A : forall ws r a, In r (map (scene_ap tl vs ws fs) (combine tl thrs)) -> AP.ap r = Some a -> 0 <= a <= 1).
  { intros ws r a Hr Ha. apply in_map_iff in Hr. destruct Hr as [Lt [<- _]]. eapply scene_ap_in_unit; eauto. }
  split; [|split].
  - intros r a Hr. apply in_app_or in Hr. destruct Hr; eapply A; eauto.
  - intros x Hx. eapply APKinds.mean_defined_bounds; [|exact Hx].
    intros y Hy. apply in_map_iff in Hy. destruct Hy as [r [Hr Hin]]. eapply A; eauto.
  - intros x Hx. eapply APKinds.mean_defined_bounds; [|exact Hx].
    intros y Hy. apply in_map_iff in Hy. destruct Hy as [r [Hr Hin]]. eapply A; eauto.
Qed.

(* every call sequence with well-formed evaluated calls: all scores of the scene answer lie in [0,1] *)
Theorem concrete_scene_scores_in_unit mc d ops :
  (forall i e c f, In (Add i e c) ops -> nth_error d i = Some f ->
     pipeline_hyps (facts_of mc f e) (e_objs e) (g_objs f) (cc_crit c) (cc_pf c) /\ weights_in_unit (e_tables e)) ->
  forall M, In M (sc_center (cSc mc (concrete_cores mc d ops)) ++ sc_plane (cSc mc (concrete_cores mc d ops))) ->
    (forall r a, In r (mo_aps M ++ mo_aphs M) -> AP.ap r = Some a -> 0 <= a <= 1) /\
    (forall x, mo_map M = Some x -> 0 <= x <= 1) /\ (forall x, mo_maph M = Some x -> 0 <= x <= 1).
Proof.
  intros H M HM. destruct (cSc_maps mc _ M HM) as (vs & thrs & ->).
  apply scene_map_in_unit. intros k Hk. unfold appended in Hk. apply filter_In in Hk. destruct Hk as [Hk _].
  destruct (cores_in CFrame CEsts CCfg CCore (cG mc) d ops k Hk) as (i & e & c & f & Ho & Hn & ->).
  destruct (H i e c f Ho Hn) as [Hh Hw]. now apply cG_wf.
Qed.

(* ================================================================================================ *)
(* 4. tracking                                                                                       *)
(* ================================================================================================ *)
Definition views (cs : list CCore) : option (list TP.pfr) := TP.all_some (map k_view cs).

(* (c1) by construction: T reads the tracking views only *)
Theorem cT_depends_on_views mc p1 p2 c1 c2 :
  option_map k_view p1 = option_map k_view p2 -> k_view c1 = k_view c2 -> cT mc p1 c1 = cT mc p2 c2.
Proof.
  intros Hp Hc. unfold cT. rewrite Hc. destruct (k_view c2); [|reflexivity].
  destruct p1 as [a|], p2 as [b|]; cbn [option_map] in Hp; try discriminate; [|reflexivity].
  injection Hp as ->. reflexivity.
Qed.

Lemma all_some_map_some {A} (l : list (option A)) r : TP.all_some l = Some r -> l = map Some r.
Proof.
  revert r. induction l as [|[x|] t IH]; intros r; cbn [TP.all_some]; try discriminate.
  - intros [= <-]. reflexivity.
  - destruct (TP.all_some t) as [r'|]; [|discriminate]. intros [= <-]. cbn [map]. now rewrite (IH r' eq_refl).
Qed.

Lemma all_some_of_map_some {A} (r : list A) : TP.all_some (map Some r) = Some r.
Proof. induction r as [|x t IH]; cbn [map TP.all_some]; [reflexivity|now rewrite IH]. Qed.

Lemma all_some_app {A} (l1 l2 : list (option A)) r1 r2 :
  TP.all_some l1 = Some r1 -> TP.all_some l2 = Some r2 -> TP.all_some (l1 ++ l2) = Some (r1 ++ r2).
Proof.
  intros H1 H2. rewrite (all_some_map_some _ _ H1), (all_some_map_some _ _ H2), <- map_app.
  apply all_some_of_map_some.
Qed.

Lemma last_opt_map {A B} (g : A -> B) l : Manager.last_opt (map g l) = option_map g (Manager.last_opt l).
Proof. unfold Manager.last_opt. rewrite <- map_rev. destruct (rev l); reflexivity. Qed.

(* the predecessor the machine hands to T has the view of the last frame of the views *)
Lemma views_last cs qs :
  views cs = Some qs ->
  match Manager.last_opt cs with
  | None => TP.last_opt qs = None
  | Some pc => exists q, k_view pc = Some q /\ TP.last_opt qs = Some q
  end.
Proof.
  intros H. apply all_some_map_some in H.
  assert (E : option_map k_view (Manager.last_opt cs) = option_map Some (Manager.last_opt qs)).
  { rewrite <- !last_opt_map. now rewrite H. }
  change (TP.last_opt qs) with (Manager.last_opt qs).
  destruct (Manager.last_opt cs) as [pc|], (Manager.last_opt qs) as [q|]; cbn [option_map] in E; try discriminate.
  - injection E as E. eauto.
  - reflexivity.
Qed.

Lemma views_cons c cs ps : views (c :: cs) = Some ps -> exists p ps', k_view c = Some p /\ views cs = Some ps' /\ ps = p :: ps'.
Proof.
  unfold views. cbn [map TP.all_some]. destruct (k_view c) as [p|]; [|discriminate].
  destruct (TP.all_some (map k_view cs)) as [ps'|]; [|discriminate]. intros [= <-]. eauto.
Qed.

(* the tracking answers of the machine are those of TrackingPipeline's run on the views *)
Lemma track_outs_spec mc d : forall ops before qs ps,
  views (concrete_cores mc d before) = Some qs -> views (concrete_cores mc d ops) = Some ps ->
  track_outs (concrete_spec_outs mc d before ops) =
  map TrackScores (TPP.frame_outs (m_targets mc) (m_trk mc) (TP.last_opt qs) ps).
Proof.
  unfold concrete_spec_outs, concrete_cores.
  induction ops as [|[i e c|] t IH]; intros before qs ps Hq Hp.
  - cbn [Manager.cores] in Hp. injection Hp as <-. reflexivity.
  - cbn [Manager.spec_outs Manager.spec_out Manager.cores] in *.
    destruct (nth_error d i) as [f|] eqn:En.
    + destruct (views_cons _ _ _ Hp) as (p & ps' & Hv & Hp' & ->).
      cbn [track_outs flat_map app TPP.frame_outs map]. f_equal.
      * unfold cT. rewrite Hv. pose proof (views_last _ _ Hq) as HL.
        destruct (Manager.last_opt _) as [pc|].
        -- destruct HL as (q & Hk & ->). now rewrite Hk.
        -- now rewrite HL.
      * assert (Hq' : views (Manager.cores CFrame CEsts CCfg CCore (cG mc) d (before ++ [Add i e c])) = Some (qs ++ [p])).
        { rewrite MP.cores_app. cbn [Manager.cores]. rewrite En. unfold views. rewrite map_app.
          apply all_some_app; [exact Hq|]. cbn [map TP.all_some]. now rewrite Hv. }
        specialize (IH _ _ _ Hq' Hp'). rewrite TPP.last_opt_snoc in IH. exact IH.
    + cbn [track_outs flat_map app]. apply IH; [|exact Hp].
      rewrite MP.cores_app. cbn [Manager.cores]. rewrite En, app_nil_r. exact Hq.
  - cbn [Manager.spec_outs Manager.spec_out Manager.cores track_outs flat_map app] in *. apply IH; [|exact Hp].
    rewrite MP.cores_app. cbn [Manager.cores]. rewrite app_nil_r. exact Hq.
Qed.

Theorem concrete_tracking_is_run_frames mc d ops ps :
  views (concrete_cores mc d ops) = Some ps ->
  track_outs (snd (concrete_run mc true (concrete_init d) ops)) =
    map TrackScores (snd (TP.run_frames (m_targets mc) (m_trk mc) [] ps)) /\
  fst (TP.run_frames (m_targets mc) (m_trk mc) [] ps) = ps.
Proof.
  intros H. rewrite concrete_run_outs, (TPP.run_frames_spec (m_targets mc) (m_trk mc) ps []).
  cbn [fst snd app]. split; [|reflexivity].
  exact (track_outs_spec mc d ops [] [] ps eq_refl H).
Qed.

Lemma filter_all {A} (p : A -> bool) l : (forall x, In x l -> p x = true) -> filter p l = l.
Proof.
  induction l as [|x t IH]; intros H; cbn [filter]; [reflexivity|].
  rewrite (H x (or_introl eq_refl)), IH; [reflexivity|]. intros y Hy. apply H. now right.
Qed.

(* every Core of a history that has a view was appended *)
Lemma views_appended mc d ops ps : views (concrete_cores mc d ops) = Some ps ->
  appended (concrete_cores mc d ops) = concrete_cores mc d ops.
Proof.
  intros H. apply all_some_map_some in H. unfold appended.
  apply filter_all. intros k Hk.
  destruct (cores_in CFrame CEsts CCfg CCore (cG mc) d ops k Hk) as (i & e & c & f & _ & _ & ->).
  assert (Hin : In (k_view (cG mc f e c)) (map Some ps)) by (rewrite <- H; now apply in_map).
  apply in_map_iff in Hin. destruct Hin as (p & Hp & _). symmetry in Hp. exact (proj1 (cG_view mc f e c p Hp)).
Qed.

Theorem concrete_scene_tracking mc d ops ps :
  views (concrete_cores mc d ops) = Some ps ->
  sc_tracking (cSc mc (concrete_cores mc d ops)) = Some (TP.scene_tracking (m_targets mc) (m_trk mc) ps).
Proof.
  intros H. unfold cSc. cbn [sc_tracking]. rewrite (views_appended mc d ops ps H).
  unfold views in H. now rewrite H.
Qed.

(* the frame answers in declarative form: per (mode, thresholds) and label the CLEAR of the two-frame history *)
Fixpoint frame_specs (tl : list nat) (cfg : TP.tcfg) (prev : option TP.pfr) (ps : list TP.pfr) : list TP.scores :=
  match ps with
  | [] => []
  | p :: rest => TP.scores_spec tl cfg (fun mm Lt => TP.frame_clear mm Lt prev p) :: frame_specs tl cfg (Some p) rest
  end.

Lemma frame_outs_specs tl cfg : forall ps prev,
  (forall fr, In fr ps -> forall L, In L tl -> TP.mem L (TP.f_bl fr) = true) ->
  TPP.frame_outs tl cfg prev ps = map Some (frame_specs tl cfg prev ps).
Proof.
  induction ps as [|p rest IH]; intros prev H; [reflexivity|].
  cbn [TPP.frame_outs frame_specs map]. f_equal.
  - rewrite TPP.frame_tracking_spec by (apply H; now left). reflexivity.
  - apply IH. intros fr Hfr. apply H. now right.
Qed.

(* (c2) scene_sums_frames lifted to the machine *)
Theorem concrete_scene_tracking_sums_frames mc d ops ps :
  let tl := m_targets mc in let cfg := m_trk mc in
  views (concrete_cores mc d ops) = Some ps -> NoDup tl ->
  (forall fr, In fr ps -> forall l, TP.mem l (TP.f_bl fr) = TP.mem l tl) ->
  exists outs s,
    snd (concrete_run mc true (concrete_init d) (ops ++ [Query])) = outs ++ [SceneOut s] /\
    track_outs outs = map (fun x => TrackScores (Some x)) (frame_specs tl cfg None ps) /\
    sc_tracking s = Some (Some (TP.scores_spec tl cfg (fun mm Lt => TP.scene_clear tl mm Lt ps))) /\
    forall mm L t,
      let ks := TP.frame_clears mm (L, t) None ps in
      let k := TP.scene_clear tl mm (L, t) ps in
      let TP_ := CP.sumN CP.k_tp ks in let FP_ := CP.sumN (fun k => Clear.c_fp (Clear.k_cnt k)) ks in
      let SW := CP.sumN CP.k_sw ks in let G := CP.sumN Clear.k_numgt ks in
      let SC := CP.sumQ (fun k => Clear.c_score (Clear.k_cnt k)) ks in
      Clear.c_tp (Clear.k_cnt k) = TP_ /\ Clear.c_fp (Clear.k_cnt k) = FP_ /\ Clear.c_sw (Clear.k_cnt k) = SW /\
      Clear.c_num (Clear.k_cnt k) = CP.sumN (fun k => Clear.c_num (Clear.k_cnt k)) ks /\
      Clear.c_score (Clear.k_cnt k) == SC /\ Clear.k_numgt k = G /\
      Clear.k_mota k = match G with O => None | _ => Some (Clear.max0 ((Qnat TP_ - Qnat FP_ - Qnat SW) / Qnat G)) end /\
      CP.oq_eq (Clear.k_motp k) (match TP_ with O => None | _ => Some (SC / Qnat TP_) end).
Proof.
  intros tl cfg Hv Hn Hb. rewrite concrete_run_then_query. do 2 eexists. split; [reflexivity|]. split; [|split].
  - rewrite (track_outs_spec mc d ops [] [] ps eq_refl Hv). cbn [TP.last_opt rev].
    rewrite frame_outs_specs, map_map; [reflexivity|].
    intros fr Hfr L HL. rewrite (Hb fr Hfr L). now apply TPP.mem_In.
  - rewrite (concrete_scene_tracking mc d ops ps Hv). f_equal. exact (TPP.scene_tracking_spec tl cfg ps Hn).
  - intros mm L t. exact (TPP.scene_sums_frames tl mm L t ps Hb).
Qed.
