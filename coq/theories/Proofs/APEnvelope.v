(* The area computed by the code (record-high envelope) equals all-point interpolation;
   Abel summation; monotonicity; bounds.  Everything here is about lists of (precision, recall)
   points in REVERSED rank order (head = last rank). *)
From Coq Require Import List Bool ZArith Lia Psatz.
From PE Require Import Base.QUtil Model.AP.
Import ListNotations.
Open Scope Q_scope.

Lemma bmax_ge_l m p : m <= bmax m p.
Proof. unfold bmax. destruct (Qltb_spec m p); lra. Qed.
Lemma bmax_ge_r m p : p <= bmax m p.
Proof. unfold bmax. destruct (Qltb_spec m p); lra. Qed.
Lemma bmax_mono m m2 p p2 : m <= m2 -> p <= p2 -> bmax m p <= bmax m2 p2.
Proof. unfold bmax. intros. destruct (Qltb_spec m p), (Qltb_spec m2 p2); lra. Qed.
Lemma bmax_le m p b : m <= b -> p <= b -> bmax m p <= b.
Proof. unfold bmax. intros. destruct (Qltb_spec m p); lra. Qed.
Lemma bmax_self p : bmax p p == p.
Proof. unfold bmax. destruct (Qltb_spec p p); lra. Qed.

(* ---- code = spec ----------------------------------------------------------------------------- *)
Lemma go_eq : forall t cur,
  cur * (nextr t - nextr (env_go cur t)) + area (env_go cur t) == spec_go cur t.
Proof.
  induction t as [|[p r] t IH]; intros cur; cbn [env_go area spec_go nextr].
  - ring.
  - unfold bmax. destruct (Qltb_spec cur p) as [H|H].
    + cbn [area nextr]. specialize (IH p).
      assert (E : area (env_go p t) == spec_go p t - p * (nextr t - nextr (env_go p t))) by lra.
      rewrite E. ring.
    + specialize (IH cur).
      assert (E : area (env_go cur t) == spec_go cur t - cur * (nextr t - nextr (env_go cur t))) by lra.
      rewrite E. ring.
Qed.

Theorem ap_code_eq_spec : forall l, ap_code l == ap_spec l.
Proof.
  intros [|[p r] t]; unfold ap_code, ap_spec; cbn [envelope area spec_go]; [reflexivity|].
  unfold bmax. destruct (Qltb_spec p p) as [H|H]; [lra|].
  pose proof (go_eq t p) as IH.
  assert (E : area (env_go p t) == spec_go p t - p * (nextr t - nextr (env_go p t))) by lra.
  rewrite E. ring.
Qed.

(* starting the running maximum at 0 instead of the last precision changes nothing when
   precisions are non-negative *)
Lemma spec_go_start0 : forall p r t, 0 <= p -> spec_go p ((p, r) :: t) == spec_go 0 ((p, r) :: t).
Proof.
  intros p r t Hp. cbn [spec_go]. unfold bmax.
  destruct (Qltb_spec p p); [lra|]. destruct (Qltb_spec 0 p) as [H|H]; [reflexivity|].
  assert (E : p == 0) by lra. (* both running maxima are 0 *)
  assert (G : forall l a b, a == b -> spec_go a l == spec_go b l).
  { induction l as [|[p' r'] l IH]; intros a b Hab; cbn [spec_go]; [reflexivity|].
    assert (Hb : bmax a p' == bmax b p').
    { unfold bmax. destruct (Qltb_spec a p'), (Qltb_spec b p'); lra. }
    rewrite (IH _ _ Hb). rewrite Hb. reflexivity. }
  rewrite (G t p 0 E). rewrite E. reflexivity.
Qed.

Lemma spec_go_ext : forall l a b, a == b -> spec_go a l == spec_go b l.
Proof.
  induction l as [|[p' r'] l IH]; intros a b Hab; cbn [spec_go]; [reflexivity|].
  assert (Hb : bmax a p' == bmax b p').
  { unfold bmax. destruct (Qltb_spec a p'), (Qltb_spec b p'); lra. }
  rewrite (IH _ _ Hb). rewrite Hb. reflexivity.
Qed.

Corollary ap_spec_start0 : forall l, (forall p r, In (p, r) l -> 0 <= p) -> ap_spec l == spec_go 0 l.
Proof.
  intros [|[p r] t] H; unfold ap_spec; [reflexivity|]. apply spec_go_start0. apply (H p r). now left.
Qed.

(* ---- Abel summation ----------------------------------------------------------------------------- *)
Fixpoint abel (m : Q) (l : list pt) : Q :=
  match l with
  | [] => 0
  | (p, r) :: t => r * (bmax m p - m) + abel (bmax m p) t
  end.

Lemma spec_abel : forall l m, spec_go m l == abel m l + m * nextr l.
Proof.
  induction l as [|[p r] t IH]; intro m; cbn [spec_go abel nextr].
  - ring.
  - rewrite (IH (bmax m p)). destruct t as [|[p' r'] t']; cbn [nextr]; ring.
Qed.

(* same precisions, pointwise larger recalls *)
Inductive le_r : list pt -> list pt -> Prop :=
| le_r_nil : le_r [] []
| le_r_cons p r r2 t t2 : r <= r2 -> le_r t t2 -> le_r ((p, r) :: t) ((p, r2) :: t2).
Lemma abel_mono_r : forall l l2, le_r l l2 -> forall m, abel m l <= abel m l2.
Proof.
  induction 1 as [|p r r2 t t2 Hr _ IH]; intro m; cbn [abel]; [lra|].
  specialize (IH (bmax m p)). pose proof (bmax_ge_l m p). nra.
Qed.

(* same recalls, pointwise larger precisions *)
Inductive le_p : list pt -> list pt -> Prop :=
| le_p_nil : le_p [] []
| le_p_cons p p2 r t t2 : p <= p2 -> le_p t t2 -> le_p ((p, r) :: t) ((p2, r) :: t2).
(* recalls do not increase towards earlier ranks *)
Fixpoint rec_ok (l : list pt) : Prop :=
  match l with [] => True | (_, r) :: t => nextr t <= r /\ rec_ok t end.
Lemma le_p_nextr l l2 : le_p l l2 -> nextr l = nextr l2.
Proof. destruct 1; reflexivity. Qed.
Lemma spec_mono_p : forall l l2, le_p l l2 -> rec_ok l -> forall m m2, 0 <= m -> m <= m2 ->
  spec_go m l <= spec_go m2 l2.
Proof.
  induction 1 as [|p p2 r t t2 Hp Ht IH]; intros Hok m m2 H0 Hm; cbn [spec_go]; [lra|].
  destruct Hok as [Hr Hok]. rewrite <- (le_p_nextr _ _ Ht).
  pose proof (bmax_mono m m2 p p2 Hm Hp) as B. pose proof (bmax_ge_l m p) as G.
  specialize (IH Hok (bmax m p) (bmax m2 p2) ltac:(lra) B). nra.
Qed.

(* l = (p, r), mid = (p, r2), l2 = (p2, r2) *)
Theorem spec_monotone l mid l2 :
  le_r l mid -> le_p mid l2 -> rec_ok mid -> spec_go 0 l <= spec_go 0 l2.
Proof.
  intros H1 H2 Hok.
  rewrite (spec_abel l 0).
  assert (E : spec_go 0 mid == abel 0 mid + 0 * nextr mid) by apply spec_abel.
  pose proof (abel_mono_r _ _ H1 0) as A.
  pose proof (spec_mono_p _ _ H2 Hok 0 0 ltac:(lra) ltac:(lra)) as B.
  lra.
Qed.

(* ---- bounds --------------------------------------------------------------------------------------- *)
Definition prec_in_unit (l : list pt) : Prop := forall p r, In (p, r) l -> 0 <= p <= 1.
Fixpoint rec_nonneg (l : list pt) : Prop :=
  match l with [] => True | (_, r) :: t => 0 <= r /\ rec_nonneg t end.

Lemma nextr_nonneg l : rec_nonneg l -> 0 <= nextr l.
Proof. destruct l as [|[p r] t]; simpl; [lra|tauto]. Qed.

Lemma spec_go_bounds : forall l m, 0 <= m <= 1 -> prec_in_unit l -> rec_ok l -> rec_nonneg l ->
  0 <= spec_go m l <= nextr l.
Proof.
  induction l as [|[p r] t IH]; intros m Hm Hp Hok Hnn; cbn [spec_go nextr]; [lra|].
  destruct Hok as [Hr Hok]. destruct Hnn as [Hr0 Hnn].
  assert (Hp1 : 0 <= p <= 1) by (apply (Hp p r); now left).
  assert (Hb : 0 <= bmax m p <= 1).
  { split; [pose proof (bmax_ge_l m p); lra|apply bmax_le; lra]. }
  assert (Hp' : prec_in_unit t) by (intros p' r' Hin; apply (Hp p' r'); now right).
  specialize (IH (bmax m p) Hb Hp' Hok Hnn).
  pose proof (nextr_nonneg t Hnn). nra.
Qed.

(* the area is exactly the final recall when precision is 1 wherever recall grows *)
Fixpoint perfect_ok (l : list pt) : Prop :=
  match l with
  | [] => True
  | (p, r) :: t => (r == nextr t \/ p == 1) /\ perfect_ok t
  end.

Lemma spec_go_perfect : forall l m, m <= 1 -> (forall p r, In (p, r) l -> p <= 1) -> perfect_ok l ->
  spec_go m l == nextr l.
Proof.
  induction l as [|[p r] t IH]; intros m Hm Hp Hok; cbn [spec_go nextr]; [reflexivity|].
  destruct Hok as [Hc Hok].
  assert (Hp1 : p <= 1) by (apply (Hp p r); now left).
  assert (Hb : bmax m p <= 1) by (apply bmax_le; lra).
  assert (Hp' : forall p' r', In (p', r') t -> p' <= 1) by (intros p' r' Hin; apply (Hp p' r'); now right).
  rewrite (IH (bmax m p) Hb Hp' Hok).
  destruct Hc as [Hc|Hc].
  - rewrite Hc. ring.
  - assert (E : bmax m p == 1) by (pose proof (bmax_ge_r m p); lra).
    rewrite E. ring.
Qed.

(* the area is 0 when every precision is 0 *)
Lemma spec_go_zero : forall l, (forall p r, In (p, r) l -> p == 0) -> spec_go 0 l == 0.
Proof.
  induction l as [|[p r] t IH]; intros Hp; cbn [spec_go]; [reflexivity|].
  assert (E : p == 0) by (apply (Hp p r); now left).
  assert (B : bmax 0 p == 0) by (unfold bmax; destruct (Qltb_spec 0 p); lra).
  rewrite (spec_go_ext t _ 0 B), B, IH; [ring|]. intros p' r' Hin. apply (Hp p' r'). now right.
Qed.

(* ---- pointwise == is respected ---------------------------------------------------------------------- *)
Inductive pts_eq : list pt -> list pt -> Prop :=
| pts_eq_nil : pts_eq [] []
| pts_eq_cons p r p2 r2 t t2 : p == p2 -> r == r2 -> pts_eq t t2 -> pts_eq ((p, r) :: t) ((p2, r2) :: t2).

Lemma pts_eq_nextr l l2 : pts_eq l l2 -> nextr l == nextr l2.
Proof. destruct 1; simpl; [reflexivity|assumption]. Qed.

Lemma spec_go_pts_eq : forall l l2, pts_eq l l2 -> forall m m2, m == m2 -> spec_go m l == spec_go m2 l2.
Proof.
  induction 1 as [|p r p2 r2 t t2 Hp Hr Ht IH]; intros m m2 Hm; cbn [spec_go]; [reflexivity|].
  assert (Hb : bmax m p == bmax m2 p2).
  { unfold bmax. destruct (Qltb_spec m p), (Qltb_spec m2 p2); lra. }
  rewrite (IH _ _ Hb), Hb, Hr, (pts_eq_nextr _ _ Ht). reflexivity.
Qed.

Lemma ap_spec_pts_eq : forall l l2, pts_eq l l2 -> ap_spec l == ap_spec l2.
Proof.
  intros l l2 H. destruct H as [|p r p2 r2 t t2 Hp Hr Ht]; unfold ap_spec; [reflexivity|].
  apply spec_go_pts_eq; [now constructor|assumption].
Qed.
