(* C06 -- the exact evaluator [inter_clip] of Model/Clip.v satisfies the hypotheses under which
   the IoU laws of Proofs/Geom2Proofs.v section 6 are stated ("area" = shoelace sum throughout,
   no measure theory).  This file: everything except symmetry (Proofs/ClipAreaSym.v).
     1. invariance under a common rigid motion (cross products are invariant, crossing points
        covariant up to ==, the shoelace sum of a closed chain invariant);
     2.-3. Green's formula for one Sutherland-Hodgman pass about an origin on the clipping line
        (the chords contribute nothing, every subject edge its kept fraction); a pass keeps a
        polygon convex counter-clockwise; hence 0 <= inter_clip e g <= area_rect e;
     4. separated boxes -> 0 (the clipped polygon lies on a line);
     5.-7. inter_clip e g <= area_rect g: a pass never increases the number of times the
        boundary leaves the inner side of ANY line (the footprint leaves it at most once), so in
        the coordinates along the edges of g the boundary of the clipped polygon descends at most
        the width of g in total, and the trapezoid form of the shoelace sum is bounded by the
        area of g;
     8. the IoU laws instantiated for the evaluator. *)
From Coq Require Import List ZArith QArith Bool Lia Lqa Psatz.
From PE Require Import Base.QUtil Model.Geom2 Model.Clip Proofs.Geom2Proofs Proofs.ClipProofs.
Import ListNotations.
Open Scope Q_scope.


(* ======================================================================================== *)
(* 1. rigid invariance of the evaluator                                                      *)
(* ======================================================================================== *)
Lemma pt_eq_sym p q : pt_eq p q -> pt_eq q p.
Proof. intros [H1 H2]. split; symmetry; assumption. Qed.
Lemma pt_eq_trans p q r : pt_eq p q -> pt_eq q r -> pt_eq p r.
Proof. intros [H1 H2] [H3 H4]. split; etransitivity; eassumption. Qed.

Lemma move_pt_eq m p q : pt_eq p q -> pt_eq (move_pt m p) (move_pt m q).
Proof.
  intros [H1 H2]. unfold pt_eq, move_pt, add_pt, rot. cbn [fst snd]. rewrite H1, H2. split; reflexivity.
Qed.

Lemma cross_move m a b p :
  motion_unit m -> cross (move_pt m a) (move_pt m b) (move_pt m p) == cross a b p.
Proof.
  unfold motion_unit. intros U. unfold cross, move_pt, add_pt, rot. cbn [fst snd].
  transitivity ((mc m * mc m + ms m * ms m) *
                ((fst b - fst a) * (snd p - snd a) - (snd b - snd a) * (fst p - fst a))); [ring|].
  rewrite U. ring.
Qed.

Lemma inside_pt_eq a b p a' b' p' :
  pt_eq a a' -> pt_eq b b' -> pt_eq p p' -> inside a b p = inside a' b' p'.
Proof.
  intros Ha Hb Hp. unfold inside.
  now rewrite (Qleb_proper 0 0 (Qeq_refl 0) _ _ (cross_pt_eq _ _ _ _ _ _ Ha Hb Hp)).
Qed.

Section Rigid.
  Variable m : motion.
  Hypothesis Um : motion_unit m.

  (* p' is (a representation of) the image of p *)
  Definition mv (p p' : pt) : Prop := pt_eq p' (move_pt m p).

  Lemma cross_mv a b p a' b' p' : mv a a' -> mv b b' -> mv p p' -> cross a' b' p' == cross a b p.
  Proof.
    intros Ha Hb Hp. rewrite (cross_pt_eq _ _ _ _ _ _ Ha Hb Hp). now apply cross_move.
  Qed.

  Lemma inside_mv a b p a' b' p' : mv a a' -> mv b b' -> mv p p' -> inside a' b' p' = inside a b p.
  Proof.
    intros Ha Hb Hp. unfold inside.
    now rewrite (Qleb_proper 0 0 (Qeq_refl 0) _ _ (cross_mv _ _ _ _ _ _ Ha Hb Hp)).
  Qed.

  Lemma lerp_move s e t : pt_eq (lerp (move_pt m s) (move_pt m e) t) (move_pt m (lerp s e t)).
  Proof. unfold pt_eq, lerp, move_pt, add_pt, rot. cbn [fst snd]. split; ring. Qed.

  Lemma lerp_pt_eq s e t s' e' t' : pt_eq s s' -> pt_eq e e' -> t == t' -> pt_eq (lerp s e t) (lerp s' e' t').
  Proof.
    intros [S1 S2] [E1 E2] T. unfold pt_eq, lerp. cbn [fst snd]. rewrite S1, S2, E1, E2, T. split; reflexivity.
  Qed.

  Lemma intersect_mv a b s e a' b' s' e' :
    mv a a' -> mv b b' -> mv s s' -> mv e e' -> mv (intersect a b s e) (intersect a' b' s' e').
  Proof.
    intros Ha Hb Hs He. unfold mv.
    eapply pt_eq_trans; [apply intersect_lerp|].
    eapply pt_eq_trans; [|apply move_pt_eq, pt_eq_sym, intersect_lerp].
    eapply pt_eq_trans; [|apply lerp_move].
    apply lerp_pt_eq; [exact Hs|exact He|].
    rewrite (cross_mv _ _ _ _ _ _ Ha Hb Hs), (cross_mv _ _ _ _ _ _ Ha Hb He). reflexivity.
  Qed.

  Lemma clip_edge_aux_mv a b a' b' prev prev' l l' :
    mv a a' -> mv b b' -> mv prev prev' -> Forall2 mv l l' ->
    Forall2 mv (clip_edge_aux a b prev l) (clip_edge_aux a' b' prev' l').
  Proof.
    intros Ha Hb Hp H. revert prev prev' Hp.
    induction H as [|cur cur' t t' Hc Ht IH]; intros prev prev' Hp; cbn [clip_edge_aux]; [constructor|].
    rewrite (inside_mv _ _ _ _ _ _ Ha Hb Hc), (inside_mv _ _ _ _ _ _ Ha Hb Hp).
    pose proof (intersect_mv _ _ _ _ _ _ _ _ Ha Hb Hp Hc) as Hx.
    specialize (IH cur cur' Hc).
    destruct (inside a b cur), (inside a b prev); cbn [app]; repeat (apply Forall2_cons; [assumption|]); exact IH.
  Qed.

  Lemma Forall2_rev {A B} (R : A -> B -> Prop) l l' : Forall2 R l l' -> Forall2 R (rev l) (rev l').
  Proof.
    induction 1 as [|x x' t t' Hx Ht IH]; cbn [rev]; [constructor|].
    apply Forall2_app; [exact IH|repeat constructor; exact Hx].
  Qed.

  Lemma clip_edge_mv a b a' b' l l' :
    mv a a' -> mv b b' -> Forall2 mv l l' -> Forall2 mv (clip_edge a b l) (clip_edge a' b' l').
  Proof.
    intros Ha Hb H. unfold clip_edge. pose proof (Forall2_rev _ _ _ H) as Hr.
    destruct Hr as [|z z' r r' Hz _]; [constructor|]. now apply clip_edge_aux_mv.
  Qed.

  Lemma clip_edges_mv f f' cl cl' l l' :
    mv f f' -> Forall2 mv cl cl' -> Forall2 mv l l' ->
    Forall2 mv (clip_edges f cl l) (clip_edges f' cl' l').
  Proof.
    intros Hf Hcl. revert l l'.
    induction Hcl as [|a a' t t' Ha Ht IH]; intros l l' Hl; cbn [clip_edges]; [exact Hl|].
    apply IH. apply clip_edge_mv; [exact Ha| |exact Hl].
    destruct Ht; [exact Hf|assumption].
  Qed.

  Lemma clip_mv subj subj' cl cl' :
    Forall2 mv subj subj' -> Forall2 mv cl cl' -> Forall2 mv (clip subj cl) (clip subj' cl').
  Proof.
    intros Hs Hc. unfold clip. destruct Hc as [|f f' t t' Hf Ht]; [constructor|].
    apply clip_edges_mv; [exact Hf|now constructor|exact Hs].
  Qed.

  (* shoelace under a rigid motion: rotation leaves every term unchanged, the translation
     terms telescope along the closed chain *)
  Lemma cross0_mv p q p' q' :
    mv p p' -> mv q q' ->
    cross0 p' q' == cross0 p q + (mtx m * (snd q' - snd p') - mty m * (fst q' - fst p')).
  Proof.
    intros [P1 P2] [Q1 Q2]. unfold motion_unit in Um.
    unfold cross0. rewrite P1, P2, Q1, Q2. unfold move_pt, add_pt, rot. cbn [fst snd].
    transitivity ((mc m * mc m + ms m * ms m) * (fst p * snd q - snd p * fst q) +
                  (mtx m * (ms m * fst q + mc m * snd q - (ms m * fst p + mc m * snd p)) -
                   mty m * (mc m * fst q - ms m * snd q - (mc m * fst p - ms m * snd p)))); [ring|].
    rewrite Um. ring.
  Qed.

  Lemma shoelace_aux_mv f f' prev prev' l l' :
    mv f f' -> mv prev prev' -> Forall2 mv l l' ->
    shoelace_aux f' prev' l' ==
    shoelace_aux f prev l + (mtx m * (snd f' - snd prev') - mty m * (fst f' - fst prev')).
  Proof.
    intros Hf Hp H. revert prev prev' Hp.
    induction H as [|x x' t t' Hx Ht IH]; intros prev prev' Hp; cbn [shoelace_aux].
    - now apply cross0_mv.
    - rewrite (IH x x' Hx), (cross0_mv _ _ _ _ Hp Hx). ring.
  Qed.

  Lemma shoelace2_mv l l' : Forall2 mv l l' -> shoelace2 l' == shoelace2 l.
  Proof.
    intros H. unfold shoelace2. destruct H as [|f f' t t' Hf Ht]; [reflexivity|].
    rewrite (shoelace_aux_mv f f' f f' t t' Hf Hf Ht). ring.
  Qed.

  Lemma rcorners_mv b : Forall2 mv (rcorners b) (rcorners (move_box m b)).
  Proof.
    unfold rcorners. rewrite !corners4. cbn [map].
    unfold move_box. cbv zeta.
    unfold mv, pt_eq, pt_red, place, box_red, centre2. cbn [fst snd bx by_ bz bc bs bw bl bh].
    unfold move_pt, add_pt, rot. cbn [fst snd bx by_ bz bc bs bw bl bh].
    repeat (apply Forall2_cons; [cbn [fst snd]; rewrite !Qred_correct; split; ring|]).
    apply Forall2_nil.
  Qed.

  Lemma inter_clip_rigid e g : inter_clip (move_box m e) (move_box m g) == inter_clip e g.
  Proof.
    unfold inter_clip, clip_area, poly_area.
    rewrite (shoelace2_mv _ _ (clip_mv _ _ _ _ (rcorners_mv e) (rcorners_mv g))). reflexivity.
  Qed.
End Rigid.



(* ======================================================================================== *)
(* 2. closed chains, the shoelace sum about an arbitrary origin                              *)
(* ======================================================================================== *)
(* consecutive pairs of the open chain prev -> l *)
Fixpoint pairs (prev : pt) (l : list pt) : list (pt * pt) :=
  match l with [] => [] | x :: t => (prev, x) :: pairs x t end.
(* the last vertex of the polygon f :: t (what clip_edge starts from) *)
Definition lastp (f : pt) (t : list pt) : pt := hd f (rev t).
(* all cyclically consecutive pairs of a polygon: (last, first), (first, second), ... *)
Definition cpairs (P : list pt) : list (pt * pt) :=
  match P with [] => [] | f :: t => pairs (lastp f t) (f :: t) end.

Lemma hd_rev_cons (d y : pt) t : hd d (rev (y :: t)) = hd y (rev t).
Proof. cbn [rev]. destruct (rev t); reflexivity. Qed.

Lemma in_lastp f t : In (lastp f t) (f :: t).
Proof.
  unfold lastp. destruct (rev t) as [|z r] eqn:E; [now left|].
  right. apply in_rev. rewrite E. now left.
Qed.

Lemma pairs_in prev l u v : In (u, v) (pairs prev l) -> In u (prev :: l) /\ In v l.
Proof.
  revert prev. induction l as [|x t IH]; intros prev H; cbn [pairs] in H; [contradiction|].
  destruct H as [H|H].
  - inversion H; subst. split; now left.
  - destruct (IH x H) as [H1 H2]. split; right; assumption.
Qed.

Lemma cpairs_in P u v : In (u, v) (cpairs P) -> In u P /\ In v P.
Proof.
  destruct P as [|f t]; [intros []|]. unfold cpairs. intros H. apply pairs_in in H.
  destruct H as [[<-|H1] H2]; split; auto. apply in_lastp.
Qed.

Lemma clip_edge_cons a b f t : clip_edge a b (f :: t) = clip_edge_aux a b (lastp f t) (f :: t).
Proof. unfold clip_edge, lastp. cbn [rev]. destruct (rev t); reflexivity. Qed.

Lemma hd_error_rev_cons (f : pt) t : hd_error (rev (f :: t)) = Some (lastp f t).
Proof. unfold lastp. cbn [rev]. destruct (rev t); reflexivity. Qed.

(* p is on the inner side of (or on) every edge of P *)
Definition Hull (P : list pt) (p : pt) : Prop := forall u v, In (u, v) (cpairs P) -> 0 <= cross u v p.
(* convex and counter-clockwise (weakly: collinear and repeated vertices allowed) *)
Definition Conv (P : list pt) : Prop := forall p, In p P -> Hull P p.

(* sum of the triangle terms [o, u, v] along a chain *)
Fixpoint csum (o prev : pt) (l : list pt) : Q :=
  match l with [] => 0 | x :: t => cross o prev x + csum o x t end.
Definition cycsum (o : pt) (P : list pt) : Q :=
  match P with [] => 0 | f :: t => csum o (lastp f t) (f :: t) end.

Lemma cross_cyc o s e : cross o s e == cross s e o.
Proof. unfold cross. ring. Qed.

Lemma cross_cross0 o u v : cross o u v == cross0 u v + cross0 o u - cross0 o v.
Proof. unfold cross, cross0. ring. Qed.

Lemma shoelace_aux_csum o f prev t :
  shoelace_aux f prev t + (cross0 o prev - cross0 o f) == csum o prev (t ++ [f]).
Proof.
  revert prev. induction t as [|p t IH]; intros prev; cbn [shoelace_aux app csum].
  - rewrite cross_cross0. ring.
  - rewrite <- IH, cross_cross0. ring.
Qed.

Lemma csum_snoc o prev t x : csum o prev (t ++ [x]) == csum o prev t + cross o (hd prev (rev t)) x.
Proof.
  revert prev. induction t as [|y t IH]; intros prev; cbn [app csum].
  - cbn [rev hd]. ring.
  - rewrite IH, hd_rev_cons. ring.
Qed.

(* the shoelace sum may be taken about any origin *)
Lemma shoelace2_cycsum o P : shoelace2 P == cycsum o P.
Proof.
  destruct P as [|f t]; [reflexivity|]. unfold shoelace2, cycsum.
  assert (E : shoelace_aux f f t == csum o f (t ++ [f])).
  { rewrite <- shoelace_aux_csum. ring. }
  rewrite E, csum_snoc. cbn [csum]. unfold lastp. ring.
Qed.

Lemma csum_prev_eq o p p' l : pt_eq p p' -> csum o p l == csum o p' l.
Proof.
  intros H. destruct l as [|x t]; [reflexivity|]. cbn [csum].
  rewrite (cross_pt_eq o p x o p' x (pt_eq_refl o) H (pt_eq_refl x)). reflexivity.
Qed.

(* ---------------------------------------------------------------------------------------- *)
(* the part of each edge kept by one clipping pass                                            *)
(* ---------------------------------------------------------------------------------------- *)
Definition tpar (a b s e : pt) : Q := cross a b s / (cross a b s - cross a b e).
Definition lam (a b s e : pt) : Q :=
  if inside a b e then (if inside a b s then 1 else 1 - tpar a b s e)
  else (if inside a b s then tpar a b s e else 0).
Fixpoint wsum (a b o prev : pt) (l : list pt) : Q :=
  match l with [] => 0 | x :: t => lam a b prev x * cross o prev x + wsum a b o x t end.

Lemma intersect_tpar a b s e : pt_eq (intersect a b s e) (lerp s e (tpar a b s e)).
Proof. apply intersect_lerp. Qed.

Lemma tpar_range a b s e : inside a b s <> inside a b e -> 0 <= tpar a b s e <= 1.
Proof. intros M. apply mixed_sides in M. now apply cross_param_range. Qed.

Lemma lam_range a b s e : 0 <= lam a b s e <= 1.
Proof.
  unfold lam. destruct (inside a b e) eqn:Ee, (inside a b s) eqn:Es; try lra.
  - assert (M : inside a b s <> inside a b e) by congruence. apply tpar_range in M. lra.
  - assert (M : inside a b s <> inside a b e) by congruence. apply tpar_range in M. lra.
Qed.

Lemma cross_lerp_l o s e t : cross o s (lerp s e t) == t * cross o s e.
Proof. unfold cross, lerp. cbn [fst snd]. ring. Qed.
Lemma cross_lerp_r o s e t : cross o (lerp s e t) e == (1 - t) * cross o s e.
Proof. unfold cross, lerp. cbn [fst snd]. ring. Qed.
Lemma cross_lerp_l' s e t p : cross s (lerp s e t) p == t * cross s e p.
Proof. unfold cross, lerp. cbn [fst snd]. ring. Qed.
Lemma cross_lerp_r' s e t p : cross (lerp s e t) e p == (1 - t) * cross s e p.
Proof. unfold cross, lerp. cbn [fst snd]. ring. Qed.
Lemma cross_lerp_on s e t : cross s e (lerp s e t) == 0.
Proof. unfold cross, lerp. cbn [fst snd]. ring. Qed.

Section Pass.
  Variables a b c : pt.
  Hypothesis Hc : ~ cross a b c == 0.

  Definition onl (p : pt) : Prop := cross a b p == 0.

  (* three points of the line a-b span no area *)
  Lemma collinear0 o x y : onl o -> onl x -> onl y -> cross o x y == 0.
  Proof.
    unfold onl. intros Ho Hx Hy.
    assert (E : cross o x y * cross a b c ==
                ((cross a b y - cross a b o) * (fst x - fst o) - (cross a b x - cross a b o) * (fst y - fst o))
                  * (snd c - snd a)
                - ((cross a b y - cross a b o) * (snd x - snd o) - (cross a b x - cross a b o) * (snd y - snd o))
                  * (fst c - fst a)) by (unfold cross; ring).
    rewrite Ho, Hx, Hy in E.
    assert (E' : cross o x y * cross a b c == 0) by (rewrite E; ring).
    apply Qmult_integral in E'. destruct E' as [E'|E']; [exact E'|contradiction].
  Qed.

  Lemma intersect_onl s e : inside a b s <> inside a b e -> onl (intersect a b s e).
  Proof. apply intersect_on_line. Qed.

  (* Green's formula for one pass, about an origin o on the clipping line: the chords lie on
     the line and contribute nothing, each subject edge contributes its kept fraction *)
  Lemma clip_csum o : onl o -> forall l prev le,
    (inside a b prev = true -> pt_eq le prev) -> (inside a b prev = false -> onl le) ->
    csum o le (clip_edge_aux a b prev l) == wsum a b o prev l.
  Proof.
    intros Ho. induction l as [|cur t IH]; intros prev le Hin Hout; cbn [clip_edge_aux wsum]; [reflexivity|].
    unfold lam.
    destruct (inside a b cur) eqn:Ec, (inside a b prev) eqn:Ep; cbn [app csum].
    - rewrite (IH cur cur); [|intros; apply pt_eq_refl|intros; congruence].
      rewrite (cross_pt_eq o le cur o prev cur (pt_eq_refl o) (Hin eq_refl) (pt_eq_refl cur)). ring.
    - assert (M : inside a b prev <> inside a b cur) by congruence.
      rewrite (IH cur cur); [|intros; apply pt_eq_refl|intros; congruence].
      rewrite (collinear0 o le (intersect a b prev cur) Ho (Hout eq_refl) (intersect_onl _ _ M)).
      rewrite (cross_pt_eq o (intersect a b prev cur) cur o _ cur (pt_eq_refl o) (intersect_tpar a b prev cur) (pt_eq_refl cur)).
      rewrite cross_lerp_r. ring.
    - assert (M : inside a b prev <> inside a b cur) by congruence.
      rewrite (IH cur (intersect a b prev cur)); [|intros; congruence|intros; now apply intersect_onl].
      rewrite (cross_pt_eq o le (intersect a b prev cur) o prev _ (pt_eq_refl o) (Hin eq_refl) (intersect_tpar a b prev cur)).
      rewrite cross_lerp_l. ring.
    - rewrite (IH cur le); [ring|intros; congruence|intros; now apply Hout].
  Qed.

  (* where the output of a pass ends *)
  Lemma clip_edge_aux_app prev l1 l2 :
    clip_edge_aux a b prev (l1 ++ l2) = clip_edge_aux a b prev l1 ++ clip_edge_aux a b (hd prev (rev l1)) l2.
  Proof.
    revert prev. induction l1 as [|x t IH]; intros prev; [reflexivity|].
    cbn [app clip_edge_aux]. rewrite IH, hd_rev_cons, <- app_assoc. reflexivity.
  Qed.

  Lemma clip_aux_last l : forall prev z,
    hd_error (rev (clip_edge_aux a b prev l)) = Some z ->
    (inside a b (hd prev (rev l)) = true -> z = hd prev (rev l)) /\
    (inside a b (hd prev (rev l)) = false -> onl z).
  Proof.
    induction l as [|cur l0 IH] using rev_ind; intros prev z H; [discriminate|].
    rewrite clip_edge_aux_app in H. rewrite rev_app_distr in H. rewrite rev_app_distr. cbn [rev app hd].
    cbn [clip_edge_aux] in H. rewrite app_nil_r in H.
    set (p' := hd prev (rev l0)) in *.
    destruct (inside a b cur) eqn:Ec, (inside a b p') eqn:Ep; cbn [rev app hd_error] in H.
    - inversion H; subst. split; [reflexivity|intros; congruence].
    - inversion H; subst. split; [reflexivity|intros; congruence].
    - inversion H; subst. split; [intros; congruence|intros _]. apply intersect_onl. congruence.
    - split; [intros; congruence|intros _]. destruct (IH prev z H) as [_ I2]. apply I2. exact Ep.
  Qed.

  (* the area formula of one pass *)
  Lemma clip_edge_wsum o f t : onl o ->
    shoelace2 (clip_edge a b (f :: t)) == wsum a b o (lastp f t) (f :: t).
  Proof.
    intros Ho. rewrite (shoelace2_cycsum o), clip_edge_cons.
    destruct (clip_edge_aux a b (lastp f t) (f :: t)) as [|f' t'] eqn:E.
    - cbn [cycsum].
      destruct (inside a b (lastp f t)) eqn:Ez.
      + rewrite <- (clip_csum o Ho (f :: t) (lastp f t) (lastp f t)); [rewrite E; reflexivity| |intros; congruence].
        intros; apply pt_eq_refl.
      + rewrite <- (clip_csum o Ho (f :: t) (lastp f t) o); [rewrite E; reflexivity|intros; congruence|].
        intros; exact Ho.
    - unfold cycsum. rewrite <- E.
      pose proof (clip_aux_last (f :: t) (lastp f t) (lastp f' t')) as L.
      rewrite E, hd_error_rev_cons in L. specialize (L eq_refl).
      rewrite hd_rev_cons in L. fold (lastp f t) in L. destruct L as [L1 L2].
      apply clip_csum; [exact Ho| |exact L2].
      intros Hi. rewrite (L1 Hi). apply pt_eq_refl.
  Qed.
End Pass.

(* bounds of the weighted sum when the origin is inside the hull *)
Lemma wsum_bounds a b o l : forall prev,
  (forall u v, In (u, v) (pairs prev l) -> 0 <= cross o u v) ->
  0 <= wsum a b o prev l <= csum o prev l.
Proof.
  induction l as [|x t IH]; intros prev H; cbn [wsum csum]; [lra|].
  assert (H0 : 0 <= cross o prev x) by (apply H; now left).
  destruct (IH x) as [I1 I2]; [intros u v Hin; apply H; now right|].
  pose proof (lam_range a b prev x) as [L1 L2].
  assert (0 <= lam a b prev x * cross o prev x) by (apply Qmult_le_0_compat; assumption).
  assert (0 <= (1 - lam a b prev x) * cross o prev x) by (apply Qmult_le_0_compat; lra).
  lra.
Qed.

Lemma csum_nonneg o l : forall prev,
  (forall u v, In (u, v) (pairs prev l) -> 0 <= cross o u v) -> 0 <= csum o prev l.
Proof.
  induction l as [|x t IH]; intros prev H; cbn [csum]; [lra|].
  assert (H0 : 0 <= cross o prev x) by (apply H; now left).
  assert (0 <= csum o x t) by (apply IH; intros u v Hin; apply H; now right). lra.
Qed.

Lemma Hull_cross o P : Hull P o -> forall u v, In (u, v) (cpairs P) -> 0 <= cross o u v.
Proof. intros H u v Hin. rewrite cross_cyc. now apply H. Qed.

(* a convex counter-clockwise polygon has a non-negative shoelace sum *)
Lemma Conv_shoelace_nonneg P : Conv P -> 0 <= shoelace2 P.
Proof.
  intros C. destruct P as [|f t]; [cbn; lra|].
  rewrite (shoelace2_cycsum f). unfold cycsum. apply csum_nonneg.
  apply (Hull_cross f (f :: t)). apply C. now left.
Qed.

(* one pass about an origin that is on the line and in the hull *)
Lemma clip_edge_bounds_at a b c o P :
  ~ cross a b c == 0 -> cross a b o == 0 -> Hull P o ->
  0 <= shoelace2 (clip_edge a b P) <= shoelace2 P.
Proof.
  intros Hc Ho HH. destruct P as [|f t]; [cbn; lra|].
  rewrite (clip_edge_wsum a b c Hc o f t Ho), (shoelace2_cycsum o (f :: t)). unfold cycsum.
  apply wsum_bounds. apply (Hull_cross o (f :: t) HH).
Qed.


(* ======================================================================================== *)
(* 3. a pass keeps the polygon convex and counter-clockwise                                  *)
(* ======================================================================================== *)
Lemma chord_identity a b s e le x p :
  (cross a b e - cross a b s) * cross le x p ==
  (cross a b x - cross a b le) * (cross s e p - cross s e le)
  + (cross s e le - cross s e x) * (cross a b p - cross a b le).
Proof. unfold cross. ring. Qed.

Lemma pos_mult_nonneg d x : 0 < d -> 0 <= d * x -> 0 <= x.
Proof. intros Hd H. destruct (Qlt_le_dec x 0) as [N|N]; [|exact N]. exfalso. nra. Qed.

Lemma clip_edge_Hull a b P : Conv P -> forall x, In x (clip_edge a b P) -> Hull P x.
Proof.
  intros C x Hx u v Huv. apply (clip_edge_keeps u v a b P); [|exact Hx].
  intros q Hq. now apply C.
Qed.

Section ConvPass.
  Variables a b : pt.
  Variable P : list pt.

  Definition goodp (p : pt) : Prop := 0 <= cross a b p /\ Hull P p.
  Definition goodE (u v : pt) : Prop := forall p, goodp p -> 0 <= cross u v p.

  Lemma Hull_intersect s e :
    inside a b s <> inside a b e -> Hull P s -> Hull P e -> Hull P (intersect a b s e).
  Proof. intros M Hs He u v Huv. apply intersect_keeps; auto. Qed.

  Lemma clip_chain : forall l prev le,
    (forall u v, In (u, v) (pairs prev l) -> forall p, Hull P p -> 0 <= cross u v p) ->
    Hull P prev -> (forall x, In x l -> Hull P x) ->
    (inside a b prev = true -> pt_eq le prev) ->
    (inside a b prev = false -> cross a b le == 0 /\ Hull P le) ->
    forall u v, In (u, v) (pairs le (clip_edge_aux a b prev l)) -> goodE u v.
  Proof.
    induction l as [|cur t IH]; intros prev le HE Hprev Hl Hin Hout u v Huv; cbn [clip_edge_aux] in Huv;
      [contradiction|].
    assert (Hcur : Hull P cur) by (apply Hl; now left).
    assert (HE' : forall u v, In (u, v) (pairs cur t) -> forall p, Hull P p -> 0 <= cross u v p)
      by (intros u' v' H'; apply HE; now right).
    assert (Hl' : forall x, In x t -> Hull P x) by (intros x Hx; apply Hl; now right).
    assert (E0 : forall p, Hull P p -> 0 <= cross prev cur p) by (apply HE; now left).
    destruct (inside a b cur) eqn:Ec, (inside a b prev) eqn:Ep; cbn [app pairs In] in Huv.
    - (* in, in *)
      destruct Huv as [Huv|Huv].
      + inversion Huv; subst. intros p [_ Hp].
        rewrite (cross_pt_eq _ _ _ _ _ _ (Hin eq_refl) (pt_eq_refl v) (pt_eq_refl p)). now apply E0.
      + apply (IH cur cur HE' Hcur Hl'); [intros; apply pt_eq_refl|intros; congruence|exact Huv].
    - (* prev out, cur in: chord le -> x, then x -> cur *)
      assert (M : inside a b prev <> inside a b cur) by congruence.
      pose proof (tpar_range a b prev cur M) as [T0 T1].
      destruct (Hout eq_refl) as [Lle Hle].
      destruct Huv as [Huv|[Huv|Huv]].
      + inversion Huv; subst. intros p [Hp1 Hp2].
        apply Qleb_true in Ec. apply Qleb_false in Ep.
        apply (pos_mult_nonneg (cross a b cur - cross a b prev)); [lra|].
        rewrite (chord_identity a b prev cur u (intersect a b prev cur) p).
        rewrite (intersect_on_line a b prev cur M), Lle.
        rewrite (cross_pt_eq prev cur (intersect a b prev cur) prev cur _
                   (pt_eq_refl prev) (pt_eq_refl cur) (intersect_tpar a b prev cur)), cross_lerp_on.
        assert (0 <= cross prev cur u) by (now apply E0).
        assert (0 <= cross prev cur u * cross a b p) by (now apply Qmult_le_0_compat).
        lra.
      + inversion Huv; subst. intros p [_ Hp].
        rewrite (cross_pt_eq _ _ _ _ _ _ (intersect_tpar a b prev v) (pt_eq_refl v) (pt_eq_refl p)), cross_lerp_r'.
        apply Qmult_le_0_compat; [lra|now apply E0].
      + apply (IH cur cur HE' Hcur Hl'); [intros; apply pt_eq_refl|intros; congruence|exact Huv].
    - (* prev in, cur out *)
      assert (M : inside a b prev <> inside a b cur) by congruence.
      pose proof (tpar_range a b prev cur M) as [T0 T1].
      destruct Huv as [Huv|Huv].
      + inversion Huv; subst. intros p [_ Hp].
        rewrite (cross_pt_eq _ _ _ _ _ _ (Hin eq_refl) (intersect_tpar a b prev cur) (pt_eq_refl p)), cross_lerp_l'.
        apply Qmult_le_0_compat; [lra|now apply E0].
      + apply (IH cur (intersect a b prev cur) HE' Hcur Hl'); [intros; congruence| |exact Huv].
        intros _. split; [now apply intersect_on_line|now apply Hull_intersect].
    - (* out, out *)
      apply (IH cur le HE' Hcur Hl'); [intros; congruence|intros _; now apply Hout|exact Huv].
  Qed.
End ConvPass.

Lemma Conv_clip_edge a b P : Conv P -> Conv (clip_edge a b P).
Proof.
  intros C. destruct P as [|f t]; [intros p []|].
  pose proof (clip_edge_Hull a b (f :: t) C) as HH.
  pose proof (clip_edge_own a b (f :: t)) as HO.
  rewrite clip_edge_cons in *.
  destruct (clip_edge_aux a b (lastp f t) (f :: t)) as [|f' t'] eqn:E; [intros p []|].
  intros p Hp u v Huv. unfold cpairs in Huv. rewrite <- E in Huv.
  pose proof (clip_aux_last a b (f :: t) (lastp f t) (lastp f' t')) as L.
  rewrite E, hd_error_rev_cons in L. specialize (L eq_refl).
  rewrite hd_rev_cons in L. fold (lastp f t) in L. destruct L as [L1 L2].
  apply (clip_chain a b (f :: t) (f :: t) (lastp f t) (lastp f' t')) with (u := u) (v := v).
  - intros u' v' H' q Hq. now apply Hq.
  - apply C, in_lastp.
  - intros x Hx. now apply C.
  - intros Hi. rewrite (L1 Hi). apply pt_eq_refl.
  - intros Ho. split; [now apply L2|apply HH, in_lastp].
  - exact Huv.
  - split; [now apply HO|now apply HH].
Qed.

(* ---------------------------------------------------------------------------------------- *)
(* one pass: the area does not grow and stays non-negative                                    *)
(* ---------------------------------------------------------------------------------------- *)
Lemma clip_edge_aux_all_outside a b prev l :
  inside a b prev = false -> (forall p, In p l -> inside a b p = false) -> clip_edge_aux a b prev l = [].
Proof.
  revert prev. induction l as [|cur t IH]; intros prev Hp Hl; cbn [clip_edge_aux]; [reflexivity|].
  rewrite (Hl cur (or_introl eq_refl)), Hp. cbn [app].
  apply IH; [apply Hl; now left|intros p Hin; apply Hl; now right].
Qed.

Lemma sides_trichotomy a b l : forall prev,
  (forall x, In x (prev :: l) -> inside a b x = true) \/
  (forall x, In x (prev :: l) -> inside a b x = false) \/
  (exists s e, In (s, e) (pairs prev l) /\ inside a b s <> inside a b e).
Proof.
  induction l as [|cur t IH]; intros prev.
  - destruct (inside a b prev) eqn:E; [left|right; left]; intros x [<-|[]]; exact E.
  - destruct (IH cur) as [H|[H|(s & e & H1 & H2)]].
    + destruct (inside a b prev) eqn:E.
      * left. intros x [<-|Hx]; [exact E|now apply H].
      * right; right. exists prev, cur. split; [now left|]. rewrite E, (H cur (or_introl eq_refl)). discriminate.
    + destruct (inside a b prev) eqn:E.
      * right; right. exists prev, cur. split; [now left|]. rewrite E, (H cur (or_introl eq_refl)). discriminate.
      * right; left. intros x [<-|Hx]; [exact E|now apply H].
    + right; right. exists s, e. split; [now right|exact H2].
Qed.

Lemma degenerate_or_witness a b :
  (forall p, cross a b p == 0) \/ (exists c, ~ cross a b c == 0).
Proof.
  destruct (Qeq_dec (fst a) (fst b)) as [E1|N1]; [destruct (Qeq_dec (snd a) (snd b)) as [E2|N2]|].
  - left. intros p. unfold cross. rewrite E1, E2. ring.
  - right. exists (fst a + 1, snd a). unfold cross. cbn [fst snd]. intros H. apply N2.
    assert (X : (fst b - fst a) * (snd a - snd a) - (snd b - snd a) * (fst a + 1 - fst a) == snd a - snd b) by ring.
    rewrite X in H. lra.
  - right. exists (fst a, snd a + 1). unfold cross. cbn [fst snd]. intros H. apply N1.
    assert (X : (fst b - fst a) * (snd a + 1 - snd a) - (snd b - snd a) * (fst a - fst a) == fst b - fst a) by ring.
    rewrite X in H. lra.
Qed.

Lemma clip_edge_pass a b P : Conv P -> 0 <= shoelace2 (clip_edge a b P) <= shoelace2 P.
Proof.
  intros C. pose proof (Conv_shoelace_nonneg P C) as N.
  destruct (degenerate_or_witness a b) as [D|[c Hc]].
  - rewrite clip_edge_all_inside; [lra|]. intros p _. unfold inside. apply Qleb_true. rewrite D. lra.
  - destruct P as [|f t]; [cbn; lra|].
    destruct (sides_trichotomy a b (f :: t) (lastp f t)) as [H|[H|(s & e & H1 & H2)]].
    + rewrite clip_edge_all_inside; [lra|]. intros p Hp. apply H. now right.
    + rewrite clip_edge_cons, clip_edge_aux_all_outside; [change (shoelace2 []) with 0; lra|apply H; now left|].
      intros p Hp. apply H. now right.
    + apply (clip_edge_bounds_at a b c (intersect a b s e)); [exact Hc|now apply intersect_on_line|].
      destruct (cpairs_in (f :: t) s e H1) as [Hs He].
      apply Hull_intersect; [exact H2|now apply C|now apply C].
Qed.

Lemma clip_edges_pass first cl : forall P, Conv P ->
  Conv (clip_edges first cl P) /\ 0 <= shoelace2 (clip_edges first cl P) <= shoelace2 P.
Proof.
  induction cl as [|a t IH]; intros P C; cbn [clip_edges].
  - split; [exact C|]. pose proof (Conv_shoelace_nonneg P C). lra.
  - set (b := match t with [] => first | b :: _ => b end).
    destruct (IH (clip_edge a b P) (Conv_clip_edge a b P C)) as [C' [L U]].
    pose proof (clip_edge_pass a b P C). split; [exact C'|lra].
Qed.

(* the clipped polygon of a convex counter-clockwise subject: convex, counter-clockwise, with a
   shoelace sum between 0 and the subject's -- whatever the clip polygon is *)
Lemma clip_pass subj cl : Conv subj ->
  Conv (clip subj cl) /\ 0 <= shoelace2 (clip subj cl) <= shoelace2 subj.
Proof.
  intros C. unfold clip. destruct cl as [|f t].
  - split; [intros p []|]. pose proof (Conv_shoelace_nonneg subj C). cbn [shoelace2]. lra.
  - now apply clip_edges_pass.
Qed.

(* boxes *)
Lemma cpairs_edges4 (p0 p1 p2 p3 : pt) uv :
  In uv (cpairs [p0; p1; p2; p3]) -> In uv (edges [p0; p1; p2; p3]).
Proof. unfold cpairs, lastp, edges. cbn [rev app hd pairs combine In]. tauto. Qed.

Lemma rcorners4 b : exists r0 r1 r2 r3, rcorners b = [r0; r1; r2; r3].
Proof. unfold rcorners. rewrite corners4. cbn [map]. repeat eexists. Qed.

Lemma Conv_rcorners b : box_valid b -> Conv (rcorners b).
Proof.
  intros V p Hp u v Huv. pose proof (rcorners_convex_ccw b V) as H.
  destruct (rcorners4 b) as (r0 & r1 & r2 & r3 & E). rewrite E in *.
  apply cpairs_edges4 in Huv. apply Qleb_true. exact (H (u, v) Huv p Hp).
Qed.

Lemma inter_clip_nonneg e g : box_valid e -> 0 <= inter_clip e g.
Proof.
  intros Ve. unfold inter_clip, clip_area, poly_area.
  destruct (clip_pass (rcorners e) (rcorners g) (Conv_rcorners e Ve)) as [_ [L _]].
  apply Qdiv_nonneg; [exact L|lra].
Qed.

Lemma inter_clip_le_l e g : box_valid e -> inter_clip e g <= area_rect e.
Proof.
  intros Ve. rewrite <- (poly_area_rcorners e (proj2 Ve)).
  unfold inter_clip, clip_area, poly_area.
  destruct (clip_pass (rcorners e) (rcorners g) (Conv_rcorners e Ve)) as [_ [_ U]].
  apply Qdiv_le_compat_l; [lra|exact U].
Qed.


(* ======================================================================================== *)
(* 4. separated boxes: the clipped polygon degenerates to a piece of a line                  *)
(* ======================================================================================== *)
Lemma csum_zero o l : forall prev,
  (forall u v, In (u, v) (pairs prev l) -> cross o u v == 0) -> csum o prev l == 0.
Proof.
  induction l as [|x t IH]; intros prev H; cbn [csum]; [reflexivity|].
  rewrite (H prev x (or_introl eq_refl)), IH; [ring|]. intros u v Hin. apply H. now right.
Qed.

Lemma collinear_shoelace0 a b c Q :
  ~ cross a b c == 0 -> (forall p, In p Q -> cross a b p == 0) -> shoelace2 Q == 0.
Proof.
  intros Hc H. rewrite (shoelace2_cycsum a). destruct Q as [|f t]; [reflexivity|].
  unfold cycsum. apply csum_zero. intros u v Huv.
  destruct (cpairs_in (f :: t) u v Huv) as [Hu Hv].
  apply (collinear0 a b c Hc); unfold onl; [unfold cross; ring|now apply H|now apply H].
Qed.

(* transport of the separation hypothesis from the corners to the reduced corners *)
Lemma Forall2_In_l {A B} (R : A -> B -> Prop) l l' x :
  Forall2 R l l' -> In x l -> exists x', In x' l' /\ R x x'.
Proof.
  induction 1 as [|y y' t t' Hy Ht IH]; intros Hin; [contradiction|].
  destruct Hin as [<-|Hin]; [exists y'; split; [now left|exact Hy]|].
  destruct (IH Hin) as (x' & H1 & H2). exists x'. split; [now right|exact H2].
Qed.
Lemma Forall2_In_r {A B} (R : A -> B -> Prop) l l' x' :
  Forall2 R l l' -> In x' l' -> exists x, In x l /\ R x x'.
Proof.
  induction 1 as [|y y' t t' Hy Ht IH]; intros Hin; [contradiction|].
  destruct Hin as [<-|Hin]; [exists y; split; [now left|exact Hy]|].
  destruct (IH Hin) as (x & H1 & H2). exists x. split; [now right|exact H2].
Qed.
Lemma Forall2_combine {A B} (R : A -> B -> Prop) l1 l1' l2 l2' :
  Forall2 R l1 l1' -> Forall2 R l2 l2' ->
  Forall2 (fun p q => R (fst p) (fst q) /\ R (snd p) (snd q)) (combine l1 l2) (combine l1' l2').
Proof.
  intros H1. revert l2 l2'. induction H1 as [|x x' t t' Hx Ht IH]; intros l2 l2' H2; cbn [combine]; [constructor|].
  destruct H2 as [|y y' u u' Hy Hu]; constructor; [split; assumption|now apply IH].
Qed.
Lemma Forall2_edges P P' :
  Forall2 pt_eq P P' ->
  Forall2 (fun p q => pt_eq (fst p) (fst q) /\ pt_eq (snd p) (snd q)) (edges P) (edges P').
Proof.
  intros H. unfold edges. destruct H as [|f f' t t' Hf Ht]; [constructor|].
  apply Forall2_combine; [now constructor|]. apply Forall2_app; [exact Ht|apply Forall2_cons; [exact Hf|apply Forall2_nil]].
Qed.

Lemma separated_pt_eq P P' R R' :
  Forall2 pt_eq P P' -> Forall2 pt_eq R R' -> separated_by_edge P R -> separated_by_edge P' R'.
Proof.
  intros HP HR (ab & Hab & Hsep).
  destruct (Forall2_In_l _ _ _ ab (Forall2_edges _ _ HP) Hab) as (ab' & Hab' & Ea & Eb).
  exists ab'. split; [exact Hab'|]. intros q' Hq'.
  destruct (Forall2_In_r _ _ _ q' HR Hq') as (q & Hq & Eq).
  rewrite <- (cross_pt_eq _ _ _ _ _ _ Ea Eb Eq). now apply Hsep.
Qed.

Lemma corners_rcorners b : Forall2 pt_eq (corners b) (rcorners b).
Proof.
  pose proof (rcorners_img b) as H. induction H as [|p p' t t' Hp Ht IH]; constructor; [|exact IH].
  apply pt_eq_sym. exact Hp.
Qed.

(* every edge of a box footprint is a proper segment: the corner two steps ahead is off its line *)
Lemma rcorners_edge_proper b : box_valid b ->
  forall ab, In ab (edges (rcorners b)) -> exists c, ~ cross (fst ab) (snd ab) c == 0.
Proof.
  intros V ab Hab. pose proof (box_red_valid b V) as [(Hw & Hl & _) U].
  pose proof (cross_opposite (box_red b) U) as X.
  assert (Pos : 0 < bl (box_red b) * bw (box_red b)) by nra.
  unfold rcorners in Hab. rewrite corners4 in *. cbn [map] in Hab. unfold edges in Hab. cbn [combine app] in Hab.
  destruct X as (X0 & X1 & X2 & X3).
  destruct Hab as [<-|[<-|[<-|[<-|[]]]]]; cbn [fst snd];
    [exists (place (box_red b) (- bl (box_red b) / 2, - bw (box_red b) / 2))
    |exists (place (box_red b) (bl (box_red b) / 2, - bw (box_red b) / 2))
    |exists (place (box_red b) (bl (box_red b) / 2, bw (box_red b) / 2))
    |exists (place (box_red b) (- bl (box_red b) / 2, bw (box_red b) / 2))];
    rewrite (cross_pt_eq _ _ _ _ _ _ (pt_red_eq _) (pt_red_eq _) (pt_eq_refl _)); lra.
Qed.

(* a point inside a parallelogram is a convex combination of its corners: an affine function
   that is <= 0 at the four corners is <= 0 at the point *)
Lemma para_affine c0 c1 c2 c3 a b p :
  fst c2 == fst c1 + fst c3 - fst c0 -> snd c2 == snd c1 + snd c3 - snd c0 ->
  cross c0 c1 c2 * cross c0 c1 c2 * cross a b p ==
    cross c1 c2 p * cross c2 c3 p * cross a b c0 + cross c3 c0 p * cross c2 c3 p * cross a b c1
  + cross c3 c0 p * cross c0 c1 p * cross a b c2 + cross c1 c2 p * cross c0 c1 p * cross a b c3.
Proof. intros H1 H2. unfold cross. rewrite H1, H2. ring. Qed.

Lemma para_nonpos c0 c1 c2 c3 a b p :
  fst c2 == fst c1 + fst c3 - fst c0 -> snd c2 == snd c1 + snd c3 - snd c0 ->
  0 < cross c0 c1 c2 ->
  0 <= cross c0 c1 p -> 0 <= cross c1 c2 p -> 0 <= cross c2 c3 p -> 0 <= cross c3 c0 p ->
  cross a b c0 <= 0 -> cross a b c1 <= 0 -> cross a b c2 <= 0 -> cross a b c3 <= 0 ->
  cross a b p <= 0.
Proof.
  intros H1 H2 A P0 P1 P2 P3 N0 N1 N2 N3.
  pose proof (para_affine c0 c1 c2 c3 a b p H1 H2) as E.
  assert (W0 : 0 <= cross c1 c2 p * cross c2 c3 p) by (now apply Qmult_le_0_compat).
  assert (W1 : 0 <= cross c3 c0 p * cross c2 c3 p) by (now apply Qmult_le_0_compat).
  assert (W2 : 0 <= cross c3 c0 p * cross c0 c1 p) by (now apply Qmult_le_0_compat).
  assert (W3 : 0 <= cross c1 c2 p * cross c0 c1 p) by (now apply Qmult_le_0_compat).
  set (w0 := cross c1 c2 p * cross c2 c3 p) in *. set (w1 := cross c3 c0 p * cross c2 c3 p) in *.
  set (w2 := cross c3 c0 p * cross c0 c1 p) in *. set (w3 := cross c1 c2 p * cross c0 c1 p) in *.
  assert (T0 : w0 * cross a b c0 <= 0) by nra. assert (T1 : w1 * cross a b c1 <= 0) by nra.
  assert (T2 : w2 * cross a b c2 <= 0) by nra. assert (T3 : w3 * cross a b c3 <= 0) by nra.
  assert (AA : 0 < cross c0 c1 c2 * cross c0 c1 c2) by nra.
  set (A2 := cross c0 c1 c2 * cross c0 c1 c2) in *.
  assert (L : A2 * cross a b p <= 0) by lra.
  destruct (Qlt_le_dec 0 (cross a b p)) as [G|G]; [exfalso; nra|exact G].
Qed.

(* the reduced corners of a box form a parallelogram of positive orientation *)
Lemma rcorners_para b : box_valid b ->
  exists c0 c1 c2 c3, rcorners b = [c0; c1; c2; c3] /\
    fst c2 == fst c1 + fst c3 - fst c0 /\ snd c2 == snd c1 + snd c3 - snd c0 /\ 0 < cross c0 c1 c2.
Proof.
  intros V. pose proof (box_red_valid b V) as [(Hw & Hl & _) U].
  pose proof (cross_opposite (box_red b) U) as X.
  assert (Pos : 0 < bl (box_red b) * bw (box_red b)) by nra.
  unfold rcorners. rewrite corners4 in *. cbn [map].
  do 4 eexists. split; [reflexivity|]. destruct X as (X0 & _).
  split; [|split].
  - unfold pt_red, place, add_pt, rot, centre2. cbn [fst snd]. rewrite !Qred_correct. halves. ring.
  - unfold pt_red, place, add_pt, rot, centre2. cbn [fst snd]. rewrite !Qred_correct. halves. ring.
  - rewrite (cross_pt_eq _ _ _ _ _ _ (pt_red_eq _) (pt_red_eq _) (pt_red_eq _)). lra.
Qed.

Lemma inter_clip_separated_l e g :
  box_valid e -> box_valid g -> separated_by_edge (rcorners g) (rcorners e) -> inter_clip e g == 0.
Proof.
  intros Ve Vg (ab & Hab & Hsep).
  destruct (rcorners_edge_proper g Vg ab Hab) as [c Hc].
  unfold inter_clip, clip_area, poly_area.
  rewrite (collinear_shoelace0 (fst ab) (snd ab) c _ Hc); [reflexivity|].
  intros p Hp.
  pose proof (clip_within_clip (rcorners e) (rcorners g) ab Hab p Hp) as H1.
  assert (H2 : 0 <= cross (snd ab) (fst ab) p).
  { apply (clip_within_subject (rcorners e) (rcorners g)); [|exact Hp].
    intros q Hq. specialize (Hsep q Hq).
    assert (E : cross (snd ab) (fst ab) q == - cross (fst ab) (snd ab) q) by (unfold cross; ring). lra. }
  assert (E : cross (snd ab) (fst ab) p == - cross (fst ab) (snd ab) p) by (unfold cross; ring). lra.
Qed.

Lemma inter_clip_separated_r e g :
  box_valid e -> box_valid g -> separated_by_edge (rcorners e) (rcorners g) -> inter_clip e g == 0.
Proof.
  intros Ve Vg (ab & Hab & Hsep).
  destruct (rcorners_edge_proper e Ve ab Hab) as [c Hc].
  unfold inter_clip, clip_area, poly_area.
  rewrite (collinear_shoelace0 (fst ab) (snd ab) c _ Hc); [reflexivity|].
  intros p Hp.
  assert (H1 : 0 <= cross (fst ab) (snd ab) p).
  { apply (clip_within_subject (rcorners e) (rcorners g)); [|exact Hp].
    intros q Hq. apply Qleb_true. exact (rcorners_convex_ccw e Ve ab Hab q Hq). }
  assert (H2 : cross (fst ab) (snd ab) p <= 0).
  { destruct (rcorners_para g Vg) as (c0 & c1 & c2 & c3 & E & F1 & F2 & A).
    pose proof (clip_within_clip (rcorners e) (rcorners g)) as W. rewrite E in *.
    unfold edges in W. cbn [combine app] in W.
    apply (para_nonpos c0 c1 c2 c3 (fst ab) (snd ab) p F1 F2 A).
    - apply (W (c0, c1)); [cbn; tauto|exact Hp].
    - apply (W (c1, c2)); [cbn; tauto|exact Hp].
    - apply (W (c2, c3)); [cbn; tauto|exact Hp].
    - apply (W (c3, c0)); [cbn; tauto|exact Hp].
    - apply Hsep; cbn; tauto.
    - apply Hsep; cbn; tauto.
    - apply Hsep; cbn; tauto.
    - apply Hsep; cbn; tauto. }
  lra.
Qed.

Lemma inter_clip_disjoint e g : box_valid e -> box_valid g -> boxes_disjoint e g -> inter_clip e g == 0.
Proof.
  intros Ve Vg [D|D].
  - apply inter_clip_separated_r; try assumption.
    exact (separated_pt_eq _ _ _ _ (corners_rcorners e) (corners_rcorners g) D).
  - apply inter_clip_separated_l; try assumption.
    exact (separated_pt_eq _ _ _ _ (corners_rcorners g) (corners_rcorners e) D).
Qed.


(* ======================================================================================== *)
(* 5. the boundary is traversed once: w.r.t. every line the cyclic vertex sequence leaves     *)
(*    the inner side at most once -- a combinatorial invariant of every clipping pass          *)
(* ======================================================================================== *)
Section Exits.
  Variable sd : pt -> bool.

  Definition ex1 (u v : pt) : nat := if sd u && negb (sd v) then 1%nat else 0%nat.
  (* number of in -> out steps along the open chain prev -> l *)
  Fixpoint exs (prev : pt) (l : list pt) : nat :=
    match l with [] => 0%nat | x :: t => (ex1 prev x + exs x t)%nat end.
  Definition cexs (P : list pt) : nat :=
    match P with [] => 0%nat | f :: t => exs (lastp f t) (f :: t) end.

  Lemma ex1_tri u y v : (ex1 u v <= ex1 u y + ex1 y v)%nat.
  Proof. unfold ex1. destruct (sd u), (sd y), (sd v); cbn; lia. Qed.

  Lemma exs_snoc prev t x : exs prev (t ++ [x]) = (exs prev t + ex1 (hd prev (rev t)) x)%nat.
  Proof.
    revert prev. induction t as [|y t IH]; intros prev; cbn [app exs].
    - cbn [rev hd]. lia.
    - rewrite IH, hd_rev_cons. lia.
  Qed.

  Lemma cexs_linear f t : cexs (f :: t) = exs f (t ++ [f]).
  Proof. unfold cexs. rewrite exs_snoc. cbn [exs]. unfold lastp. lia. Qed.

  Lemma exs_drop_head p y m : m <> [] -> (exs p m <= ex1 p y + exs y m)%nat.
  Proof. destruct m as [|m0 m']; [congruence|]. intros _. cbn [exs]. pose proof (ex1_tri p y m0). lia. Qed.

  Lemma exs_filter k q l : forall p, (exs p (filter k l ++ [q]) <= exs p (l ++ [q]))%nat.
  Proof.
    induction l as [|y t IH]; intros p; cbn [filter app]; [lia|].
    destruct (k y); cbn [app exs].
    - specialize (IH y). lia.
    - specialize (IH p).
      assert (N : t ++ [q] <> []) by (destruct t; discriminate).
      pose proof (exs_drop_head p y (t ++ [q]) N). lia.
  Qed.

  Lemma cexs_tail f t : (cexs t <= cexs (f :: t))%nat.
  Proof.
    destruct t as [|g t']; [cbn; lia|].
    rewrite !cexs_linear. cbn [app exs]. rewrite !exs_snoc.
    pose proof (ex1_tri (hd g (rev t')) f g). lia.
  Qed.

  Lemma cexs_filter k P : (cexs (filter k P) <= cexs P)%nat.
  Proof.
    induction P as [|f t IH]; [cbn; lia|]. cbn [filter]. destruct (k f).
    - rewrite !cexs_linear. apply exs_filter.
    - pose proof (cexs_tail f t). lia.
  Qed.
End Exits.

(* a pass = insert the crossing points, then drop the vertices that are outside *)
Fixpoint refine_aux (a b prev : pt) (l : list pt) : list pt :=
  match l with
  | [] => []
  | cur :: t =>
      (if Bool.eqb (inside a b prev) (inside a b cur) then [cur] else [intersect a b prev cur; cur])
      ++ refine_aux a b cur t
  end.

Lemma inside_intersect a b s e : inside a b s <> inside a b e -> inside a b (intersect a b s e) = true.
Proof. intros M. unfold inside. apply Qleb_true. rewrite (intersect_on_line a b s e M). lra. Qed.

Lemma clip_is_filter a b l : forall prev,
  clip_edge_aux a b prev l = filter (inside a b) (refine_aux a b prev l).
Proof.
  induction l as [|cur t IH]; intros prev; cbn [clip_edge_aux refine_aux]; [reflexivity|].
  rewrite filter_app, <- IH. f_equal.
  destruct (inside a b cur) eqn:Ec, (inside a b prev) eqn:Ep; cbn [Bool.eqb filter]; rewrite ?Ec; try reflexivity.
  - rewrite inside_intersect by congruence. reflexivity.
  - rewrite inside_intersect by congruence. reflexivity.
Qed.

Lemma refine_last a b l : forall prev, hd prev (rev (refine_aux a b prev l)) = hd prev (rev l).
Proof.
  induction l as [|cur t IH]; intros prev; [reflexivity|]. cbn [refine_aux].
  rewrite hd_rev_cons.
  destruct (Bool.eqb (inside a b prev) (inside a b cur)); cbn [app]; rewrite !hd_rev_cons.
  - apply IH.
  - rewrite <- (IH cur). destruct (rev (refine_aux a b cur t)); reflexivity.
Qed.

Section ExitsPass.
  Variables a b : pt.
  Variable sd : pt -> bool.
  (* the side of a crossing point is the side of one of the end points *)
  Hypothesis sd_between : forall s e, inside a b s <> inside a b e ->
    sd (intersect a b s e) = sd s \/ sd (intersect a b s e) = sd e.

  Lemma exs_refine l : forall prev, exs sd prev (refine_aux a b prev l) = exs sd prev l.
  Proof.
    induction l as [|cur t IH]; intros prev; cbn [refine_aux exs]; [reflexivity|].
    destruct (Bool.eqb (inside a b prev) (inside a b cur)) eqn:E; cbn [app exs]; rewrite IH; [reflexivity|].
    apply eqb_false_iff in E. destruct (sd_between prev cur E) as [H|H];
      unfold ex1; rewrite H; destruct (sd prev), (sd cur); cbn; lia.
  Qed.

  Lemma cexs_clip_edge P : (cexs sd (clip_edge a b P) <= cexs sd P)%nat.
  Proof.
    destruct P as [|f t]; [cbn; lia|].
    rewrite clip_edge_cons, clip_is_filter.
    etransitivity; [apply cexs_filter|].
    destruct (refine_aux a b (lastp f t) (f :: t)) as [|f' t'] eqn:E.
    - cbn. lia.
    - unfold cexs. rewrite <- E.
      assert (L : lastp f' t' = lastp f t).
      { pose proof (refine_last a b (f :: t) (lastp f t)) as R. rewrite E in R.
        rewrite !hd_rev_cons in R. exact R. }
      rewrite L, exs_refine. lia.
  Qed.
End ExitsPass.

(* the sides w.r.t. any line n1 -> n2 behave like that *)
Lemma inside_between a b n1 n2 s e : inside a b s <> inside a b e ->
  inside n1 n2 (intersect a b s e) = inside n1 n2 s \/ inside n1 n2 (intersect a b s e) = inside n1 n2 e.
Proof.
  intros M. pose proof (tpar_range a b s e M) as [T0 T1].
  assert (E : cross n1 n2 (intersect a b s e) ==
              (1 - tpar a b s e) * cross n1 n2 s + tpar a b s e * cross n1 n2 e).
  { rewrite (cross_pt_eq _ _ _ _ _ _ (pt_eq_refl n1) (pt_eq_refl n2) (intersect_tpar a b s e)). apply cross_lerp. }
  unfold inside. set (t := tpar a b s e) in *.
  destruct (Qleb_spec 0 (cross n1 n2 s)) as [Hs|Hs], (Qleb_spec 0 (cross n1 n2 e)) as [He|He].
  - left. apply Qleb_true. rewrite E.
    assert (0 <= (1 - t) * cross n1 n2 s) by (apply Qmult_le_0_compat; lra).
    assert (0 <= t * cross n1 n2 e) by (apply Qmult_le_0_compat; lra). lra.
  - destruct (Qleb 0 (cross n1 n2 (intersect a b s e))); [now left|now right].
  - destruct (Qleb 0 (cross n1 n2 (intersect a b s e))); [now right|now left].
  - left. apply Qleb_false. rewrite E.
    destruct (Qlt_le_dec 0 t) as [P|P].
    + assert ((1 - t) * cross n1 n2 s <= 0) by nra. assert (t * cross n1 n2 e < 0) by nra. lra.
    + assert (Z : t == 0) by lra. rewrite Z. lra.
Qed.

(* polygons whose boundary leaves the inner side of every line at most once *)
Definition Uni (P : list pt) : Prop := forall n1 n2, (cexs (inside n1 n2) P <= 1)%nat.

Lemma Uni_clip_edge a b P : Uni P -> Uni (clip_edge a b P).
Proof.
  intros U n1 n2. etransitivity; [|apply (U n1 n2)].
  apply cexs_clip_edge. intros s e M. now apply inside_between.
Qed.

Lemma Uni_clip_edges first cl : forall P, Uni P -> Uni (clip_edges first cl P).
Proof.
  induction cl as [|a t IH]; intros P U; cbn [clip_edges]; [exact U|]. apply IH. now apply Uni_clip_edge.
Qed.

Lemma Uni_clip subj cl : Uni subj -> Uni (clip subj cl).
Proof.
  intros U. unfold clip. destruct cl as [|f t]; [intros n1 n2; cbn; lia|now apply Uni_clip_edges].
Qed.

Lemma Uni_rcorners b : box_valid b -> Uni (rcorners b).
Proof.
  intros V n1 n2. destruct (rcorners_para b V) as (c0 & c1 & c2 & c3 & E & F1 & F2 & _). rewrite E.
  assert (A : cross n1 n2 c0 + cross n1 n2 c2 == cross n1 n2 c1 + cross n1 n2 c3).
  { unfold cross. rewrite F1, F2. ring. }
  unfold cexs, lastp. cbn [rev app hd exs]. unfold ex1, inside.
  destruct (Qleb_spec 0 (cross n1 n2 c0)), (Qleb_spec 0 (cross n1 n2 c1)),
           (Qleb_spec 0 (cross n1 n2 c2)), (Qleb_spec 0 (cross n1 n2 c3)); cbn; try lia; exfalso; lra.
Qed.


(* ======================================================================================== *)
(* 6. total descent of a coordinate along a boundary that crosses every level at most once   *)
(* ======================================================================================== *)
Fixpoint psum (g : pt * pt -> Q) (L : list (pt * pt)) : Q :=
  match L with [] => 0 | x :: t => g x + psum g t end.

Lemma psum_ext g h L : (forall x, In x L -> g x == h x) -> psum g L == psum h L.
Proof.
  induction L as [|x t IH]; intros H; cbn [psum]; [reflexivity|].
  rewrite (H x (or_introl eq_refl)), IH; [reflexivity|]. intros y Hy. apply H. now right.
Qed.

Lemma psum_le g h L : (forall x, In x L -> g x <= h x) -> psum g L <= psum h L.
Proof.
  induction L as [|x t IH]; intros H; cbn [psum]; [lra|].
  pose proof (H x (or_introl eq_refl)). assert (psum g t <= psum h t) by (apply IH; intros y Hy; apply H; now right). lra.
Qed.

Lemma psum_filter_split g k L :
  psum g L == psum g (filter k L) + psum g (filter (fun x => negb (k x)) L).
Proof.
  induction L as [|x t IH]; cbn [psum filter]; [ring|]. destruct (k x); cbn [negb psum]; rewrite IH; ring.
Qed.

Lemma psum_scale c g L : psum (fun x => c * g x) L == c * psum g L.
Proof. induction L as [|x t IH]; cbn [psum]; [ring|]. rewrite IH. ring. Qed.

Lemma psum_plus g h L : psum (fun x => g x + h x) L == psum g L + psum h L.
Proof. induction L as [|x t IH]; cbn [psum]; [ring|]. rewrite IH. ring. Qed.

Lemma filter_length_le' {A} (k : A -> bool) l : (length (filter k l) <= length l)%nat.
Proof. induction l as [|x t IH]; cbn [filter length]; [lia|]. destruct (k x); cbn [length]; lia. Qed.

Lemma filter_filter_length {A} (p q : A -> bool) l :
  (length (filter p (filter q l)) <= length (filter p l))%nat.
Proof.
  induction l as [|x t IH]; cbn [filter]; [lia|].
  destruct (q x); cbn [filter]; destruct (p x); cbn [length]; lia.
Qed.

Lemma filter_In_pos {A} (p : A -> bool) l x : In x l -> p x = true -> (1 <= length (filter p l))%nat.
Proof.
  induction l as [|y t IH]; intros Hin Hp; [contradiction|]. cbn [filter].
  destruct Hin as [->|Hin]; [rewrite Hp; cbn; lia|].
  destruct (p y); cbn [length]; [lia|now apply IH].
Qed.

Definition dplus (x : Q) : Q := if Qltb 0 x then x else 0.

Section Travel.
  Variable xi : pt -> Q.

  Definition desc (uv : pt * pt) : Q := dplus (xi (fst uv) - xi (snd uv)).
  (* the step uv goes down through level c *)
  Definition trans (c : Q) (uv : pt * pt) : bool := Qleb c (xi (fst uv)) && Qltb (xi (snd uv)) c.
  Definition cnt (c : Q) (L : list (pt * pt)) : nat := length (filter (trans c) L).

  Lemma travel : forall n L lo hi, (length L <= n)%nat -> lo <= hi ->
    (forall uv, In uv L -> xi (snd uv) < xi (fst uv) -> lo <= xi (snd uv) /\ xi (fst uv) <= hi) ->
    (forall uv, In uv L -> (cnt (xi (fst uv)) L <= 1)%nat) ->
    psum desc L <= hi - lo.
  Proof.
    induction n as [|n IH]; intros L lo hi Hn Hlh Hin Hc.
    - destruct L; [cbn; lra|cbn in Hn; lia].
    - destruct L as [|[u v] T]; [cbn; lra|]. cbn [length] in Hn. cbn [psum].
      assert (HcT : forall uv, In uv T -> (cnt (xi (fst uv)) T <= 1)%nat).
      { intros uv Huv. specialize (Hc uv (or_intror Huv)). unfold cnt in *. cbn [filter] in Hc.
        destruct (trans (xi (fst uv)) (u, v)); cbn [length] in Hc; lia. }
      assert (HinT : forall uv, In uv T -> xi (snd uv) < xi (fst uv) -> lo <= xi (snd uv) /\ xi (fst uv) <= hi)
        by (intros uv H; apply Hin; now right).
      unfold desc at 1. cbn [fst snd]. unfold dplus.
      destruct (Qltb_spec 0 (xi u - xi v)) as [D|D].
      + (* a descent from b = xi u to a = xi v *)
        destruct (Hin (u, v) (or_introl eq_refl)) as [La Hb]; [cbn [fst snd]; lra|]. cbn [fst snd] in La, Hb.
        set (kL := fun p : pt * pt => Qleb (xi (fst p)) (xi v)).
        rewrite (psum_filter_split desc kL T).
        assert (BL : psum desc (filter kL T) <= xi v - lo).
        { apply (IH _ lo (xi v)).
          - pose proof (filter_length_le' kL T). lia.
          - exact La.
          - intros uv H1 H2. apply filter_In in H1. destruct H1 as [H1 H3]. unfold kL in H3. apply Qleb_true in H3.
            destruct (HinT uv H1 H2). split; assumption.
          - intros uv Huv. apply filter_In in Huv. destruct Huv as [Huv _].
            unfold cnt. etransitivity; [apply filter_filter_length|now apply HcT]. }
        assert (BR : psum desc (filter (fun x => negb (kL x)) T) <= hi - xi u).
        { apply (IH _ (xi u) hi).
          - pose proof (filter_length_le' (fun x => negb (kL x)) T). lia.
          - exact Hb.
          - intros [u' v'] H1 H2. apply filter_In in H1. destruct H1 as [H1 H3]. unfold kL in H3.
            apply negb_true_iff, Qleb_false in H3. cbn [fst snd] in *.
            destruct (HinT (u', v') H1 H2) as [_ H5]. cbn [fst snd] in H5. split; [|exact H5].
            destruct (Qlt_le_dec (xi v') (xi u)) as [Bad|Ok]; [exfalso|exact Ok].
            (* a level that both steps go down through *)
            assert (W : exists q w, In (q, w) ((u, v) :: T) /\
                          xi v < xi q /\ xi q <= xi u /\ xi v' < xi q /\ xi q <= xi u').
            { destruct (Qlt_le_dec (xi u') (xi u)); [exists u', v'|exists u, v];
                (split; [first [now right|now left]|repeat split; lra]). }
            destruct W as (q & w & Wq & W1 & W2 & W3 & W4).
            specialize (Hc (q, w) Wq). cbn [fst] in Hc. unfold cnt in Hc. cbn [filter] in Hc.
            assert (T1 : trans (xi q) (u, v) = true).
            { unfold trans. cbn [fst snd]. apply andb_true_iff. split; [now apply Qleb_true|now apply Qltb_true]. }
            assert (T2 : trans (xi q) (u', v') = true).
            { unfold trans. cbn [fst snd]. apply andb_true_iff. split; [now apply Qleb_true|now apply Qltb_true]. }
            rewrite T1 in Hc. cbn [length] in Hc.
            pose proof (filter_In_pos (trans (xi q)) T (u', v') H1 T2). lia.
          - intros uv Huv. apply filter_In in Huv. destruct Huv as [Huv _].
            unfold cnt. etransitivity; [apply filter_filter_length|now apply HcT]. }
        lra.
      + assert (psum desc T <= hi - lo) by (apply (IH T lo hi); auto; lia). lra.
  Qed.

  (* the count of down-steps through a level is the exit count of Section Exits *)
  Lemma Qltb_negb_Qleb x c : Qltb x c = negb (Qleb c x).
  Proof. destruct (Qltb_spec x c), (Qleb_spec c x); try reflexivity; exfalso; lra. Qed.

  Lemma cnt_exs c l : forall prev, cnt c (pairs prev l) = exs (fun p => Qleb c (xi p)) prev l.
  Proof.
    induction l as [|x t IH]; intros prev; [reflexivity|]. unfold cnt in *. cbn [pairs filter exs].
    unfold trans at 1. cbn [fst snd]. unfold ex1. rewrite Qltb_negb_Qleb.
    destruct (Qleb c (xi prev) && negb (Qleb c (xi x))); cbn [length]; rewrite IH; reflexivity.
  Qed.
End Travel.

Lemma exs_ext sd sd' l : (forall p, sd p = sd' p) -> forall prev, exs sd prev l = exs sd' prev l.
Proof.
  intros H. induction l as [|x t IH]; intros prev; cbn [exs]; [reflexivity|].
  unfold ex1. rewrite !H, IH. reflexivity.
Qed.

(* ---------------------------------------------------------------------------------------- *)
(* the trapezoid form of the shoelace sum in coordinates (xi, eta) with 0 <= eta <= A         *)
(* ---------------------------------------------------------------------------------------- *)
Lemma psum_tele (h : pt -> Q) l : forall prev,
  psum (fun uv => h (fst uv) - h (snd uv)) (pairs prev l) == h prev - h (hd prev (rev l)).
Proof.
  induction l as [|x t IH]; intros prev; cbn [pairs psum].
  - cbn [rev hd]. ring.
  - rewrite IH, hd_rev_cons. cbn [fst snd]. ring.
Qed.

Lemma psum_tele_cyc (h : pt -> Q) P : psum (fun uv => h (fst uv) - h (snd uv)) (cpairs P) == 0.
Proof.
  destruct P as [|f t]; [reflexivity|]. unfold cpairs. rewrite psum_tele, hd_rev_cons. unfold lastp. ring.
Qed.

Lemma trapezoid_bound (xi eta : pt -> Q) (A : Q) P :
  (forall p, In p P -> 0 <= eta p <= A) ->
  psum (fun uv => xi (fst uv) * eta (snd uv) - xi (snd uv) * eta (fst uv)) (cpairs P)
  <= (2 * A) * psum (desc xi) (cpairs P).
Proof.
  intros HA.
  rewrite <- psum_scale.
  assert (E : psum (fun uv => xi (fst uv) * eta (snd uv) - xi (snd uv) * eta (fst uv)) (cpairs P) ==
              psum (fun uv => (xi (fst uv) - xi (snd uv)) * (eta (fst uv) + eta (snd uv))
                              + - (xi (fst uv) * eta (fst uv) - xi (snd uv) * eta (snd uv))) (cpairs P)).
  { apply psum_ext. intros [u v] _. cbn [fst snd]. ring. }
  rewrite E, psum_plus.
  assert (Z : psum (fun uv => - (xi (fst uv) * eta (fst uv) - xi (snd uv) * eta (snd uv))) (cpairs P) == 0).
  { rewrite <- (psum_tele_cyc (fun p => - (xi p * eta p)) P). apply psum_ext. intros [u v] _. cbn [fst snd]. ring. }
  rewrite Z.
  assert (B : psum (fun uv => (xi (fst uv) - xi (snd uv)) * (eta (fst uv) + eta (snd uv))) (cpairs P)
              <= psum (fun x => 2 * A * desc xi x) (cpairs P)).
  { apply psum_le. intros [u v] Huv. destruct (cpairs_in P u v Huv) as [Hu Hv].
    destruct (HA u Hu), (HA v Hv). unfold desc, dplus. cbn [fst snd].
    destruct (Qltb_spec 0 (xi u - xi v)) as [D|D]; nra. }
  lra.
Qed.


(* ======================================================================================== *)
(* 7. a once-traversed polygon inside a parallelogram has at most its shoelace sum            *)
(* ======================================================================================== *)
Lemma csum_psum o l : forall prev, csum o prev l == psum (fun uv => cross o (fst uv) (snd uv)) (pairs prev l).
Proof. induction l as [|x t IH]; intros prev; cbn [csum pairs psum]; [reflexivity|]. rewrite IH. reflexivity. Qed.

Lemma cycsum_psum o P : cycsum o P == psum (fun uv => cross o (fst uv) (snd uv)) (cpairs P).
Proof. destruct P as [|f t]; [reflexivity|]. apply csum_psum. Qed.

Section InPara.
  Variables c0 c1 c2 c3 : pt.
  Hypothesis F1 : fst c2 == fst c1 + fst c3 - fst c0.
  Hypothesis F2 : snd c2 == snd c1 + snd c3 - snd c0.
  Hypothesis Apos : 0 < cross c0 c1 c2.

  (* coordinates along the two edge directions, scaled so that both run from 0 to A *)
  Definition pxi (p : pt) : Q := cross c0 c1 p.
  Definition peta (p : pt) : Q := cross c1 c2 p.

  Lemma para_det u v : cross c0 c1 c2 * cross c1 u v == pxi u * peta v - pxi v * peta u.
  Proof. unfold pxi, peta, cross. ring. Qed.

  Lemma para_opp1 p : cross c0 c1 p + cross c2 c3 p == cross c0 c1 c2.
  Proof. unfold cross. rewrite F1, F2. ring. Qed.
  Lemma para_opp2 p : cross c1 c2 p + cross c3 c0 p == cross c0 c1 c2.
  Proof. unfold cross. rewrite F1, F2. ring. Qed.

  (* the line through q parallel to the edge c0 -> c1 *)
  Definition par_to (q : pt) : pt := (fst q + (fst c1 - fst c0), snd q + (snd c1 - snd c0)).
  Lemma cross_par q p : cross q (par_to q) p == pxi p - pxi q.
  Proof. unfold pxi, par_to, cross. cbn [fst snd]. ring. Qed.

  Lemma inside_par q p : inside q (par_to q) p = Qleb (pxi q) (pxi p).
  Proof.
    unfold inside. pose proof (cross_par q p) as E.
    destruct (Qleb_spec 0 (cross q (par_to q) p)), (Qleb_spec (pxi q) (pxi p)); try reflexivity; exfalso; lra.
  Qed.

  Lemma para_shoelace_le Q :
    Uni Q ->
    (forall p, In p Q -> 0 <= cross c0 c1 p /\ 0 <= cross c1 c2 p /\ 0 <= cross c2 c3 p /\ 0 <= cross c3 c0 p) ->
    shoelace2 Q <= 2 * cross c0 c1 c2.
  Proof.
    intros U HQ. set (A := cross c0 c1 c2) in *.
    assert (Bx : forall p, In p Q -> 0 <= pxi p <= A).
    { intros p Hp. destruct (HQ p Hp) as (H0 & _ & H2 & _). pose proof (para_opp1 p). unfold pxi. fold A in H. lra. }
    assert (By : forall p, In p Q -> 0 <= peta p <= A).
    { intros p Hp. destruct (HQ p Hp) as (_ & H1 & _ & H3). pose proof (para_opp2 p). unfold peta. fold A in H. lra. }
    assert (E : A * shoelace2 Q ==
                psum (fun uv => pxi (fst uv) * peta (snd uv) - pxi (snd uv) * peta (fst uv)) (cpairs Q)).
    { rewrite (shoelace2_cycsum c1), cycsum_psum, <- psum_scale. apply psum_ext.
      intros [u v] _. cbn [fst snd]. apply para_det. }
    pose proof (trapezoid_bound pxi peta A Q By) as T.
    assert (D : psum (desc pxi) (cpairs Q) <= A - 0).
    { apply (travel pxi (length (cpairs Q))); [lia|lra| |].
      - intros [u v] Huv _. destruct (cpairs_in Q u v Huv) as [Hu Hv]. cbn [fst snd].
        destruct (Bx u Hu), (Bx v Hv). split; assumption.
      - intros [q w] _. cbn [fst]. destruct Q as [|f t]; [cbn; lia|]. unfold cpairs. rewrite cnt_exs.
        rewrite (exs_ext _ (inside q (par_to q))); [apply (U q (par_to q))|].
        intros p. symmetry. apply inside_par. }
    assert (L : A * shoelace2 Q <= 2 * A * A) by nra.
    assert (R : 0 <= 2 * A - shoelace2 Q) by (apply (pos_mult_nonneg A); [exact Apos|lra]). lra.
  Qed.
End InPara.

Lemma rcorners_para_area b : box_valid b ->
  exists c0 c1 c2 c3, rcorners b = [c0; c1; c2; c3] /\
    fst c2 == fst c1 + fst c3 - fst c0 /\ snd c2 == snd c1 + snd c3 - snd c0 /\
    cross c0 c1 c2 == area_rect b.
Proof.
  intros V. pose proof (box_red_valid b V) as [_ U].
  pose proof (cross_opposite (box_red b) U) as X.
  destruct (rcorners_para b V) as (c0 & c1 & c2 & c3 & E & F1 & F2 & _).
  exists c0, c1, c2, c3. repeat (split; [assumption|]).
  unfold rcorners in E. rewrite corners4 in *. cbn [map] in E. inversion E; subst. destruct X as (X0 & _).
  rewrite (cross_pt_eq _ _ _ _ _ _ (pt_red_eq _) (pt_red_eq _) (pt_red_eq _)), X0.
  apply box_red_area.
Qed.

Lemma inter_clip_le_r e g : box_valid e -> box_valid g -> inter_clip e g <= area_rect g.
Proof.
  intros Ve Vg.
  destruct (rcorners_para_area g Vg) as (c0 & c1 & c2 & c3 & E & F1 & F2 & A).
  pose proof (area_rect_pos g (proj1 Vg)) as P.
  unfold inter_clip, clip_area, poly_area.
  assert (L : shoelace2 (clip (rcorners e) (rcorners g)) <= 2 * cross c0 c1 c2).
  { apply (para_shoelace_le c0 c1 c2 c3 F1 F2); [lra|apply Uni_clip, Uni_rcorners, Ve|].
    intros p Hp. pose proof (clip_within_clip (rcorners e) (rcorners g)) as W. rewrite E in W, Hp.
    unfold edges in W. cbn [combine app] in W.
    repeat split.
    - apply (W (c0, c1)); [cbn; tauto|exact Hp].
    - apply (W (c1, c2)); [cbn; tauto|exact Hp].
    - apply (W (c2, c3)); [cbn; tauto|exact Hp].
    - apply (W (c3, c0)); [cbn; tauto|exact Hp]. }
  apply Qle_shift_div_r; lra.
Qed.


(* ======================================================================================== *)
(* 8. the IoU laws for the executable evaluator, without hypotheses about an oracle          *)
(* ======================================================================================== *)
(* same footprint (up to ==): the evaluator depends on the corners only up to == *)
Definition idm : motion := mkMotion 1 0 0 0 0.
Lemma idm_unit : motion_unit idm.
Proof. unfold motion_unit, idm. cbn [mc ms]. ring. Qed.
Lemma move_idm p : pt_eq (move_pt idm p) p.
Proof. unfold pt_eq, move_pt, idm, add_pt, rot. cbn [fst snd mc ms mtx mty]. split; ring. Qed.

Lemma Forall2_pt_eq_trans l1 l2 l3 : Forall2 pt_eq l1 l2 -> Forall2 pt_eq l2 l3 -> Forall2 pt_eq l1 l3.
Proof.
  intros H. revert l3. induction H as [|x y t u Hx Ht IH]; intros l3 H3; inversion H3; subst; constructor.
  - eapply pt_eq_trans; eassumption.
  - now apply IH.
Qed.
Lemma Forall2_pt_eq_sym l1 l2 : Forall2 pt_eq l1 l2 -> Forall2 pt_eq l2 l1.
Proof. induction 1; constructor; [now apply pt_eq_sym|assumption]. Qed.
Lemma Forall2_pt_eq_refl l : Forall2 pt_eq l l.
Proof. induction l; constructor; [apply pt_eq_refl|assumption]. Qed.

Lemma Forall2_pt_eq_mv l l' : Forall2 pt_eq l l' -> Forall2 (mv idm) l l'.
Proof.
  induction 1 as [|x y t u Hx Ht IH]; constructor; [|exact IH].
  unfold mv. eapply pt_eq_trans; [apply pt_eq_sym, Hx|apply pt_eq_sym, move_idm].
Qed.

Lemma clip_area_pt_eq s s' c c' :
  Forall2 pt_eq s s' -> Forall2 pt_eq c c' -> clip_area s' c' == clip_area s c.
Proof.
  intros Hs Hc. unfold clip_area, poly_area.
  rewrite (shoelace2_mv idm idm_unit _ _
             (clip_mv idm idm_unit _ _ _ _ (Forall2_pt_eq_mv _ _ Hs) (Forall2_pt_eq_mv _ _ Hc))).
  reflexivity.
Qed.

Lemma rcorners_same_bev e g : same_bev e g -> Forall2 pt_eq (rcorners e) (rcorners g).
Proof.
  intros S.
  eapply Forall2_pt_eq_trans; [apply Forall2_pt_eq_sym, corners_rcorners|].
  eapply Forall2_pt_eq_trans; [apply corners_same_bev, S|apply corners_rcorners].
Qed.

Lemma inter_clip_same e g : box_valid e -> box_valid g -> same_bev e g -> inter_clip e g == area_rect e.
Proof.
  intros Ve Vg S. rewrite <- (inter_clip_self e Ve). unfold inter_clip.
  apply clip_area_pt_eq; [apply Forall2_pt_eq_refl|now apply rcorners_same_bev].
Qed.

(* the six hypotheses of Section IoUAlgebra other than symmetry, for the evaluator *)
Lemma inter_clip_nonneg_v e g : box_valid e -> box_valid g -> 0 <= inter_clip e g.
Proof. intros Ve _. now apply inter_clip_nonneg. Qed.
Lemma inter_clip_le_l_v e g : box_valid e -> box_valid g -> inter_clip e g <= area_rect e.
Proof. intros Ve _. now apply inter_clip_le_l. Qed.
Lemma inter_clip_rigid_v m e g :
  motion_unit m -> box_valid e -> box_valid g -> inter_clip (move_box m e) (move_box m g) == inter_clip e g.
Proof. intros Um _ _. now apply inter_clip_rigid. Qed.

Lemma iou2_clip_unit_interval e g : box_valid e -> box_valid g -> 0 <= iou2_clip e g <= 1.
Proof.
  unfold iou2_clip. apply iou2_unit_interval;
    [exact inter_clip_nonneg_v|exact inter_clip_le_l_v|exact inter_clip_le_r].
Qed.
Lemma iou3_clip_unit_interval e g : box_valid e -> box_valid g -> 0 <= iou3_clip e g <= 1.
Proof.
  unfold iou3_clip. apply iou3_unit_interval;
    [exact inter_clip_nonneg_v|exact inter_clip_le_l_v|exact inter_clip_le_r].
Qed.
Lemma iou3_clip_le_iou2_clip e g : box_valid e -> box_valid g -> iou3_clip e g <= iou2_clip e g.
Proof.
  unfold iou3_clip, iou2_clip. apply iou3_le_iou2;
    [exact inter_clip_nonneg_v|exact inter_clip_le_l_v|exact inter_clip_le_r].
Qed.
Lemma iou_clip_disjoint_zero e g :
  box_valid e -> box_valid g -> boxes_disjoint e g -> iou2_clip e g == 0 /\ iou3_clip e g == 0.
Proof.
  intros Ve Vg D. unfold iou2_clip, iou3_clip. split.
  - apply iou2_disjoint_zero; [exact inter_clip_disjoint|assumption..].
  - apply iou3_disjoint_zero; [exact inter_clip_disjoint|assumption..].
Qed.
Lemma iou_clip_rigid_invariant m e g :
  motion_unit m -> box_valid e -> box_valid g ->
  iou2_clip (move_box m e) (move_box m g) == iou2_clip e g /\
  iou3_clip (move_box m e) (move_box m g) == iou3_clip e g.
Proof.
  intros Um Ve Vg. unfold iou2_clip, iou3_clip. split.
  - apply iou2_rigid_invariant; [exact inter_clip_rigid_v|assumption..].
  - apply iou3_rigid_invariant; [exact inter_clip_rigid_v|assumption..].
Qed.
Lemma iou2_clip_identical_one e g : box_valid e -> box_valid g -> same_bev e g -> iou2_clip e g == 1.
Proof. unfold iou2_clip. apply iou2_identical_one. exact inter_clip_same. Qed.

Lemma boxes_disjoint_sym e g : boxes_disjoint e g -> boxes_disjoint g e.
Proof. intros [H|H]; [now right|now left]. Qed.
