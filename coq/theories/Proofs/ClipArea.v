(* C06 -- the exact evaluator [inter_clip] of Model/Clip.v satisfies the hypotheses under which
   the IoU laws of Proofs/Geom2Proofs.v section 6 are stated:
     1. invariance under a common rigid motion (cross products are invariant, crossing points
        covariant up to ==, the shoelace sum of a closed chain invariant);
     2. 0 <= inter_clip e g <= area_rect e  (Green's formula for one Sutherland-Hodgman pass
        about an origin on the clipping line; a pass keeps a polygon convex counter-clockwise);
     3. separated boxes -> 0 (the clipped polygon lies on a line).
   No measure theory: "area" is the shoelace sum throughout. *)
From Coq Require Import List ZArith QArith Bool Lia Lqa Psatz.
From PE Require Import Base.QUtil Model.Geom2 Model.Clip Proofs.Geom2Proofs Proofs.ClipProofs.
Import ListNotations.
Open Scope Q_scope.


(* ======================================================================================== *)
(* 1. rigid invariance of the evaluator                                                      *)
(* ======================================================================================== *)
Lemma pt_eq_sym p q : pt_eq p q -> pt_eq q p.
Proof. intros [H1 H2]. split; symmetry; assumption. Qed.
Lemma pt_eq_trans p q r : pt_eq p q -> pt_eq q r -> pt_eq p r.
Proof. intros [H1 H2] [H3 H4]. split; etransitivity; eassumption. Qed.

Lemma move_pt_eq m p q : pt_eq p q -> pt_eq (move_pt m p) (move_pt m q).
Proof.
  intros [H1 H2]. unfold pt_eq, move_pt, add_pt, rot. cbn [fst snd]. rewrite H1, H2. split; reflexivity.
Qed.

Lemma cross_move m a b p :
  motion_unit m -> cross (move_pt m a) (move_pt m b) (move_pt m p) == cross a b p.
Proof.
  unfold motion_unit. intros U. unfold cross, move_pt, add_pt, rot. cbn [fst snd].
  transitivity ((mc m * mc m + ms m * ms m) *
                ((fst b - fst a) * (snd p - snd a) - (snd b - snd a) * (fst p - fst a))); [ring|].
  rewrite U. ring.
Qed.

Lemma inside_pt_eq a b p a' b' p' :
  pt_eq a a' -> pt_eq b b' -> pt_eq p p' -> inside a b p = inside a' b' p'.
Proof.
  intros Ha Hb Hp. unfold inside.
  now rewrite (Qleb_proper 0 0 (Qeq_refl 0) _ _ (cross_pt_eq _ _ _ _ _ _ Ha Hb Hp)).
Qed.

Section Rigid.
  Variable m : motion.
  Hypothesis Um : motion_unit m.

  (* p' is (a representation of) the image of p *)
  Definition mv (p p' : pt) : Prop := pt_eq p' (move_pt m p).

  Lemma cross_mv a b p a' b' p' : mv a a' -> mv b b' -> mv p p' -> cross a' b' p' == cross a b p.
  Proof.
    intros Ha Hb Hp. rewrite (cross_pt_eq _ _ _ _ _ _ Ha Hb Hp). now apply cross_move.
  Qed.

  Lemma inside_mv a b p a' b' p' : mv a a' -> mv b b' -> mv p p' -> inside a' b' p' = inside a b p.
  Proof.
    intros Ha Hb Hp. unfold inside.
    now rewrite (Qleb_proper 0 0 (Qeq_refl 0) _ _ (cross_mv _ _ _ _ _ _ Ha Hb Hp)).
  Qed.

  Lemma lerp_move s e t : pt_eq (lerp (move_pt m s) (move_pt m e) t) (move_pt m (lerp s e t)).
  Proof. unfold pt_eq, lerp, move_pt, add_pt, rot. cbn [fst snd]. split; ring. Qed.

  Lemma lerp_pt_eq s e t s' e' t' : pt_eq s s' -> pt_eq e e' -> t == t' -> pt_eq (lerp s e t) (lerp s' e' t').
  Proof.
    intros [S1 S2] [E1 E2] T. unfold pt_eq, lerp. cbn [fst snd]. rewrite S1, S2, E1, E2, T. split; reflexivity.
  Qed.

  Lemma intersect_mv a b s e a' b' s' e' :
    mv a a' -> mv b b' -> mv s s' -> mv e e' -> mv (intersect a b s e) (intersect a' b' s' e').
  Proof.
    intros Ha Hb Hs He. unfold mv.
    eapply pt_eq_trans; [apply intersect_lerp|].
    eapply pt_eq_trans; [|apply move_pt_eq, pt_eq_sym, intersect_lerp].
    eapply pt_eq_trans; [|apply lerp_move].
    apply lerp_pt_eq; [exact Hs|exact He|].
    rewrite (cross_mv _ _ _ _ _ _ Ha Hb Hs), (cross_mv _ _ _ _ _ _ Ha Hb He). reflexivity.
  Qed.

  Lemma clip_edge_aux_mv a b a' b' prev prev' l l' :
    mv a a' -> mv b b' -> mv prev prev' -> Forall2 mv l l' ->
    Forall2 mv (clip_edge_aux a b prev l) (clip_edge_aux a' b' prev' l').
  Proof.
    intros Ha Hb Hp H. revert prev prev' Hp.
    induction H as [|cur cur' t t' Hc Ht IH]; intros prev prev' Hp; cbn [clip_edge_aux]; [constructor|].
    rewrite (inside_mv _ _ _ _ _ _ Ha Hb Hc), (inside_mv _ _ _ _ _ _ Ha Hb Hp).
    pose proof (intersect_mv _ _ _ _ _ _ _ _ Ha Hb Hp Hc) as Hx.
    specialize (IH cur cur' Hc).
    destruct (inside a b cur), (inside a b prev); cbn [app]; repeat (apply Forall2_cons; [assumption|]); exact IH.
  Qed.

  Lemma Forall2_rev {A B} (R : A -> B -> Prop) l l' : Forall2 R l l' -> Forall2 R (rev l) (rev l').
  Proof.
    induction 1 as [|x x' t t' Hx Ht IH]; cbn [rev]; [constructor|].
    apply Forall2_app; [exact IH|repeat constructor; exact Hx].
  Qed.

  Lemma clip_edge_mv a b a' b' l l' :
    mv a a' -> mv b b' -> Forall2 mv l l' -> Forall2 mv (clip_edge a b l) (clip_edge a' b' l').
  Proof.
    intros Ha Hb H. unfold clip_edge. pose proof (Forall2_rev _ _ _ H) as Hr.
    destruct Hr as [|z z' r r' Hz _]; [constructor|]. now apply clip_edge_aux_mv.
  Qed.

  Lemma clip_edges_mv f f' cl cl' l l' :
    mv f f' -> Forall2 mv cl cl' -> Forall2 mv l l' ->
    Forall2 mv (clip_edges f cl l) (clip_edges f' cl' l').
  Proof.
    intros Hf Hcl. revert l l'.
    induction Hcl as [|a a' t t' Ha Ht IH]; intros l l' Hl; cbn [clip_edges]; [exact Hl|].
    apply IH. apply clip_edge_mv; [exact Ha| |exact Hl].
    destruct Ht; [exact Hf|assumption].
  Qed.

  Lemma clip_mv subj subj' cl cl' :
    Forall2 mv subj subj' -> Forall2 mv cl cl' -> Forall2 mv (clip subj cl) (clip subj' cl').
  Proof.
    intros Hs Hc. unfold clip. destruct Hc as [|f f' t t' Hf Ht]; [constructor|].
    apply clip_edges_mv; [exact Hf|now constructor|exact Hs].
  Qed.

  (* shoelace under a rigid motion: rotation leaves every term unchanged, the translation
     terms telescope along the closed chain *)
  Lemma cross0_mv p q p' q' :
    mv p p' -> mv q q' ->
    cross0 p' q' == cross0 p q + (mtx m * (snd q' - snd p') - mty m * (fst q' - fst p')).
  Proof.
    intros [P1 P2] [Q1 Q2]. unfold motion_unit in Um.
    unfold cross0. rewrite P1, P2, Q1, Q2. unfold move_pt, add_pt, rot. cbn [fst snd].
    transitivity ((mc m * mc m + ms m * ms m) * (fst p * snd q - snd p * fst q) +
                  (mtx m * (ms m * fst q + mc m * snd q - (ms m * fst p + mc m * snd p)) -
                   mty m * (mc m * fst q - ms m * snd q - (mc m * fst p - ms m * snd p)))); [ring|].
    rewrite Um. ring.
  Qed.

  Lemma shoelace_aux_mv f f' prev prev' l l' :
    mv f f' -> mv prev prev' -> Forall2 mv l l' ->
    shoelace_aux f' prev' l' ==
    shoelace_aux f prev l + (mtx m * (snd f' - snd prev') - mty m * (fst f' - fst prev')).
  Proof.
    intros Hf Hp H. revert prev prev' Hp.
    induction H as [|x x' t t' Hx Ht IH]; intros prev prev' Hp; cbn [shoelace_aux].
    - now apply cross0_mv.
    - rewrite (IH x x' Hx), (cross0_mv _ _ _ _ Hp Hx). ring.
  Qed.

  Lemma shoelace2_mv l l' : Forall2 mv l l' -> shoelace2 l' == shoelace2 l.
  Proof.
    intros H. unfold shoelace2. destruct H as [|f f' t t' Hf Ht]; [reflexivity|].
    rewrite (shoelace_aux_mv f f' f f' t t' Hf Hf Ht). ring.
  Qed.

  Lemma rcorners_mv b : Forall2 mv (rcorners b) (rcorners (move_box m b)).
  Proof.
    unfold rcorners. rewrite !corners4. cbn [map].
    unfold move_box. cbv zeta.
    unfold mv, pt_eq, pt_red, place, box_red, centre2. cbn [fst snd bx by_ bz bc bs bw bl bh].
    unfold move_pt, add_pt, rot. cbn [fst snd bx by_ bz bc bs bw bl bh].
    repeat (apply Forall2_cons; [cbn [fst snd]; rewrite !Qred_correct; split; ring|]).
    apply Forall2_nil.
  Qed.

  Lemma inter_clip_rigid e g : inter_clip (move_box m e) (move_box m g) == inter_clip e g.
  Proof.
    unfold inter_clip, clip_area, poly_area.
    rewrite (shoelace2_mv _ _ (clip_mv _ _ _ _ (rcorners_mv e) (rcorners_mv g))). reflexivity.
  Qed.
End Rigid.



(* ======================================================================================== *)
(* 2. closed chains, the shoelace sum about an arbitrary origin                              *)
(* ======================================================================================== *)
(* consecutive pairs of the open chain prev -> l *)
Fixpoint pairs (prev : pt) (l : list pt) : list (pt * pt) :=
  match l with [] => [] | x :: t => (prev, x) :: pairs x t end.
(* the last vertex of the polygon f :: t (what clip_edge starts from) *)
Definition lastp (f : pt) (t : list pt) : pt := hd f (rev t).
(* all cyclically consecutive pairs of a polygon: (last, first), (first, second), ... *)
Definition cpairs (P : list pt) : list (pt * pt) :=
  match P with [] => [] | f :: t => pairs (lastp f t) (f :: t) end.

Lemma hd_rev_cons (d y : pt) t : hd d (rev (y :: t)) = hd y (rev t).
Proof. cbn [rev]. destruct (rev t); reflexivity. Qed.

Lemma in_lastp f t : In (lastp f t) (f :: t).
Proof.
  unfold lastp. destruct (rev t) as [|z r] eqn:E; [now left|].
  right. apply in_rev. rewrite E. now left.
Qed.

Lemma pairs_in prev l u v : In (u, v) (pairs prev l) -> In u (prev :: l) /\ In v l.
Proof.
  revert prev. induction l as [|x t IH]; intros prev H; cbn [pairs] in H; [contradiction|].
  destruct H as [H|H].
  - inversion H; subst. split; now left.
  - destruct (IH x H) as [H1 H2]. split; right; assumption.
Qed.

Lemma cpairs_in P u v : In (u, v) (cpairs P) -> In u P /\ In v P.
Proof.
  destruct P as [|f t]; [intros []|]. unfold cpairs. intros H. apply pairs_in in H.
  destruct H as [[<-|H1] H2]; split; auto. apply in_lastp.
Qed.

Lemma clip_edge_cons a b f t : clip_edge a b (f :: t) = clip_edge_aux a b (lastp f t) (f :: t).
Proof. unfold clip_edge, lastp. cbn [rev]. destruct (rev t); reflexivity. Qed.

Lemma hd_error_rev_cons (f : pt) t : hd_error (rev (f :: t)) = Some (lastp f t).
Proof. unfold lastp. cbn [rev]. destruct (rev t); reflexivity. Qed.

(* p is on the inner side of (or on) every edge of P *)
Definition Hull (P : list pt) (p : pt) : Prop := forall u v, In (u, v) (cpairs P) -> 0 <= cross u v p.
(* convex and counter-clockwise (weakly: collinear and repeated vertices allowed) *)
Definition Conv (P : list pt) : Prop := forall p, In p P -> Hull P p.

(* sum of the triangle terms [o, u, v] along a chain *)
Fixpoint csum (o prev : pt) (l : list pt) : Q :=
  match l with [] => 0 | x :: t => cross o prev x + csum o x t end.
Definition cycsum (o : pt) (P : list pt) : Q :=
  match P with [] => 0 | f :: t => csum o (lastp f t) (f :: t) end.

Lemma cross_cyc o s e : cross o s e == cross s e o.
Proof. unfold cross. ring. Qed.

Lemma cross_cross0 o u v : cross o u v == cross0 u v + cross0 o u - cross0 o v.
Proof. unfold cross, cross0. ring. Qed.

Lemma shoelace_aux_csum o f prev t :
  shoelace_aux f prev t + (cross0 o prev - cross0 o f) == csum o prev (t ++ [f]).
Proof.
  revert prev. induction t as [|p t IH]; intros prev; cbn [shoelace_aux app csum].
  - rewrite cross_cross0. ring.
  - rewrite <- IH, cross_cross0. ring.
Qed.

Lemma csum_snoc o prev t x : csum o prev (t ++ [x]) == csum o prev t + cross o (hd prev (rev t)) x.
Proof.
  revert prev. induction t as [|y t IH]; intros prev; cbn [app csum].
  - cbn [rev hd]. ring.
  - rewrite IH, hd_rev_cons. ring.
Qed.

(* the shoelace sum may be taken about any origin *)
Lemma shoelace2_cycsum o P : shoelace2 P == cycsum o P.
Proof.
  destruct P as [|f t]; [reflexivity|]. unfold shoelace2, cycsum.
  assert (E : shoelace_aux f f t == csum o f (t ++ [f])).
  { rewrite <- shoelace_aux_csum. ring. }
  rewrite E, csum_snoc. cbn [csum]. unfold lastp. ring.
Qed.

Lemma csum_prev_eq o p p' l : pt_eq p p' -> csum o p l == csum o p' l.
Proof.
  intros H. destruct l as [|x t]; [reflexivity|]. cbn [csum].
  rewrite (cross_pt_eq o p x o p' x (pt_eq_refl o) H (pt_eq_refl x)). reflexivity.
Qed.

(* ---------------------------------------------------------------------------------------- *)
(* the part of each edge kept by one clipping pass                                            *)
(* ---------------------------------------------------------------------------------------- *)
Definition tpar (a b s e : pt) : Q := cross a b s / (cross a b s - cross a b e).
Definition lam (a b s e : pt) : Q :=
  if inside a b e then (if inside a b s then 1 else 1 - tpar a b s e)
  else (if inside a b s then tpar a b s e else 0).
Fixpoint wsum (a b o prev : pt) (l : list pt) : Q :=
  match l with [] => 0 | x :: t => lam a b prev x * cross o prev x + wsum a b o x t end.

Lemma intersect_tpar a b s e : pt_eq (intersect a b s e) (lerp s e (tpar a b s e)).
Proof. apply intersect_lerp. Qed.

Lemma tpar_range a b s e : inside a b s <> inside a b e -> 0 <= tpar a b s e <= 1.
Proof. intros M. apply mixed_sides in M. now apply cross_param_range. Qed.

Lemma lam_range a b s e : 0 <= lam a b s e <= 1.
Proof.
  unfold lam. destruct (inside a b e) eqn:Ee, (inside a b s) eqn:Es; try lra.
  - assert (M : inside a b s <> inside a b e) by congruence. apply tpar_range in M. lra.
  - assert (M : inside a b s <> inside a b e) by congruence. apply tpar_range in M. lra.
Qed.

Lemma cross_lerp_l o s e t : cross o s (lerp s e t) == t * cross o s e.
Proof. unfold cross, lerp. cbn [fst snd]. ring. Qed.
Lemma cross_lerp_r o s e t : cross o (lerp s e t) e == (1 - t) * cross o s e.
Proof. unfold cross, lerp. cbn [fst snd]. ring. Qed.
Lemma cross_lerp_l' s e t p : cross s (lerp s e t) p == t * cross s e p.
Proof. unfold cross, lerp. cbn [fst snd]. ring. Qed.
Lemma cross_lerp_r' s e t p : cross (lerp s e t) e p == (1 - t) * cross s e p.
Proof. unfold cross, lerp. cbn [fst snd]. ring. Qed.
Lemma cross_lerp_on s e t : cross s e (lerp s e t) == 0.
Proof. unfold cross, lerp. cbn [fst snd]. ring. Qed.

Section Pass.
  Variables a b c : pt.
  Hypothesis Hc : ~ cross a b c == 0.

  Definition onl (p : pt) : Prop := cross a b p == 0.

  (* three points of the line a-b span no area *)
  Lemma collinear0 o x y : onl o -> onl x -> onl y -> cross o x y == 0.
  Proof.
    unfold onl. intros Ho Hx Hy.
    assert (E : cross o x y * cross a b c ==
                ((cross a b y - cross a b o) * (fst x - fst o) - (cross a b x - cross a b o) * (fst y - fst o))
                  * (snd c - snd a)
                - ((cross a b y - cross a b o) * (snd x - snd o) - (cross a b x - cross a b o) * (snd y - snd o))
                  * (fst c - fst a)) by (unfold cross; ring).
    rewrite Ho, Hx, Hy in E.
    assert (E' : cross o x y * cross a b c == 0) by (rewrite E; ring).
    apply Qmult_integral in E'. destruct E' as [E'|E']; [exact E'|contradiction].
  Qed.

  Lemma intersect_onl s e : inside a b s <> inside a b e -> onl (intersect a b s e).
  Proof. apply intersect_on_line. Qed.

  (* Green's formula for one pass, about an origin o on the clipping line: the chords lie on
     the line and contribute nothing, each subject edge contributes its kept fraction *)
  Lemma clip_csum o : onl o -> forall l prev le,
    (inside a b prev = true -> pt_eq le prev) -> (inside a b prev = false -> onl le) ->
    csum o le (clip_edge_aux a b prev l) == wsum a b o prev l.
  Proof.
    intros Ho. induction l as [|cur t IH]; intros prev le Hin Hout; cbn [clip_edge_aux wsum]; [reflexivity|].
    unfold lam.
    destruct (inside a b cur) eqn:Ec, (inside a b prev) eqn:Ep; cbn [app csum].
    - rewrite (IH cur cur); [|intros; apply pt_eq_refl|intros; congruence].
      rewrite (cross_pt_eq o le cur o prev cur (pt_eq_refl o) (Hin eq_refl) (pt_eq_refl cur)). ring.
    - assert (M : inside a b prev <> inside a b cur) by congruence.
      rewrite (IH cur cur); [|intros; apply pt_eq_refl|intros; congruence].
      rewrite (collinear0 o le (intersect a b prev cur) Ho (Hout eq_refl) (intersect_onl _ _ M)).
      rewrite (cross_pt_eq o (intersect a b prev cur) cur o _ cur (pt_eq_refl o) (intersect_tpar a b prev cur) (pt_eq_refl cur)).
      rewrite cross_lerp_r. ring.
    - assert (M : inside a b prev <> inside a b cur) by congruence.
      rewrite (IH cur (intersect a b prev cur)); [|intros; congruence|intros; now apply intersect_onl].
      rewrite (cross_pt_eq o le (intersect a b prev cur) o prev _ (pt_eq_refl o) (Hin eq_refl) (intersect_tpar a b prev cur)).
      rewrite cross_lerp_l. ring.
    - rewrite (IH cur le); [ring|intros; congruence|intros; now apply Hout].
  Qed.

  (* where the output of a pass ends *)
  Lemma clip_edge_aux_app prev l1 l2 :
    clip_edge_aux a b prev (l1 ++ l2) = clip_edge_aux a b prev l1 ++ clip_edge_aux a b (hd prev (rev l1)) l2.
  Proof.
    revert prev. induction l1 as [|x t IH]; intros prev; [reflexivity|].
    cbn [app clip_edge_aux]. rewrite IH, hd_rev_cons, <- app_assoc. reflexivity.
  Qed.

  Lemma clip_aux_last l : forall prev z,
    hd_error (rev (clip_edge_aux a b prev l)) = Some z ->
    (inside a b (hd prev (rev l)) = true -> z = hd prev (rev l)) /\
    (inside a b (hd prev (rev l)) = false -> onl z).
  Proof.
    induction l as [|cur l0 IH] using rev_ind; intros prev z H; [discriminate|].
    rewrite clip_edge_aux_app in H. rewrite rev_app_distr in H. rewrite rev_app_distr. cbn [rev app hd].
    cbn [clip_edge_aux] in H. rewrite app_nil_r in H.
    set (p' := hd prev (rev l0)) in *.
    destruct (inside a b cur) eqn:Ec, (inside a b p') eqn:Ep; cbn [rev app hd_error] in H.
    - inversion H; subst. split; [reflexivity|intros; congruence].
    - inversion H; subst. split; [reflexivity|intros; congruence].
    - inversion H; subst. split; [intros; congruence|intros _]. apply intersect_onl. congruence.
    - split; [intros; congruence|intros _]. destruct (IH prev z H) as [_ I2]. apply I2. exact Ep.
  Qed.

  (* the area formula of one pass *)
  Lemma clip_edge_wsum o f t : onl o ->
    shoelace2 (clip_edge a b (f :: t)) == wsum a b o (lastp f t) (f :: t).
  Proof.
    intros Ho. rewrite (shoelace2_cycsum o), clip_edge_cons.
    destruct (clip_edge_aux a b (lastp f t) (f :: t)) as [|f' t'] eqn:E.
    - cbn [cycsum].
      destruct (inside a b (lastp f t)) eqn:Ez.
      + rewrite <- (clip_csum o Ho (f :: t) (lastp f t) (lastp f t)); [rewrite E; reflexivity| |intros; congruence].
        intros; apply pt_eq_refl.
      + rewrite <- (clip_csum o Ho (f :: t) (lastp f t) o); [rewrite E; reflexivity|intros; congruence|].
        intros; exact Ho.
    - unfold cycsum. rewrite <- E.
      pose proof (clip_aux_last (f :: t) (lastp f t) (lastp f' t')) as L.
      rewrite E, hd_error_rev_cons in L. specialize (L eq_refl).
      rewrite hd_rev_cons in L. fold (lastp f t) in L. destruct L as [L1 L2].
      apply clip_csum; [exact Ho| |exact L2].
      intros Hi. rewrite (L1 Hi). apply pt_eq_refl.
  Qed.
End Pass.

(* bounds of the weighted sum when the origin is inside the hull *)
Lemma wsum_bounds a b o l : forall prev,
  (forall u v, In (u, v) (pairs prev l) -> 0 <= cross o u v) ->
  0 <= wsum a b o prev l <= csum o prev l.
Proof.
  induction l as [|x t IH]; intros prev H; cbn [wsum csum]; [lra|].
  assert (H0 : 0 <= cross o prev x) by (apply H; now left).
  destruct (IH x) as [I1 I2]; [intros u v Hin; apply H; now right|].
  pose proof (lam_range a b prev x) as [L1 L2].
  assert (0 <= lam a b prev x * cross o prev x) by (apply Qmult_le_0_compat; assumption).
  assert (0 <= (1 - lam a b prev x) * cross o prev x) by (apply Qmult_le_0_compat; lra).
  lra.
Qed.

Lemma csum_nonneg o l : forall prev,
  (forall u v, In (u, v) (pairs prev l) -> 0 <= cross o u v) -> 0 <= csum o prev l.
Proof.
  induction l as [|x t IH]; intros prev H; cbn [csum]; [lra|].
  assert (H0 : 0 <= cross o prev x) by (apply H; now left).
  assert (0 <= csum o x t) by (apply IH; intros u v Hin; apply H; now right). lra.
Qed.

Lemma Hull_cross o P : Hull P o -> forall u v, In (u, v) (cpairs P) -> 0 <= cross o u v.
Proof. intros H u v Hin. rewrite cross_cyc. now apply H. Qed.

(* a convex counter-clockwise polygon has a non-negative shoelace sum *)
Lemma Conv_shoelace_nonneg P : Conv P -> 0 <= shoelace2 P.
Proof.
  intros C. destruct P as [|f t]; [cbn; lra|].
  rewrite (shoelace2_cycsum f). unfold cycsum. apply csum_nonneg.
  apply (Hull_cross f (f :: t)). apply C. now left.
Qed.

(* one pass about an origin that is on the line and in the hull *)
Lemma clip_edge_bounds_at a b c o P :
  ~ cross a b c == 0 -> cross a b o == 0 -> Hull P o ->
  0 <= shoelace2 (clip_edge a b P) <= shoelace2 P.
Proof.
  intros Hc Ho HH. destruct P as [|f t]; [cbn; lra|].
  rewrite (clip_edge_wsum a b c Hc o f t Ho), (shoelace2_cycsum o (f :: t)). unfold cycsum.
  apply wsum_bounds. apply (Hull_cross o (f :: t) HH).
Qed.


(* ======================================================================================== *)
(* 3. a pass keeps the polygon convex and counter-clockwise                                  *)
(* ======================================================================================== *)
Lemma chord_identity a b s e le x p :
  (cross a b e - cross a b s) * cross le x p ==
  (cross a b x - cross a b le) * (cross s e p - cross s e le)
  + (cross s e le - cross s e x) * (cross a b p - cross a b le).
Proof. unfold cross. ring. Qed.

Lemma pos_mult_nonneg d x : 0 < d -> 0 <= d * x -> 0 <= x.
Proof. intros Hd H. destruct (Qlt_le_dec x 0) as [N|N]; [|exact N]. exfalso. nra. Qed.

Lemma clip_edge_Hull a b P : Conv P -> forall x, In x (clip_edge a b P) -> Hull P x.
Proof.
  intros C x Hx u v Huv. apply (clip_edge_keeps u v a b P); [|exact Hx].
  intros q Hq. now apply C.
Qed.

Section ConvPass.
  Variables a b : pt.
  Variable P : list pt.

  Definition goodp (p : pt) : Prop := 0 <= cross a b p /\ Hull P p.
  Definition goodE (u v : pt) : Prop := forall p, goodp p -> 0 <= cross u v p.

  Lemma Hull_intersect s e :
    inside a b s <> inside a b e -> Hull P s -> Hull P e -> Hull P (intersect a b s e).
  Proof. intros M Hs He u v Huv. apply intersect_keeps; auto. Qed.

  Lemma clip_chain : forall l prev le,
    (forall u v, In (u, v) (pairs prev l) -> forall p, Hull P p -> 0 <= cross u v p) ->
    Hull P prev -> (forall x, In x l -> Hull P x) ->
    (inside a b prev = true -> pt_eq le prev) ->
    (inside a b prev = false -> cross a b le == 0 /\ Hull P le) ->
    forall u v, In (u, v) (pairs le (clip_edge_aux a b prev l)) -> goodE u v.
  Proof.
    induction l as [|cur t IH]; intros prev le HE Hprev Hl Hin Hout u v Huv; cbn [clip_edge_aux] in Huv;
      [contradiction|].
    assert (Hcur : Hull P cur) by (apply Hl; now left).
    assert (HE' : forall u v, In (u, v) (pairs cur t) -> forall p, Hull P p -> 0 <= cross u v p)
      by (intros u' v' H'; apply HE; now right).
    assert (Hl' : forall x, In x t -> Hull P x) by (intros x Hx; apply Hl; now right).
    assert (E0 : forall p, Hull P p -> 0 <= cross prev cur p) by (apply HE; now left).
    destruct (inside a b cur) eqn:Ec, (inside a b prev) eqn:Ep; cbn [app pairs In] in Huv.
    - (* in, in *)
      destruct Huv as [Huv|Huv].
      + inversion Huv; subst. intros p [_ Hp].
        rewrite (cross_pt_eq _ _ _ _ _ _ (Hin eq_refl) (pt_eq_refl v) (pt_eq_refl p)). now apply E0.
      + apply (IH cur cur HE' Hcur Hl'); [intros; apply pt_eq_refl|intros; congruence|exact Huv].
    - (* prev out, cur in: chord le -> x, then x -> cur *)
      assert (M : inside a b prev <> inside a b cur) by congruence.
      pose proof (tpar_range a b prev cur M) as [T0 T1].
      destruct (Hout eq_refl) as [Lle Hle].
      destruct Huv as [Huv|[Huv|Huv]].
      + inversion Huv; subst. intros p [Hp1 Hp2].
        apply Qleb_true in Ec. apply Qleb_false in Ep.
        apply (pos_mult_nonneg (cross a b cur - cross a b prev)); [lra|].
        rewrite (chord_identity a b prev cur u (intersect a b prev cur) p).
        rewrite (intersect_on_line a b prev cur M), Lle.
        rewrite (cross_pt_eq prev cur (intersect a b prev cur) prev cur _
                   (pt_eq_refl prev) (pt_eq_refl cur) (intersect_tpar a b prev cur)), cross_lerp_on.
        assert (0 <= cross prev cur u) by (now apply E0).
        assert (0 <= cross prev cur u * cross a b p) by (now apply Qmult_le_0_compat).
        lra.
      + inversion Huv; subst. intros p [_ Hp].
        rewrite (cross_pt_eq _ _ _ _ _ _ (intersect_tpar a b prev v) (pt_eq_refl v) (pt_eq_refl p)), cross_lerp_r'.
        apply Qmult_le_0_compat; [lra|now apply E0].
      + apply (IH cur cur HE' Hcur Hl'); [intros; apply pt_eq_refl|intros; congruence|exact Huv].
    - (* prev in, cur out *)
      assert (M : inside a b prev <> inside a b cur) by congruence.
      pose proof (tpar_range a b prev cur M) as [T0 T1].
      destruct Huv as [Huv|Huv].
      + inversion Huv; subst. intros p [_ Hp].
        rewrite (cross_pt_eq _ _ _ _ _ _ (Hin eq_refl) (intersect_tpar a b prev cur) (pt_eq_refl p)), cross_lerp_l'.
        apply Qmult_le_0_compat; [lra|now apply E0].
      + apply (IH cur (intersect a b prev cur) HE' Hcur Hl'); [intros; congruence| |exact Huv].
        intros _. split; [now apply intersect_on_line|now apply Hull_intersect].
    - (* out, out *)
      apply (IH cur le HE' Hcur Hl'); [intros; congruence|intros _; now apply Hout|exact Huv].
  Qed.
End ConvPass.

Lemma Conv_clip_edge a b P : Conv P -> Conv (clip_edge a b P).
Proof.
  intros C. destruct P as [|f t]; [intros p []|].
  pose proof (clip_edge_Hull a b (f :: t) C) as HH.
  pose proof (clip_edge_own a b (f :: t)) as HO.
  rewrite clip_edge_cons in *.
  destruct (clip_edge_aux a b (lastp f t) (f :: t)) as [|f' t'] eqn:E; [intros p []|].
  intros p Hp u v Huv. unfold cpairs in Huv. rewrite <- E in Huv.
  pose proof (clip_aux_last a b (f :: t) (lastp f t) (lastp f' t')) as L.
  rewrite E, hd_error_rev_cons in L. specialize (L eq_refl).
  rewrite hd_rev_cons in L. fold (lastp f t) in L. destruct L as [L1 L2].
  apply (clip_chain a b (f :: t) (f :: t) (lastp f t) (lastp f' t')) with (u := u) (v := v).
  - intros u' v' H' q Hq. now apply Hq.
  - apply C, in_lastp.
  - intros x Hx. now apply C.
  - intros Hi. rewrite (L1 Hi). apply pt_eq_refl.
  - intros Ho. split; [now apply L2|apply HH, in_lastp].
  - exact Huv.
  - split; [now apply HO|now apply HH].
Qed.

(* ---------------------------------------------------------------------------------------- *)
(* one pass: the area does not grow and stays non-negative                                    *)
(* ---------------------------------------------------------------------------------------- *)
Lemma clip_edge_aux_all_outside a b prev l :
  inside a b prev = false -> (forall p, In p l -> inside a b p = false) -> clip_edge_aux a b prev l = [].
Proof.
  revert prev. induction l as [|cur t IH]; intros prev Hp Hl; cbn [clip_edge_aux]; [reflexivity|].
  rewrite (Hl cur (or_introl eq_refl)), Hp. cbn [app].
  apply IH; [apply Hl; now left|intros p Hin; apply Hl; now right].
Qed.

Lemma sides_trichotomy a b l : forall prev,
  (forall x, In x (prev :: l) -> inside a b x = true) \/
  (forall x, In x (prev :: l) -> inside a b x = false) \/
  (exists s e, In (s, e) (pairs prev l) /\ inside a b s <> inside a b e).
Proof.
  induction l as [|cur t IH]; intros prev.
  - destruct (inside a b prev) eqn:E; [left|right; left]; intros x [<-|[]]; exact E.
  - destruct (IH cur) as [H|[H|(s & e & H1 & H2)]].
    + destruct (inside a b prev) eqn:E.
      * left. intros x [<-|Hx]; [exact E|now apply H].
      * right; right. exists prev, cur. split; [now left|]. rewrite E, (H cur (or_introl eq_refl)). discriminate.
    + destruct (inside a b prev) eqn:E.
      * right; right. exists prev, cur. split; [now left|]. rewrite E, (H cur (or_introl eq_refl)). discriminate.
      * right; left. intros x [<-|Hx]; [exact E|now apply H].
    + right; right. exists s, e. split; [now right|exact H2].
Qed.

Lemma degenerate_or_witness a b :
  (forall p, cross a b p == 0) \/ (exists c, ~ cross a b c == 0).
Proof.
  destruct (Qeq_dec (fst a) (fst b)) as [E1|N1]; [destruct (Qeq_dec (snd a) (snd b)) as [E2|N2]|].
  - left. intros p. unfold cross. rewrite E1, E2. ring.
  - right. exists (fst a + 1, snd a). unfold cross. cbn [fst snd]. intros H. apply N2.
    assert (X : (fst b - fst a) * (snd a - snd a) - (snd b - snd a) * (fst a + 1 - fst a) == snd a - snd b) by ring.
    rewrite X in H. lra.
  - right. exists (fst a, snd a + 1). unfold cross. cbn [fst snd]. intros H. apply N1.
    assert (X : (fst b - fst a) * (snd a + 1 - snd a) - (snd b - snd a) * (fst a - fst a) == fst b - fst a) by ring.
    rewrite X in H. lra.
Qed.

Lemma clip_edge_pass a b P : Conv P -> 0 <= shoelace2 (clip_edge a b P) <= shoelace2 P.
Proof.
  intros C. pose proof (Conv_shoelace_nonneg P C) as N.
  destruct (degenerate_or_witness a b) as [D|[c Hc]].
  - rewrite clip_edge_all_inside; [lra|]. intros p _. unfold inside. apply Qleb_true. rewrite D. lra.
  - destruct P as [|f t]; [cbn; lra|].
    destruct (sides_trichotomy a b (f :: t) (lastp f t)) as [H|[H|(s & e & H1 & H2)]].
    + rewrite clip_edge_all_inside; [lra|]. intros p Hp. apply H. now right.
    + rewrite clip_edge_cons, clip_edge_aux_all_outside; [change (shoelace2 []) with 0; lra|apply H; now left|].
      intros p Hp. apply H. now right.
    + apply (clip_edge_bounds_at a b c (intersect a b s e)); [exact Hc|now apply intersect_on_line|].
      destruct (cpairs_in (f :: t) s e H1) as [Hs He].
      apply Hull_intersect; [exact H2|now apply C|now apply C].
Qed.

Lemma clip_edges_pass first cl : forall P, Conv P ->
  Conv (clip_edges first cl P) /\ 0 <= shoelace2 (clip_edges first cl P) <= shoelace2 P.
Proof.
  induction cl as [|a t IH]; intros P C; cbn [clip_edges].
  - split; [exact C|]. pose proof (Conv_shoelace_nonneg P C). lra.
  - set (b := match t with [] => first | b :: _ => b end).
    destruct (IH (clip_edge a b P) (Conv_clip_edge a b P C)) as [C' [L U]].
    pose proof (clip_edge_pass a b P C). split; [exact C'|lra].
Qed.

(* the clipped polygon of a convex counter-clockwise subject: convex, counter-clockwise, with a
   shoelace sum between 0 and the subject's -- whatever the clip polygon is *)
Lemma clip_pass subj cl : Conv subj ->
  Conv (clip subj cl) /\ 0 <= shoelace2 (clip subj cl) <= shoelace2 subj.
Proof.
  intros C. unfold clip. destruct cl as [|f t].
  - split; [intros p []|]. pose proof (Conv_shoelace_nonneg subj C). cbn [shoelace2]. lra.
  - now apply clip_edges_pass.
Qed.

(* boxes *)
Lemma cpairs_edges4 (p0 p1 p2 p3 : pt) uv :
  In uv (cpairs [p0; p1; p2; p3]) -> In uv (edges [p0; p1; p2; p3]).
Proof. unfold cpairs, lastp, edges. cbn [rev app hd pairs combine In]. tauto. Qed.

Lemma rcorners4 b : exists r0 r1 r2 r3, rcorners b = [r0; r1; r2; r3].
Proof. unfold rcorners. rewrite corners4. cbn [map]. repeat eexists. Qed.

Lemma Conv_rcorners b : box_valid b -> Conv (rcorners b).
Proof.
  intros V p Hp u v Huv. pose proof (rcorners_convex_ccw b V) as H.
  destruct (rcorners4 b) as (r0 & r1 & r2 & r3 & E). rewrite E in *.
  apply cpairs_edges4 in Huv. apply Qleb_true. exact (H (u, v) Huv p Hp).
Qed.

Lemma inter_clip_nonneg e g : box_valid e -> 0 <= inter_clip e g.
Proof.
  intros Ve. unfold inter_clip, clip_area, poly_area.
  destruct (clip_pass (rcorners e) (rcorners g) (Conv_rcorners e Ve)) as [_ [L _]].
  apply Qdiv_nonneg; [exact L|lra].
Qed.

Lemma inter_clip_le_l e g : box_valid e -> inter_clip e g <= area_rect e.
Proof.
  intros Ve. rewrite <- (poly_area_rcorners e (proj2 Ve)).
  unfold inter_clip, clip_area, poly_area.
  destruct (clip_pass (rcorners e) (rcorners g) (Conv_rcorners e Ve)) as [_ [_ U]].
  apply Qdiv_le_compat_l; [lra|exact U].
Qed.


(* ======================================================================================== *)
(* 4. separated boxes: the clipped polygon degenerates to a piece of a line                  *)
(* ======================================================================================== *)
Lemma csum_zero o l : forall prev,
  (forall u v, In (u, v) (pairs prev l) -> cross o u v == 0) -> csum o prev l == 0.
Proof.
  induction l as [|x t IH]; intros prev H; cbn [csum]; [reflexivity|].
  rewrite (H prev x (or_introl eq_refl)), IH; [ring|]. intros u v Hin. apply H. now right.
Qed.

Lemma collinear_shoelace0 a b c Q :
  ~ cross a b c == 0 -> (forall p, In p Q -> cross a b p == 0) -> shoelace2 Q == 0.
Proof.
  intros Hc H. rewrite (shoelace2_cycsum a). destruct Q as [|f t]; [reflexivity|].
  unfold cycsum. apply csum_zero. intros u v Huv.
  destruct (cpairs_in (f :: t) u v Huv) as [Hu Hv].
  apply (collinear0 a b c Hc); unfold onl; [unfold cross; ring|now apply H|now apply H].
Qed.

(* transport of the separation hypothesis from the corners to the reduced corners *)
Lemma Forall2_In_l {A B} (R : A -> B -> Prop) l l' x :
  Forall2 R l l' -> In x l -> exists x', In x' l' /\ R x x'.
Proof.
  induction 1 as [|y y' t t' Hy Ht IH]; intros Hin; [contradiction|].
  destruct Hin as [<-|Hin]; [exists y'; split; [now left|exact Hy]|].
  destruct (IH Hin) as (x' & H1 & H2). exists x'. split; [now right|exact H2].
Qed.
Lemma Forall2_In_r {A B} (R : A -> B -> Prop) l l' x' :
  Forall2 R l l' -> In x' l' -> exists x, In x l /\ R x x'.
Proof.
  induction 1 as [|y y' t t' Hy Ht IH]; intros Hin; [contradiction|].
  destruct Hin as [<-|Hin]; [exists y; split; [now left|exact Hy]|].
  destruct (IH Hin) as (x & H1 & H2). exists x. split; [now right|exact H2].
Qed.
Lemma Forall2_combine {A B} (R : A -> B -> Prop) l1 l1' l2 l2' :
  Forall2 R l1 l1' -> Forall2 R l2 l2' ->
  Forall2 (fun p q => R (fst p) (fst q) /\ R (snd p) (snd q)) (combine l1 l2) (combine l1' l2').
Proof.
  intros H1. revert l2 l2'. induction H1 as [|x x' t t' Hx Ht IH]; intros l2 l2' H2; cbn [combine]; [constructor|].
  destruct H2 as [|y y' u u' Hy Hu]; constructor; [split; assumption|now apply IH].
Qed.
Lemma Forall2_edges P P' :
  Forall2 pt_eq P P' ->
  Forall2 (fun p q => pt_eq (fst p) (fst q) /\ pt_eq (snd p) (snd q)) (edges P) (edges P').
Proof.
  intros H. unfold edges. destruct H as [|f f' t t' Hf Ht]; [constructor|].
  apply Forall2_combine; [now constructor|]. apply Forall2_app; [exact Ht|apply Forall2_cons; [exact Hf|apply Forall2_nil]].
Qed.

Lemma separated_pt_eq P P' R R' :
  Forall2 pt_eq P P' -> Forall2 pt_eq R R' -> separated_by_edge P R -> separated_by_edge P' R'.
Proof.
  intros HP HR (ab & Hab & Hsep).
  destruct (Forall2_In_l _ _ _ ab (Forall2_edges _ _ HP) Hab) as (ab' & Hab' & Ea & Eb).
  exists ab'. split; [exact Hab'|]. intros q' Hq'.
  destruct (Forall2_In_r _ _ _ q' HR Hq') as (q & Hq & Eq).
  rewrite <- (cross_pt_eq _ _ _ _ _ _ Ea Eb Eq). now apply Hsep.
Qed.

Lemma corners_rcorners b : Forall2 pt_eq (corners b) (rcorners b).
Proof.
  pose proof (rcorners_img b) as H. induction H as [|p p' t t' Hp Ht IH]; constructor; [|exact IH].
  apply pt_eq_sym. exact Hp.
Qed.

(* every edge of a box footprint is a proper segment: the corner two steps ahead is off its line *)
Lemma rcorners_edge_proper b : box_valid b ->
  forall ab, In ab (edges (rcorners b)) -> exists c, ~ cross (fst ab) (snd ab) c == 0.
Proof.
  intros V ab Hab. pose proof (box_red_valid b V) as [(Hw & Hl & _) U].
  pose proof (cross_opposite (box_red b) U) as X.
  assert (Pos : 0 < bl (box_red b) * bw (box_red b)) by nra.
  unfold rcorners in Hab. rewrite corners4 in *. cbn [map] in Hab. unfold edges in Hab. cbn [combine app] in Hab.
  destruct X as (X0 & X1 & X2 & X3).
  destruct Hab as [<-|[<-|[<-|[<-|[]]]]]; cbn [fst snd];
    [exists (place (box_red b) (- bl (box_red b) / 2, - bw (box_red b) / 2))
    |exists (place (box_red b) (bl (box_red b) / 2, - bw (box_red b) / 2))
    |exists (place (box_red b) (bl (box_red b) / 2, bw (box_red b) / 2))
    |exists (place (box_red b) (- bl (box_red b) / 2, bw (box_red b) / 2))];
    rewrite (cross_pt_eq _ _ _ _ _ _ (pt_red_eq _) (pt_red_eq _) (pt_eq_refl _)); lra.
Qed.

(* a point inside a parallelogram is a convex combination of its corners: an affine function
   that is <= 0 at the four corners is <= 0 at the point *)
Lemma para_affine c0 c1 c2 c3 a b p :
  fst c2 == fst c1 + fst c3 - fst c0 -> snd c2 == snd c1 + snd c3 - snd c0 ->
  cross c0 c1 c2 * cross c0 c1 c2 * cross a b p ==
    cross c1 c2 p * cross c2 c3 p * cross a b c0 + cross c3 c0 p * cross c2 c3 p * cross a b c1
  + cross c3 c0 p * cross c0 c1 p * cross a b c2 + cross c1 c2 p * cross c0 c1 p * cross a b c3.
Proof. intros H1 H2. unfold cross. rewrite H1, H2. ring. Qed.

Lemma para_nonpos c0 c1 c2 c3 a b p :
  fst c2 == fst c1 + fst c3 - fst c0 -> snd c2 == snd c1 + snd c3 - snd c0 ->
  0 < cross c0 c1 c2 ->
  0 <= cross c0 c1 p -> 0 <= cross c1 c2 p -> 0 <= cross c2 c3 p -> 0 <= cross c3 c0 p ->
  cross a b c0 <= 0 -> cross a b c1 <= 0 -> cross a b c2 <= 0 -> cross a b c3 <= 0 ->
  cross a b p <= 0.
Proof.
  intros H1 H2 A P0 P1 P2 P3 N0 N1 N2 N3.
  pose proof (para_affine c0 c1 c2 c3 a b p H1 H2) as E.
  assert (W0 : 0 <= cross c1 c2 p * cross c2 c3 p) by (now apply Qmult_le_0_compat).
  assert (W1 : 0 <= cross c3 c0 p * cross c2 c3 p) by (now apply Qmult_le_0_compat).
  assert (W2 : 0 <= cross c3 c0 p * cross c0 c1 p) by (now apply Qmult_le_0_compat).
  assert (W3 : 0 <= cross c1 c2 p * cross c0 c1 p) by (now apply Qmult_le_0_compat).
  set (w0 := cross c1 c2 p * cross c2 c3 p) in *. set (w1 := cross c3 c0 p * cross c2 c3 p) in *.
  set (w2 := cross c3 c0 p * cross c0 c1 p) in *. set (w3 := cross c1 c2 p * cross c0 c1 p) in *.
  assert (T0 : w0 * cross a b c0 <= 0) by nra. assert (T1 : w1 * cross a b c1 <= 0) by nra.
  assert (T2 : w2 * cross a b c2 <= 0) by nra. assert (T3 : w3 * cross a b c3 <= 0) by nra.
  assert (AA : 0 < cross c0 c1 c2 * cross c0 c1 c2) by nra.
  set (A2 := cross c0 c1 c2 * cross c0 c1 c2) in *.
  assert (L : A2 * cross a b p <= 0) by lra.
  destruct (Qlt_le_dec 0 (cross a b p)) as [G|G]; [exfalso; nra|exact G].
Qed.

(* the reduced corners of a box form a parallelogram of positive orientation *)
Lemma rcorners_para b : box_valid b ->
  exists c0 c1 c2 c3, rcorners b = [c0; c1; c2; c3] /\
    fst c2 == fst c1 + fst c3 - fst c0 /\ snd c2 == snd c1 + snd c3 - snd c0 /\ 0 < cross c0 c1 c2.
Proof.
  intros V. pose proof (box_red_valid b V) as [(Hw & Hl & _) U].
  pose proof (cross_opposite (box_red b) U) as X.
  assert (Pos : 0 < bl (box_red b) * bw (box_red b)) by nra.
  unfold rcorners. rewrite corners4 in *. cbn [map].
  do 4 eexists. split; [reflexivity|]. destruct X as (X0 & _).
  split; [|split].
  - unfold pt_red, place, add_pt, rot, centre2. cbn [fst snd]. rewrite !Qred_correct. halves. ring.
  - unfold pt_red, place, add_pt, rot, centre2. cbn [fst snd]. rewrite !Qred_correct. halves. ring.
  - rewrite (cross_pt_eq _ _ _ _ _ _ (pt_red_eq _) (pt_red_eq _) (pt_red_eq _)). lra.
Qed.

Lemma inter_clip_separated_l e g :
  box_valid e -> box_valid g -> separated_by_edge (rcorners g) (rcorners e) -> inter_clip e g == 0.
Proof.
  intros Ve Vg (ab & Hab & Hsep).
  destruct (rcorners_edge_proper g Vg ab Hab) as [c Hc].
  unfold inter_clip, clip_area, poly_area.
  rewrite (collinear_shoelace0 (fst ab) (snd ab) c _ Hc); [reflexivity|].
  intros p Hp.
  pose proof (clip_within_clip (rcorners e) (rcorners g) ab Hab p Hp) as H1.
  assert (H2 : 0 <= cross (snd ab) (fst ab) p).
  { apply (clip_within_subject (rcorners e) (rcorners g)); [|exact Hp].
    intros q Hq. specialize (Hsep q Hq).
    assert (E : cross (snd ab) (fst ab) q == - cross (fst ab) (snd ab) q) by (unfold cross; ring). lra. }
  assert (E : cross (snd ab) (fst ab) p == - cross (fst ab) (snd ab) p) by (unfold cross; ring). lra.
Qed.

Lemma inter_clip_separated_r e g :
  box_valid e -> box_valid g -> separated_by_edge (rcorners e) (rcorners g) -> inter_clip e g == 0.
Proof.
  intros Ve Vg (ab & Hab & Hsep).
  destruct (rcorners_edge_proper e Ve ab Hab) as [c Hc].
  unfold inter_clip, clip_area, poly_area.
  rewrite (collinear_shoelace0 (fst ab) (snd ab) c _ Hc); [reflexivity|].
  intros p Hp.
  assert (H1 : 0 <= cross (fst ab) (snd ab) p).
  { apply (clip_within_subject (rcorners e) (rcorners g)); [|exact Hp].
    intros q Hq. apply Qleb_true. exact (rcorners_convex_ccw e Ve ab Hab q Hq). }
  assert (H2 : cross (fst ab) (snd ab) p <= 0).
  { destruct (rcorners_para g Vg) as (c0 & c1 & c2 & c3 & E & F1 & F2 & A).
    pose proof (clip_within_clip (rcorners e) (rcorners g)) as W. rewrite E in *.
    unfold edges in W. cbn [combine app] in W.
    apply (para_nonpos c0 c1 c2 c3 (fst ab) (snd ab) p F1 F2 A).
    - apply (W (c0, c1)); [cbn; tauto|exact Hp].
    - apply (W (c1, c2)); [cbn; tauto|exact Hp].
    - apply (W (c2, c3)); [cbn; tauto|exact Hp].
    - apply (W (c3, c0)); [cbn; tauto|exact Hp].
    - apply Hsep; cbn; tauto.
    - apply Hsep; cbn; tauto.
    - apply Hsep; cbn; tauto.
    - apply Hsep; cbn; tauto. }
  lra.
Qed.

Lemma inter_clip_disjoint e g : box_valid e -> box_valid g -> boxes_disjoint e g -> inter_clip e g == 0.
Proof.
  intros Ve Vg [D|D].
  - apply inter_clip_separated_r; try assumption.
    exact (separated_pt_eq _ _ _ _ (corners_rcorners e) (corners_rcorners g) D).
  - apply inter_clip_separated_l; try assumption.
    exact (separated_pt_eq _ _ _ _ (corners_rcorners g) (corners_rcorners e) D).
Qed.
