(* Helpers for the generated correspondence files (build/cases/*.v). *)
From Coq Require Import List Bool ZArith QArith Qabs String.
From PE Require Export Base.QUtil.
Import ListNotations.

(* indices of the cases whose in-Coq comparison model-vs-implementation failed *)
Fixpoint failing_from (i : nat) (l : list bool) : list nat :=
  match l with
  | [] => []
  | b :: t => if b then failing_from (S i) t else i :: failing_from (S i) t
  end.
Definition failing (l : list bool) : list nat := failing_from 0 l.

Lemma failing_nil_all_true : forall l i, failing_from i l = [] -> forallb (fun b => b) l = true.
Proof.
  induction l as [|b t IH]; simpl; intros i H; [reflexivity|].
  destruct b; [simpl; eauto|discriminate].
Qed.

(* generic equality tests used by check functions *)
Fixpoint list_eqb {A} (eqb : A -> A -> bool) (a b : list A) : bool :=
  match a, b with
  | [], [] => true
  | x :: s, y :: t => eqb x y && list_eqb eqb s t
  | _, _ => false
  end.

Definition option_eqb {A} (eqb : A -> A -> bool) (a b : option A) : bool :=
  match a, b with
  | None, None => true
  | Some x, Some y => eqb x y
  | _, _ => false
  end.

Definition pair_eqb {A B} (ea : A -> A -> bool) (eb : B -> B -> bool) (a b : A * B) : bool :=
  ea (fst a) (fst b) && eb (snd a) (snd b).

(* |a - b| <= tol *)
Definition Qclose (tol a b : Q) : bool := Qleb (qabs (a - b)) tol.

Definition nat_eqb := Nat.eqb.
Definition oQ_eqb := option_eqb Qeqb.
Definition oQ_close (tol : Q) := option_eqb (Qclose tol).
