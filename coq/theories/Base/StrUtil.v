(* ASCII strings as the code sees them: equality, lower/upper-casing, tables. *)
From Coq Require Import String Ascii List Bool Arith NArith Lia.
Import ListNotations.
Open Scope string_scope.
Open Scope nat_scope.

(* ---- ASCII case mapping (Python str.lower()/upper() restricted to ASCII; bytes >= 128 are
        left alone: non-ASCII case folding is outside the model, see DESIGN.md C14 limit). *)
Definition is_upper (c : ascii) : bool :=
  let n := nat_of_ascii c in (65 <=? n) && (n <=? 90).
Definition is_lower (c : ascii) : bool :=
  let n := nat_of_ascii c in (97 <=? n) && (n <=? 122).
Definition lower_ascii (c : ascii) : ascii :=
  if is_upper c then ascii_of_nat (nat_of_ascii c + 32) else c.
Definition upper_ascii (c : ascii) : ascii :=
  if is_lower c then ascii_of_nat (nat_of_ascii c - 32) else c.

Fixpoint smap (f : ascii -> ascii) (s : string) : string :=
  match s with
  | EmptyString => EmptyString
  | String c t => String (f c) (smap f t)
  end.
Definition lower (s : string) : string := smap lower_ascii s.
Definition upper (s : string) : string := smap upper_ascii s.

(* All 256 characters, for finite sweeps. *)
Definition all_ascii : list ascii := map ascii_of_nat (seq 0 256).

Lemma all_ascii_complete : forall c, In c all_ascii.
Proof.
  intro c. unfold all_ascii. rewrite <- (ascii_nat_embedding c).
  apply in_map. apply in_seq. pose proof (nat_ascii_bounded c). lia.
Qed.

Lemma lower_ascii_idem : forall c, lower_ascii (lower_ascii c) = lower_ascii c.
Proof.
  assert (H : forallb (fun c => Ascii.eqb (lower_ascii (lower_ascii c)) (lower_ascii c)) all_ascii = true)
    by (vm_compute; reflexivity).
  rewrite forallb_forall in H. intro c. apply Ascii.eqb_eq. apply H. apply all_ascii_complete.
Qed.

Lemma upper_ascii_idem : forall c, upper_ascii (upper_ascii c) = upper_ascii c.
Proof.
  assert (H : forallb (fun c => Ascii.eqb (upper_ascii (upper_ascii c)) (upper_ascii c)) all_ascii = true)
    by (vm_compute; reflexivity).
  rewrite forallb_forall in H. intro c. apply Ascii.eqb_eq. apply H. apply all_ascii_complete.
Qed.

Lemma lower_upper_ascii : forall c, lower_ascii (upper_ascii c) = lower_ascii c.
Proof.
  assert (H : forallb (fun c => Ascii.eqb (lower_ascii (upper_ascii c)) (lower_ascii c)) all_ascii = true)
    by (vm_compute; reflexivity).
  rewrite forallb_forall in H. intro c. apply Ascii.eqb_eq. apply H. apply all_ascii_complete.
Qed.

Lemma upper_lower_ascii : forall c, upper_ascii (lower_ascii c) = upper_ascii c.
Proof.
  assert (H : forallb (fun c => Ascii.eqb (upper_ascii (lower_ascii c)) (upper_ascii c)) all_ascii = true)
    by (vm_compute; reflexivity).
  rewrite forallb_forall in H. intro c. apply Ascii.eqb_eq. apply H. apply all_ascii_complete.
Qed.

Lemma lower_idem : forall s, lower (lower s) = lower s.
Proof. unfold lower, upper; induction s as [|c t IH]; cbn [smap]; [reflexivity|]. now rewrite lower_ascii_idem, IH. Qed.
Lemma upper_idem : forall s, upper (upper s) = upper s.
Proof. unfold lower, upper; induction s as [|c t IH]; cbn [smap]; [reflexivity|]. now rewrite upper_ascii_idem, IH. Qed.
Lemma lower_upper : forall s, lower (upper s) = lower s.
Proof. unfold lower, upper; induction s as [|c t IH]; cbn [smap]; [reflexivity|]. now rewrite lower_upper_ascii, IH. Qed.
Lemma upper_lower : forall s, upper (lower s) = upper s.
Proof. unfold lower, upper; induction s as [|c t IH]; cbn [smap]; [reflexivity|]. now rewrite upper_lower_ascii, IH. Qed.

(* s and t are "case variants" of each other iff their lower-casings coincide. *)
Definition same_up_to_case (s t : string) : Prop := lower s = lower t.

(* ---- association tables keyed by strings *)
Fixpoint find_first {A} (k : string) (l : list (A * string)) : option A :=
  match l with
  | [] => None
  | (a, n) :: t => if String.eqb k n then Some a else find_first k t
  end.

Fixpoint find_last {A} (k : string) (l : list (A * string)) (acc : option A) : option A :=
  match l with
  | [] => acc
  | (a, n) :: t => find_last k t (if String.eqb k n then Some a else acc)
  end.

Fixpoint mem_str (k : string) (l : list string) : bool :=
  match l with [] => false | h :: t => String.eqb k h || mem_str k t end.

Lemma mem_str_In : forall k l, mem_str k l = true <-> In k l.
Proof.
  induction l as [|h t IH]; simpl; [split; [discriminate|tauto]|].
  rewrite orb_true_iff, IH, String.eqb_eq. split; intros [H|H]; auto.
Qed.

Lemma find_first_none : forall A k (l : list (A * string)),
  find_first k l = None <-> ~ In k (map snd l).
Proof.
  induction l as [|[a n] t IH]; simpl; [tauto|].
  destruct (String.eqb_spec k n) as [->|Hne].
  - split; [discriminate|]. intros H. exfalso. apply H. now left.
  - rewrite IH. split; intros H; [intros [E|E]; [congruence|tauto]|tauto].
Qed.

Lemma find_first_some_in : forall A k (l : list (A * string)) a,
  find_first k l = Some a -> In (a, k) l.
Proof.
  induction l as [|[b n] t IH]; simpl; [discriminate|]. intros a.
  destruct (String.eqb_spec k n) as [->|Hne]; [intros [= ->]; now left|]. intros H. right. auto.
Qed.

(* keys of a table are pairwise distinct *)
Fixpoint nodup_str (l : list string) : bool :=
  match l with [] => true | h :: t => negb (mem_str h t) && nodup_str t end.

Lemma nodup_str_NoDup : forall l, nodup_str l = true -> NoDup l.
Proof.
  induction l as [|h t IH]; simpl; [constructor|].
  rewrite andb_true_iff, negb_true_iff. intros [H1 H2]. constructor; [|auto].
  intro Hin. apply mem_str_In in Hin. congruence.
Qed.

(* with distinct names, first match and last match coincide *)
Lemma find_last_acc_notin : forall A k (l : list (A * string)) acc,
  ~ In k (map snd l) -> find_last k l acc = acc.
Proof.
  induction l as [|[a n] t IH]; simpl; [reflexivity|]. intros acc H.
  destruct (String.eqb_spec k n) as [->|Hne]; [exfalso; apply H; now left|].
  apply IH. tauto.
Qed.

Lemma find_last_first_nodup : forall A k (l : list (A * string)) acc,
  NoDup (map snd l) ->
  find_last k l acc = match find_first k l with Some a => Some a | None => acc end.
Proof.
  induction l as [|[a n] t IH]; simpl; intros acc Hnd; [reflexivity|].
  inversion Hnd as [|x xs Hnotin Hnd' Heq]; subst.
  destruct (String.eqb_spec k n) as [->|Hne].
  - rewrite find_last_acc_notin by assumption. reflexivity.
  - apply IH. assumption.
Qed.
