(* Rational helpers shared by all numeric models.
   Models use the boolean comparisons below with `if`, never Qmax/Qmin (see DESIGN.md section 9). *)
From Coq Require Export QArith Qabs Lqa.
From Coq Require Import List Bool ZArith Lia.
Import ListNotations.
Open Scope Q_scope.

Definition Qltb (a b : Q) : bool := match a ?= b with Lt => true | _ => false end.
Definition Qleb (a b : Q) : bool := match a ?= b with Gt => false | _ => true end.
Definition Qeqb (a b : Q) : bool := match a ?= b with Eq => true | _ => false end.

Lemma Qltb_spec a b : reflect (a < b) (Qltb a b).
Proof.
  unfold Qltb. destruct (a ?= b) eqn:E; constructor.
  - apply Qeq_alt in E. lra.
  - apply Qlt_alt in E. exact E.
  - apply Qgt_alt in E. lra.
Qed.

Lemma Qleb_spec a b : reflect (a <= b) (Qleb a b).
Proof.
  unfold Qleb. destruct (a ?= b) eqn:E; constructor.
  - apply Qeq_alt in E. lra.
  - apply Qlt_alt in E. lra.
  - apply Qgt_alt in E. lra.
Qed.

Lemma Qeqb_spec a b : reflect (a == b) (Qeqb a b).
Proof.
  unfold Qeqb. destruct (a ?= b) eqn:E; constructor.
  - apply Qeq_alt in E. exact E.
  - apply Qlt_alt in E. lra.
  - apply Qgt_alt in E. lra.
Qed.

Lemma Qltb_true a b : Qltb a b = true <-> a < b.
Proof. destruct (Qltb_spec a b); split; intros; auto; try discriminate; contradiction. Qed.
Lemma Qltb_false a b : Qltb a b = false <-> b <= a.
Proof. destruct (Qltb_spec a b); split; intros; auto; try discriminate; lra. Qed.
Lemma Qleb_true a b : Qleb a b = true <-> a <= b.
Proof. destruct (Qleb_spec a b); split; intros; auto; try discriminate; contradiction. Qed.
Lemma Qleb_false a b : Qleb a b = false <-> b < a.
Proof. destruct (Qleb_spec a b); split; intros; auto; try discriminate; lra. Qed.

(* the comparisons respect == (needed when rewriting under them) *)
Global Instance Qltb_proper : Proper (Qeq ==> Qeq ==> eq) Qltb.
Proof.
  intros a a' Ha b b' Hb. destruct (Qltb_spec a b), (Qltb_spec a' b'); auto; exfalso; lra.
Qed.
Global Instance Qleb_proper : Proper (Qeq ==> Qeq ==> eq) Qleb.
Proof.
  intros a a' Ha b b' Hb. destruct (Qleb_spec a b), (Qleb_spec a' b'); auto; exfalso; lra.
Qed.
Global Instance Qeqb_proper : Proper (Qeq ==> Qeq ==> eq) Qeqb.
Proof.
  intros a a' Ha b b' Hb. destruct (Qeqb_spec a b), (Qeqb_spec a' b'); auto; exfalso; lra.
Qed.

(* innermost-first case split on boolean comparisons, then linear arithmetic *)
Ltac q_inner :=
  match goal with
  | |- context [Qltb ?x ?y] =>
      lazymatch x with context [Qltb _ _] => fail | context [Qleb _ _] => fail | _ => idtac end;
      lazymatch y with context [Qltb _ _] => fail | context [Qleb _ _] => fail | _ => idtac end;
      destruct (Qltb_spec x y); cbv iota
  | |- context [Qleb ?x ?y] =>
      lazymatch x with context [Qltb _ _] => fail | context [Qleb _ _] => fail | _ => idtac end;
      lazymatch y with context [Qltb _ _] => fail | context [Qleb _ _] => fail | _ => idtac end;
      destruct (Qleb_spec x y); cbv iota
  end.
Ltac q_cases := cbv zeta; repeat q_inner.

Definition qabs (x : Q) : Q := if Qltb x 0 then - x else x.
Definition qmax (a b : Q) : Q := if Qltb a b then b else a.
Definition qmin (a b : Q) : Q := if Qltb b a then b else a.

Lemma qabs_nonneg x : 0 <= qabs x.
Proof. unfold qabs. destruct (Qltb_spec x 0); lra. Qed.

(* sums *)
Fixpoint qsum (l : list Q) : Q := match l with [] => 0 | x :: t => x + qsum t end.

Lemma qsum_app l1 l2 : qsum (l1 ++ l2) == qsum l1 + qsum l2.
Proof. induction l1 as [|x t IH]; simpl; [ring|rewrite IH; ring]. Qed.

Lemma qsum_nonneg l : (forall x, In x l -> 0 <= x) -> 0 <= qsum l.
Proof.
  induction l as [|x t IH]; simpl; intros H; [lra|].
  assert (0 <= x) by (apply H; auto). assert (0 <= qsum t) by (apply IH; intros; apply H; auto). lra.
Qed.

(* nat / Z -> Q *)
Definition Qnat (n : nat) : Q := inject_Z (Z.of_nat n).

Lemma Qnat_S n : Qnat (S n) == Qnat n + 1.
Proof. unfold Qnat. rewrite Nat2Z.inj_succ, <- Z.add_1_r, inject_Z_plus. reflexivity. Qed.
Lemma Qnat_nonneg n : 0 <= Qnat n.
Proof. unfold Qnat. change 0 with (inject_Z 0). rewrite <- Zle_Qle. lia. Qed.
Lemma Qnat_plus n m : Qnat (n + m) == Qnat n + Qnat m.
Proof. unfold Qnat. rewrite Nat2Z.inj_add, inject_Z_plus. reflexivity. Qed.
Lemma Qnat_le n m : (n <= m)%nat -> Qnat n <= Qnat m.
Proof. intros H. unfold Qnat. rewrite <- Zle_Qle. lia. Qed.
Lemma Qnat_lt n m : (n < m)%nat -> Qnat n < Qnat m.
Proof. intros H. unfold Qnat. rewrite <- Zlt_Qlt. lia. Qed.
Lemma Qnat_pos n : (0 < n)%nat -> 0 < Qnat n.
Proof. intros H. change 0 with (Qnat 0). now apply Qnat_lt. Qed.

(* a/b with 0 < b *)
Lemma Qdiv_le_1 a b : 0 < b -> a <= b -> a / b <= 1.
Proof.
  intros Hb Hab. apply Qle_shift_div_r; [assumption|]. lra.
Qed.
Lemma Qdiv_nonneg a b : 0 <= a -> 0 < b -> 0 <= a / b.
Proof.
  intros Ha Hb. apply Qle_shift_div_l; [assumption|]. lra.
Qed.
Lemma Qdiv_le_compat_l a b c : 0 < c -> a <= b -> a / c <= b / c.
Proof.
  intros Hc Hab. unfold Qdiv. apply Qmult_le_compat_r; [assumption|].
  apply Qlt_le_weak. now apply Qinv_lt_0_compat.
Qed.
