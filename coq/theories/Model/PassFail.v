(* Model of the per-frame TP/FP/FN/TN accounting:
     evaluation/result/object_result.py   get_status / is_result_correct (l.109-176)
     evaluation/matching/objects_filter.py get_positive_objects / get_negative_objects (l.205-317)
     evaluation/result/perception_pass_fail_result.py  PassFailResult.evaluate, get_num_success/fail
     evaluation/result/perception_frame_result.py      evaluate_frame (critical filtering, l.92-113)
   Definitions only; proofs in Proofs/PassFailProofs.v.  3D evaluation (pass/fail score = plane distance,
   smaller is better).  Facts per result: is_label_correct and the plane-distance value, read from the
   real DynamicObjectWithPerceptionResult. *)
From Coq Require Import List Bool ZArith String Arith.
From PE Require Import Base.QUtil Model.Filter.
Import ListNotations.
Open Scope Q_scope.

(* PerceptionPassFailConfig: target labels and matching thresholds *)
Record PF := mkPF {
  pf_targets : option (list nat);
  pf_thresholds : option (list Q)
}.

Inductive status := TP | FP | FN | TN.

Definition status_eqb (a b : status) : bool :=
  match a, b with TP, TP | FP, FP | FN, FN | TN, TN => true | _, _ => false end.

(* common/threshold.py get_label_threshold: None when there is no target list / no threshold list /
   the label is not a target; IndexError when the list is shorter than the label's index *)
Definition get_label_threshold {A} (targets : option (list nat)) (lbl : nat) (lst : option (list A)) : res (option A) :=
  match targets with
  | None => Ok None
  | Some ts =>
      match lst with
      | None => Ok None
      | Some l =>
          match index_of lbl ts with
          | None => Ok None
          | Some i => match nth_error l i with Some v => Ok (Some v) | None => ErrIndex end
          end
      end
  end.

(* PlaneDistanceMatching.is_better_than: value None -> False, else value < threshold *)
Definition is_better_than (score : option Q) (t : Q) : bool :=
  match score with Some v => Qltb v t | None => false end.

Definition is_result_correct (thr : option Q) (r : Res) : bool :=
  match r_gt r with
  | None => false
  | Some g =>
      match thr with
      | None => r_label_ok r                        (* threshold None: label only *)
      | Some t =>
          let is_matching := is_better_than (r_score r) t in
          if lbl_is_fp (o_label g) then negb is_matching else is_matching && r_label_ok r
      end
  end.

Definition get_status (thr : option Q) (r : Res) : status * option status :=
  match r_gt r with
  | None => (FP, None)
  | Some g =>
      if is_result_correct thr r
      then (if lbl_is_fp (o_label g) then (FP, Some TN) else (TP, Some TP))
      else (if lbl_is_fp (o_label g) then (FP, Some FP) else (FP, Some FN))
  end.

(* the GT-less copy appended for (FP, TN): DynamicObjectWithPerceptionResult(est, None, policy) *)
Definition reemit (r : Res) : Res := mkRes (r_est r) None false None.

(* ---- get_positive_objects *)
Inductive pos_class := PTp (r : Res) | PFp (r : Res) | PNone.

Definition classify_positive (pf : PF) (r : Res) : res pos_class :=
  match r_gt r with
  | None => Ok (PFp r)
  | Some g =>
      bind (get_label_threshold (pf_targets pf) (o_label g) (pf_thresholds pf)) (fun thr =>
      match get_status thr r with
      | (FP, Some TN) => Ok (PFp (reemit r))
      | (FP, _) => Ok (PFp r)
      | (TP, Some TP) => Ok (PTp r)
      | _ => Ok PNone
      end)
  end.

Fixpoint get_positive (pf : PF) (rs : list Res) : res (list Res * list Res) :=
  match rs with
  | [] => Ok ([], [])
  | r :: t =>
      bind (classify_positive pf r) (fun k =>
      bind (get_positive pf t) (fun '(tp, fp) =>
      Ok (match k with PTp x => (x :: tp, fp) | PFp x => (tp, x :: fp) | PNone => (tp, fp) end)))
  end.

(* ---- get_negative_objects *)
(* first loop: status of the ground truth of every result *)
Definition negative_status (pf : PF) (r : Res) : res (option (status * Obj)) :=
  let lbl := match r_gt r with Some g => o_label g | None => o_label (r_est r) end in
  bind (get_label_threshold (pf_targets pf) lbl (pf_thresholds pf)) (fun thr =>
  Ok (match r_gt r, snd (get_status thr r) with
      | Some g, Some s => Some (s, g)
      | _, _ => None
      end)).

(* (tn, fn, non_candidates) *)
Fixpoint negative_results (pf : PF) (rs : list Res) : res (list Obj * list Obj * list Obj) :=
  match rs with
  | [] => Ok ([], [], [])
  | r :: t =>
      bind (negative_status pf r) (fun k =>
      bind (negative_results pf t) (fun '(tn, fn, nc) =>
      Ok (match k with
          | Some (TN, g) => (g :: tn, fn, g :: nc)
          | Some (FN, g) => (tn, g :: fn, g :: nc)
          | Some (_, g) => (tn, fn, g :: nc)
          | None => (tn, fn, nc)
          end)))
  end.

(* `ground_truth_object in non_candidates`: list membership by DynamicObject.__eq__
   (unix_time, label, position, orientation), abstracted as the key fact o_key *)
Definition key_mem (g : Obj) (l : list Obj) : bool := existsb (fun h => Nat.eqb (o_key g) (o_key h)) l.

(* second loop: the ground truths not met in the first one *)
Fixpoint negative_rest (nc : list Obj) (gts : list Obj) : list Obj * list Obj :=
  match gts with
  | [] => ([], [])
  | g :: t =>
      let '(tn, fn) := negative_rest nc t in
      if key_mem g nc then (tn, fn)
      else if lbl_is_fp (o_label g) then (g :: tn, fn) else (tn, g :: fn)
  end.

Definition get_negative (pf : PF) (gts : list Obj) (rs : list Res) : res (list Obj * list Obj) :=
  bind (negative_results pf rs) (fun '(tn1, fn1, nc) =>
  let '(tn2, fn2) := negative_rest nc gts in
  Ok (tn1 ++ tn2, fn1 ++ fn2)).

(* ---- evaluate_frame + PassFailResult.evaluate *)
Record Frame := mkFrame {
  f_results : list Res;     (* frame_result.object_results after the critical filter *)
  f_gts : list Obj;         (* frame_ground_truth.objects after the critical filter *)
  f_tp : list Res;
  f_fp : list Res;
  f_tn : list Obj;
  f_fn : list Obj
}.

(* frame_ground_truth.transforms is always a TransformDict (never None): tf = true on both calls *)
Definition evaluate_frame (crit : Cfg) (pf : PF) (rs : list Res) (gts : list Obj) : res Frame :=
  bind (filter_object_results crit true rs) (fun rs' =>
  bind (filter_objects crit true true gts) (fun gts' =>
  bind (get_positive pf rs') (fun '(tp, fp) =>
  bind (get_negative pf gts' rs') (fun '(tn, fn) =>
  Ok (mkFrame rs' gts' tp fp tn fn))))).

Definition num_success (f : Frame) : nat := List.length (f_tp f) + List.length (f_tn f).
Definition num_fail (f : Frame) : nat := List.length (f_fp f) + List.length (f_fn f).

(* ================= vocabulary of the statements ================= *)
Definition est_id (r : Res) : nat := o_id (r_est r).
Definition gt_of (r : Res) : list Obj := match r_gt r with Some g => [g] | None => [] end.
Definition gts_of (rs : list Res) : list Obj := flat_map gt_of rs.
Definition gt_ids (rs : list Res) : list nat := map o_id (gts_of rs).

(* number of occurrences of an id *)
Definition cnt (x : nat) (l : list nat) : nat := List.length (filter (Nat.eqb x) l).

(* threshold configured for a label (pure reading of get_label_threshold) *)
Definition thr_of (pf : PF) (lbl : nat) : option Q :=
  match pf_targets pf, pf_thresholds pf with
  | Some ts, Some l => match index_of lbl ts with Some i => nth_error l i | None => None end
  | _, _ => None
  end.

(* PerceptionPassFailConfig builds its threshold list with check_thresholds: as long as the targets *)
Definition pf_ok (pf : PF) : Prop :=
  forall ts l, pf_targets pf = Some ts -> pf_thresholds pf = Some l -> List.length l = List.length ts.

(* the matching handed to the frame: one-to-one (C01), ground truths taken from the frame's list,
   identities distinct, __eq__ keys of the ground truths pairwise distinct *)
Record wf_frame (rs : list Res) (gts : list Obj) : Prop := {
  wf_est_1to1 : NoDup (map est_id rs);
  wf_gt_1to1 : NoDup (gt_ids rs);
  wf_gt_in : forall r g, In r rs -> r_gt r = Some g -> In g gts;
  wf_ids : NoDup (map o_id gts);
  wf_keys : NoDup (map o_key gts)
}.

(* ================= checks used by the correspondence (harness/props/C03.py) ================= *)
Definition res_pair (r : Res) : nat * option nat := (est_id r, match r_gt r with Some g => Some (o_id g) | None => None end).

Definition pair_eqb' (a b : nat * option nat) : bool :=
  Nat.eqb (fst a) (fst b) &&
  match snd a, snd b with Some x, Some y => Nat.eqb x y | None, None => true | _, _ => false end.

Fixpoint pairs_eqb (a b : list (nat * option nat)) : bool :=
  match a, b with
  | [], [] => true
  | x :: s, y :: t => pair_eqb' x y && pairs_eqb s t
  | _, _ => false
  end.

(* expected: surviving results, surviving GT ids, TP, FP (as (estimate, ground truth) id pairs), TN, FN ids *)
Definition check_frame (crit : Cfg) (pf : PF) (rs : list Res) (gts : list Obj)
           (e_res : list (nat * option nat)) (e_gts : list nat)
           (e_tp e_fp : list (nat * option nat)) (e_tn e_fn : list nat) (e_succ e_fail : nat) : bool :=
  match evaluate_frame crit pf rs gts with
  | Ok f =>
      pairs_eqb (map res_pair (f_results f)) e_res && nat_list_eqb (ids (f_gts f)) e_gts &&
      pairs_eqb (map res_pair (f_tp f)) e_tp && pairs_eqb (map res_pair (f_fp f)) e_fp &&
      nat_list_eqb (ids (f_tn f)) e_tn && nat_list_eqb (ids (f_fn f)) e_fn &&
      Nat.eqb (num_success f) e_succ && Nat.eqb (num_fail f) e_fail
  | _ => false
  end.

(* get_status alone: (estimate status, ground-truth status) *)
Definition check_status (thr : option Q) (r : Res) (e_est : status) (e_gt : option status) : bool :=
  let '(a, b) := get_status thr r in
  status_eqb a e_est && match b, e_gt with Some x, Some y => status_eqb x y | None, None => true | _, _ => false end.
