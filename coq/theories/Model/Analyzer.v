(* Model of the analysis tables (C19):
     tool/perception_analyzer_base.py   add / add_frame / format2df, get_ground_truth / get_estimation /
                                        get_num_*, filter (get), get_pair_results, calculate_error,
                                        summarize_ratio, get_confusion_matrix            (l.193-431, 522-842)
     tool/perception_analyzer3d.py      format2dict, filter_by_distance, analyze, summarize_error (l.197-481)
     tool/utils.py                      generate_area_points, get_area_idx                 (l.218-303)
     evaluation/result/perception_frame_result.py  get_object_status                       (l.150-203)
     common/status.py                   GroundTruthStatus.add_status
   Definitions only; proofs in Proofs/AnalyzerProofs.v.

   A frame result is its four pass/fail lists.  Objects are records of the facts the table stores:
   uuid and label as indices chosen by the harness, ego-frame x / y / yaw / planar distance as the
   binary64 values the analyzer's own transform returns (exact rationals), width / length.
   The pandas DataFrame with its two-level index (running number, "ground_truth" | "estimation") is a
   list of entries (number, ground-truth row option, estimate row option); a row whose `status` is null
   is [None] (format2dict fills every column of such a row with None).  pandas selections are list filters. *)
From Coq Require Import List Bool ZArith Arith.
From PE Require Import Base.QUtil.
Import ListNotations.
Open Scope Q_scope.

(* ------------------------------------------------------------------------------------------ *)
(* objects, rows, table                                                                        *)
(* ------------------------------------------------------------------------------------------ *)
Inductive status := TP | FP | TN | FN.

Definition status_eqb (a b : status) : bool :=
  match a, b with TP, TP | FP, FP | TN, TN | FN, FN => true | _, _ => false end.

Record Obj := mkObj {
  o_uuid : nat;       (* uuid (interned) *)
  o_label : nat;      (* index of str(semantic_label.label) in [target labels ++ "unknown" ++ every other name] *)
  o_isfp : bool;      (* semantic_label.is_fp(): a "false positive"-labelled ground truth *)
  o_x : Q; o_y : Q;   (* position in the ego frame (BASE_LINK) *)
  o_yaw : Q;          (* yaw in the ego frame [rad] *)
  o_dist : Q;         (* np.linalg.norm([x, y]) *)
  o_w : Q; o_l : Q    (* width, length *)
}.

(* ---- tool/utils.py: areas.  One area = (upper right (x, y), bottom left (x, y)); x is forward, y is left,
   so "upper right" is (max x, MIN y) and "bottom left" is (min x, MAX y). *)
Definition Area := ((Q * Q) * (Q * Q))%type.

(* is_x_inside * is_y_inside, all four comparisons strict *)
Definition inside (x y : Q) (a : Area) : bool :=
  let '((urx, ury), (blx, bly)) := a in
  (Qltb x urx && Qltb blx x) && (Qltb ury y && Qltb y bly).

Fixpoint where_inside (k : nat) (areas : list Area) (x y : Q) : list nat :=
  match areas with
  | [] => []
  | a :: t => if inside x y a then k :: where_inside (S k) t x y else where_inside (S k) t x y
  end.

(* get_area_idx: None when no area contains the point; np.where(..)[0].item() raises ValueError
   when more than one does *)
Inductive area_res := ANone | AOne (k : nat) | AMany.

Definition get_area_idx (areas : list Area) (x y : Q) : area_res :=
  match where_inside 0 areas x y with
  | [] => ANone
  | [k] => AOne k
  | _ => AMany
  end.

(* np.arange(start, stop, step) for the three-element cases used below: start + i*step, i = 0,1,2
   (its length ceil((stop-start)/step) is exactly 3 for stop - start = 3*step) *)
Definition arange3 (start step : Q) : list Q := [start; start + 1 * step; start + 2 * step].

Definition generate_area_points (n : nat) (max_x max_y : Q) : option (list Area) :=
  let right_x := arange3 max_x (- (2 * max_x / 3)) in
  let left_x := rev (arange3 (- max_x) (2 * max_x / 3)) in
  match n with
  | 1%nat => Some [((max_x, - max_y), (- max_x, max_y))]
  | 3%nat =>
      (* right_y = repeat(-max_y, 3), left_y = repeat(max_y, 3) *)
      Some (map (fun rl : Q * Q => ((fst rl, - max_y), (snd rl, max_y))) (combine right_x left_x))
  | 9%nat =>
      let right_y := rev (arange3 (- max_y) (2 * max_y / 3)) in
      let left_y := arange3 max_y (- (2 * max_y / 3)) in
      (* meshgrid(right_x, right_y): element [i][j] = (right_x[j], right_y[i]); reshape(-1, 2) is row-major *)
      Some (flat_map (fun yy : Q * Q =>
                        map (fun xx : Q * Q => ((fst xx, fst yy), (snd xx, snd yy))) (combine right_x left_x))
                     (combine right_y left_y))
  | _ => None          (* ValueError *)
  end.

(* ---- rows *)
Record Row := mkRow {
  r_obj : Obj;
  r_status : status;
  r_area : area_res;     (* AMany: format2dict raised *)
  r_frame : nat;
  r_scene : nat
}.

Record Entry := mkEntry { e_idx : nat; e_gt : option Row; e_est : option Row }.
Definition Table := list Entry.

(* a frame result: frame number and the four pass/fail lists, (estimate, ground truth) pairs;
   f_ncrit = len(frame_ground_truth.objects), the number of critical ground truths (not read by the analyzer) *)
Record Frame := mkFrame {
  f_num : nat;
  f_tp : list (Obj * Obj);
  f_fp : list (Obj * option Obj);
  f_tn : list Obj;
  f_fn : list Obj;
  f_ncrit : nat
}.

(* format2dict for a DynamicObjectWithPerceptionResult: the area is that of the ESTIMATE; both rows carry the
   same status / area / frame / scene *)
Definition fmt_pair (areas : list Area) (scene fnum : nat) (s : status) (e : Obj) (og : option Obj)
  : option Row * option Row :=
  let a := get_area_idx areas (o_x e) (o_y e) in
  (match og with Some g => Some (mkRow g s a fnum scene) | None => None end, Some (mkRow e s a fnum scene)).

(* format2dict for a DynamicObject with status TN / FN: ground-truth row only *)
Definition fmt_gt (areas : list Area) (scene fnum : nat) (s : status) (g : Obj) : option Row * option Row :=
  let a := get_area_idx areas (o_x g) (o_y g) in
  (Some (mkRow g s a fnum scene), None).

(* format2df: enumerate(object_results, start=start) *)
Fixpoint number (start : nat) (l : list (option Row * option Row)) : Table :=
  match l with
  | [] => []
  | (g, e) :: t => mkEntry start g e :: number (S start) t
  end.

(* add_frame: four format2df calls, `start` advanced by the length of each block *)
Definition add_frame (areas : list Area) (scene : nat) (t : Table) (f : Frame) : Table :=
  let start := List.length t in
  let tp_df := number start (map (fun p : Obj * Obj => fmt_pair areas scene (f_num f) TP (fst p) (Some (snd p))) (f_tp f)) in
  let start := (start + List.length tp_df)%nat in
  let fp_df := number start (map (fun p : Obj * option Obj => fmt_pair areas scene (f_num f) FP (fst p) (snd p)) (f_fp f)) in
  let start := (start + List.length fp_df)%nat in
  let tn_df := number start (map (fmt_gt areas scene (f_num f) TN) (f_tn f)) in
  let start := (start + List.length tn_df)%nat in
  let fn_df := number start (map (fmt_gt areas scene (f_num f) FN) (f_fn f)) in
  t ++ tp_df ++ fp_df ++ tn_df ++ fn_df.

(* add: every frame of one scene, then num_scene += 1.  State = (table, num_scene). *)
Definition add (areas : list Area) (st : Table * nat) (frames : list Frame) : Table * nat :=
  (fold_left (add_frame areas (snd st)) frames (fst st), S (snd st)).

Definition build (areas : list Area) (scenes : list (list Frame)) : Table :=
  fst (fold_left (add areas) scenes ([], 0%nat)).

(* ------------------------------------------------------------------------------------------ *)
(* selections and counters                                                                     *)
(* ------------------------------------------------------------------------------------------ *)
Definition opt_list {A} (o : option A) : list A := match o with Some x => [x] | None => [] end.

(* df.xs("ground_truth", level=1) / df.xs("estimation", level=1), then ~status.isnull() *)
Definition gt_rows (t : Table) : list Row := flat_map (fun e => opt_list (e_gt e)) t.
Definition est_rows (t : Table) : list Row := flat_map (fun e => opt_list (e_est e)) t.

Definition nmem (x : nat) (l : list nat) : bool := existsb (Nat.eqb x) l.
Definition smem (s : status) (l : list status) : bool := existsb (status_eqb s) l.

(* keyword selections: `key=value` is `key=[value]`; a NaN area equals nothing *)
Inductive crit :=
| CLabel (l : list nat) | CScene (l : list nat) | CFrame (l : list nat)
| CArea (l : list nat) | CStatus (l : list status) | CUuid (l : list nat).

Definition crit_ok (c : crit) (r : Row) : bool :=
  match c with
  | CLabel l => nmem (o_label (r_obj r)) l
  | CScene l => nmem (r_scene r) l
  | CFrame l => nmem (r_frame r) l
  | CArea l => match r_area r with AOne k => nmem k l | _ => false end
  | CStatus l => smem (r_status r) l
  | CUuid l => nmem (o_uuid (r_obj r)) l
  end.

Definition row_ok (cs : list crit) (r : Row) : bool := forallb (fun c => crit_ok c r) cs.

Definition get_ground_truth (cs : list crit) (t : Table) : list Row := filter (row_ok cs) (gt_rows t).
Definition get_estimation (cs : list crit) (t : Table) : list Row := filter (row_ok cs) (est_rows t).

Definition count_status (s : status) (rows : list Row) : nat :=
  List.length (filter (fun r => status_eqb (r_status r) s) rows).

Definition num_ground_truth (cs : list crit) (t : Table) : nat := List.length (get_ground_truth cs t).
Definition num_estimation (cs : list crit) (t : Table) : nat := List.length (get_estimation cs t).
Definition num_tp (cs : list crit) (t : Table) : nat := count_status TP (get_estimation cs t).
Definition num_fp (cs : list crit) (t : Table) : nat := count_status FP (get_estimation cs t).
Definition num_tn (cs : list crit) (t : Table) : nat := count_status TN (get_ground_truth cs t).
Definition num_fn (cs : list crit) (t : Table) : nat := count_status FN (get_ground_truth cs t).

(* On the initial empty DataFrame (no frame added, or only frames without any item) every query except
   analyze() raises (its index is not a MultiIndex): explicit error value. *)
Definition checked {A} (t : Table) (v : A) : option A := match t with [] => None | _ => Some v end.

(* filter / get (kwargs): a pair of rows is kept when, for every key, EITHER row matches *)
Definition opt_ok (c : crit) (o : option Row) : bool := match o with Some r => crit_ok c r | None => false end.
Definition entry_ok (cs : list crit) (e : Entry) : bool :=
  forallb (fun c => opt_ok c (e_gt e) || opt_ok c (e_est e)) cs.
Definition tbl_filter (cs : list crit) (t : Table) : Table := filter (entry_ok cs) t.

(* filter_by_distance((lo, hi)): either row has lo <= distance < hi *)
Definition in_range (lo hi : Q) (o : option Row) : bool :=
  match o with Some r => Qleb lo (o_dist (r_obj r)) && Qltb (o_dist (r_obj r)) hi | None => false end.
Definition filter_by_distance (lo hi : Q) (t : Table) : Table :=
  filter (fun e => in_range lo hi (e_gt e) || in_range lo hi (e_est e)) t.

(* ------------------------------------------------------------------------------------------ *)
(* paired rows, errors, summaries                                                              *)
(* ------------------------------------------------------------------------------------------ *)
Definition both (e : Entry) : list (Row * Row) :=
  match e_gt e, e_est e with Some g, Some s => [(g, s)] | _, _ => [] end.

(* get_pair_results on a frame that still has all its rows: (ground-truth row, estimate row), both non-null *)
Definition pair_results (t : Table) : list (Row * Row) := flat_map both t.

(* calculate_error first drops the ROWS whose status is not TP/FP/TN (null rows go too) ... *)
Definition keep_row (ss : list status) (o : option Row) : option Row :=
  match o with Some r => if smem (r_status r) ss then Some r else None | None => None end.
Definition keep_status (ss : list status) (e : Entry) : Entry :=
  mkEntry (e_idx e) (keep_row ss (e_gt e)) (keep_row ss (e_est e)).
Definition has_gt (e : Entry) : bool := match e_gt e with Some _ => true | None => false end.
Definition has_est (e : Entry) : bool := match e_est e with Some _ => true | None => false end.

(* ... then get_pair_results: (None, None) -> empty array when no "ground_truth" or no "estimation" row is left *)
Definition error_pairs (t : Table) : list (Row * Row) :=
  let t' := map (keep_status [TP; FP; TN]) t in
  if existsb has_gt t' && existsb has_est t' then pair_results t' else [].

(* yaw: err[err > pi] = -2 pi + err ; then err[err < -pi] = 2 pi + err  (P is the value used for pi) *)
Definition wrap (P e : Q) : Q :=
  let e1 := if Qltb P e then - (2) * P + e else e in
  if Qltb e1 (- P) then 2 * P + e1 else e1.

Inductive column := ColX | ColY | ColYaw | ColWidth | ColLength.

Definition col_val (c : column) (o : Obj) : Q :=
  match c with ColX => o_x o | ColY => o_y o | ColYaw => o_yaw o | ColWidth => o_w o | ColLength => o_l o end.

(* ground truth minus estimate *)
Definition pair_error (P : Q) (c : column) (p : Row * Row) : Q :=
  let d := col_val c (r_obj (fst p)) - col_val c (r_obj (snd p)) in
  match c with ColYaw => wrap P d | _ => d end.

Definition calculate_error (P : Q) (c : column) (t : Table) : list Q := map (pair_error P c) (error_pairs t).

(* column "distance": norm of the xy difference; the model keeps the SQUARE *)
Definition pair_dist2 (p : Row * Row) : Q :=
  let dx := o_x (r_obj (fst p)) - o_x (r_obj (snd p)) in
  let dy := o_y (r_obj (fst p)) - o_y (r_obj (snd p)) in
  dx * dx + dy * dy.
Definition calculate_distance2 (t : Table) : list Q := map pair_dist2 (error_pairs t).

(* _summarize: average, rms, std, max|.|, min|.|; rms and std are kept SQUARED (s_ms = rms^2, s_var = std^2) *)
Record Summary := mkSummary { s_avg : Q; s_ms : Q; s_var : Q; s_max : Q; s_min : Q }.

Definition sq (x : Q) : Q := x * x.
Definition mean (l : list Q) : Q := qsum l / Qnat (List.length l).

Definition summarize (l : list Q) : option Summary :=
  match l with
  | [] => None                                   (* all NaN *)
  | x :: t =>
      let avg := mean l in
      Some (mkSummary avg
                      (mean (map sq l))
                      (mean (map (fun v => sq (qabs (v - avg))) l))     (* np.std: mean(abs(x - mean)^2) *)
                      (fold_left qmax (map qabs t) (qabs x))
                      (fold_left qmin (map qabs t) (qabs x)))
  end.

(* summarize_error: for "ALL" the given frame; for a label the pairs whose ground-truth row has that label
   and a status in TP/FP/TN (self.df.loc[index of those rows]) *)
Definition label_entries (l : nat) (t : Table) : Table :=
  filter (fun e => match e_gt e with
                   | Some r => row_ok [CStatus [TP; FP; TN]; CLabel [l]] r
                   | None => false
                   end) t.

Definition summarize_error (P : Q) (ol : option nat) (c : column) (t : Table) : option Summary :=
  let t' := match ol with None => t | Some l => label_entries l t end in
  match t' with
  | [] => None
  | _ => summarize (calculate_error P c t')
  end.

(* ------------------------------------------------------------------------------------------ *)
(* summarize_ratio, confusion matrix                                                           *)
(* ------------------------------------------------------------------------------------------ *)
Record Ratios := mkRatios { q_tp : Q; q_fp : Q; q_tn : Q; q_fn : Q }.

Definition ratio_row (ol : option nat) (t : Table) : Ratios :=
  let cs := match ol with Some l => [CLabel [l]] | None => [] end in
  let n_gt := num_ground_truth cs t in
  if Nat.ltb 0 n_gt then
    let tp := num_tp cs t in
    let fp := num_fp cs t in
    let det := (tp + fp)%nat in
    mkRatios (Qnat tp / Qnat n_gt)
             (if Nat.eqb det 0 then 0 else Qnat fp / Qnat det)
             (Qnat (num_tn cs t) / Qnat n_gt)
             (Qnat (num_fn cs t) / Qnat n_gt)
  else mkRatios 0 0 0 0.

(* all_labels = "ALL" :: target labels (label indices 0 .. ntargets-1) *)
Definition all_labels (ntargets : nat) : list (option nat) := None :: map Some (seq 0 ntargets).
Definition summarize_ratio (ntargets : nat) (t : Table) : list Ratios := map (fun ol => ratio_row ol t) (all_labels ntargets).

(* get_confusion_matrix: labels = target labels (+ "unknown") = indices 0 .. nc-1; any other label of a paired
   row makes list.index raise ValueError; no paired row -> None; bincount(nc*gt + est, minlength=nc^2).reshape(nc, nc) *)
Inductive cm_res := CMNone | CMError | CMOk (m : list (list nat)).

Definition cm_index (nc : nat) (p : Row * Row) : nat := (nc * o_label (r_obj (fst p)) + o_label (r_obj (snd p)))%nat.
Definition count_nat (k : nat) (l : list nat) : nat := List.length (filter (Nat.eqb k) l).
Definition bincount (l : list nat) (minlength : nat) : list nat :=
  map (fun k => count_nat k l) (seq 0 (Nat.max minlength (S (fold_right Nat.max 0%nat l)))).
Fixpoint chunks (fuel n : nat) (l : list nat) : list (list nat) :=
  match fuel with
  | O => []
  | S f => firstn n l :: chunks f n (skipn n l)
  end.

Definition get_confusion_matrix (nc : nat) (t : Table) : cm_res :=
  let ps := pair_results t in
  if negb (forallb (fun p : Row * Row => Nat.ltb (o_label (r_obj (fst p))) nc && Nat.ltb (o_label (r_obj (snd p))) nc) ps)
  then CMError
  else match ps with
       | [] => CMNone
       | _ =>
           let counts := bincount (map (cm_index nc) ps) (nc * nc) in
           if Nat.eqb (List.length counts) (nc * nc) then CMOk (chunks nc nc counts) else CMError   (* reshape *)
       end.

(* ------------------------------------------------------------------------------------------ *)
(* analyze(kwargs, distance=...)                                                             *)
(* ------------------------------------------------------------------------------------------ *)
Record Analysis := mkAnalysis {
  a_ratio : list Ratios;
  a_error : list (list (option Summary));      (* per label of all_labels, per column of analysis_columns *)
  a_cm : cm_res
}.

Definition analysis_columns : list column := [ColX; ColY; ColYaw; ColLength; ColWidth].

Definition analyze (P : Q) (ntargets nc : nat) (cs : list crit) (dist : option (Q * Q)) (t : Table) : option Analysis :=
  let df := tbl_filter cs t in
  let df := match dist with Some (lo, hi) => filter_by_distance lo hi df | None => df end in
  match df with
  | [] => None                                    (* PerceptionAnalysisResult() *)
  | _ => Some (mkAnalysis (summarize_ratio ntargets df)
                          (map (fun ol => map (fun c => summarize_error P ol c df) analysis_columns) (all_labels ntargets))
                          (get_confusion_matrix nc df))
  end.

(* ------------------------------------------------------------------------------------------ *)
(* get_object_status                                                                           *)
(* ------------------------------------------------------------------------------------------ *)
Record GtStatus := mkGtStatus {
  g_uuid : nat;
  g_total : list nat; g_tp : list nat; g_fp : list nat; g_tn : list nat; g_fn : list nat   (* frame numbers *)
}.

Definition add_status (g : GtStatus) (s : status) (fnum : nat) : GtStatus :=
  mkGtStatus (g_uuid g) (g_total g ++ [fnum])
             (match s with TP => g_tp g ++ [fnum] | _ => g_tp g end)
             (match s with FP => g_fp g ++ [fnum] | _ => g_fp g end)
             (match s with TN => g_tn g ++ [fnum] | _ => g_tn g end)
             (match s with FN => g_fn g ++ [fnum] | _ => g_fn g end).

(* `uuid not in status_infos` -> append a new record; else status_infos[status_infos.index(uuid)] is updated *)
Fixpoint update_first (u : nat) (s : status) (fnum : nat) (l : list GtStatus) : option (list GtStatus) :=
  match l with
  | [] => None
  | g :: t =>
      if Nat.eqb (g_uuid g) u then Some (add_status g s fnum :: t)
      else match update_first u s fnum t with Some t' => Some (g :: t') | None => None end
  end.

Definition Event := (nat * status * nat)%type.   (* (ground-truth uuid, status, frame number) *)

Definition add_event (l : list GtStatus) (ev : Event) : list GtStatus :=
  let '(u, s, fnum) := ev in
  match update_first u s fnum l with
  | Some l' => l'
  | None => l ++ [add_status (mkGtStatus u [] [] [] [] []) s fnum]
  end.

(* the add_status calls of one frame, in order: TP pairs, FP pairs that have a ground truth, TN, FN *)
Definition frame_events (f : Frame) : list Event :=
  map (fun p : Obj * Obj => (o_uuid (snd p), TP, f_num f)) (f_tp f)
  ++ flat_map (fun p : Obj * option Obj => match snd p with Some g => [(o_uuid g, FP, f_num f)] | None => [] end) (f_fp f)
  ++ map (fun g => (o_uuid g, TN, f_num f)) (f_tn f)
  ++ map (fun g => (o_uuid g, FN, f_num f)) (f_fn f).

Definition get_object_status (frames : list Frame) : list GtStatus :=
  fold_left add_event (flat_map frame_events frames) [].

(* ------------------------------------------------------------------------------------------ *)
(* vocabulary of the statements                                                                *)
(* ------------------------------------------------------------------------------------------ *)
Definition all_frames (scenes : list (list Frame)) : list Frame := concat scenes.
Definition sum_over {A} (f : A -> nat) (l : list A) : nat := fold_right (fun x acc => (f x + acc)%nat) 0%nat l.

Definition fp_with_gt (f : Frame) : list (Obj * Obj) :=
  flat_map (fun p : Obj * option Obj => match snd p with Some g => [(fst p, g)] | None => [] end) (f_fp f).
(* FP pairs whose ground truth is an ordinary (not FP-labelled) one: that ground truth is also in fn_objects *)
Definition fp_ordinary (f : Frame) : list (Obj * Obj) := filter (fun p : Obj * Obj => negb (o_isfp (snd p))) (fp_with_gt f).
Definition fp_fplabelled (f : Frame) : list (Obj * Obj) := filter (fun p : Obj * Obj => o_isfp (snd p)) (fp_with_gt f).

(* conservation of the critical ground truths (this is C03): each one is the ground truth of a TP, or in TN,
   or in FN, or (FP-labelled, not matched "correctly") the ground truth of an FP pair -- exactly one of these *)
Definition accounted (f : Frame) : Prop :=
  f_ncrit f = (List.length (f_tp f) + List.length (f_tn f) + List.length (f_fn f) + List.length (fp_fplabelled f))%nat.
Definition accountedb (f : Frame) : bool :=
  Nat.eqb (f_ncrit f) (List.length (f_tp f) + List.length (f_tn f) + List.length (f_fn f) + List.length (fp_fplabelled f)).

(* uuids of the ground-truth rows / status records a frame produces, in order *)
Definition frame_gt_uuids (f : Frame) : list nat := map (fun ev : Event => fst (fst ev)) (frame_events f).

Definition find_status (u : nat) (l : list GtStatus) : option GtStatus := find (fun g => Nat.eqb (g_uuid g) u) l.

(* the tallies of uuid u as a filter of the event sequence *)
Definition ev_uuid (ev : Event) : nat := fst (fst ev).
Definition ev_status (ev : Event) : status := snd (fst ev).
Definition ev_frame (ev : Event) : nat := snd ev.
Definition tally (u : nat) (evs : list Event) : GtStatus :=
  let mine := filter (fun ev => Nat.eqb (ev_uuid ev) u) evs in
  let of s := map ev_frame (filter (fun ev => status_eqb (ev_status ev) s) mine) in
  mkGtStatus u (map ev_frame mine) (of TP) (of FP) (of TN) (of FN).

(* ------------------------------------------------------------------------------------------ *)
(* checks used by the correspondence (harness/props/C19.py)                                    *)
(* ------------------------------------------------------------------------------------------ *)
Definition tol9 : Q := 1 # 1000000000.
Definition tol6 : Q := 1 # 1000000.
Definition close9 (a b : Q) : bool := Qleb (qabs (a - b)) tol9.
Definition close6 (a b : Q) : bool := Qleb (qabs (a - b)) tol6.
(* relative closeness for squared quantities *)
Definition closerel (a b : Q) : bool := Qleb (qabs (a - b)) (tol9 * (1 + qabs a + qabs b)).

Fixpoint list_all2 {A B} (f : A -> B -> bool) (a : list A) (b : list B) : bool :=
  match a, b with
  | [], [] => true
  | x :: s, y :: t => f x y && list_all2 f s t
  | _, _ => false
  end.

Definition opt_all2 {A B} (f : A -> B -> bool) (a : option A) (b : option B) : bool :=
  match a, b with Some x, Some y => f x y | None, None => true | _, _ => false end.

(* observed row: uuid, label, x, y, yaw, status, area (None = NaN), frame, scene *)
Definition ORow := (nat * nat * (Q * Q * Q) * status * option nat * nat * nat)%type.

Definition row_matches (r : Row) (o : ORow) : bool :=
  let '(u, l, (x, y, yaw), s, a, fr, sc) := o in
  Nat.eqb (o_uuid (r_obj r)) u && Nat.eqb (o_label (r_obj r)) l &&
  close9 (o_x (r_obj r)) x && close9 (o_y (r_obj r)) y && close9 (o_yaw (r_obj r)) yaw &&
  status_eqb (r_status r) s &&
  match r_area r, a with AOne k, Some k' => Nat.eqb k k' | ANone, None => true | _, _ => false end &&
  Nat.eqb (r_frame r) fr && Nat.eqb (r_scene r) sc.

Definition check_table (t : Table) (obs : list (nat * option ORow * option ORow)) : bool :=
  list_all2 (fun e (o : nat * option ORow * option ORow) =>
               let '(i, og, oe) := o in
               Nat.eqb (e_idx e) i && opt_all2 row_matches (e_gt e) og && opt_all2 row_matches (e_est e) oe) t obs.

(* does building the table raise (a point in more than one area)? *)
Definition table_raises (t : Table) : bool :=
  existsb (fun e => match e_gt e, e_est e with
                    | Some r, _ | None, Some r => match r_area r with AMany => true | _ => false end
                    | None, None => false
                    end) t.

(* the six counters under a selection; None = the implementation raised *)
Definition counters (cs : list crit) (t : Table) : list nat :=
  [num_ground_truth cs t; num_estimation cs t; num_tp cs t; num_fp cs t; num_tn cs t; num_fn cs t].

Definition nat_list_eqb (a b : list nat) : bool := list_all2 Nat.eqb a b.

Definition check_counters (cs : list crit) (t : Table) (obs : option (list nat)) : bool :=
  opt_all2 nat_list_eqb (checked t (counters cs t)) obs.

Definition check_errors (P : Q) (c : column) (t : Table) (obs : option (list Q)) : bool :=
  opt_all2 (list_all2 (match c with
                       | ColYaw => fun m i => close9 m i || (close9 (qabs m) P && close9 (qabs i) P)
                       | _ => close9
                       end))
           (checked t (calculate_error P c t)) obs.

(* observed distances are compared squared *)
Definition check_distance (t : Table) (obs : option (list Q)) : bool :=
  opt_all2 (list_all2 (fun m i => closerel m (i * i))) (checked t (calculate_distance2 t)) obs.

(* observed summary: (average, rms, std, max, min) *)
Definition OSummary := (Q * Q * Q * Q * Q)%type.
Definition summary_matches (s : Summary) (o : OSummary) : bool :=
  let '(avg, rms, std, mx, mn) := o in
  close6 (s_avg s) avg && closerel (s_ms s) (rms * rms) && closerel (s_var s) (std * std) &&
  close6 (s_max s) mx && close6 (s_min s) mn.
(* outer None: not compared (yaw column of a frame that has a pair whose yaw difference is +-pi up to rounding:
   the branch of the wrap then depends on the rounding of the subtraction; the error arrays of such frames are
   still compared, modulo 2 pi at +-pi, by check_errors) *)
Definition osummary_matches (m : option Summary) (o : option (option OSummary)) : bool :=
  match o with None => true | Some o' => opt_all2 summary_matches m o' end.

Definition check_summaries (P : Q) (ntargets : nat) (t : Table) (obs : option (list (list (option (option OSummary))))) : bool :=
  opt_all2 (list_all2 (list_all2 osummary_matches))
           (checked t (map (fun ol => map (fun c => summarize_error P ol c t) analysis_columns) (all_labels ntargets)))
           obs.

Definition ratios_match (r : Ratios) (o : Q * Q * Q * Q) : bool :=
  let '(a, b, c, d) := o in close9 (q_tp r) a && close9 (q_fp r) b && close9 (q_tn r) c && close9 (q_fn r) d.

Definition check_ratios (ntargets : nat) (t : Table) (obs : option (list (Q * Q * Q * Q))) : bool :=
  opt_all2 (list_all2 ratios_match) (checked t (summarize_ratio ntargets t)) obs.

(* observed confusion matrix: None = raised, Some None = returned None, Some (Some m) *)
Definition cm_matches (m : cm_res) (o : option (option (list (list nat)))) : bool :=
  match m, o with
  | CMError, None => true
  | CMNone, Some None => true
  | CMOk a, Some (Some b) => list_all2 nat_list_eqb a b
  | _, _ => false
  end.

Definition check_cm (nc : nat) (t : Table) (obs : option (option (list (list nat)))) : bool :=
  match t with
  | [] => match obs with None => true | _ => false end
  | _ => cm_matches (get_confusion_matrix nc t) obs
  end.

(* analyze: obs None = empty result *)
Definition OAnalysis := (list (Q * Q * Q * Q) * list (list (option (option OSummary))) * option (option (list (list nat))))%type.
Definition check_analyze (P : Q) (ntargets nc : nat) (cs : list crit) (dist : option (Q * Q)) (t : Table)
           (obs : option OAnalysis) : bool :=
  opt_all2 (fun (a : Analysis) (o : OAnalysis) =>
              let '(r, e, c) := o in
              list_all2 ratios_match (a_ratio a) r &&
              list_all2 (list_all2 osummary_matches) (a_error a) e &&
              cm_matches (a_cm a) c)
           (analyze P ntargets nc cs dist t) obs.

Definition status_matches (g : GtStatus) (o : nat * list nat * list nat * list nat * list nat * list nat) : bool :=
  let '(u, tot, a, b, c, d) := o in
  Nat.eqb (g_uuid g) u && nat_list_eqb (g_total g) tot && nat_list_eqb (g_tp g) a && nat_list_eqb (g_fp g) b &&
  nat_list_eqb (g_tn g) c && nat_list_eqb (g_fn g) d.

Definition check_object_status (frames : list Frame) (obs : list (nat * list nat * list nat * list nat * list nat * list nat)) : bool :=
  list_all2 status_matches (get_object_status frames) obs.

(* generate_area_points against the arrays of the real analyzer (binary64 arithmetic of np.arange: 1e-9) *)
Definition area_close (a b : Area) : bool :=
  let '((a1, a2), (a3, a4)) := a in let '((b1, b2), (b3, b4)) := b in
  close9 a1 b1 && close9 a2 b2 && close9 a3 b3 && close9 a4 b4.
Definition check_areas (n : nat) (max_x max_y : Q) (obs : option (list Area)) : bool :=
  opt_all2 (list_all2 area_close) (generate_area_points n max_x max_y) obs.

(* the hypotheses of the theorems, on real frames *)
Definition check_accounted (scenes : list (list Frame)) : bool := forallb accountedb (all_frames scenes).
