(* The fragment of the Python value universe that configuration entries range over (C15).
   Definitions only.

     Num q     int / float (binary64 values are rationals; 2 and 2.0 are the same value)
     Bool b    bool -- `isinstance(True, numbers.Real)` holds, so bool counts as a real number
     Str s     str
     NoneV     None
     List l    list
     Tuple l   tuple
*)
From Coq Require Import String Ascii List Bool Arith.
From PE Require Import Base.QUtil.
Import ListNotations.
Open Scope nat_scope.

Inductive pyval : Type :=
| Num (q : Q)
| Bool (b : bool)
| Str (s : string)
| NoneV
| List (l : list pyval)
| Tuple (l : list pyval).

(* isinstance(x, numbers.Real) *)
Definition is_real (v : pyval) : bool :=
  match v with Num _ | Bool _ => true | _ => false end.

(* isinstance(x, list)  (a tuple is not a list) *)
Definition is_list (v : pyval) : bool :=
  match v with List _ => true | _ => false end.

Definition is_none (v : pyval) : bool :=
  match v with NoneV => true | _ => false end.

Definition is_str (v : pyval) : bool :=
  match v with Str _ => true | _ => false end.

(* the characters of a str, as iteration yields them: one-character strs *)
Fixpoint str_chars (s : string) : list pyval :=
  match s with
  | EmptyString => []
  | String c t => Str (String c EmptyString) :: str_chars t
  end.

(* `for t in x` / `len(x)`: None for the values on which Python raises TypeError *)
Definition py_items (v : pyval) : option (list pyval) :=
  match v with
  | List l | Tuple l => Some l
  | Str s => Some (str_chars s)
  | Num _ | Bool _ | NoneV => None
  end.

(* bool(x), as used by `if thresholds:` *)
Definition py_truthy (v : pyval) : bool :=
  match v with
  | Num q => negb (Qeqb q 0%Q)
  | Bool b => b
  | Str s => negb (Nat.eqb (String.length s) 0)
  | NoneV => false
  | List l | Tuple l => negb (Nat.eqb (length l) 0)
  end.

(* list * int : n concatenated copies *)
Definition list_mul {A} (l : list A) (n : nat) : list A := concat (repeat l n).

(* all(isinstance(t, list) for t in l), giving the rows when it holds *)
Fixpoint as_rows (l : list pyval) : option (list (list pyval)) :=
  match l with
  | [] => Some []
  | List r :: t => match as_rows t with Some rs => Some (r :: rs) | None => None end
  | _ :: _ => None
  end.

Definition all_real (l : list pyval) : bool := forallb is_real l.
(* any([not isinstance(t, Real) for t in l]) *)
Definition any_not_real (l : list pyval) : bool := existsb (fun t => negb (is_real t)) l.

(* ---- structural equality, numbers compared by value (used by the correspondence only) *)
Fixpoint pyval_eqb (a b : pyval) : bool :=
  match a, b with
  | Num p, Num q => Qeqb p q
  | Bool x, Bool y => Bool.eqb x y
  | Str s, Str t => String.eqb s t
  | NoneV, NoneV => true
  | List l, List m =>
      (fix go (l m : list pyval) : bool :=
         match l, m with
         | [], [] => true
         | x :: l', y :: m' => pyval_eqb x y && go l' m'
         | _, _ => false
         end) l m
  | Tuple l, Tuple m =>
      (fix go (l m : list pyval) : bool :=
         match l, m with
         | [], [] => true
         | x :: l', y :: m' => pyval_eqb x y && go l' m'
         | _, _ => false
         end) l m
  | _, _ => false
  end.

(* ---- results of a call: a value, or the class of the exception raised *)
Inductive pyerr :=
| ThresholdError | TypeError | ValueError | KeyError | RuntimeError
| MetricsParameterError | NotImplementedError | AttributeError | AssertionError.

Definition pyerr_eqb (a b : pyerr) : bool :=
  match a, b with
  | ThresholdError, ThresholdError | TypeError, TypeError | ValueError, ValueError
  | KeyError, KeyError | RuntimeError, RuntimeError
  | MetricsParameterError, MetricsParameterError
  | NotImplementedError, NotImplementedError | AttributeError, AttributeError
  | AssertionError, AssertionError => true
  | _, _ => false
  end.

Inductive res (A : Type) : Type :=
| Ok (a : A)
| Err (e : pyerr).
Arguments Ok {A} a.
Arguments Err {A} e.

Definition bind {A B} (r : res A) (f : A -> res B) : res B :=
  match r with Ok a => f a | Err e => Err e end.

Definition res_eqb {A} (eqb : A -> A -> bool) (a b : res A) : bool :=
  match a, b with
  | Ok x, Ok y => eqb x y
  | Err e, Err f => pyerr_eqb e f
  | _, _ => false
  end.
