(* Model of the ground-truth lookup (C17):
     common/dataset.py   get_now_frame, get_interpolated_now_frame, interpolate_ground_truth_frames,
                         convert_objects_to_global
     common/geometry.py  interpolate_object_list, interpolate_dynamic_object, interpolate_state,
                         interpolate_list, interpolate_homogeneous_matrix (translation part)
     manager/_evaluation_manager_base.py  get_ground_truth_now_frame
   Definitions only.  Time stamps are integers (micro seconds, Z); positions / velocities are
   rationals; yaw angles are rationals in "pi-units" (1 = pi rad).  The rotation part (pyquaternion
   slerp: acos / sin) is NOT modelled; [yaw_interp] is the shortest-arc *specification* the
   implementation is compared with numerically.  Frames are identified by their index in the
   caller's list. *)
From Coq Require Import List Bool ZArith QArith Qround String.
From PE Require Import Base.QUtil.
Import ListNotations.
Open Scope Z_scope.

(* ------------------------------------------------------------------------------------------ *)
(* data *)
Record vec3 := mkVec { vx : Q; vy : Q; vz : Q }.

Inductive oframe := FMap | FBase | FOther.       (* object.frame_id: "map" | "base_link" | anything else *)

Record obj := mkObj {
  o_id : string;      (* uuid (None is encoded by the harness as a reserved string: None == None in Python) *)
  o_tag : Z;          (* stands for everything that is merely deep-copied (label, shape, point number, paths ...) *)
  o_time : Z;         (* object.unix_time *)
  o_frame : oframe;
  o_pos : vec3;
  o_vel : vec3;       (* NOT converted to the map frame by the code; interpolated as it is *)
  o_yaw : Q           (* pi-units, orientation = rotation about z *)
}.

(* BASE_LINK -> MAP transform of a frame: rotation given by a non-zero quaternion (w,x,y,z) (it is
   normalised by the rotation formula), translation, and -- when the rotation is about z -- its
   yaw in pi-units (an independent fact handed over by the harness; only used for the yaw spec). *)
Record ego := mkEgo { e_w : Q; e_x : Q; e_y : Q; e_z : Q; e_t : vec3; e_yaw : Q }.

Record frame := mkFrame { f_stamp : Z; f_objs : list obj; f_ego : option ego }.

(* what an interpolated frame carries (frame_name / raw_data are those of the before frame) *)
Record ego_out := mkEgoOut { eo_t : vec3; eo_yaw : Q }.
Record iframe := mkIFrame { if_stamp : Z; if_objs : list obj; if_ego : ego_out }.

Inductive err :=
| ErrNanosecond     (* DatasetLoadingError: unix_time > 10^17 *)
| ErrEmpty          (* IndexError: ground_truth_frames[0] on an empty list *)
| ErrNoTransform    (* KeyError: a neighbour has no BASE_LINK->MAP transform *)
| ErrFrameId.       (* NotImplementedError: object neither in "map" nor in "base_link" *)

Inductive result :=
| RNone                                   (* return None *)
| RFrame (i : nat)                        (* the i-th loaded frame itself (same Python object) *)
| RInterp (i j : nat) (f : iframe)        (* a new frame interpolated between frames i (before) and j (after) *)
| RError (e : err).

(* ------------------------------------------------------------------------------------------ *)
(* get_now_frame *)
Definition dist (t : Z) (f : frame) : Z := Z.abs (t - f_stamp f).

(* for ground_truth_frame in ground_truth_frames: if diff_time < min_time: update *)
Fixpoint now_scan (t : Z) (l : list frame) (i best : nat) (m : Z) : nat * Z :=
  match l with
  | [] => (best, m)
  | f :: r => let d := dist t f in
              if d <? m then now_scan t r (S i) i d else now_scan t r (S i) best m
  end.

Definition max_unix_time : Z := 10 ^ 17.

Definition get_now_frame (l : list frame) (t tol : Z) : result :=
  if t >? max_unix_time then RError ErrNanosecond
  else match l with
       | [] => RError ErrEmpty
       | f0 :: _ =>
           let '(b, m) := now_scan t l 0 0 (dist t f0) in
           if m >? tol then RNone else RFrame b
       end.

(* ------------------------------------------------------------------------------------------ *)
(* get_interpolated_now_frame: neighbour search.  A neighbour is (index, frame, dt). *)
Definition nb := (nat * frame * Z)%type.

(* for frame in frames: diff = t - stamp; if diff >= 0: before = frame, dt_before = diff
                                          else: after = frame, dt_after = -diff; break *)
Fixpoint nb_scan (t : Z) (l : list frame) (i : nat) (before : option nb) : option nb * option nb :=
  match l with
  | [] => (before, None)
  | f :: r => let d := t - f_stamp f in
              if d >=? 0 then nb_scan t r (S i) (Some (i, f, d))
              else (before, Some (i, f, - d))
  end.

(* if dt > threshold_min_time: frame = None   (dt = 0.0 when there is no frame: stays None) *)
Definition gate (tol : Z) (n : option nb) : option nb :=
  match n with
  | Some (i, f, d) => if d >? tol then None else Some (i, f, d)
  | None => None
  end.

(* ------------------------------------------------------------------------------------------ *)
(* linear interpolation: list_1[i] + (list_2[i] - list_1[i]) * (t - t1) / (t2 - t1) *)
Definition lerp (t1 t2 t : Z) (a b : Q) : Q :=
  (a + (b - a) * inject_Z (t - t1) / inject_Z (t2 - t1))%Q.
Definition vlerp (t1 t2 t : Z) (a b : vec3) : vec3 :=
  mkVec (lerp t1 t2 t (vx a) (vx b)) (lerp t1 t2 t (vy a) (vy b)) (lerp t1 t2 t (vz a) (vz b)).

Definition alpha (t1 t2 t : Z) : Q := (inject_Z (t - t1) / inject_Z (t2 - t1))%Q.

(* yaw, SPEC: representative of x modulo 2 in (-1, 1]  (pi-units: modulo 2 pi in (-pi, pi]) *)
Definition wrap1 (x : Q) : Q := (x - 2 * inject_Z (Qceiling ((x - 1) / 2)))%Q.
(* shortest arc from u1 to u2 travelled proportionally to time (compared modulo 2) *)
Definition yaw_interp (t1 t2 t : Z) (u1 u2 : Q) : Q := (u1 + alpha t1 t2 t * wrap1 (u2 - u1))%Q.

(* ------------------------------------------------------------------------------------------ *)
(* convert_objects_to_global *)
Definition ego_apply (e : ego) (p : vec3) : vec3 :=
  let w := e_w e in let x := e_x e in let y := e_y e in let z := e_z e in
  let n := (w * w + x * x + y * y + z * z)%Q in
  let px := vx p in let py := vy p in let pz := vz p in
  mkVec (((w * w + x * x - y * y - z * z) * px + 2 * (x * y - w * z) * py + 2 * (x * z + w * y) * pz) / n + vx (e_t e))%Q
        ((2 * (x * y + w * z) * px + (w * w - x * x + y * y - z * z) * py + 2 * (y * z - w * x) * pz) / n + vy (e_t e))%Q
        ((2 * (x * z - w * y) * px + 2 * (y * z + w * x) * py + (w * w - x * x - y * y + z * z) * pz) / n + vz (e_t e))%Q.

Definition to_global (e : ego) (o : obj) : option obj :=
  match o_frame o with
  | FMap => Some o
  | FBase => Some (mkObj (o_id o) (o_tag o) (o_time o) FMap (ego_apply e (o_pos o)) (o_vel o) (o_yaw o + e_yaw e)%Q)
  | FOther => None
  end.

Fixpoint globals (e : ego) (l : list obj) : option (list obj) :=
  match l with
  | [] => Some []
  | o :: r => match to_global e o with
              | None => None
              | Some g => match globals e r with None => None | Some gr => Some (g :: gr) end
              end
  end.

(* ------------------------------------------------------------------------------------------ *)
(* interpolate_object_list *)
Fixpoint find_id (id : string) (l : list obj) : option obj :=
  match l with
  | [] => None
  | o :: r => if String.eqb id (o_id o) then Some o else find_id id r
  end.

Fixpoint mem_id (id : string) (l : list string) : bool :=
  match l with
  | [] => false
  | x :: r => if String.eqb id x then true else mem_id id r
  end.

(* interpolate_dynamic_object: deepcopy(object_1) with a new state and unix_time = int(t) *)
Definition interp_obj (t1 t2 t : Z) (o1 o2 : obj) : obj :=
  mkObj (o_id o1) (o_tag o1) t (o_frame o1)
        (vlerp t1 t2 t (o_pos o1) (o_pos o2))
        (vlerp t1 t2 t (o_vel o1) (o_vel o2))
        (yaw_interp t1 t2 t (o_yaw o1) (o_yaw o2)).

(* first loop: every object of list 1, paired with the FIRST object of list 2 with the same uuid *)
Fixpoint pass1 (t1 t2 t : Z) (l1 l2 : list obj) : list obj :=
  match l1 with
  | [] => []
  | o1 :: r => (match find_id (o_id o1) l2 with
                | Some o2 => interp_obj t1 t2 t o1 o2
                | None => o1
                end) :: pass1 t1 t2 t r l2
  end.

(* second loop: objects of list 2 whose uuid is not yet in id_list (which grows) *)
Fixpoint pass2 (l2 : list obj) (ids : list string) : list obj :=
  match l2 with
  | [] => []
  | o2 :: r => if mem_id (o_id o2) ids then pass2 r ids
               else o2 :: pass2 r (ids ++ [o_id o2])
  end.

Definition interpolate_object_list (t1 t2 t : Z) (l1 l2 : list obj) : list obj :=
  pass1 t1 t2 t l1 l2 ++ pass2 l2 (map o_id l1).

(* ------------------------------------------------------------------------------------------ *)
(* interpolate_ground_truth_frames *)
Definition interp_ego (t1 t2 t : Z) (eb ea : ego) : ego_out :=
  mkEgoOut (vlerp t1 t2 t (e_t eb) (e_t ea)) (yaw_interp t1 t2 t (e_yaw eb) (e_yaw ea)).

Definition interpolate_frames (i j : nat) (fb fa : frame) (t : Z) : result :=
  match f_ego fb, f_ego fa with
  | Some eb, Some ea =>
      match globals eb (f_objs fb), globals ea (f_objs fa) with
      | Some l1, Some l2 =>
          RInterp i j (mkIFrame t
                         (interpolate_object_list (f_stamp fb) (f_stamp fa) t l1 l2)
                         (interp_ego (f_stamp fb) (f_stamp fa) t eb ea))
      | _, _ => RError ErrFrameId
      end
  | _, _ => RError ErrNoTransform
  end.

Definition four_way (b a : option nb) (t : Z) : result :=
  match b, a with
  | None, None => RNone
  | None, Some (j, _, _) => RFrame j
  | Some (i, _, _), None => RFrame i
  | Some (i, fb, _), Some (j, fa, _) => interpolate_frames i j fb fa t
  end.

Definition get_interpolated_now_frame (l : list frame) (t tol : Z) : result :=
  let '(b, a) := nb_scan t l 0 None in
  four_way (gate tol b) (gate tol a) t.

(* manager.get_ground_truth_now_frame(unix_time, threshold_min_time, interpolate_ground_truth) *)
Definition manager_lookup (l : list frame) (t tol : Z) (interpolate : bool) : result :=
  if interpolate then get_interpolated_now_frame l t tol else get_now_frame l t tol.

(* ------------------------------------------------------------------------------------------ *)
(* correspondence: observed implementation outputs and their comparison with the model *)
Record oobj := mkOObj {
  oo_id : string; oo_tag : Z; oo_time : Z; oo_map : bool;   (* frame_id == "map" *)
  oo_pos : vec3; oo_ptol : Q;                               (* tolerance 0 = bit-exact expected *)
  oo_vel : vec3; oo_vtol : Q;
  oo_yaw : option Q                                         (* None: not compared (ego not yaw-only / antipodal) *)
}.

Inductive obs :=
| ONone
| OFrame (i : nat)
| OError (e : err)
| OInterp (name_idx : nat) (stamp : Z) (objs : list oobj) (ego_t : vec3) (ego_yaw : option Q).

Definition qclose (tol a b : Q) : bool := Qleb (qabs (a - b)) tol.
Definition vclose (tol : Q) (a b : vec3) : bool :=
  qclose tol (vx a) (vx b) && qclose tol (vy a) (vy b) && qclose tol (vz a) (vz b).
Definition tol_yaw : Q := 1 # 1000000.
Definition tol_ego : Q := 1 # 1000000000.
Definition yaw_close (a b : Q) : bool := Qleb (qabs (wrap1 (a - b))) tol_yaw.
Definition oyaw_close (m : Q) (o : option Q) : bool :=
  match o with None => true | Some y => yaw_close m y end.

Definition err_eqb (a b : err) : bool :=
  match a, b with
  | ErrNanosecond, ErrNanosecond | ErrEmpty, ErrEmpty
  | ErrNoTransform, ErrNoTransform | ErrFrameId, ErrFrameId => true
  | _, _ => false
  end.

Definition is_map (f : oframe) : bool := match f with FMap => true | _ => false end.

Definition check_obj (m : obj) (o : oobj) : bool :=
  String.eqb (o_id m) (oo_id o) && Z.eqb (o_tag m) (oo_tag o) && Z.eqb (o_time m) (oo_time o)
  && Bool.eqb (is_map (o_frame m)) (oo_map o)
  && vclose (oo_ptol o) (o_pos m) (oo_pos o) && vclose (oo_vtol o) (o_vel m) (oo_vel o)
  && oyaw_close (o_yaw m) (oo_yaw o).

Fixpoint check_objs (ms : list obj) (os : list oobj) : bool :=
  match ms, os with
  | [], [] => true
  | m :: mr, o :: or => check_obj m o && check_objs mr or
  | _, _ => false
  end.

Definition check_result (r : result) (o : obs) : bool :=
  match r, o with
  | RNone, ONone => true
  | RFrame i, OFrame k => Nat.eqb i k
  | RError e, OError e' => err_eqb e e'
  | RInterp i _ f, OInterp k stamp objs et ey =>
      Nat.eqb i k && Z.eqb (if_stamp f) stamp && check_objs (if_objs f) objs
      && vclose tol_ego (eo_t (if_ego f)) et && oyaw_close (eo_yaw (if_ego f)) ey
  | _, _ => false
  end.

(* one query against one timeline: direct functions and the manager entry point *)
Definition check_query (l : list frame) (t tol : Z) (o_now o_int o_mnow o_mint : obs) : bool :=
  check_result (get_now_frame l t tol) o_now
  && check_result (get_interpolated_now_frame l t tol) o_int
  && check_result (manager_lookup l t tol false) o_mnow
  && check_result (manager_lookup l t tol true) o_mint.
