(* Model of the object matcher:
     perception_eval/evaluation/result/object_result.py
        get_object_results (3D objects and 2D objects with ROI), _get_score_table,
        _get_fp_object_results, _get_matching_module
     perception_eval/evaluation/matching/object_matching.py
        MatchingLabelPolicy.is_matchable, <Mode>Matching.is_better_than
   Definitions only (proofs: Proofs/Matching*.v, statements: Props/C01.v, Props/C02.v).

   Objects are identified by their index in the caller's lists.  The model is fed *facts* read
   through the public API (frame ids, per-GT matchable threshold, per-pair matching value,
   is_same_label, is_unknown, is_fp) and has to reproduce which index pairs come out, in which
   order.  NaN in the score table is [None]. *)
From Coq Require Import List Bool Arith.
From PE Require Import Base.QUtil.
Import ListNotations.
Open Scope Q_scope.

(* ------------------------------------------------------------------------------------------ *)
(* _get_matching_module / is_better_than: distances are minimised, IoU is maximised; in both   *)
(* cases "better" is strict.                                                                   *)
(* ------------------------------------------------------------------------------------------ *)
Inductive Mode := CENTERDISTANCE | PLANEDISTANCE | IOU2D | IOU3D.

Definition maximize_of (md : Mode) : bool :=
  match md with
  | CENTERDISTANCE => false
  | PLANEDISTANCE => false
  | IOU2D => true
  | IOU3D => true
  end.

(* [better mx a b]: a is strictly better than b (value < threshold for distances,
   value > threshold for IoU; the same strict order drives nanargmin / nanargmax). *)
Definition better (mx : bool) (a b : Q) : bool := if mx then Qltb b a else Qltb a b.

(* a is at least as good as b (Prop, used in the statements) *)
Definition as_good (mx : bool) (a b : Q) : Prop := if mx then b <= a else a <= b.

(* ------------------------------------------------------------------------------------------ *)
(* MatchingLabelPolicy.is_matchable                                                            *)
(* ------------------------------------------------------------------------------------------ *)
Inductive Policy := P_DEFAULT | P_ALLOW_UNKNOWN | P_ALLOW_ANY.

Definition is_matchable (p : Policy) (gt_is_fp same_label est_is_unknown : bool) : bool :=
  if gt_is_fp || (match p with P_ALLOW_ANY => true | _ => false end) then true
  else match p with
       | P_ALLOW_UNKNOWN => same_label || est_is_unknown
       | _ => same_label
       end.

(* ------------------------------------------------------------------------------------------ *)
(* np.nanargmin / np.nanargmax over the remaining rows [es] x columns [gs] (lists of original   *)
(* indices, in table order): row-major scan, a candidate replaces the current best only if it  *)
(* is strictly better => first occurrence of the best value; NaN cells are skipped.            *)
(* ------------------------------------------------------------------------------------------ *)
Definition cand := (Q * nat * nat)%type.

Definition upd (mx : bool) (key : nat -> nat -> option Q) (best : option cand) (e g : nat) : option cand :=
  match key e g with
  | None => best
  | Some s =>
      match best with
      | None => Some (s, e, g)
      | Some (sb, _, _) => if better mx s sb then Some (s, e, g) else best
      end
  end.

Fixpoint scan_row (mx : bool) (key : nat -> nat -> option Q) (e : nat) (gs : list nat) (best : option cand)
  : option cand :=
  match gs with
  | [] => best
  | g :: t => scan_row mx key e t (upd mx key best e g)
  end.

Fixpoint scan (mx : bool) (key : nat -> nat -> option Q) (es gs : list nat) (best : option cand)
  : option cand :=
  match es with
  | [] => best
  | e :: t => scan mx key t gs (scan_row mx key e gs best)
  end.

(* None <-> np.isnan(table).all() (also for an empty table) *)
Definition argbest (mx : bool) (key : nat -> nat -> option Q) (es gs : list nat) : option (nat * nat) :=
  match scan mx key es gs None with
  | None => None
  | Some (_, e, g) => Some (e, g)
  end.

(* list.pop(position) + np.delete(row/column): on duplicate-free index lists this is the removal
   of the (first occurrence of the) index value *)
Fixpoint remove_first (x : nat) (l : list nat) : list nat :=
  match l with
  | [] => []
  | y :: t => if Nat.eqb x y then t else y :: remove_first x t
  end.

(* position-based variant (what the code literally does); Proofs show it coincides *)
Fixpoint remove_at (pos : nat) (l : list nat) : list nat :=
  match pos, l with
  | _, [] => []
  | O, _ :: t => t
  | S p, y :: t => y :: remove_at p t
  end.

Fixpoint index_of (x : nat) (l : list nat) : nat :=
  match l with
  | [] => O
  | y :: t => if Nat.eqb x y then O else S (index_of x t)
  end.

(* one matching loop: `for _ in range(fuel): if all NaN: break; pick arg-best; pop; delete` *)
Fixpoint stage (fuel : nat) (mx : bool) (key : nat -> nat -> option Q) (es gs : list nat)
  : list (nat * nat) * list nat * list nat :=
  match fuel with
  | O => ([], es, gs)
  | S f =>
      match argbest mx key es gs with
      | None => ([], es, gs)
      | Some (e, g) =>
          let '(ps, es', gs') := stage f mx key (remove_first e es) (remove_first g gs) in
          ((e, g) :: ps, es', gs')
      end
  end.

(* the same loop popping by *position* *)
Fixpoint stage_pos (fuel : nat) (mx : bool) (key : nat -> nat -> option Q) (es gs : list nat)
  : list (nat * nat) * list nat * list nat :=
  match fuel with
  | O => ([], es, gs)
  | S f =>
      match argbest mx key es gs with
      | None => ([], es, gs)
      | Some (e, g) =>
          let '(ps, es', gs') :=
            stage_pos f mx key (remove_at (index_of e es) es) (remove_at (index_of g gs) gs) in
          ((e, g) :: ps, es', gs')
      end
  end.

(* masked_scores = np.where(is_valid, scores, nan) *)
Definition masked (cell : nat -> nat -> option Q) (ok : nat -> nat -> bool) (e g : nat) : option Q :=
  if ok e g then cell e g else None.

(* the two loops of get_object_results on an n x m table *)
Record Stages := mkStages {
  st_pairs1 : list (nat * nat);   (* stage 1, in pick order *)
  st_pairs2 : list (nat * nat);   (* stage 2, in pick order *)
  st_rest_est : list nat;         (* estimates left after both stages, in input order *)
  st_rest_gt : list nat;          (* ground truths left after both stages *)
  st_mid_est : list nat;          (* estimates alive between the stages *)
  st_mid_gt : list nat
}.

Definition match_stages (mx : bool) (cell : nat -> nat -> option Q) (ok : nat -> nat -> bool) (n m : nat)
  : Stages :=
  let '(p1, es1, gs1) := stage n mx (masked cell ok) (seq 0 n) (seq 0 m) in
  let '(p2, es2, gs2) := stage (length es1) mx cell es1 gs1 in
  mkStages p1 p2 es2 gs2 es1 gs1.

Definition paired (p : nat * nat) : nat * option nat := (fst p, Some (snd p)).
Definition unpaired (e : nat) : nat * option nat := (e, None).

(* get_object_results: result list as (estimate index, Some gt index | None) *)
Definition match_core (mx fpv : bool) (cell : nat -> nat -> option Q) (ok : nat -> nat -> bool) (n m : nat)
  : list (nat * option nat) :=
  if Nat.eqb n 0 then []                                   (* `if not estimated_objects: return []` *)
  else if Nat.eqb m 0 then                                 (* `if not ground_truth_objects:` *)
    (if fpv then [] else map unpaired (seq 0 n))
  else
    let s := match_stages mx cell ok n m in
    map paired (st_pairs1 s ++ st_pairs2 s)
    ++ (if fpv then [] else map unpaired (st_rest_est s)).  (* leftover estimates, unless FP validation *)

(* ground-truth indices of the results that have a ground truth, in result order *)
Definition gts_of (out : list (nat * option nat)) : list nat :=
  flat_map (fun r => match snd r with Some g => [g] | None => [] end) out.

(* ------------------------------------------------------------------------------------------ *)
(* _get_score_table on facts                                                                   *)
(* ------------------------------------------------------------------------------------------ *)
Record Facts := mkFacts {
  f_est_frame : list nat;                 (* frame id of each estimate *)
  f_gt_frame : list nat;                  (* frame id of each ground truth *)
  f_gt_thr : list (option Q);             (* get_label_threshold(gt.semantic_label, target_labels, matchable_thresholds) *)
  f_est_unknown : list bool;              (* est.semantic_label.is_unknown() *)
  f_gt_fp : list bool;                    (* gt.semantic_label.is_fp() *)
  f_value : list (list (option Q));       (* <Mode>Matching(est, gt).value for same-frame pairs (None: never computed / NaN) *)
  f_same_label : list (list bool)         (* is_same_label(est, gt) *)
}.

Definition lookup2 {A} (t : list (list A)) (i j : nat) : option A :=
  match nth_error t i with
  | Some row => nth_error row j
  | None => None
  end.

(* one cell of the score table: NaN unless same frame and (no threshold or strictly better) *)
Definition score_cell (mx : bool) (same_frame : bool) (thr : option Q) (v : option Q) : option Q :=
  if same_frame then
    match v with
    | None => None
    | Some s =>
        match thr with
        | None => Some s
        | Some t => if better mx s t then Some s else None
        end
    end
  else None.

Definition cell_of (mx : bool) (F : Facts) (e g : nat) : option Q :=
  match nth_error (f_est_frame F) e, nth_error (f_gt_frame F) g, nth_error (f_gt_thr F) g, lookup2 (f_value F) e g with
  | Some fe, Some fg, Some thr, Some v => score_cell mx (Nat.eqb fe fg) thr v
  | _, _, _, _ => None
  end.

Definition ok_of (p : Policy) (F : Facts) (e g : nat) : bool :=
  match nth_error (f_gt_fp F) g, lookup2 (f_same_label F) e g, nth_error (f_est_unknown F) e with
  | Some fp, Some same, Some unk => is_matchable p fp same unk
  | _, _, _ => false
  end.

Definition get_object_results (md : Mode) (p : Policy) (fpv : bool) (F : Facts) : list (nat * option nat) :=
  match_core (maximize_of md) fpv (cell_of (maximize_of md) F) (ok_of p F)
             (length (f_est_frame F)) (length (f_gt_frame F)).

Definition facts_wf (F : Facts) : bool :=
  let n := length (f_est_frame F) in
  let m := length (f_gt_frame F) in
  Nat.eqb (length (f_gt_thr F)) m && Nat.eqb (length (f_gt_fp F)) m
  && Nat.eqb (length (f_est_unknown F)) n
  && Nat.eqb (length (f_value F)) n && forallb (fun r => Nat.eqb (length r) m) (f_value F)
  && Nat.eqb (length (f_same_label F)) n && forallb (fun r => Nat.eqb (length r) m) (f_same_label F).

(* ------------------------------------------------------------------------------------------ *)
(* correspondence checks (evaluated by vm_compute on generated cases)                          *)
(* ------------------------------------------------------------------------------------------ *)
Definition onat_eqb (a b : option nat) : bool :=
  match a, b with
  | None, None => true
  | Some x, Some y => Nat.eqb x y
  | _, _ => false
  end.

Fixpoint res_eqb (a b : list (nat * option nat)) : bool :=
  match a, b with
  | [], [] => true
  | (e, g) :: s, (e', g') :: t => Nat.eqb e e' && onat_eqb g g' && res_eqb s t
  | _, _ => false
  end.

Fixpoint bools_eqb (a b : list bool) : bool :=
  match a, b with
  | [], [] => true
  | x :: s, y :: t => Bool.eqb x y && bools_eqb s t
  | _, _ => false
  end.

Fixpoint btable_eqb (a b : list (list bool)) : bool :=
  match a, b with
  | [], [] => true
  | x :: s, y :: t => bools_eqb x y && btable_eqb s t
  | _, _ => false
  end.

(* model's label-compatibility table, to be compared with MatchingLabelPolicy.is_matchable *)
Definition ok_table (p : Policy) (F : Facts) : list (list bool) :=
  map (fun e => map (fun g => ok_of p F e g) (seq 0 (length (f_gt_frame F)))) (seq 0 (length (f_est_frame F))).

(* model's "cell is not NaN" table, to be compared with same-frame && (thr is None || is_better_than(thr)) *)
Definition live_table (md : Mode) (F : Facts) : list (list bool) :=
  map (fun e => map (fun g => match cell_of (maximize_of md) F e g with Some _ => true | None => false end)
                    (seq 0 (length (f_gt_frame F)))) (seq 0 (length (f_est_frame F))).

(* everything the correspondence compares for one case *)
Definition check_case (md : Mode) (p : Policy) (fpv : bool) (F : Facts)
           (obs : list (nat * option nat)) (obs_ok obs_live : list (list bool)) : bool :=
  facts_wf F
  && res_eqb (get_object_results md p fpv F) obs
  && btable_eqb (ok_table p F) obs_ok
  && btable_eqb (live_table md F) obs_live.
