(* Model of the sensing evaluation on top of Model/Winding.v:
     perception_eval/evaluation/sensing/sensing_frame_config.py  SensingFrameConfig.get_scale_factor
     perception_eval/evaluation/sensing/sensing_result.py        DynamicObjectWithSensingResult
     perception_eval/evaluation/sensing/sensing_frame_result.py  SensingFrameResult.evaluate_frame
     perception_eval/manager/sensing_evaluation_manager.py       SensingEvaluationManager.crop_pointcloud
   Definitions only (proofs: Proofs/SensingProofs.v, statements: Props/C12.v).

   Ground-truth objects are identified by their index in the caller's list, cloud rows by their
   row index.  The distance of an object (a sqrt) is a fact read through get_distance(). *)
From Coq Require Import List Bool ZArith Arith.
From PE Require Import Base.QUtil Model.Winding.
Import ListNotations.
Open Scope Q_scope.

Inductive visibility := V_FULL | V_MOST | V_PARTIAL | V_NONE | V_UNAVAILABLE.

Record gt_object := mkGT {
  g_box : box;
  g_dist : Q;                        (* ground_truth_object.get_distance() *)
  g_vis : option visibility }.       (* ground_truth_object.visibility (None allowed) *)

Record sensing_config := mkCfg {
  c_s0 : Q;                          (* box_scale_0m *)
  c_s100 : Q;                        (* box_scale_100m *)
  c_min_points : Z }.                (* min_points_threshold *)

(* get_scale_factor(distance) = scale_slope_ * distance + box_scale_0m, scale_slope_ = 0.01 * (s100 - s0) *)
Definition scale_of (cfg : sensing_config) (g : gt_object) : Q :=
  bbox_scale (g_dist g) (c_s0 cfg) (c_s100 cfg).

(* is_occluded = ground_truth_object.visibility == Visibility.NONE *)
Definition is_occluded (v : option visibility) : bool :=
  match v with Some V_NONE => true | _ => false end.

(* DynamicObjectWithSensingResult.__init__ *)
Record sensing_result := mkRes {
  r_obj : nat;                       (* which ground truth *)
  r_inside : list nat;               (* rows of inside_pointcloud *)
  r_num : nat;                       (* inside_pointcloud_num *)
  r_detected : bool;                 (* inside_pointcloud_num >= min_points_threshold *)
  r_occluded : bool }.

Definition sensing_result_of (cfg : sensing_config) (cloud : list point) (ig : nat * gt_object)
  : sensing_result :=
  let g := snd ig in
  let k := scale_of cfg g in
  let ins := box_crop_idx (g_box g) k true cloud in      (* inside_pointcloud = crop_pointcloud(cloud, k) *)
  let n := length ins in                                 (* inside_pointcloud_num = len(inside_pointcloud) *)
  mkRes (fst ig) ins n
        (c_min_points cfg <=? Z.of_nat n)%Z
        (is_occluded (g_vis g)).

(* _evaluate_pointcloud_for_detection: (success, fail, warning), each in ground-truth order.
   if is_occluded: warning  elif is_detected: success  else: fail *)
Definition det_lists : Type := (list sensing_result * list sensing_result * list sensing_result)%type.

Fixpoint eval_detection (cfg : sensing_config) (cloud : list point) (gts : list (nat * gt_object))
  : det_lists :=
  match gts with
  | [] => ([], [], [])
  | ig :: t =>
      let r := sensing_result_of cfg cloud ig in
      let '(su, fa, wa) := eval_detection cfg cloud t in
      if r_occluded r then (su, fa, r :: wa)
      else if r_detected r then (r :: su, fa, wa)
      else (su, r :: fa, wa)
  end.

Definition indexed {A} (l : list A) : list (nat * A) := combine (seq 0 (length l)) l.

(* _evaluate_pointcloud_for_non_detection, inner loop: crop outside every (scaled) box in turn.
   Polymorphic in the row type so that the correspondence can carry row indices along. *)
Definition crop_outside_boxes {A} (get : A -> point) (cfg : sensing_config) (gts : list gt_object)
           (pc : list A) : list A :=
  fold_left (fun acc g => let sel := box_selected (g_box g) (scale_of cfg g) false in
                          filter (fun a => sel (get a)) acc) gts pc.

(* outer loop: only non-empty remainders are appended to pointcloud_failed_non_detection *)
Fixpoint eval_non_detection {A} (get : A -> point) (cfg : sensing_config) (gts : list gt_object)
         (pcs : list (list A)) : list (list A) :=
  match pcs with
  | [] => []
  | pc :: t =>
      match crop_outside_boxes get cfg gts pc with
      | [] => eval_non_detection get cfg gts t
      | (_ :: _) as rem => rem :: eval_non_detection get cfg gts t
      end
  end.

(* SensingFrameResult.evaluate_frame *)
Record frame_result := mkFR {
  fr_success : list sensing_result;
  fr_fail : list sensing_result;
  fr_warning : list sensing_result;
  fr_nondet : list (list point) }.

Definition evaluate_frame (cfg : sensing_config) (gts : list gt_object) (cloud : list point)
           (pcs : list (list point)) : frame_result :=
  let '(su, fa, wa) := eval_detection cfg cloud (indexed gts) in
  mkFR su fa wa (eval_non_detection (fun p => p) cfg gts pcs).

(* SensingEvaluationManager.crop_pointcloud: inside each non-detection area, then outside every
   box scaled with get_bbox_scale(distance, box_scale_0m, box_scale_100m); empty results are kept *)
Definition manager_crop {A} (get : A -> point) (cfg : sensing_config) (gts : list gt_object)
           (cloud : list A) (areas : list (list vertex)) : list (list A) :=
  map (fun area => let sel := selected area true in
                   crop_outside_boxes get cfg gts (filter (fun a => sel (get a)) cloud)) areas.

(* the RuntimeErrors of crop_pointcloud surface unchanged *)
Definition manager_crop_checked {A} (get : A -> point) (ncols : nat) (cfg : sensing_config)
           (gts : list gt_object) (cloud : list A) (areas : list (list vertex)) : option (list (list A)) :=
  if negb (length areas =? 0)%nat && ((ncols <? 2)%nat || negb (forallb area_ok areas)) then None
  else Some (manager_crop get cfg gts cloud areas).

(* ------------------------------------------------------------------------------------------ *)
(* check functions for the correspondence                                                      *)
(* ------------------------------------------------------------------------------------------ *)
Definition res_obs : Type := (nat * list nat * nat * bool * bool)%type.   (* obj, rows, num, detected, occluded *)

Definition res_eqb (r : sensing_result) (o : res_obs) : bool :=
  let '(i, rows, n, d, oc) := o in
  Nat.eqb (r_obj r) i && nat_list_eqb (r_inside r) rows && Nat.eqb (r_num r) n &&
  Bool.eqb (r_detected r) d && Bool.eqb (r_occluded r) oc.

Fixpoint res_list_eqb (a : list sensing_result) (b : list res_obs) : bool :=
  match a, b with
  | [], [] => true
  | x :: s, y :: t => res_eqb x y && res_list_eqb s t
  | _, _ => false
  end.

Fixpoint rows_list_eqb (a b : list (list nat)) : bool :=
  match a, b with
  | [], [] => true
  | x :: s, y :: t => nat_list_eqb x y && rows_list_eqb s t
  | _, _ => false
  end.

Definition rows_of (l : list (list (nat * point))) : list (list nat) := map (map fst) l.

Fixpoint scales_close (cfg : sensing_config) (gts : list gt_object) (obs : list Q) : bool :=
  match gts, obs with
  | [], [] => true
  | g :: s, k :: t => Qleb (qabs (scale_of cfg g - k)) (1 # 1000000000) && scales_close cfg s t
  | _, _ => false
  end.

(* SensingFrameResult(cfg).evaluate_frame(gts, cloud, pcs): the three lists, the remaining rows of
   every reported non-detection cloud, and the scale factors the implementation used *)
Definition check_frame (cfg : sensing_config) (gts : list gt_object) (cloud : list point)
           (pcs : list (list point)) (scales : list Q)
           (su fa wa : list res_obs) (nd : list (list nat)) : bool :=
  let '(msu, mfa, mwa) := eval_detection cfg cloud (indexed gts) in
  scales_close cfg gts scales &&
  res_list_eqb msu su && res_list_eqb mfa fa && res_list_eqb mwa wa &&
  rows_list_eqb (rows_of (eval_non_detection snd cfg gts (map indexed pcs))) nd.

(* SensingEvaluationManager.crop_pointcloud(gts, cloud, areas): rows per area; None = RuntimeError *)
Definition check_manager (ncols : nat) (cfg : sensing_config) (gts : list gt_object)
           (cloud : list point) (areas : list (list vertex)) (obs : option (list (list nat))) : bool :=
  match manager_crop_checked snd ncols cfg gts (indexed cloud) areas, obs with
  | None, None => true
  | Some m, Some o => rows_list_eqb (rows_of m) o
  | _, _ => false
  end.
