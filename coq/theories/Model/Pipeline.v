(* End-to-end model of ONE frame of the 3D detection pipeline
     manager/perception_evaluation_manager.py   add_frame_result, _filter_objects (the matching step)
     evaluation/result/object_result.py          get_object_results -> DynamicObjectWithPerceptionResult
     evaluation/result/perception_frame_result.py evaluate_frame (critical filter, divide_objects,
                                                  divide_objects_to_num, evaluate_detection, pass/fail)
     evaluation/metrics/metrics.py               MetricsScore.evaluate_detection (centre / plane distance Maps)
     evaluation/metrics/detection/map.py, ap.py  Map, Ap
   as the COMPOSITION of the existing models
     Model/Matching.v  get_object_results  (index pairs)
     Model/Filter.v    filter_objects / filter_object_results
     Model/PassFail.v  evaluate_frame
     Model/AP.v        lres / bucket / label_results / count_label / classify / ap_model / mean_defined.
   Definitions only; proofs in Proofs/PipelineProofs.v, statements in Props/Pipeline.v.

   Inputs are PRE-matching facts only:
     ests, gts   the objects handed to the matcher (lists of Filter.Obj whose o_id is their index in the list),
     F           Matching.Facts: frame ids, matchable radius per ground truth, is_unknown / is_fp flags and the
                 estimate x ground-truth tables of centre-distance values and is_same_label,
     T           estimate x ground-truth tables of the plane-distance value (pass/fail score) and of the
                 heading weight TPMetricsAph.get_value,
   and the configurations (label policy, FP validation, critical filter, pass/fail thresholds, detection
   targets and threshold lists).  Nothing about the matching is an input. *)
From Coq Require Import List Bool ZArith String Arith.
From PE Require Import Base.QUtil Model.Matching Model.Filter Model.PassFail.
From PE Require Model.AP.
Import ListNotations.
Open Scope Q_scope.

(* ------------------------------------------------------------------------------------------------ *)
(* tables of per-pair facts that the matcher does not look at                                        *)
(* ------------------------------------------------------------------------------------------------ *)
Record Tables := mkTables {
  t_plane : list (list (option Q));    (* PlaneDistanceMatching(est, gt).value (None: not computed / NaN) *)
  t_heading : list (list Q)            (* TPMetricsAph().get_value of the pair's result *)
}.

(* table[e][g] when it is a value *)
Definition cell2 (t : list (list (option Q))) (e g : nat) : option Q :=
  match lookup2 t e g with Some (Some v) => Some v | _ => None end.

(* ------------------------------------------------------------------------------------------------ *)
(* DynamicObjectWithPerceptionResult(est, gt, policy): the Res of one index pair                      *)
(*   is_label_correct = policy.is_matchable(est, gt)  (False without ground truth)                    *)
(*   plane_distance.value = the pass/fail score       (None without ground truth)                     *)
(* An index outside the object lists is an explicit IndexError (proved impossible).                   *)
(* ------------------------------------------------------------------------------------------------ *)
Definition pair_res (p : Policy) (F : Facts) (T : Tables) (ests gts : list Obj) (pr : nat * option nat) : res Res :=
  match nth_error ests (fst pr) with
  | None => ErrIndex
  | Some e =>
      match snd pr with
      | None => Ok (mkRes e None false None)
      | Some g =>
          match nth_error gts g with
          | None => ErrIndex
          | Some go => Ok (mkRes e (Some go) (ok_of p F (fst pr) g) (cell2 (t_plane T) (fst pr) g))
          end
      end
  end.

Fixpoint build_results (p : Policy) (F : Facts) (T : Tables) (ests gts : list Obj) (out : list (nat * option nat))
  : res (list Res) :=
  match out with
  | [] => Ok []
  | pr :: t =>
      bind (pair_res p F T ests gts pr) (fun r =>
      bind (build_results p F T ests gts t) (fun rs => Ok (r :: rs)))
  end.

(* _filter_objects' matching step: get_object_results on the objects handed to the matcher *)
Definition matched_results (md : Mode) (p : Policy) (fpv : bool) (F : Facts) (T : Tables) (ests gts : list Obj)
  : res (list Res) :=
  build_results p F T ests gts (get_object_results md p fpv F).

(* matcher -> evaluate_frame (critical filtering + pass/fail lists) *)
Definition frame_pipeline (md : Mode) (p : Policy) (fpv : bool) (F : Facts) (T : Tables) (ests gts : list Obj)
           (crit : Cfg) (pf : PF) : res Frame :=
  bind (matched_results md p fpv F T ests gts) (fun rs => evaluate_frame crit pf rs gts).

(* ------------------------------------------------------------------------------------------------ *)
(* the scene as the harness reads it: Facts are DERIVED from the objects and the configuration        *)
(* ------------------------------------------------------------------------------------------------ *)
(* get_label_threshold(gt.semantic_label, target_labels, max_matchable_radii), pure reading (the evaluation
   config builds the radii with check_thresholds: as long as the target list) *)
Definition radius_of (targets : list nat) (radii : option (list Q)) (lbl : nat) : option Q :=
  thr_of (mkPF (Some targets) radii) lbl.

Definition scene_facts (targets : list nat) (radii : option (list Q)) (est_frame gt_frame : list nat)
           (value : list (list (option Q))) (same : list (list bool)) (ests gts : list Obj) : Facts :=
  mkFacts est_frame gt_frame
          (map (fun g => radius_of targets radii (o_label g)) gts)
          (map (fun e => lbl_is_unknown (o_label e)) ests)
          (map (fun g => lbl_is_fp (o_label g)) gts)
          value same.

(* identities are list indices *)
Definition ids_ok (l : list Obj) : bool := nat_list_eqb (ids l) (seq 0 (List.length l)).

Definition table_shape {A} (t : list (list A)) (n m : nat) : bool :=
  Nat.eqb (List.length t) n && forallb (fun r => Nat.eqb (List.length r) m) t.

(* everything the theorems ask of the inputs that is decidable *)
Definition scene_ok (F : Facts) (T : Tables) (ests gts : list Obj) : bool :=
  facts_wf F && ids_ok ests && ids_ok gts
  && Nat.eqb (List.length ests) (List.length (f_est_frame F))
  && Nat.eqb (List.length gts) (List.length (f_gt_frame F))
  && table_shape (t_plane T) (List.length ests) (List.length gts)
  && table_shape (t_heading T) (List.length ests) (List.length gts).

(* pairwise distinct DynamicObject.__eq__ classes of the ground truths *)
Fixpoint nodup_nat (l : list nat) : bool :=
  match l with [] => true | x :: t => negb (mem_nat x t) && nodup_nat t end.
Definition keys_distinct (gts : list Obj) : bool := nodup_nat (map o_key gts).

(* ------------------------------------------------------------------------------------------------ *)
(* what Ap reads from a surviving result (evaluate_detection on the critical-filtered results)        *)
(* ------------------------------------------------------------------------------------------------ *)
(* [v e g]: get_matching(mode).value of the pair; [w e g]: tp_metrics.get_value of the pair's result.
   get_matching never returns None for 3D objects; its value is None without ground truth.
   The threshold field is filled by AP.label_results (get_label_threshold with the Ap's single label). *)
Definition ap_res (v : nat -> nat -> option Q) (w : nat -> nat -> Q) (r : Res) : AP.res :=
  match r_gt r with
  | None => AP.mkRes (est_id r) (o_conf (r_est r)) false false false None (Some None) 0
  | Some g =>
      AP.mkRes (est_id r) (o_conf (r_est r)) true (lbl_is_fp (o_label g)) (r_label_ok r) None
               (Some (v (est_id r) (o_id g))) (w (est_id r) (o_id g))
  end.

Definition lres_of (v : nat -> nat -> option Q) (w : nat -> nat -> Q) (r : Res) : AP.lres :=
  AP.mkL (ap_res v w r) (o_label (r_est r)) (option_map o_label (r_gt r)).

Definition unit_w (_ _ : nat) : Q := 1.                                   (* TPMetricsAp *)
Definition heading_w (T : Tables) (e g : nat) : Q :=                      (* TPMetricsAph *)
  match lookup2 (t_heading T) e g with Some x => x | None => 0 end.
Definition center_v (F : Facts) (e g : nat) : option Q := cell2 (f_value F) e g.
Definition plane_v (T : Tables) (e g : nat) : option Q := cell2 (t_plane T) e g.

(* MetricsScore.detection_config: target labels of the evaluator, one threshold list per Map *)
Record Det := mkDet {
  d_targets : list nat;
  d_center : list (list Q);       (* center_distance_thresholds *)
  d_plane : list (list Q)         (* plane_distance_thresholds *)
}.

(* one Ap / Aph of a Map: bucket of label L (divide_objects with the CRITICAL target labels [cts]),
   num_ground_truth = divide_objects_to_num over the critical ground truths *)
Definition ap_inputs (cts : list nat) (xs : list AP.lres) (Lt : nat * Q) : list AP.res :=
  AP.label_results cts (fst Lt) (snd Lt) xs.

Definition one_ap (cts gl : list nat) (xs : list AP.lres) (Lt : nat * Q) : AP.ap_result :=
  AP.ap_model AP.Minimize (AP.count_label (fst Lt) gl) (ap_inputs cts xs Lt).

Record MapOut := mkMapOut {
  mo_nums : list nat;                 (* Ap.num_ground_truth per target label *)
  mo_aps : list AP.ap_result;
  mo_aphs : list AP.ap_result;
  mo_map : option Q;                  (* None = inf *)
  mo_maph : option Q
}.

(* Map(object_results_dict, num_ground_truth_dict, target_labels, mode, thresholds):
   zip(target_labels, thresholds); aps with TPMetricsAp, aphs with TPMetricsAph; mean over the defined ones *)
Definition map_out (v : nat -> nat -> option Q) (T : Tables) (cts : list nat) (det_targets : list nat) (thrs : list Q)
           (rs' : list Res) (gts' : list Obj) : MapOut :=
  let gl := map o_label gts' in
  let xs := map (lres_of v unit_w) rs' in
  let xh := map (lres_of v (heading_w T)) rs' in
  let lts := combine det_targets thrs in
  let aps := map (one_ap cts gl xs) lts in
  let aphs := map (one_ap cts gl xh) lts in
  mkMapOut (map (fun Lt => AP.count_label (fst Lt) gl) lts) aps aphs
           (AP.mean_defined (map AP.ap aps)) (AP.mean_defined (map AP.ap aphs)).

(* evaluate_detection: the centre-distance Maps, then (IoU Maps, not modelled) the plane-distance Maps *)
Definition frame_maps (F : Facts) (T : Tables) (cts : list nat) (det : Det) (rs' : list Res) (gts' : list Obj)
  : list MapOut * list MapOut :=
  (map (fun thrs => map_out (center_v F) T cts (d_targets det) thrs rs' gts') (d_center det),
   map (fun thrs => map_out (plane_v T) T cts (d_targets det) thrs rs' gts') (d_plane det)).

(* object_results_dict[target_label] / num_ground_truth_dict[target_label]: the keys of
   divide_objects_to_num on plain objects are exactly the critical target labels, so a detection target
   label outside them is a KeyError (both dictionaries are indexed before any score is computed) *)
Definition keys_ok (cts : list nat) (det : Det) : bool :=
  (Nat.eqb (List.length (d_center det)) 0 && Nat.eqb (List.length (d_plane det)) 0)
  || forallb (fun L => mem_nat L cts) (d_targets det).

(* ------------------------------------------------------------------------------------------------ *)
(* add_frame_result for one (first) frame: matcher, critical filter, metrics, pass/fail                *)
(* ------------------------------------------------------------------------------------------------ *)
Inductive outcome :=
| Done (fr : Frame) (center_maps plane_maps : list MapOut)
| RaisedType            (* TypeError  *)
| RaisedIndex           (* IndexError *)
| RaisedKey.            (* KeyError   *)

Definition of_err {A} (r : res A) : outcome :=
  match r with ErrIndex => RaisedIndex | _ => RaisedType end.

Definition add_frame_result (md : Mode) (p : Policy) (fpv : bool) (F : Facts) (T : Tables) (ests gts : list Obj)
           (crit : Cfg) (pf : PF) (det : Det) : outcome :=
  match matched_results md p fpv F T ests gts with
  | Ok rs =>
      match filter_object_results crit true rs with
      | Ok rs' =>
          match filter_objects crit true true gts with
          | Ok gts' =>
              match c_targets crit with
              | None => RaisedType                       (* CriticalObjectFilterConfig always has a target list *)
              | Some cts =>
                  (* FP validation has no detection_config: pass/fail only *)
                  if negb fpv && negb (keys_ok cts det) then RaisedKey
                  else
                    match evaluate_frame crit pf rs gts with
                    | Ok fr =>
                        let '(cm, pm) := if fpv then ([], []) else frame_maps F T cts det (f_results fr) (f_gts fr) in
                        Done fr cm pm
                    | e => of_err e
                    end
              end
          | e => of_err e
          end
      | e => of_err e
      end
  | e => of_err e
  end.

(* ------------------------------------------------------------------------------------------------ *)
(* vocabulary of the C04 statements                                                                  *)
(* ------------------------------------------------------------------------------------------------ *)
(* the ranking Ap(L, t) sees for the surviving results [rs'] *)
Definition label_ranking (v : nat -> nat -> option Q) (w : nat -> nat -> Q) (cts : list nat) (L : nat) (t : Q)
           (rs' : list Res) : list AP.kind :=
  map (AP.classify AP.Minimize) (AP.sort_desc AP.conf (AP.label_results cts L t (map (lres_of v w) rs'))).

(* number of critical ground truths labelled L = num_ground_truth_dict[L] *)
Definition num_gt_label (L : nat) (gts' : list Obj) : nat := AP.count_label L (map o_label gts').

Definition weights_in_unit (T : Tables) : Prop :=
  forall row x, In row (t_heading T) -> In x row -> 0 <= x <= 1.

Definition weights_in_unitb (T : Tables) : bool :=
  forallb (forallb (fun x => Qleb 0 x && Qleb x 1)) (t_heading T).

(* [pf'] is [pf] with every pass/fail threshold loosened (plane distance: larger) *)
Definition pf_looser (pf pf' : PF) : Prop :=
  pf_targets pf' = pf_targets pf /\
  match pf_thresholds pf, pf_thresholds pf' with
  | Some l, Some l' => Forall2 Qle l l'
  | None, None => True
  | _, _ => False
  end.

(* ------------------------------------------------------------------------------------------------ *)
(* checks used by the correspondence (harness/props/pipeline_corr.py)                                 *)
(* ------------------------------------------------------------------------------------------------ *)
(* observed Ap: tp_list, fp_list, ap (None = inf), num_ground_truth *)
Definition ap_obs := (list Q * list Q * option Q * nat)%type.

Definition check_one_ap (r : AP.ap_result) (n : nat) (o : ap_obs) : bool :=
  let '(tp, fp, a, k) := o in
  AP.qlist_close (AP.tp_list r) tp && AP.qlist_close (AP.fp_list r) fp && AP.oq_close (AP.ap r) a && Nat.eqb n k.

Fixpoint check_aps (rs : list AP.ap_result) (ns : list nat) (os : list ap_obs) : bool :=
  match rs, ns, os with
  | [], [], [] => true
  | r :: rt, n :: nt, o :: ot => check_one_ap r n o && check_aps rt nt ot
  | _, _, _ => false
  end.

(* observed Map: aps, aphs, map, maph *)
Definition map_obs := (list ap_obs * list ap_obs * option Q * option Q)%type.

Definition check_one_map (m : MapOut) (o : map_obs) : bool :=
  let '(aps, aphs, mp, mph) := o in
  check_aps (mo_aps m) (mo_nums m) aps && check_aps (mo_aphs m) (mo_nums m) aphs
  && AP.oq_close (mo_map m) mp && AP.oq_close (mo_maph m) mph.

Fixpoint check_maps (ms : list MapOut) (os : list map_obs) : bool :=
  match ms, os with
  | [], [] => true
  | m :: mt, o :: ot => check_one_map m o && check_maps mt ot
  | _, _ => false
  end.

(* what was observed on the implementation *)
Inductive observed :=
| ObsDone (matched : list (nat * option nat))          (* get_object_results on the matcher's inputs, in order *)
          (results : list (nat * option nat))          (* frame.object_results after evaluate_frame *)
          (crit_gts : list nat)                        (* frame.frame_ground_truth.objects *)
          (tp fp : list (nat * option nat)) (tn fn : list nat)
          (n_success n_fail : nat)
          (center plane : list map_obs)
| ObsType | ObsIndex | ObsKey.

Definition matched_pairs (md : Mode) (p : Policy) (fpv : bool) (F : Facts) (T : Tables) (ests gts : list Obj)
  : option (list (nat * option nat)) :=
  match matched_results md p fpv F T ests gts with Ok rs => Some (map res_pair rs) | _ => None end.

Definition check_pipeline (md : Mode) (p : Policy) (fpv : bool) (F : Facts) (T : Tables) (ests gts : list Obj)
           (crit : Cfg) (pf : PF) (det : Det) (o : observed) : bool :=
  scene_ok F T ests gts &&
  match add_frame_result md p fpv F T ests gts crit pf det, o with
  | Done fr cm pm, ObsDone matched results cgts tp fp tn fn ns nf ocm opm =>
      match matched_pairs md p fpv F T ests gts with
      | Some mp => pairs_eqb mp matched && pairs_eqb (get_object_results md p fpv F) matched
      | None => false
      end
      && pairs_eqb (map res_pair (f_results fr)) results && nat_list_eqb (ids (f_gts fr)) cgts
      && pairs_eqb (map res_pair (f_tp fr)) tp && pairs_eqb (map res_pair (f_fp fr)) fp
      && nat_list_eqb (ids (f_tn fr)) tn && nat_list_eqb (ids (f_fn fr)) fn
      && Nat.eqb (num_success fr) ns && Nat.eqb (num_fail fr) nf
      && check_maps cm ocm && check_maps pm opm
  | RaisedType, ObsType => true
  | RaisedIndex, ObsIndex => true
  | RaisedKey, ObsKey => true
  | _, _ => false
  end.

(* the facts the model derives itself (scene_facts) must be the ones read on the implementation:
   semantic_label.is_unknown() / is_fp() and get_label_threshold(gt label, targets, max_matchable_radii) *)
Fixpoint oq_list_eqb (a b : list (option Q)) : bool :=
  match a, b with
  | [], [] => true
  | x :: s, y :: t =>
      match x, y with Some u, Some v => Qeqb u v | None, None => true | _, _ => false end && oq_list_eqb s t
  | _, _ => false
  end.

Definition check_scene_facts (F : Facts) (est_unknown gt_fp : list bool) (gt_thr : list (option Q)) : bool :=
  bools_eqb (f_est_unknown F) est_unknown && bools_eqb (f_gt_fp F) gt_fp && oq_list_eqb (f_gt_thr F) gt_thr.
