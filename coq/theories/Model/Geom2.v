(* C06 -- exact rational geometry of the matching scores (definitions only).
   Source: evaluation/matching/object_matching.py (CenterDistanceMatching, PlaneDistanceMatching,
   IOU2dMatching, IOU3dMatching, _get_height_intersection), common/__init__.py (distance_objects),
   common/object.py (get_footprint, get_area_bev, get_volume), common/shape.py (footprint order),
   common/object2d.py (Roi), common/point.py (distance_points, distance_points_bev,
   get_point_left_right_index).

   Q has no sqrt: every distance is modelled SQUARED (the implementation returns the root).
   Boxes are yaw-only: the orientation is a rational point (c, s) of the unit circle. *)
From Coq Require Import List ZArith QArith Bool.
From PE Require Import Base.QUtil.
Import ListNotations.
Open Scope Q_scope.

(* ---------------------------------------------------------------------------------------- *)
(* points, rotations, distances                                                              *)
(* ---------------------------------------------------------------------------------------- *)
Definition pt := (Q * Q)%type.
Definition pt3 := (Q * Q * Q)%type.

Definition sq (x : Q) : Q := x * x.

(* rotation by the angle whose cosine / sine are c / s *)
Definition rot (c s : Q) (p : pt) : pt := (c * fst p - s * snd p, s * fst p + c * snd p).
Definition add_pt (p t : pt) : pt := (fst p + fst t, snd p + snd t).

Definition sqnorm (p : pt) : Q := sq (fst p) + sq (snd p).
Definition sqdist_bev (p q : pt) : Q := sq (fst p - fst q) + sq (snd p - snd q).
Definition sqdist3 (p q : pt3) : Q :=
  sq (fst (fst p) - fst (fst q)) + sq (snd (fst p) - snd (fst q)) + sq (snd p - snd q).

Definition pt_eq (p q : pt) : Prop := fst p == fst q /\ snd p == snd q.

(* ---------------------------------------------------------------------------------------- *)
(* boxes (DynamicObject with a BOUNDING_BOX shape, yaw-only orientation)                     *)
(*   size = (bw, bl, bh) = Shape.size = (width [local y], length [local x], height)          *)
(* ---------------------------------------------------------------------------------------- *)
Record box := mkBox { bx : Q; by_ : Q; bz : Q; bc : Q; bs : Q; bw : Q; bl : Q; bh : Q }.

Definition box_pos (b : box) : Prop := 0 < bw b /\ 0 < bl b /\ 0 < bh b.
Definition box_unit (b : box) : Prop := bc b * bc b + bs b * bs b == 1.

Definition centre3 (b : box) : pt3 := (bx b, by_ b, bz b).
Definition centre2 (b : box) : pt := (bx b, by_ b).

(* Shape.__calculate_corners: (l, w)/2, (-l, w)/2, (-l, -w)/2, (l, -w)/2  -- counter-clockwise *)
Definition local_corners (b : box) : list pt :=
  [ (bl b / 2, bw b / 2); (- bl b / 2, bw b / 2); (- bl b / 2, - bw b / 2); (bl b / 2, - bw b / 2) ].

(* DynamicObject.get_footprint: orientation.rotate(corner), then + position[:2] *)
Definition place (b : box) (p : pt) : pt := add_pt (rot (bc b) (bs b) p) (centre2 b).
Definition corners (b : box) : list pt := map (place b) (local_corners b).

(* get_area_bev = area of the LOCAL footprint; get_volume = area * size[2] *)
Definition area_rect (b : box) : Q := bl b * bw b.
Definition volume (b : box) : Q := area_rect b * bh b.

(* CenterDistanceMatching on 3D objects: distance_points(position, position), squared *)
Definition center_sq (e g : box) : Q := sqdist3 (centre3 e) (centre3 g).

(* ---------------------------------------------------------------------------------------- *)
(* rigid motions: rotation (mc, ms) about the origin (ego), then translation                 *)
(* ---------------------------------------------------------------------------------------- *)
Record motion := mkMotion { mc : Q; ms : Q; mtx : Q; mty : Q; mtz : Q }.
Definition motion_unit (m : motion) : Prop := mc m * mc m + ms m * ms m == 1.

Definition move_pt (m : motion) (p : pt) : pt := add_pt (rot (mc m) (ms m) p) (mtx m, mty m).
Definition move_pt3 (m : motion) (p : pt3) : pt3 :=
  let q := move_pt m (fst p) in (fst q, snd q, snd p + mtz m).

(* the same box after the motion: centre moved, yaw composed, size unchanged *)
Definition move_box (m : motion) (b : box) : box :=
  let p := move_pt m (centre2 b) in
  mkBox (fst p) (snd p) (bz b + mtz m)
        (mc m * bc b - ms m * bs b) (ms m * bc b + mc m * bs b)
        (bw b) (bl b) (bh b).

Definition rotation (c s : Q) : motion := mkMotion c s 0 0 0.

(* ---------------------------------------------------------------------------------------- *)
(* IoU                                                                                       *)
(* ---------------------------------------------------------------------------------------- *)
(* _get_height_intersection: Python max(a,b) = a unless b > a; min(a,b) = a unless b < a      *)
Definition height_intersection (e g : box) : Q :=
  let min_z := qmax (bz e - bh e / 2) (bz g - bh g / 2) in
  let max_z := qmin (bz e + bh e / 2) (bz g + bh g / 2) in
  qmax 0 (max_z - min_z).

(* IOU2dMatching: intersection / (a_e + a_g - intersection) *)
Definition iou (i ae ag : Q) : Q := i / (ae + ag - i).
(* IOU3dMatching: intersection volume = area intersection * height intersection *)
Definition iou3 (i h ve vg : Q) : Q := (i * h) / (ve + vg - i * h).

Definition iou2_box (inter : box -> box -> Q) (e g : box) : Q :=
  iou (inter e g) (area_rect e) (area_rect g).
Definition iou3_box (inter : box -> box -> Q) (e g : box) : Q :=
  iou3 (inter e g) (height_intersection e g) (volume e) (volume g).

(* ---------------------------------------------------------------------------------------- *)
(* axis-aligned rectangles (yaw = 0 boxes and every ROI): closed-form intersection           *)
(* ---------------------------------------------------------------------------------------- *)
Record rect := mkRect { x0 : Q; y0 : Q; x1 : Q; y1 : Q }.   (* [x0,x1] x [y0,y1] *)
Definition rect_pos (r : rect) : Prop := x0 r < x1 r /\ y0 r < y1 r.
Definition rect_area (r : rect) : Q := (x1 r - x0 r) * (y1 r - y0 r).
Definition in_rect (r : rect) (p : pt) : Prop :=
  x0 r <= fst p /\ fst p <= x1 r /\ y0 r <= snd p /\ snd p <= y1 r.

(* the rectangle of common points (may be empty: x1 < x0 or y1 < y0) *)
Definition meet (a b : rect) : rect :=
  mkRect (qmax (x0 a) (x0 b)) (qmax (y0 a) (y0 b)) (qmin (x1 a) (x1 b)) (qmin (y1 a) (y1 b)).

Definition inter_aa (a b : rect) : Q :=
  let m := meet a b in qmax 0 (x1 m - x0 m) * qmax 0 (y1 m - y0 m).

Definition iou_aa (a b : rect) : Q := iou (inter_aa a b) (rect_area a) (rect_area b).

Definition rects_disjoint (a b : rect) : Prop :=
  x1 a <= x0 b \/ x1 b <= x0 a \/ y1 a <= y0 b \/ y1 b <= y0 a.

Definition shift_rect (tx ty : Q) (r : rect) : rect :=
  mkRect (x0 r + tx) (y0 r + ty) (x1 r + tx) (y1 r + ty).

(* the footprint of a yaw = 0 box *)
Definition rect_of_box (b : box) : rect :=
  mkRect (bx b - bl b / 2) (by_ b - bw b / 2) (bx b + bl b / 2) (by_ b + bw b / 2).

(* ---------------------------------------------------------------------------------------- *)
(* when two convex counter-clockwise polygons have disjoint interiors: a separating edge     *)
(* ---------------------------------------------------------------------------------------- *)
(* > 0: p strictly left of the directed line a -> b;  = 0: on it;  < 0: right of it *)
Definition cross (a b p : pt) : Q :=
  (fst b - fst a) * (snd p - snd a) - (snd b - snd a) * (fst p - fst a).

Definition edges (P : list pt) : list (pt * pt) :=
  match P with [] => [] | f :: t => combine P (t ++ [f]) end.
(* some edge of P has every vertex of R on its outer side (or on its line: touching) *)
Definition separated_by_edge (P R : list pt) : Prop :=
  exists ab, In ab (edges P) /\ forall q, In q R -> cross (fst ab) (snd ab) q <= 0.
Definition boxes_disjoint (e g : box) : Prop :=
  separated_by_edge (corners e) (corners g) \/ separated_by_edge (corners g) (corners e).

(* same BEV footprint (the heights may differ) *)
Definition same_bev (e g : box) : Prop :=
  bx e == bx g /\ by_ e == by_ g /\ bc e == bc g /\ bs e == bs g /\ bw e == bw g /\ bl e == bl g.
Definition box_valid (b : box) : Prop := box_pos b /\ box_unit b.

(* ---------------------------------------------------------------------------------------- *)
(* ROIs (DynamicObject2D): integers                                                          *)
(* ---------------------------------------------------------------------------------------- *)
Record roi := mkRoi { rx : Z; ry : Z; rw : Z; rh : Z }.     (* (xmin, ymin, width, height) *)
Definition roi_pos (r : roi) : Prop := (0 < rw r)%Z /\ (0 < rh r)%Z.

(* Roi.center = (offset[0] + width // 2, offset[1] + height // 2); Z.div floors like // *)
Definition roi_center (r : roi) : Z * Z := ((rx r + rw r / 2)%Z, (ry r + rh r / 2)%Z).
Definition roi_area (r : roi) : Z := (rw r * rh r)%Z.

(* distance_objects on 2D objects: norm(center_1 - center_2), squared: an integer *)
Definition roi_center_sq (a b : roi) : Z :=
  let ca := roi_center a in let cb := roi_center b in
  ((fst ca - fst cb) * (fst ca - fst cb) + (snd ca - snd cb) * (snd ca - snd cb))%Z.

(* Roi corners: top_left, top_right, bottom_right, bottom_left *)
Definition roi_corners (r : roi) : list pt :=
  [ (inject_Z (rx r), inject_Z (ry r)); (inject_Z (rx r + rw r), inject_Z (ry r));
    (inject_Z (rx r + rw r), inject_Z (ry r + rh r)); (inject_Z (rx r), inject_Z (ry r + rh r)) ].

Definition rect_of_roi (r : roi) : rect :=
  mkRect (inject_Z (rx r)) (inject_Z (ry r)) (inject_Z (rx r + rw r)) (inject_Z (ry r + rh r)).

(* the same ROI translated by an integer vector *)
Definition shift_roi (tx ty : Z) (r : roi) : roi := mkRoi (rx r + tx) (ry r + ty) (rw r) (rh r).

(* IOU2dMatching on 2D objects: areas are Roi.area (int), intersection of the two ROI polygons *)
Definition iou_roi (a b : roi) : Q :=
  iou (inter_aa (rect_of_roi a) (rect_of_roi b)) (inject_Z (roi_area a)) (inject_Z (roi_area b)).

(* ---------------------------------------------------------------------------------------- *)
(* plane distance                                                                            *)
(* ---------------------------------------------------------------------------------------- *)
(* np.argsort(gt_distances): indices in increasing key order.  Insertion from the right with
   <= puts an earlier index before a later one with an equal key (stable tie rule).  The keys
   are the SQUARED distances to the ego (same order as the distances). *)
Fixpoint insert_key (x : nat * Q) (l : list (nat * Q)) : list (nat * Q) :=
  match l with
  | [] => [x]
  | y :: t => if Qleb (snd x) (snd y) then x :: y :: t else y :: insert_key x t
  end.
Fixpoint isort_keys (l : list (nat * Q)) : list (nat * Q) :=
  match l with [] => [] | x :: t => insert_key x (isort_keys t) end.
Definition argsort (keys : list Q) : list nat :=
  map fst (isort_keys (combine (seq 0 (length keys)) keys)).

(* the first two sorted indices = the two GT corners nearest to the ego *)
Definition plane_sel (g : list pt) : option (nat * nat) :=
  match argsort (map sqnorm g) with i :: j :: _ => Some (i, j) | _ => None end.
(* the alternative choice when the 2nd and 3rd distance are tied (first and third index) *)
Definition plane_sel_alt (g : list pt) : option (nat * nat) :=
  match argsort (map sqnorm g) with i :: _ :: k :: _ => Some (i, k) | _ => None end.
Definition plane_tie23 (g : list pt) : bool :=
  match isort_keys (combine (seq 0 (length g)) (map sqnorm g)) with
  | _ :: b :: c :: _ => Qeqb (snd b) (snd c) | _ => false end.

(* get_point_left_right_index(p1, p2): cross < 0 -> (0, 1) else (1, 0) *)
Definition cross0 (p q : pt) : Q := fst p * snd q - snd p * fst q.
Definition left_right (i j : nat) (gi gj : pt) : nat * nat :=
  if Qltb (cross0 gi gj) 0 then (i, j) else (j, i).

(* distance_left^2 + distance_right^2, halved (the implementation returns sqrt of this) *)
Definition plane_sq_at (ij : nat * nat) (e g : list pt) : option Q :=
  let (i, j) := ij in
  match nth_error g i, nth_error g j with
  | Some gi, Some gj =>
      let (l, r) := left_right i j gi gj in
      match nth_error e l, nth_error g l, nth_error e r, nth_error g r with
      | Some el, Some gl, Some er, Some gr => Some ((1 # 2) * (sqdist_bev el gl + sqdist_bev er gr))
      | _, _, _, _ => None
      end
  | _, _ => None
  end.

Definition plane_sq (e g : list pt) : option Q :=
  match plane_sel g with Some ij => plane_sq_at ij e g | None => None end.
Definition plane_sq_alt (e g : list pt) : option Q :=
  match plane_sel_alt g with Some ij => plane_sq_at ij e g | None => None end.

(* the (left, right) corner indices reported in ground_truth_nn_plane / estimated_nn_plane *)
Definition plane_lr (g : list pt) : option (nat * nat) :=
  match plane_sel g with
  | Some (i, j) =>
      match nth_error g i, nth_error g j with
      | Some gi, Some gj => Some (left_right i j gi gj)
      | _, _ => None
      end
  | None => None
  end.

Definition plane_sq_box (e g : box) : option Q := plane_sq (corners e) (corners g).

Definition adjacent4 (i j : nat) : Prop := j = ((i + 1) mod 4)%nat \/ i = ((j + 1) mod 4)%nat.
