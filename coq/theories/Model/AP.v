(* Model of Ap / Map (evaluation/metrics/detection/ap.py, map.py) and of
   DynamicObjectWithPerceptionResult.is_result_correct (evaluation/result/object_result.py).
   Definitions only.  Numbers are exact rationals; `None` stands for float("inf"). *)
From Coq Require Import List Bool ZArith.
From PE Require Import Base.QUtil.
Import ListNotations.
Open Scope Q_scope.

(* ---- is_better_than / is_result_correct ------------------------------------------------- *)
Inductive mode := Minimize | Maximize.       (* distances: smaller is better; IoU: larger *)

(* MatchingMethod.is_better_than: value None -> False; strict comparison *)
Definition better_than (m : mode) (v : option Q) (t : Q) : bool :=
  match v with
  | None => false
  | Some x => match m with Minimize => Qltb x t | Maximize => Qltb t x end
  end.

(* what Ap reads from one object result *)
Record res := mkRes {
  rid : nat;                     (* index in the caller's list (identity) *)
  conf : Q;                      (* estimated_object.semantic_score *)
  has_gt : bool;                 (* ground_truth_object is not None *)
  gt_fp : bool;                  (* ground truth carries the false-positive label *)
  lab_ok : bool;                 (* is_label_correct *)
  thr : option Q;                (* get_label_threshold(...) for this result: None = label not targeted *)
  matching : option (option Q);  (* get_matching(mode): None = no such method; Some v = its .value *)
  weight : Q                     (* tp_metrics.get_value: 1 for AP, heading agreement for APH *)
}.

Definition is_result_correct (m : mode) (t : option Q) (r : res) : bool :=
  if negb (has_gt r) then false else
  match t with
  | None => lab_ok r
  | Some t =>
      match matching r with
      | None => lab_ok r
      | Some v =>
          let is_matching := better_than m v t in
          if gt_fp r then negb is_matching else is_matching && lab_ok r
      end
  end.

(* ---- ranking ------------------------------------------------------------------------------ *)
Inductive kind :=
| TPw (w : Q)   (* counted as true positive with weight w *)
| FPr           (* counted as false positive *)
| IGN.          (* no threshold for its label in this Ap: neither, but it still occupies a rank *)

Definition classify (m : mode) (r : res) : kind :=
  match thr r with
  | None => IGN
  | Some t => if is_result_correct m (Some t) r then TPw (weight r) else FPr
  end.

Definition tpval (k : kind) : Q := match k with TPw w => w | _ => 0 end.
Definition fpval (k : kind) : Q := match k with FPr => 1 | _ => 0 end.

(* list.sort(key=confidence, reverse=True): stable, descending *)
Fixpoint insert_desc {A} (key : A -> Q) (x : A) (l : list A) : list A :=
  match l with
  | [] => [x]
  | y :: t => if Qltb (key y) (key x) then x :: y :: t else y :: insert_desc key x t
  end.
Definition sort_desc {A} (key : A -> Q) (l : list A) : list A :=
  fold_left (fun acc x => insert_desc key x acc) l [].

(* np.cumsum *)
Fixpoint cumsum (acc : Q) (l : list Q) : list Q :=
  match l with [] => [] | x :: t => (acc + x) :: cumsum (acc + x) t end.

(* ---- precision / recall, interpolation, area ------------------------------------------------ *)
Definition pt := (Q * Q)%type.     (* (precision, recall) *)

(* get_precision_recall_list, rank order; i = number of ranks before this one *)
Fixpoint points (i : nat) (num_gt : nat) (tps : list Q) : list pt :=
  match tps with
  | [] => []
  | tp :: t =>
      (tp / Qnat (S i), match num_gt with O => 0 | _ => tp / Qnat num_gt end) :: points (S i) num_gt t
  end.

(* interpolate_precision_recall_list: the argument is in REVERSED rank order (head = last rank),
   i.e. the order in which the code scans.  Record highs of precision, strict `>`. *)
Fixpoint env_go (cur : Q) (l : list pt) : list pt :=
  match l with
  | [] => []
  | (p, r) :: t => if Qltb cur p then (p, r) :: env_go p t else env_go cur t
  end.
Definition envelope (l : list pt) : list pt :=
  match l with [] => [] | (p, r) :: t => (p, r) :: env_go p t end.

Definition nextr (t : list pt) : Q := match t with [] => 0 | (_, r') :: _ => r' end.

(* _calculate_ap: sum of max_precision[i] * (recall[i] - recall[i+1]) with closing recall 0 *)
Fixpoint area (e : list pt) : Q :=
  match e with
  | [] => 0
  | (p, r) :: t => p * (r - nextr t) + area t
  end.
Definition ap_code (l : list pt) : Q := area (envelope l).

(* ---- specification: all-point interpolation --------------------------------------------------
   Same reversed orientation.  Walking from the last rank towards the first, [m] is the maximum
   precision seen so far, i.e. the maximum precision at this and every later rank (= at any higher
   recall); each rank contributes (its recall - the recall of the rank before it) * that maximum. *)
Definition bmax (m p : Q) : Q := if Qltb m p then p else m.
Fixpoint spec_go (m : Q) (l : list pt) : Q :=
  match l with
  | [] => 0
  | (p, r) :: t => bmax m p * (r - nextr t) + spec_go (bmax m p) t
  end.
Definition ap_spec (l : list pt) : Q :=
  match l with [] => 0 | (p, _) :: _ => spec_go p l end.

(* The same specification written in RANK order with explicit suffix maxima:
   sum_i (r_i - r_{i-1}) * max_{j >= i} p_j,   r_{-1} = 0. *)
Fixpoint maxl (m : Q) (l : list Q) : Q :=
  match l with [] => m | p :: t => maxl (bmax m p) t end.
Fixpoint ap_decl (prev_r : Q) (l : list pt) : Q :=
  match l with
  | [] => 0
  | (p, r) :: t => (r - prev_r) * maxl p (map fst t) + ap_decl r t
  end.

(* ---- Ap --------------------------------------------------------------------------------------- *)
Definition ap_of_kinds (num_gt : nat) (ks : list kind) : Q :=
  ap_code (rev (points 0 num_gt (cumsum 0 (map tpval ks)))).

Record ap_result := mkAp { tp_list : list Q; fp_list : list Q; ap : option Q }.

Definition ap_model (m : mode) (num_gt : nat) (rs : list res) : ap_result :=
  match rs with
  | [] =>
      (* no result: AP is inf; tp/fp lists are [0]*num_gt and [1..num_gt] *)
      mkAp (map (fun _ => 0) (seq 0 num_gt)) (map (fun i => Qnat (S i)) (seq 0 num_gt)) None
  | _ =>
      let ks := map (classify m) (sort_desc conf rs) in
      mkAp (cumsum 0 (map tpval ks)) (cumsum 0 (map fpval ks)) (Some (ap_of_kinds num_gt ks))
  end.

(* ---- Map: mean over the labels whose AP is defined ---------------------------------------------- *)
Fixpoint somes (l : list (option Q)) : list Q :=
  match l with [] => [] | Some x :: t => x :: somes t | None :: t => somes t end.
Definition mean_defined (l : list (option Q)) : option Q :=
  match somes l with
  | [] => None
  | v => Some (qsum v / Qnat (length v))
  end.

(* ---- per-label buckets: divide_objects + Map -------------------------------------------------------
   Labels are natural numbers.  [l_res] carries everything but the threshold, which the model
   computes itself (get_label_threshold with the single target label of a per-label Ap). *)
Record lres := mkL { l_res : res; est_lab : nat; gt_lab : option nat }.

(* divide_objects on object results: the estimate's label if it is a target label, else the ground
   truth's label if there is a ground truth, else the result is dropped *)
Definition bucket (targets : list nat) (x : lres) : option nat :=
  if existsb (Nat.eqb (est_lab x)) targets then Some (est_lab x) else gt_lab x.

(* get_label_threshold(gt label if gt else est label, [L], [t]) *)
Definition thr_for (L : nat) (t : Q) (x : lres) : option Q :=
  let lab := match gt_lab x with Some g => g | None => est_lab x end in
  if Nat.eqb lab L then Some t else None.

Definition with_thr (o : option Q) (r : res) : res :=
  mkRes (rid r) (conf r) (has_gt r) (gt_fp r) (lab_ok r) o (matching r) (weight r).

Definition in_bucket (targets : list nat) (L : nat) (x : lres) : bool :=
  match bucket targets x with Some b => Nat.eqb b L | None => false end.

Definition label_results (targets : list nat) (L : nat) (t : Q) (xs : list lres) : list res :=
  map (fun x => with_thr (thr_for L t x) (l_res x)) (filter (in_bucket targets L) xs).

(* divide_objects_to_num on ground-truth objects *)
Definition count_label (L : nat) (gts : list nat) : nat := length (filter (Nat.eqb L) gts).

(* Map: one Ap per (target label, threshold); mean over the defined ones *)
Definition label_aps (m : mode) (targets : list nat) (thrs : list Q) (gts : list nat) (xs : list lres)
  : list (option Q) :=
  map (fun Lt => ap (ap_model m (count_label (fst Lt) gts) (label_results targets (fst Lt) (snd Lt) xs)))
      (combine targets thrs).
Definition map_model (m : mode) (targets : list nat) (thrs : list Q) (gts : list nat) (xs : list lres)
  : option Q := mean_defined (label_aps m targets thrs gts xs).

(* ---- comparison helpers for the correspondence ---------------------------------------------------- *)
Definition tol : Q := 1 # 1000000000.
Fixpoint qlist_close (a b : list Q) : bool :=
  match a, b with
  | [], [] => true
  | x :: s, y :: t => Qleb (qabs (x - y)) tol && qlist_close s t
  | _, _ => false
  end.
Definition oq_close (a b : option Q) : bool :=
  match a, b with
  | None, None => true
  | Some x, Some y => Qleb (qabs (x - y)) tol
  | _, _ => false
  end.
Fixpoint nat_list_eqb (a b : list nat) : bool :=
  match a, b with
  | [], [] => true
  | x :: s, y :: t => Nat.eqb x y && nat_list_eqb s t
  | _, _ => false
  end.
(* observed: tp_list, fp_list, ap, and the order of the objects after the in-place sort *)
Definition check_ap (m : mode) (num_gt : nat) (rs : list res)
                    (tp fp : list Q) (a : option Q) (order : list nat) : bool :=
  let r := ap_model m num_gt rs in
  qlist_close (tp_list r) tp && qlist_close (fp_list r) fp && oq_close (ap r) a
  && nat_list_eqb (map rid (sort_desc conf rs)) order.
Fixpoint oqlist_close (a b : list (option Q)) : bool :=
  match a, b with
  | [], [] => true
  | x :: s, y :: t => oq_close x y && oqlist_close s t
  | _, _ => false
  end.
(* observed: the per-label APs and the mAP of a real Map built from divide_objects buckets *)
Definition check_map (m : mode) (targets : list nat) (thrs : list Q) (gts : list nat) (xs : list lres)
                     (aps : list (option Q)) (observed : option Q) : bool :=
  oqlist_close (label_aps m targets thrs gts xs) aps && oq_close (map_model m targets thrs gts xs) observed.

(* ---- get_positive_objects / get_negative_objects: per-result TP and FN status -------------------------
   (the result-level part; list bookkeeping is the business of C03) *)
Definition positive_tp (m : mode) (r : res) : bool :=
  has_gt r && negb (gt_fp r) && is_result_correct m (thr r) r.
Definition matched_fn (m : mode) (r : res) : bool :=
  has_gt r && negb (gt_fp r) && negb (is_result_correct m (thr r) r).
Fixpoint bool_list_eqb (a b : list bool) : bool :=
  match a, b with
  | [], [] => true
  | x :: s, y :: t => Bool.eqb x y && bool_list_eqb s t
  | _, _ => false
  end.
Definition check_status (m : mode) (rs : list res) (tp fn : list bool) : bool :=
  bool_list_eqb (map (positive_tp m) rs) tp && bool_list_eqb (map (matched_fn m) rs) fn.
