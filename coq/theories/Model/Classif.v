(* C11 -- model of the identity-based matchers for ROI-less 2D objects and of the classification scores.

   Modelled code (perception_eval/perception_eval):
     evaluation/result/object_result.py   get_object_results (dispatch for ROI-less DynamicObject2D),
                                          _get_object_results_with_id, _get_object_results_for_tlr,
                                          _get_fp_object_results
     evaluation/metrics/classification/accuracy.py                      ClassificationAccuracy
     evaluation/metrics/classification/classification_metrics_score.py  ClassificationMetricsScore.__init__/_summarize
     evaluation/matching/objects_filter.py  divide_objects / divide_objects_to_num (as used by the manager to
                                          build the per-label dictionaries handed to ClassificationMetricsScore)

   An object is the tuple of facts the code reads: uuid (None or a value compared with ==; the harness
   encodes distinct uuid strings as distinct numbers), camera frame id, label (enum member, by index),
   `frame_id == FrameID.CAM_TRAFFIC_LIGHT` and `semantic_label.is_fp()`.  DynamicObject2D has no __eq__,
   so `in` / `list.remove` act by identity: an object is identified by its index in the caller's list
   ([iobj] = (index, facts)).  Definitions only; proofs are in Proofs/ClassifProofs.v. *)
From Coq Require Import List Bool Arith ZArith QArith.
From PE Require Import Base.QUtil.
Import ListNotations.
Local Open Scope nat_scope.

Record obj := mkObj {
  o_uuid  : option nat;   (* DynamicObject2D.uuid *)
  o_cam   : nat;          (* DynamicObject2D.frame_id (FrameID member, by index) *)
  o_label : nat;          (* semantic_label.label (enum member, by index) *)
  o_tlcam : bool;         (* frame_id == FrameID.CAM_TRAFFIC_LIGHT *)
  o_fp    : bool          (* semantic_label.is_fp() *)
}.

Definition iobj := (nat * obj)%type.

Fixpoint indexed_from (k : nat) (l : list obj) : list iobj :=
  match l with
  | [] => []
  | o :: t => (k, o) :: indexed_from (S k) t
  end.
Definition indexed (l : list obj) : list iobj := indexed_from 0 l.

Inductive err := ErrUuidNone (* RuntimeError("uuid of estimation and ground truth must be set") *)
               | ErrRemove   (* ValueError: list.remove(x): x not in list *).
Inductive res (A : Type) := Ok (a : A) | Error (e : err).
Arguments Ok {A} a.
Arguments Error {A} e.

(* `x in list` and `list.remove(x)` by identity *)
Fixpoint mem_id (i : nat) (l : list iobj) : bool :=
  match l with
  | [] => false
  | x :: t => if Nat.eqb (fst x) i then true else mem_id i t
  end.
Fixpoint remove_id (i : nat) (l : list iobj) : option (list iobj) :=
  match l with
  | [] => None
  | x :: t => if Nat.eqb (fst x) i then Some t
              else match remove_id i t with Some t' => Some (x :: t') | None => None end
  end.

(* DynamicObjectWithPerceptionResult(estimated_object, ground_truth_object) *)
Definition result := (iobj * option iobj)%type.

Definition uuid_is_none (o : iobj) : bool :=
  match o_uuid (snd o) with None => true | Some _ => false end.
Definition uuid_eqb (a b : obj) : bool :=
  match o_uuid a, o_uuid b with
  | Some x, Some y => Nat.eqb x y
  | None, None => true
  | _, _ => false
  end.
Definition cam_eqb (a b : obj) : bool := Nat.eqb (o_cam a) (o_cam b).
Definition label_eqb (a b : obj) : bool := Nat.eqb (o_label a) (o_label b).

(* est.uuid == gt.uuid and est.frame_id == gt.frame_id *)
Definition cond_id (e g : obj) : bool := uuid_eqb e g && cam_eqb e g.
(* match_condition of _get_object_results_for_tlr without its two `in` tests *)
Definition cond_label (uuid_first : bool) (e g : obj) : bool :=
  if uuid_first then label_eqb e g && uuid_eqb e g && cam_eqb e g
  else label_eqb e g && cam_eqb e g.

(* The nested loop shared by the three matching loops of the file:
     for gt_object in gs:
        if est.uuid is None or gt.uuid is None: raise RuntimeError
        if cond(est, gt) [and est in E and gt in G]:     ([...] iff guard)
            results.append(Result(est, gt)); E.remove(est); G.remove(gt)
   R = object_results, E = estimated_objects_, G = ground_truth_objects_. *)
Fixpoint inner (guard : bool) (cond : obj -> obj -> bool) (e : iobj) (gs : list iobj)
         (R : list result) (E G : list iobj) : res (list result * list iobj * list iobj) :=
  match gs with
  | [] => Ok (R, E, G)
  | g :: gs' =>
    if uuid_is_none e || uuid_is_none g then Error ErrUuidNone
    else if cond (snd e) (snd g) && (if guard then mem_id (fst e) E && mem_id (fst g) G else true) then
      match remove_id (fst e) E with
      | None => Error ErrRemove
      | Some E' =>
        match remove_id (fst g) G with
        | None => Error ErrRemove
        | Some G' => inner guard cond e gs' (R ++ [(e, Some g)]) E' G'
        end
      end
    else inner guard cond e gs' R E G
  end.

Fixpoint outer (guard : bool) (cond : obj -> obj -> bool) (es gs : list iobj)
         (R : list result) (E G : list iobj) : res (list result * list iobj * list iobj) :=
  match es with
  | [] => Ok (R, E, G)
  | e :: es' =>
    match inner guard cond e gs R E G with
    | Error x => Error x
    | Ok (R', E', G') => outer guard cond es' gs R' E' G'
    end
  end.

(* _get_fp_object_results *)
Definition fp_results (es : list iobj) : list result := map (fun e => (e, None)) es.

(* _get_object_results_with_id *)
Definition id_match (ests gts : list obj) : res (list result) :=
  let es := indexed ests in
  let gs := indexed gts in
  match outer false cond_id es gs [] es gs with
  | Error x => Error x
  | Ok (R, E, _) =>
    if Nat.ltb 0 (length E) && negb (existsb (fun e => o_tlcam (snd e)) E)
    then Ok (R ++ fp_results E) else Ok R
  end.

(* _get_object_results_for_tlr *)
Definition tlr_stage1 (uuid_first : bool) (ests gts : list obj) :=
  let es := indexed ests in
  let gs := indexed gts in
  outer true (cond_label uuid_first) es gs [] es gs.

Definition tlr_match (uuid_first : bool) (ests gts : list obj) : res (list result) :=
  match tlr_stage1 uuid_first ests gts with
  | Error x => Error x
  | Ok (R1, E1, G1) =>
    (* rest_estimated_objects_ = E1.copy(); rest_ground_truth_objects_ = G1.copy() *)
    match outer true cond_id E1 G1 R1 E1 G1 with
    | Error x => Error x
    | Ok (R2, _, _) => Ok R2
    end
  end.

(* get_object_results for ROI-less DynamicObject2D, evaluation task CLASSIFICATION2D (not FP validation);
   tlr = isinstance(estimated_objects[0].semantic_label.label, TrafficLightLabel) *)
Definition get_object_results (tlr uuid_first : bool) (ests gts : list obj) : res (list result) :=
  match ests with
  | [] => Ok []
  | _ :: _ =>
    match gts with
    | [] => Ok (fp_results (indexed ests))
    | _ :: _ => if tlr then tlr_match uuid_first ests gts else id_match ests gts
    end
  end.

(* what the harness observes: (index of estimate, index of ground truth or None), in result order *)
Definition ids_of (R : list result) : list (nat * option nat) :=
  map (fun r => (fst (fst r), option_map fst (snd r))) R.

(* vocabulary of the specifications: the estimates / ground truths used by a result list *)
Definition gts_of (R : list result) : list iobj :=
  flat_map (fun r => match snd r with Some g => [g] | None => [] end) R.
Definition est_ids (R : list result) : list nat := map (fun r : result => fst (fst r)) R.
Definition gt_ids (R : list result) : list nat := map fst (gts_of R).
(* the two members of a real pair carry the same label *)
Definition same_label_result (r : result) : bool :=
  match snd r with Some g => label_eqb (snd (fst r)) (snd g) | None => false end.
(* (uuid, camera): the identity the generic matcher pairs on *)
Definition uuid_cam (o : obj) : option nat * nat := (o_uuid o, o_cam o).
Definition all_uuid_set (l : list obj) : Prop := forall o, In o l -> o_uuid o <> None.

(* declarative description of the generic matcher's output (proved equal to [id_match] for unique,
   non-null (uuid, camera) per side in Proofs/ClassifProofs.v) *)
Definition id_partners (e : iobj) (gs : list iobj) : list iobj :=
  filter (fun g => cond_id (snd e) (snd g)) gs.
Definition id_pairs (es gs : list iobj) : list result :=
  flat_map (fun e => map (fun g => (e, Some g)) (id_partners e gs)) es.
Definition id_unpaired (es gs : list iobj) : list iobj :=
  filter (fun e => negb (existsb (fun g => cond_id (snd e) (snd g)) gs)) es.
Definition id_spec (ests gts : list obj) : list result :=
  let es := indexed ests in
  let gs := indexed gts in
  let L := id_unpaired es gs in
  id_pairs es gs ++
  (if Nat.ltb 0 (length L) && negb (existsb (fun e => o_tlcam (snd e)) L) then fp_results L else []).

(* ------------------------------------------------------------------------------------------ *)
(* Scores                                                                                      *)
(* ------------------------------------------------------------------------------------------ *)

(* a Python float that is a number, float("inf"), or nan *)
Inductive score := Fin (q : Q) | Inf | NaN.

(* DynamicObjectWithPerceptionResult.is_label_correct with MatchingLabelPolicy.DEFAULT *)
Definition is_label_correct (r : result) : bool :=
  match snd r with
  | None => false
  | Some g => o_fp (snd g) || label_eqb (snd (fst r)) (snd g)
  end.

(* ClassificationAccuracy.calculate_tp_fp *)
Fixpoint tp_fp (rs : list result) (tp fp : nat) : nat * nat :=
  match rs with
  | [] => (tp, fp)
  | r :: t => if is_label_correct r then tp_fp t (S tp) fp else tp_fp t tp (S fp)
  end.

(* a / d if d != 0 else float("inf")   (Python ints; d may be any integer) *)
Definition ratio (a : nat) (d : Z) : score :=
  if Z.eqb d 0 then Inf else Fin (Qnat a / inject_Z d)%Q.

Definition accuracy_of (n_res n_gt tp : nat) : score :=
  ratio tp (Z.of_nat n_res + Z.of_nat n_gt - Z.of_nat tp)%Z.

(* ClassificationAccuracy.calculate_f1score, beta = 1.0 *)
Definition f1_accuracy (p r : score) : score :=
  match p, r with
  | Inf, _ | _, Inf => Inf
  | NaN, _ | _, NaN => NaN
  | Fin p, Fin r => if Qeqb (1 * p + r)%Q 0%Q then Inf else Fin ((1 + 1) * p * r / (1 * p + r))%Q
  end.

Record accuracy := mkAcc {
  a_num_res : nat; a_num_gt : nat; a_tp : nat; a_fp : nat;
  a_accuracy : score; a_precision : score; a_recall : score; a_f1 : score
}.

(* ClassificationAccuracy(object_results, num_ground_truth, _) ; a nested list of results is flattened first *)
Definition classification_accuracy (rs : list result) (num_gt : nat) : accuracy :=
  let n := length rs in
  let '(tp, fp) := tp_fp rs 0 0 in
  let p := ratio tp (Z.of_nat n) in
  let r := ratio tp (Z.of_nat num_gt) in
  mkAcc n num_gt tp fp (accuracy_of n num_gt tp) p r (f1_accuracy p r).

(* divide_objects(object_results, target_labels)[t] *)
Fixpoint mem_nat (x : nat) (l : list nat) : bool :=
  match l with [] => false | y :: t => if Nat.eqb y x then true else mem_nat x t end.

Definition bucket_label (targets : list nat) (r : result) : option nat :=
  let l := o_label (snd (fst r)) in
  if mem_nat l targets then Some l
  else match snd r with
       | Some g => Some (o_label (snd g))
       | None => None
       end.
Definition divide (targets : list nat) (rs : list result) (t : nat) : list result :=
  filter (fun r => match bucket_label targets r with Some l => Nat.eqb l t | None => false end) rs.
(* divide_objects_to_num(ground_truth_objects, target_labels)[t] for t in target_labels *)
Definition num_gt_of (gts : list obj) (t : nat) : nat :=
  length (filter (fun g => Nat.eqb (o_label g) t) gts).

(* ClassificationMetricsScore.__init__ *)
Definition accuracies (targets : list nat) (rs : list result) (gts : list obj) : list accuracy :=
  map (fun t => classification_accuracy (divide targets rs t) (num_gt_of gts t)) targets.

(* 2 * p * r / (p + r) if p + r != 0 else inf, in float arithmetic: inf operands give nan *)
Definition f1_summary (p r : score) : score :=
  match p, r with
  | Fin p, Fin r => if Qeqb (p + r)%Q 0%Q then Inf else Fin (2 * p * r / (p + r))%Q
  | _, _ => NaN
  end.

Fixpoint sum_by (f : accuracy -> nat) (l : list accuracy) : nat :=
  match l with [] => 0 | a :: t => (f a + sum_by f t)%nat end.

(* ClassificationMetricsScore._summarize *)
Definition summarize (accs : list accuracy) : score * score * score * score :=
  let num_est := sum_by a_num_res accs in
  let num_gt := sum_by a_num_gt accs in
  let num_tp := sum_by a_tp accs in
  let num_fp := sum_by a_fp accs in
  let p := ratio num_tp (Z.of_nat num_tp + Z.of_nat num_fp)%Z in
  let r := ratio num_tp (Z.of_nat num_gt) in
  (accuracy_of num_est num_gt num_tp, p, r, f1_summary p r).

(* ------------------------------------------------------------------------------------------ *)
(* Boolean checks used by the correspondence (harness/props/C11.py)                            *)
(* ------------------------------------------------------------------------------------------ *)
Definition tol : Q := (1 # 1000000000)%Q.

(* observed score: Some (Some q) = number, Some None = inf, None = nan *)
Definition score_close (m : score) (o : option (option Q)) : bool :=
  match m, o with
  | Fin a, Some (Some b) => Qleb (qabs (a - b)%Q) tol
  | Inf, Some None => true
  | NaN, None => true
  | _, _ => false
  end.

Definition onat_eqb (a b : option nat) : bool :=
  match a, b with Some x, Some y => Nat.eqb x y | None, None => true | _, _ => false end.
Fixpoint pairs_eqb (a b : list (nat * option nat)) : bool :=
  match a, b with
  | [], [] => true
  | x :: s, y :: t => Nat.eqb (fst x) (fst y) && onat_eqb (snd x) (snd y) && pairs_eqb s t
  | _, _ => false
  end.

(* observed outcome of get_object_results: inl error-kind | inr pair list *)
Definition check_match (tlr uuid_first : bool) (ests gts : list obj)
           (o : err + list (nat * option nat)) : bool :=
  match get_object_results tlr uuid_first ests gts, o with
  | Error ErrUuidNone, inl ErrUuidNone => true
  | Error ErrRemove, inl ErrRemove => true
  | Ok R, inr l => pairs_eqb (ids_of R) l
  | _, _ => false
  end.

(* observed ClassificationAccuracy: (num_res, num_gt, tp, fp), (accuracy, precision, recall, f1) *)
Definition obs_acc := ((nat * nat * nat * nat) * (option (option Q) * option (option Q) * option (option Q) * option (option Q)))%type.

Definition check_acc (a : accuracy) (o : obs_acc) : bool :=
  let '((n, g, tp, fp), (sa, sp, sr, sf)) := o in
  Nat.eqb (a_num_res a) n && Nat.eqb (a_num_gt a) g && Nat.eqb (a_tp a) tp && Nat.eqb (a_fp a) fp &&
  score_close (a_accuracy a) sa && score_close (a_precision a) sp &&
  score_close (a_recall a) sr && score_close (a_f1 a) sf.

Fixpoint check_accs (l : list accuracy) (o : list obs_acc) : bool :=
  match l, o with
  | [], [] => true
  | a :: s, x :: t => check_acc a x && check_accs s t
  | _, _ => false
  end.

Definition check_summary (s : score * score * score * score)
           (o : option (option Q) * option (option Q) * option (option Q) * option (option Q)) : bool :=
  let '(a, p, r, f) := s in
  let '(oa, op, or_, of_) := o in
  score_close a oa && score_close p op && score_close r or_ && score_close f of_.

(* End to end: the model is run on the facts of the estimates / ground truths; everything the
   implementation produced downstream (result pairs, the whole-frame ClassificationAccuracy, the
   per-label accuracies and the summary) must be reproduced. *)
Definition check_pipeline (tlr uuid_first : bool) (ests gts : list obj) (targets : list nat)
           (o_pairs : err + list (nat * option nat))
           (o_all : option obs_acc) (o_labels : list obs_acc)
           (o_sum : option (option (option Q) * option (option Q) * option (option Q) * option (option Q))) : bool :=
  check_match tlr uuid_first ests gts o_pairs &&
  match get_object_results tlr uuid_first ests gts with
  | Error _ => match o_all, o_labels, o_sum with None, [], None => true | _, _, _ => false end
  | Ok R =>
    match o_all, o_sum with
    | Some oa, Some os =>
      check_acc (classification_accuracy R (length gts)) oa &&
      check_accs (accuracies targets R gts) o_labels &&
      check_summary (summarize (accuracies targets R gts)) os
    | _, _ => false
    end
  end.

(* scores on a hand-made result list (independent of the matchers): results are given as
   (estimate facts, optional ground-truth facts) *)
Definition mk_results (l : list (obj * option obj)) : list result :=
  map (fun p => ((0, fst p), option_map (fun g => (0, g)) (snd p))) l.
