(* Model of common/threshold.py: set_thresholds, __get_thresholds, __get_nested_thresholds,
   check_thresholds, check_nested_thresholds, get_label_threshold.  Definitions only.
   Each function performs the tests of the Python function in the same order; the result is the
   returned value or the class of the exception. *)
From Coq Require Import String List Bool Arith.
From PE Require Import Base.QUtil Model.PyVal.
Import ListNotations.
Open Scope nat_scope.

(* `t * num_elements if len(t) == 1 else t`: used for a flat list and for each row of a nested one *)
Definition bcast_row (r : list pyval) (n : nat) : list pyval :=
  if Nat.eqb (length r) 1 then list_mul r n else r.

(* body of __get_thresholds for a list / tuple argument ([mk] rebuilds the same kind of sequence) *)
Definition flat_seq (mk : list pyval -> pyval) (l : list pyval) (n : nat) : res pyval :=
  if Nat.eqb (length l) 0 then Err ThresholdError                          (* "Empty list is invalid" *)
  else if any_not_real l then Err ThresholdError                           (* "must be Real number" *)
  else if negb (Nat.eqb (length l) 1) && negb (Nat.eqb n (length l))
       then Err ThresholdError                                             (* "must be n or 1" *)
  else Ok (mk (bcast_row l n)).

Definition get_thresholds (v : pyval) (n : nat) : res pyval :=
  match v with
  | Num _ | Bool _ => Ok (List (repeat v n))            (* [threshold] * num_elements *)
  | NoneV => Err TypeError                              (* len(None) *)
  | Str s =>                                            (* a str has a len; its items are strs *)
      if Nat.eqb (String.length s) 0 then Err ThresholdError else Err ThresholdError
  | List l => flat_seq List l n
  | Tuple l => flat_seq Tuple l n
  end.

(* body of __get_nested_thresholds for a non-empty list / tuple argument [v] with items [l] *)
Definition nested_seq (v : pyval) (l : list pyval) (n : nat) : res pyval :=
  match l with
  | [] => Err ThresholdError                                               (* "Empty list is invalid" *)
  | h :: _ =>
      if is_real h then
        if any_not_real l then Err ThresholdError                          (* "must be same" *)
        else Ok (List (if negb (Nat.eqb (length l) n)
                       then map (fun t => List (repeat t n)) l             (* one row per value *)
                       else [v]))                                          (* the list is one row *)
      else
        match as_rows l with
        | None => Err ThresholdError                                       (* "must be same" *)
        | Some rows =>
            if existsb (fun r => negb (Nat.eqb (length r) n) && negb (Nat.eqb (length r) 1)) rows
            then Err ThresholdError                                        (* "each element is n or 1" *)
            else Ok (List (map (fun r => List (bcast_row r n)) rows))
        end
  end.

Definition get_nested_thresholds (v : pyval) (n : nat) : res pyval :=
  match v with
  | Num _ | Bool _ => Ok (List [List (repeat v n)])
  | NoneV => Err TypeError
  | Str s =>
      (* "" is empty; otherwise s[0] is a str: not Real, and not a list *)
      if Nat.eqb (String.length s) 0 then Err ThresholdError else Err ThresholdError
  | List l | Tuple l => nested_seq v l n
  end.

Definition check_thresholds (v : pyval) (n : nat) : res pyval :=
  match py_items v with
  | None => Err TypeError                                                  (* not iterable *)
  | Some l =>
      if any_not_real l then Err ThresholdError
      else if negb (Nat.eqb (length l) n) then Err ThresholdError
      else Ok v
  end.

Definition check_nested_thresholds (v : pyval) (n : nat) : res pyval :=
  match py_items v with
  | None => Err TypeError
  | Some l =>
      match as_rows l with
      | None => Err ThresholdError                                         (* "must be list" *)
      | Some rows =>
          if existsb (fun r => Nat.eqb (length r) 0 || negb (Nat.eqb (length r) n)) rows
          then Err ThresholdError                                          (* "each element is n" *)
          else if any_not_real (concat rows) then Err ThresholdError       (* "must be Real number" *)
          else Ok v
      end
  end.

Definition set_thresholds (v : pyval) (n : nat) (nest : bool) : res pyval :=
  if nest then bind (get_nested_thresholds v n) (fun o => check_nested_thresholds o n)
  else bind (get_thresholds v n) (fun o => check_thresholds o n).

(* get_label_threshold: labels are compared by identity (their enum key); [None] results are
   Python's None, [Err] is the IndexError of `threshold_list[label_index]`. *)
Fixpoint index_of (x : string) (l : list string) : option nat :=
  match l with
  | [] => None
  | y :: t => if String.eqb y x then Some 0
              else match index_of x t with Some i => Some (S i) | None => None end
  end.

Inductive lookup_result {A} := Found (a : A) | NoThreshold | IndexErr.
Arguments lookup_result A : clear implicits.

Definition get_label_threshold {A} (label : string) (targets : option (list string))
           (thresholds : option (list A)) : lookup_result A :=
  match targets, thresholds with
  | None, _ => NoThreshold
  | _, None => NoThreshold
  | Some ts, Some th =>
      match index_of label ts with
      | None => NoThreshold
      | Some i => match nth_error th i with Some a => Found a | None => IndexErr end
      end
  end.

(* ---- correspondence helper: the model reproduces the observed results of set_thresholds for a
   list of (n, nest, observed) *)
Definition obs_eqb (m o : res pyval) : bool := res_eqb pyval_eqb m o.

Definition check_spec (v : pyval) (obs : list (nat * bool * res pyval)) : bool :=
  forallb (fun x => match x with (n, nest, o) => obs_eqb (set_thresholds v n nest) o end) obs.
