(* Model of configuration acceptance (C15, part 2).  Definitions only.

   [accept sw c frames] follows PerceptionEvaluationConfig.__init__ on the dictionary [c] (an
   association list from keys to Python values) and the frame id(s) [frames], in the order the
   Python code runs: _check_tasks, _extract_label_params, LabelConverter, _extract_params
   (set_target_lists, range-kind selection, per-label filter thresholds, mandatory
   min_point_numbers), frame-id parsing and the 3D frame-count check, MetricsScoreConfig.
   The result is the normalised per-label lists, or the class of the exception raised.
   [sw] holds the two defect switches of DESIGN.md section 2.3 (findings F7, F8): [current] is the
   code as it is, a switch set to true is the documented rejection.
   The supported-task list, the task enum with its is_3d set, the frame-id / matching-policy
   parsers and the label enums come from Gen/ (regenerated from the source on every run); the key
   tables [read_keys] / [metric_keys] are compared with the source by the config_keys correspondence.

   [critical_accept] / [passfail_accept] follow CriticalObjectFilterConfig / PerceptionPassFailConfig. *)
From Coq Require Import String List Bool Arith.
From PE Require Import Base.QUtil Base.StrUtil Model.EnumParse Gen.Enums Gen.ConfigTables Gen.LabelTables
                       Model.PyVal Model.Threshold.
Import ListNotations.
Open Scope string_scope.
Open Scope nat_scope.

Definition cfg := list (string * pyval).

(* d[k] : None = KeyError *)
Fixpoint lookup (k : string) (c : cfg) : option pyval :=
  match c with
  | [] => None
  | (k', v) :: t => if String.eqb k k' then Some v else lookup k t
  end.

(* d.get(k) *)
Definition get (k : string) (c : cfg) : pyval :=
  match lookup k c with Some v => v | None => NoneV end.

(* ---- _check_tasks: the member key of the task *)
Definition check_tasks (c : cfg) : res string :=
  match lookup "evaluation_task" c with
  | None => Err KeyError
  | Some (Str s) =>
      if mem_str s perception_support_tasks then
        match run_parser EvaluationTask_enum set_task s with
        | Member k => Ok k
        | _ => Err ValueError
        end
      else Err ValueError                       (* "Unsupported task" *)
  | Some _ => Err ValueError                    (* not equal to any supported task name *)
  end.

Definition task_is_3d (task : string) : bool := mem_str task EvaluationTask_is_3d.

(* ---- _extract_label_params: matching_label_policy is parsed only when truthy *)
Definition label_policy (c : cfg) : res unit :=
  let p := get "matching_label_policy" c in
  if py_truthy p then
    match p with
    | Str s => match run_parser MatchingLabelPolicy_enum MatchingLabelPolicy_from_str s with
               | Member _ => Ok tt
               | _ => Err AssertionError
               end
    | _ => Err AttributeError                   (* no .upper() *)
    end
  else Ok tt.

(* e_cfg["label_prefix"], then LabelConverter: the number of members of the label enum *)
Definition label_count (c : cfg) : res nat :=
  match lookup "label_prefix" c with
  | None => Err KeyError
  | Some (Str s) =>
      if String.eqb s "autoware" then Ok (length AutowareLabel_members)
      else if String.eqb s "traffic_light" then Ok (length TrafficLightLabel_members)
      else if String.eqb s "blinker" || String.eqb s "brake_lamp" then Err NotImplementedError
      else Err ValueError
  | Some _ => Err ValueError
  end.

(* len(set_target_lists(target_labels, converter)) *)
Definition target_count (v : pyval) (n_all : nat) : res nat :=
  match v with
  | NoneV => Ok n_all
  | Num _ | Bool _ => Err TypeError                                  (* len() *)
  | Str s => if Nat.eqb (String.length s) 0 then Ok n_all
             else Ok (String.length s)                               (* every character is a name *)
  | List l | Tuple l =>
      if Nat.eqb (length l) 0 then Ok n_all
      else if forallb is_str l then Ok (length l)
      else Err AttributeError                                        (* name.lower() *)
  end.

(* ---- defect switches (DESIGN.md section 2.3) for the two recorded, unrepaired findings.
   [current] is the code as it is; a switch set to true is the documented behaviour:
     rejects_both_ranges : RuntimeError when max_x/y_position and max/min_distance are all given  (F7)
     rejects_unknown_keys: MetricsParameterError when the dictionary has a key nobody reads       (F8)
   The harness probes the implementation on the two witnesses and runs the correspondence with the
   variant it finds, so a repaired tree passes without a KNOWN-FINDING line. *)
Record repairs := { rejects_both_ranges : bool; rejects_unknown_keys : bool }.
Definition current : repairs := {| rejects_both_ranges := false; rejects_unknown_keys := false |}.
Definition repaired : repairs := {| rejects_both_ranges := true; rejects_unknown_keys := true |}.

(* every key the constructor reads *)
Definition read_keys : list string :=
  ["evaluation_task"; "matching_label_policy"; "allow_matching_unknown"; "label_prefix";
   "merge_similar_labels"; "count_label_number"; "target_labels";
   "max_x_position"; "max_y_position"; "max_distance"; "min_distance";
   "max_matchable_radii"; "min_point_numbers"; "confidence_threshold";
   "target_uuids"; "ignore_attributes"; "uuid_matching_first";
   "center_distance_thresholds"; "plane_distance_thresholds"; "iou_2d_thresholds"; "iou_3d_thresholds"].

Definition has_unknown_key (c : cfg) : bool := existsb (fun kv => negb (mem_str (fst kv) read_keys)) c.

(* ---- per-label filter lists *)
Record filters := {
  f_max_x : option pyval;
  f_max_y : option pyval;
  f_max_dist : option pyval;
  f_min_dist : option pyval;
  f_radii : option pyval;
  f_min_points : option pyval;
  f_conf : option pyval
}.

Definition xy_given (c : cfg) : bool :=
  negb (is_none (get "max_x_position" c)) && negb (is_none (get "max_y_position" c)).
Definition dist_given (c : cfg) : bool :=
  negb (is_none (get "max_distance" c)) && negb (is_none (get "min_distance" c)).

Definition no_range : option pyval * option pyval * option pyval * option pyval := (None, None, None, None).

(* range-kind selection of _extract_params: x/y first, then distance, then "2D needs none" *)
Definition ranges (sw : repairs) (task : string) (c : cfg) (n : nat)
  : res (option pyval * option pyval * option pyval * option pyval) :=
  if rejects_both_ranges sw && xy_given c && dist_given c then Err RuntimeError   (* repaired F7 only *)
  else if xy_given c then
    bind (set_thresholds (get "max_x_position" c) n false) (fun xl =>
    bind (set_thresholds (get "max_y_position" c) n false) (fun yl =>
    Ok (Some xl, Some yl, None, None)))
  else if dist_given c then
    bind (set_thresholds (get "max_distance" c) n false) (fun dl =>
    bind (set_thresholds (get "min_distance" c) n false) (fun el =>
    Ok (None, None, Some dl, Some el)))
  else if negb (task_is_3d task) then Ok no_range
  else Err RuntimeError.

(* `x = e_cfg.get(k); if x is not None: x = set_thresholds(x, n, False)` *)
Definition opt_thresholds (v : pyval) (n : nat) : res (option pyval) :=
  if is_none v then Ok None else bind (set_thresholds v n false) (fun l => Ok (Some l)).

(* ---- frame ids *)
Fixpoint parse_frames (frames : list string) : res nat :=
  match frames with
  | [] => Ok 0
  | f :: t => match run_parser FrameID_enum FrameID_from_value f with
              | Member _ => bind (parse_frames t) (fun k => Ok (S k))
              | _ => Err ValueError
              end
  end.

Definition check_frames (task : string) (frames : list string) : res unit :=
  bind (parse_frames frames) (fun k =>
  if task_is_3d task && negb (Nat.eqb k 1) then Err ValueError else Ok tt).

(* ---- MetricsScoreConfig *)
Definition metric_keys : list string :=
  ["center_distance_thresholds"; "plane_distance_thresholds"; "iou_2d_thresholds"; "iou_3d_thresholds"].

(* `if thresholds is not None and thresholds != []: set_thresholds(thresholds, n, True) else: []` for the four keys, in order (since
   /repo 9bf00e4; it was a truthiness test, which silently dropped a scalar 0 / 0.0; None and the empty list keep meaning "not given") *)
Definition metric_given (v : pyval) : bool :=
  match v with NoneV => false | List [] => false | _ => true end.

Fixpoint metric_lists (keys : list string) (c : cfg) (n : nat) : res (list pyval) :=
  match keys with
  | [] => Ok []
  | k :: t =>
      bind (if metric_given (get k c) then set_thresholds (get k c) n true else Ok (List [])) (fun l =>
      bind (metric_lists t c n) (fun ls => Ok (l :: ls)))
  end.

Definition detection_tasks := ["DETECTION"; "DETECTION2D"].
Definition tracking_tasks := ["TRACKING"; "TRACKING2D"].

(* None: the task builds no metrics configuration *)
Definition metrics (task : string) (c : cfg) (n : nat) : res (option (list pyval)) :=
  if mem_str task detection_tasks then bind (metric_lists metric_keys c n) (fun m => Ok (Some m))
  else if mem_str task tracking_tasks then bind (metric_lists metric_keys c n) (fun m => Ok (Some m))
  else if String.eqb task "PREDICTION" then Err NotImplementedError   (* after _check_parameters *)
  else if String.eqb task "CLASSIFICATION2D" then bind (metric_lists metric_keys c n) (fun m => Ok (Some m))
  else Ok None.

Record accepted := {
  a_task : string;
  a_n : nat;                               (* len(target_labels) *)
  a_filters : filters;
  a_metrics : option (list pyval)
}.

Definition accept (sw : repairs) (c : cfg) (frames : list string) : res accepted :=
  bind (check_tasks c) (fun task =>
  bind (label_policy c) (fun _ =>
  bind (label_count c) (fun n_all =>
  bind (target_count (get "target_labels" c) n_all) (fun n =>
  bind (ranges sw task c n) (fun rg =>
  bind (opt_thresholds (get "max_matchable_radii" c) n) (fun radii =>
  bind (opt_thresholds (get "min_point_numbers" c) n) (fun minp =>
  if String.eqb task "DETECTION" && match minp with None => true | Some _ => false end
  then Err RuntimeError                    (* "In detection task, min point numbers must be specified" *)
  else
  bind (opt_thresholds (get "confidence_threshold" c) n) (fun conf =>
  bind (check_frames task frames) (fun _ =>
  bind (if rejects_unknown_keys sw && has_unknown_key c then Err MetricsParameterError else Ok tt) (fun _ =>   (* repaired F8 only *)
  bind (metrics task c n) (fun m =>
  match rg with
  | (mx, my, md, mnd) =>
      Ok {| a_task := task; a_n := n;
            a_filters := {| f_max_x := mx; f_max_y := my; f_max_dist := md; f_min_dist := mnd;
                            f_radii := radii; f_min_points := minp; f_conf := conf |};
            a_metrics := m |}
  end))))))))))).

(* ---- CriticalObjectFilterConfig(evaluator_config, **args) : [is2d], [n_all] come from the evaluator config *)
Record critical := {
  k_n : nat;
  k_max_x : option pyval; k_max_y : option pyval; k_max_dist : option pyval; k_min_dist : option pyval;
  k_min_points : option pyval; k_conf : option pyval
}.

(* `x if x is None else check_thresholds(x, n)` *)
Definition opt_check (v : pyval) (n : nat) : res (option pyval) :=
  if is_none v then Ok None else bind (check_thresholds v n) (fun l => Ok (Some l)).

Definition critical_accept (is2d : bool) (n_all : nat) (a : cfg) : res critical :=
  bind (target_count (get "target_labels" a) n_all) (fun n =>
  let mx := get "max_x_position_list" a in
  let my := get "max_y_position_list" a in
  let md := get "max_distance_list" a in
  let mnd := get "min_distance_list" a in
  bind (if py_truthy mx && py_truthy my then
          bind (check_thresholds mx n) (fun xl => bind (check_thresholds my n) (fun yl =>
          Ok (Some xl, Some yl, None, None)))
        else if py_truthy md && py_truthy mnd then
          bind (check_thresholds md n) (fun dl => bind (check_thresholds mnd n) (fun el =>
          Ok (None, None, Some dl, Some el)))
        else if is2d then Ok no_range
        else Err RuntimeError) (fun rg =>
  bind (opt_check (get "min_point_numbers" a) n) (fun minp =>
  bind (opt_check (get "confidence_threshold_list" a) n) (fun conf =>
  match rg with
  | (x, y, d, e) => Ok {| k_n := n; k_max_x := x; k_max_y := y; k_max_dist := d; k_min_dist := e;
                         k_min_points := minp; k_conf := conf |}
  end)))).

Record passfail := { p_n : nat; p_matching : option pyval; p_conf : option pyval }.

Definition passfail_accept (n_all : nat) (a : cfg) : res passfail :=
  bind (target_count (get "target_labels" a) n_all) (fun n =>
  bind (opt_check (get "matching_threshold_list" a) n) (fun m =>
  bind (opt_check (get "confidence_threshold_list" a) n) (fun conf =>
  Ok {| p_n := n; p_matching := m; p_conf := conf |}))).

(* ---- correspondence helpers: compare with what the implementation exposed *)

Definition opt_pyval_eqb (a b : option pyval) : bool :=
  match a, b with
  | None, None => true
  | Some x, Some y => pyval_eqb x y
  | _, _ => false
  end.

Fixpoint pyvals_eqb (a b : list pyval) : bool :=
  match a, b with
  | [], [] => true
  | x :: s, y :: t => pyval_eqb x y && pyvals_eqb s t
  | _, _ => false
  end.

Definition opt_pyvals_eqb (a b : option (list pyval)) : bool :=
  match a, b with
  | None, None => true
  | Some x, Some y => pyvals_eqb x y
  | _, _ => false
  end.

(* what the implementation exposes after acceptance:
   n, the seven filter lists (in the order of [filters]), and the four metric lists of
   detection_config / tracking_config / classification_config (None when that config is None) *)
Record observed := {
  o_n : nat;
  o_filters : list (option pyval);
  o_det : option (list pyval);
  o_trk : option (list pyval);
  o_cls : option (list pyval)
}.

Definition filters_list (f : filters) : list (option pyval) :=
  [f_max_x f; f_max_y f; f_max_dist f; f_min_dist f; f_radii f; f_min_points f; f_conf f].

Fixpoint opt_list_eqb (a b : list (option pyval)) : bool :=
  match a, b with
  | [], [] => true
  | x :: s, y :: t => opt_pyval_eqb x y && opt_list_eqb s t
  | _, _ => false
  end.

Definition accepted_matches (a : accepted) (o : observed) : bool :=
  Nat.eqb (a_n a) (o_n o) &&
  opt_list_eqb (filters_list (a_filters a)) (o_filters o) &&
  opt_pyvals_eqb (if mem_str (a_task a) detection_tasks || mem_str (a_task a) tracking_tasks
                  then a_metrics a else None) (o_det o) &&
  opt_pyvals_eqb (if mem_str (a_task a) tracking_tasks then a_metrics a else None) (o_trk o) &&
  opt_pyvals_eqb (if String.eqb (a_task a) "CLASSIFICATION2D" then a_metrics a else None) (o_cls o).

Definition check_accept (sw : repairs) (c : cfg) (frames : list string) (o : res observed) : bool :=
  match accept sw c frames, o with
  | Ok a, Ok ob => accepted_matches a ob
  | Err e, Err f => pyerr_eqb e f
  | _, _ => false
  end.

Definition check_critical (is2d : bool) (n_all : nat) (a : cfg) (o : res (nat * list (option pyval))) : bool :=
  match critical_accept is2d n_all a, o with
  | Ok k, Ok (n, l) =>
      Nat.eqb (k_n k) n &&
      opt_list_eqb [k_max_x k; k_max_y k; k_max_dist k; k_min_dist k; k_min_points k; k_conf k] l
  | Err e, Err f => pyerr_eqb e f
  | _, _ => false
  end.

Definition check_passfail (n_all : nat) (a : cfg) (o : res (nat * list (option pyval))) : bool :=
  match passfail_accept n_all a, o with
  | Ok p, Ok (n, l) => Nat.eqb (p_n p) n && opt_list_eqb [p_matching p; p_conf p] l
  | Err e, Err f => pyerr_eqb e f
  | _, _ => false
  end.
