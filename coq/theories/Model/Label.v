(* Model of LabelConverter (C14).  The name tables, the label enums and the shape of the two
   lookup loops (lower-casing, first/last match) come from Gen/LabelTables.v, regenerated from
   common/label.py on every run.  Labels are identified by their enum key ("CAR", "UNKNOWN"). *)
From Coq Require Import String List Bool.
From PE Require Import Base.StrUtil Gen.LabelTables.
Import ListNotations.
Open Scope string_scope.

Definition table := list (string * string).   (* (label key, registered name), in source order *)

Definition lookup (use_lower first_match : bool) (tbl : table) (s : string) : string :=
  let key := if use_lower then lower s else s in
  match (if first_match then find_first key tbl else find_last key tbl None) with
  | Some l => l
  | None => "UNKNOWN"
  end.

(* LabelConverter.convert_label(name).label  (objects)  *)
Definition convert_label (tbl : table) (s : string) : string :=
  lookup convert_label_lower convert_label_first_match tbl s.
(* LabelConverter.convert_name(name)  (target-label lists, via set_target_lists) *)
Definition convert_name (tbl : table) (s : string) : string :=
  lookup convert_name_lower convert_name_first_match tbl s.

(* the documented merge of similar labels *)
Definition merge_map (l : string) : string :=
  if String.eqb l "TRUCK" || String.eqb l "BUS" then "CAR"
  else if String.eqb l "MOTORBIKE" then "BICYCLE" else l.

(* which table a converter uses: LabelConverter.__init__ *)
Inductive family := Autoware | TrafficLight.
Definition table_of (f : family) (merge : bool) (task_key : string) : table :=
  match f with
  | Autoware => if merge then autoware_pairs_merge else autoware_pairs_nomerge
  | TrafficLight => if String.eqb task_key traffic_light_classification_task
                    then traffic_light_pairs_classification else traffic_light_pairs_other
  end.
Definition members_of (f : family) : list (string * string) :=
  match f with Autoware => AutowareLabel_members | TrafficLight => TrafficLightLabel_members end.

Definition value_of (ms : list (string * string)) (key : string) : option string :=
  match find (fun kv => String.eqb (fst kv) key) ms with Some kv => Some (snd kv) | None => None end.

(* ---- boolean checkers evaluated on the generated tables *)
Definition names_lower (tbl : table) : bool := forallb (fun p => String.eqb (lower (snd p)) (snd p)) tbl.
Definition names_unique (tbl : table) : bool := nodup_str (map snd tbl).
Definition labels_are_members (ms : list (string * string)) (tbl : table) : bool :=
  forallb (fun p => mem_str (fst p) (map fst ms)) tbl && mem_str "UNKNOWN" (map fst ms).
(* every label in the image of the table is the image of its own canonical name (enum value) *)
Definition canonical_fixed (ms : list (string * string)) (tbl : table) : bool :=
  forallb (fun l => match value_of ms l with
                    | Some v => String.eqb (convert_label tbl v) l
                    | None => false end)
          ("UNKNOWN" :: map fst tbl).
Definition find_bad_canonical (ms : list (string * string)) (tbl : table) : option string :=
  find (fun l => match value_of ms l with
                 | Some v => negb (String.eqb (convert_label tbl v) l)
                 | None => true end)
       ("UNKNOWN" :: map fst tbl).
