(* Model of the rotation part of the interpolated lookup (C17) over the REAL numbers:
     common/geometry.py  interpolate_quaternion          quat_1.slerp(quat_1, quat_2, alpha)
                         interpolate_homogeneous_matrix  Quaternion.slerp(q1, q2, (t - t1) / (t2 - t1))
     pyquaternion        Quaternion.slerp (0.9.9), the function both call:

        q0._fast_normalise(); q1._fast_normalise()
        amount = np.clip(amount, 0, 1)
        dot = np.dot(q0.q, q1.q)
        if dot < 0.0:   q0.q = -q0.q; dot = -dot
        if dot > 0.9995:
            qr = Quaternion(q0.q + amount * (q1.q - q0.q)); qr._fast_normalise(); return qr
        theta_0 = np.arccos(dot); sin_theta_0 = np.sin(theta_0)
        theta = theta_0 * amount
        s0 = np.cos(theta) - dot * np.sin(theta) / sin_theta_0
        s1 = np.sin(theta) / sin_theta_0
        qr = Quaternion((s0 * q0.q) + (s1 * q1.q)); qr._fast_normalise(); return qr

   Definitions only.  This is the one model of the development that is NOT executable (acos / sin / sqrt over Coq's
   axiomatised reals): it carries the control structure of slerp (sign flip, the 0.9995 switch to normalised linear
   interpolation, the sine formula) so that "shortest rotation arc at the proportional time" is a THEOREM about the
   formula rather than a numerical comparison only.  Its tie to the implementation is the numerical comparison of
   harness/props/C17.py (the real slerp against the shortest-arc specification [yaw_interp] of Model/Lookup.v, which
   Proofs/SlerpR.v proves equal to this formula for rotations about z).  Binary64 rounding and the inputs'
   _fast_normalise (the identity on unit quaternions up to rounding) are outside the model. *)
From Coq Require Import Reals.
Open Scope R_scope.

Record quat := mkQuat { qw : R; qx : R; qy : R; qz : R }.

Definition qdot (a b : quat) : R := qw a * qw b + qx a * qx b + qy a * qy b + qz a * qz b.
Definition qscale (k : R) (a : quat) : quat := mkQuat (k * qw a) (k * qx a) (k * qy a) (k * qz a).
Definition qadd (a b : quat) : quat := mkQuat (qw a + qw b) (qx a + qx b) (qy a + qy b) (qz a + qz b).
Definition qneg (a : quat) : quat := mkQuat (- qw a) (- qx a) (- qy a) (- qz a).
Definition qnorm2 (a : quat) : R := qdot a a.
Definition qunit (a : quat) : Prop := qnorm2 a = 1.
Definition qnormalise (a : quat) : quat := qscale (/ sqrt (qnorm2 a)) a.

(* np.clip(amount, 0, 1) *)
Definition clip01 (x : R) : R := Rmax 0 (Rmin 1 x).

Definition slerp_switch : R := 9995 / 10000.

(* the start quaternion after the sign flip, and the (non-negative) dot product slerp works with *)
Definition flip_start (q0 q1 : quat) : quat := if Rlt_dec (qdot q0 q1) 0 then qneg q0 else q0.
Definition flip_dot (q0 q1 : quat) : R := if Rlt_dec (qdot q0 q1) 0 then - qdot q0 q1 else qdot q0 q1.

Definition slerp (q0 q1 : quat) (amount : R) : quat :=
  let t := clip01 amount in
  let p := flip_start q0 q1 in
  let d := flip_dot q0 q1 in
  if Rlt_dec slerp_switch d then
    qnormalise (qadd p (qscale t (qadd q1 (qneg p))))
  else
    let th0 := acos d in
    let th := th0 * t in
    let s0 := cos th - d * sin th / sin th0 in
    let s1 := sin th / sin th0 in
    qnormalise (qadd (qscale s0 p) (qscale s1 q1)).

(* the rotation by the angle a (radians) about z, as pyquaternion stores it *)
Definition yawq (a : R) : quat := mkQuat (cos (a / 2)) 0 0 (sin (a / 2)).

(* the rotation a unit quaternion stands for does not change under negation: two quaternions denote the same rotation
   when they are equal or opposite *)
Definition same_rotation (a b : quat) : Prop := a = b \/ a = qneg b.
