(* Model of PerceptionEvaluationManager as a state machine (C13).
   manager/perception_evaluation_manager.py: add_frame_result, _filter_objects, get_scene_result.

   The per-frame evaluation itself (filtering, matching, pass/fail, detection scores: C10, C01, C03,
   C04) is abstracted by G; the tracking scores of a frame by T (they read the object results of the
   immediately preceding frame result, `self.frame_results[-1]`); the scene score by Sc.  What this
   model adds is the manager's own state: the loaded dataset (a list of mutable ground-truth frames)
   and the growing list of frame results, including WHERE the filtered ground-truth lists are
   written: onto a copy of the dataset frame (`copy(frame_ground_truth)`, [copy_first = true], the
   code as it is) or onto the dataset frame itself ([copy_first = false], the earlier behaviour). *)
From Coq Require Import List Bool Arith.
Import ListNotations.

Section Manager.
Variables Frame Ests Cfg Core Track Scene : Type.
Variable G : Frame -> Ests -> Cfg -> Core.      (* object results, TP/FP/FN/TN, detection scores of one evaluation *)
Variable W : Frame -> Ests -> Cfg -> Frame.     (* the ground-truth frame after manager + critical filtering *)
Variable T : option Core -> Core -> Track.      (* tracking scores: predecessor's results (if any) and the current ones *)
Variable Sc : list Core -> Scene.                (* scene score from the frame results, in order *)

Record state := mkState { ds : list Frame; hist : list Core }.

Inductive op :=
| Add (i : nat) (e : Ests) (c : Cfg)   (* add_frame_result(ground_truth_frames[i], estimates, configs) *)
| Query.                               (* get_scene_result() *)

Inductive out :=
| FrameOut (core : Core) (tr : Track)
| SceneOut (s : Scene)
| NoFrame.                             (* index out of range: nothing evaluated *)

Definition last_opt {A} (l : list A) : option A :=
  match rev l with [] => None | x :: _ => Some x end.

Fixpoint set_nth {A} (i : nat) (x : A) (l : list A) : list A :=
  match l, i with
  | [], _ => []
  | _ :: t, O => x :: t
  | y :: t, S j => y :: set_nth j x t
  end.

Definition step (copy_first : bool) (s : state) (o : op) : state * out :=
  match o with
  | Query => (s, SceneOut (Sc (hist s)))
  | Add i e c =>
      match nth_error (ds s) i with
      | None => (s, NoFrame)
      | Some f =>
          let core := G f e c in
          let tr := T (last_opt (hist s)) core in
          let ds' := if copy_first then ds s else set_nth i (W f e c) (ds s) in
          (mkState ds' (hist s ++ [core]), FrameOut core tr)
      end
  end.

Fixpoint run (copy_first : bool) (s : state) (ops : list op) : state * list out :=
  match ops with
  | [] => (s, [])
  | o :: t =>
      let '(s1, x) := step copy_first s o in
      let '(s2, xs) := run copy_first s1 t in
      (s2, x :: xs)
  end.

Definition init (d : list Frame) : state := mkState d [].

(* ---- specification: every answer is a function of the ORIGINAL dataset and of the calls --------------- *)
(* cores of the successful Add calls of a history, in order *)
Fixpoint cores (d : list Frame) (ops : list op) : list Core :=
  match ops with
  | [] => []
  | Query :: t => cores d t
  | Add i e c :: t =>
      match nth_error d i with
      | None => cores d t
      | Some f => G f e c :: cores d t
      end
  end.

(* the answer to call [o] made after the calls [before] on a manager loaded with dataset [d] *)
Definition spec_out (d : list Frame) (before : list op) (o : op) : out :=
  match o with
  | Query => SceneOut (Sc (cores d before))
  | Add i e c =>
      match nth_error d i with
      | None => NoFrame
      | Some f => FrameOut (G f e c) (T (last_opt (cores d before)) (G f e c))
      end
  end.

Fixpoint spec_outs (d : list Frame) (before : list op) (ops : list op) : list out :=
  match ops with
  | [] => []
  | o :: t => spec_out d before o :: spec_outs d (before ++ [o]) t
  end.

End Manager.

Arguments Add {Ests Cfg}.
Arguments Query {Ests Cfg}.
Arguments FrameOut {Core Track Scene}.
Arguments SceneOut {Core Track Scene}.
Arguments NoFrame {Core Track Scene}.
Arguments mkState {Frame Core}.
Arguments ds {Frame Core}.
Arguments hist {Frame Core}.

(* ---- instance used by the correspondence: everything is a natural-number id, G/W/T/S are finite
        tables measured on FRESH managers (one call, or two calls for T), the history is replayed in Coq *)
Definition lookup3 (tbl : list (nat * nat * nat * nat)) (a b c : nat) : nat :=
  match find (fun r => match r with (x, y, z, _) => Nat.eqb x a && Nat.eqb y b && Nat.eqb z c end) tbl with
  | Some (_, _, _, v) => v
  | None => 0
  end.
Definition lookup2 (tbl : list (nat * nat * nat)) (a b : nat) : nat :=
  match find (fun r => match r with (x, y, _) => Nat.eqb x a && Nat.eqb y b end) tbl with
  | Some (_, _, v) => v
  | None => 0
  end.
Fixpoint list_nat_eqb (a b : list nat) : bool :=
  match a, b with
  | [], [] => true
  | x :: s, y :: t => Nat.eqb x y && list_nat_eqb s t
  | _, _ => false
  end.
Definition lookupL (tbl : list (list nat * nat)) (k : list nat) : nat :=
  match find (fun r => list_nat_eqb (fst r) k) tbl with Some (_, v) => v | None => 0 end.

(* ids: frames, estimate lists, configs, cores, tracking scores, scene scores are interned by the harness
   (id 0 is reserved for "unknown").  T's first argument: 0 = no predecessor. *)
Definition out_code (o : @out nat nat nat) : list nat :=
  match o with
  | FrameOut c t => [1; c; t]
  | SceneOut s => [2; s]
  | NoFrame => [3]
  end.

Definition replay (gt : list (nat * nat * nat * nat)) (wt : list (nat * nat * nat * nat))
                  (tt : list (nat * nat * nat)) (st : list (list nat * nat))
                  (d : list nat) (ops : list (@op nat nat)) : list nat * list (list nat) :=
  let G := lookup3 gt in
  let W := lookup3 wt in
  let T := fun (p : option nat) c => lookup2 tt (match p with Some x => x | None => 0 end) c in
  let Sc := lookupL st in
  let '(s, outs) := run nat nat nat nat nat nat G W T Sc true (init nat nat d) ops in
  (ds s, map out_code outs).

Fixpoint lln_eqb (a b : list (list nat)) : bool :=
  match a, b with
  | [], [] => true
  | x :: s, y :: t => list_nat_eqb x y && lln_eqb s t
  | _, _ => false
  end.

(* observed: the dataset ids after the whole history, and the answer to every call *)
Definition check_history gt wt tt st d ops (ds_after : list nat) (answers : list (list nat)) : bool :=
  let '(d', outs) := replay gt wt tt st d ops in
  list_nat_eqb d' ds_after && lln_eqb outs answers.
