(* C05 / C13 -- model of the tracking glue between the manager and CLEAR.
   Sources (package root /repo/perception_eval/perception_eval):
     evaluation/matching/objects_filter.py      divide_objects, divide_objects_to_num
     evaluation/result/perception_frame_result.py  PerceptionFrameResult.evaluate_frame, tracking branch
     evaluation/metrics/metrics.py              MetricsScore.evaluate_tracking (order of the scores, num_ground_truth)
     evaluation/metrics/tracking/tracking_metrics_score.py   TrackingMetricsScore.__init__ (one CLEAR per label)
     manager/perception_evaluation_manager.py   add_frame_result (predecessor = frame_results[-1]), get_scene_result
   on top of Model/Clear.v (CLEAR itself, _sum_clear).  Definitions only; proofs in
   Proofs/TrackingPipelineProofs.v, statements in Props/C05Pipeline.v.

   The loops of the Python are mirrored: dictionaries are association lists in insertion order
   (`d[k] = v` replaces in place or appends a new key at the end), divide_objects is a fold over the
   objects, the nesting loop of evaluate_frame is a fold over the items of the previous frame's dictionary,
   get_scene_result is a fold over the frame results with an inner loop over the target labels.  A failing
   dictionary lookup (KeyError) is `None`.  The declarative counterparts (`bucket`, `frame_clear`,
   `scene_clear`) are separate definitions; the theorems say loop model = declarative counterpart.

   Facts read by the harness AFTER matching and filtering, through public attributes:
     per object result: estimated uuid / label, ground-truth uuid / label / is_fp(), is_label_correct,
                        get_matching(mode).value for the four matching modes;
     per frame: the labels of frame_ground_truth.objects after the critical filter, and
                critical_object_filter_config.target_labels (the labels evaluate_frame buckets with).
   Modelling decisions (assumptions listed in harness/props/tracking_corr.py):
     - 3D tracking task (evaluation_task.is_3d()): scores in the order centre distance, IoU 2D, IoU 3D,
       plane distance, one TrackingMetricsScore per configured threshold list;
     - every threshold list has one entry per target label (TrackingMetricsScore asserts it; `combine`);
     - labels are natural numbers, uuids are natural numbers (the harness interns the strings);
     - a target label of the metrics config that is missing from the critical filter's target labels makes
       the lookup fail (None); it is excluded by the guard `incl tl bl` of the theorems. *)
From Coq Require Import List Bool Arith ZArith QArith.
From PE Require Import Base.QUtil Model.Clear.
Import ListNotations.
Open Scope Q_scope.

(* ---------------------------------------------------------------------------------------------
   object results with the values of all four matching modes
   --------------------------------------------------------------------------------------------- *)
Inductive mmode := MCenter | MIou2d | MIou3d | MPlane.

(* MatchingMode -> direction of `is_better_than` *)
Definition mode_of (mm : mmode) : mode :=
  match mm with MCenter => Dist | MPlane => Dist | MIou2d => Iou | MIou3d => Iou end.

Record pgt := mkPG {
  pg_id : nat; pg_lab : nat; pg_fp : bool; pg_labok : bool;
  pg_center : Q; pg_iou2d : Q; pg_iou3d : Q; pg_plane : Q       (* get_matching(mode).value *)
}.
Record pres := mkPR { pr_est : nat; pr_elab : nat; pr_gt : option pgt }.
Definition pframe := list pres.

Definition score_in (mm : mmode) (g : pgt) : Q :=
  match mm with MCenter => pg_center g | MIou2d => pg_iou2d g | MIou3d => pg_iou3d g | MPlane => pg_plane g end.

(* what CLEAR(matching_mode = mm) reads from an object result *)
Definition view (mm : mmode) (r : pres) : result :=
  mkR (pr_est r) (pr_elab r)
      (match pr_gt r with
       | Some g => Some (mkG (pg_id g) (pg_lab g) (pg_fp g) (pg_labok g) (score_in mm g))
       | None => None
       end).

(* one evaluated frame as the manager keeps it: PerceptionFrameResult.object_results (after the critical
   filter), the labels of frame_ground_truth.objects (after the critical filter), and the target labels of
   the critical filter config this frame was evaluated with *)
Record pfr := mkF { f_bl : list nat; f_res : pframe; f_gts : list nat }.

(* ---------------------------------------------------------------------------------------------
   Python dict: association list in insertion order
   --------------------------------------------------------------------------------------------- *)
Definition dict (A : Type) := list (nat * A).

Fixpoint dget {A} (d : dict A) (k : nat) : option A :=
  match d with
  | [] => None
  | (k', v) :: d' => if Nat.eqb k' k then Some v else dget d' k
  end.

(* d[k] = v *)
Fixpoint dset {A} (d : dict A) (k : nat) (v : A) : dict A :=
  match d with
  | [] => [(k, v)]
  | (k', v') :: d' => if Nat.eqb k' k then (k', v) :: d' else (k', v') :: dset d' k v
  end.

Definition dkeys {A} (d : dict A) : list nat := map fst d.

(* {label: v0 for label in labels} *)
Definition dinit {A} (labels : list nat) (v0 : A) : dict A := fold_left (fun d l => dset d l v0) labels [].

(* `label in target_labels` *)
Definition mem (l : nat) (ls : list nat) : bool := existsb (Nat.eqb l) ls.

(* ---------------------------------------------------------------------------------------------
   divide_objects(object_results, target_labels), divide_objects_to_num(ground truths, target_labels)
   --------------------------------------------------------------------------------------------- *)
(* the key an object result is filed under: the estimate's label if it is a target label, else the
   ground truth's label if there is a ground truth, else the result is skipped (`continue`) *)
Definition bucket_label (bl : list nat) (r : pres) : option nat :=
  if mem (pr_elab r) bl then Some (pr_elab r)
  else match pr_gt r with Some g => Some (pg_lab g) | None => None end.

Definition divide_step (bl : list nat) (d : dict pframe) (r : pres) : dict pframe :=
  match bucket_label bl r with
  | None => d
  | Some l =>
      match dget d l with
      | None => dset d l [r]               (* if label not in ret.keys(): ret[label] = [obj] *)
      | Some v => dset d l (v ++ [r])      (* else: ret[label].append(obj) *)
      end
  end.
Definition divide (bl : list nat) (f : pframe) : dict pframe := fold_left (divide_step bl) f (dinit bl []).

(* plain objects: a label outside the target labels is skipped *)
Definition num_step (bl : list nat) (d : dict nat) (l : nat) : dict nat :=
  if mem l bl
  then match dget d l with None => dset d l 1%nat | Some n => dset d l (S n) end
  else d.
Definition divide_num (bl : list nat) (gts : list nat) : dict nat := fold_left (num_step bl) gts (dinit bl 0%nat).

(* sum(num_ground_truth.values()) *)
Definition dsum (d : dict nat) : nat := fold_right (fun kv n => (snd kv + n)%nat) 0%nat d.

(* declarative counterparts *)
Definition in_bucket (bl : list nat) (L : nat) (r : pres) : bool :=
  match bucket_label bl r with Some b => Nat.eqb b L | None => false end.
Definition bucket (bl : list nat) (L : nat) (f : pframe) : pframe := filter (in_bucket bl L) f.
Definition is_dropped (bl : list nat) (r : pres) : bool :=
  match bucket_label bl r with None => true | Some _ => false end.
Definition dropped (bl : list nat) (f : pframe) : pframe := filter (is_dropped bl) f.
(* L is a key of divide bl f *)
Definition has_key (bl : list nat) (f : pframe) (L : nat) : bool := mem L bl || existsb (in_bucket bl L) f.
Definition count_label (L : nat) (gts : list nat) : nat := length (filter (Nat.eqb L) gts).

(* ---------------------------------------------------------------------------------------------
   evaluate_frame, tracking branch
     tracking_results = object_results_dict.copy()
     for label, prev_results in previous_results_dict.items():
         tracking_results[label] = [prev_results, tracking_results.get(label, [])]
   Values of tracking_results are flat lists (keys of the current frame only) or nested [prev, cur].
   --------------------------------------------------------------------------------------------- *)
Inductive tval :=
| Flat (c : pframe)
| Nested (p c : pframe)
| Renested.        (* [prev, [prev', cur]]: only if a key were visited twice (proved impossible) *)

Definition nest_step (tr : dict tval) (item : nat * pframe) : dict tval :=
  match dget tr (fst item) with
  | None => dset tr (fst item) (Nested (snd item) [])
  | Some (Flat c) => dset tr (fst item) (Nested (snd item) c)
  | Some _ => dset tr (fst item) Renested
  end.

Definition prev_dict (bl : list nat) (prev : option pframe) : dict pframe :=
  match prev with
  | None => dinit bl []                       (* {label: [] for label in target_labels} *)
  | Some p => divide bl p                     (* divide_objects(previous_result.object_results, target_labels) *)
  end.

Definition tracking_results (bl : list nat) (prev : option pframe) (cur : pframe) : dict tval :=
  fold_left nest_step (prev_dict bl prev) (map (fun kv => (fst kv, Flat (snd kv))) (divide bl cur)).

(* ---------------------------------------------------------------------------------------------
   TrackingMetricsScore.__init__: for target_label, thr in zip(target_labels, thresholds):
       CLEAR(object_results_dict[target_label], num_ground_truth_dict[target_label], [target_label], mode, [thr])
   --------------------------------------------------------------------------------------------- *)
Fixpoint all_some {A} (l : list (option A)) : option (list A) :=
  match l with
  | [] => Some []
  | None :: _ => None
  | Some x :: t => match all_some t with Some r => Some (x :: r) | None => None end
  end.

Definition clear_for_frame (mm : mmode) (tr : dict tval) (nd : dict nat) (Lt : nat * Q) : option clear :=
  match dget tr (fst Lt), dget nd (fst Lt) with
  | Some (Nested p c), Some n => Some (make_clear (mode_of mm) [Lt] n [map (view mm) p; map (view mm) c])
  | _, _ => None              (* KeyError, or a value that is not a two-frame history (excluded: incl tl bl) *)
  end.

(* MetricsScore.evaluate_tracking: the configured threshold lists in their fixed order (3D task) *)
Record tcfg := mkCfg {
  c_center : list (list Q); c_iou2d : list (list Q); c_iou3d : list (list Q); c_plane : list (list Q)
}.
Definition score_specs (c : tcfg) : list (mmode * list Q) :=
  map (pair MCenter) (c_center c) ++ map (pair MIou2d) (c_iou2d c) ++
  map (pair MIou3d) (c_iou3d c) ++ map (pair MPlane) (c_plane c).

(* the tracking scores of one MetricsScore: per (mode, threshold list) the CLEARs of the target labels *)
Definition scores := list (list clear).

(* frame-level: evaluate_frame(previous_result) -> metrics_score.tracking_scores, metrics_score.num_ground_truth *)
Definition frame_tracking (tl : list nat) (cfg : tcfg) (prev : option pfr) (cur : pfr) : option scores :=
  let bl := f_bl cur in
  let tr := tracking_results bl (option_map f_res prev) (f_res cur) in
  let nd := divide_num bl (f_gts cur) in
  all_some (map (fun s => all_some (map (clear_for_frame (fst s) tr nd) (combine tl (snd s)))) (score_specs cfg)).

Definition frame_num_gt (cur : pfr) : nat := dsum (divide_num (f_bl cur) (f_gts cur)).

(* ---------------------------------------------------------------------------------------------
   PerceptionEvaluationManager: add_frame_result / get_scene_result
   --------------------------------------------------------------------------------------------- *)
Definition last_opt {A} (l : list A) : option A := match rev l with [] => None | x :: _ => Some x end.

(* add_frame_result: the predecessor is frame_results[-1] (None for the first frame); the result is appended *)
Definition add_frame (tl : list nat) (cfg : tcfg) (st : list pfr) (fr : pfr) : list pfr * option scores :=
  (st ++ [fr], frame_tracking tl cfg (last_opt st) fr).

Fixpoint run_frames (tl : list nat) (cfg : tcfg) (st : list pfr) (frs : list pfr) : list pfr * list (option scores) :=
  match frs with
  | [] => (st, [])
  | fr :: rest =>
      let '(st', o) := add_frame tl cfg st fr in
      let '(st'', os) := run_frames tl cfg st' rest in
      (st'', o :: os)
  end.

(* get_scene_result: all_frame_results = {label: [[]]}, all_num_gt = {label: 0};
   for frame in frame_results: for label in target_labels: append obj_result_dict[label], add num_gt_dict[label] *)
Definition scene_label_step (od : dict pframe) (nd : dict nat)
    (st : option (dict (list pframe) * dict nat)) (L : nat) : option (dict (list pframe) * dict nat) :=
  match st with
  | None => None
  | Some (ad, an) =>
      match dget ad L, dget od L, dget an L, dget nd L with
      | Some h, Some b, Some n, Some k => Some (dset ad L (h ++ [b]), dset an L (n + k)%nat)
      | _, _, _, _ => None
      end
  end.
Definition scene_frame_step (tl : list nat) (st : option (dict (list pframe) * dict nat)) (fr : pfr)
    : option (dict (list pframe) * dict nat) :=
  fold_left (scene_label_step (divide tl (f_res fr)) (divide_num tl (f_gts fr))) tl st.
Definition scene_dicts (tl : list nat) (frames : list pfr) : option (dict (list pframe) * dict nat) :=
  fold_left (scene_frame_step tl) frames (Some (dinit tl [[]], dinit tl 0%nat)).

Definition clear_for_scene (mm : mmode) (ad : dict (list pframe)) (an : dict nat) (Lt : nat * Q) : option clear :=
  match dget ad (fst Lt), dget an (fst Lt) with
  | Some h, Some n => Some (make_clear (mode_of mm) [Lt] n (map (map (view mm)) h))
  | _, _ => None
  end.

Definition scene_tracking (tl : list nat) (cfg : tcfg) (frames : list pfr) : option scores :=
  match scene_dicts tl frames with
  | None => None
  | Some (ad, an) =>
      all_some (map (fun s => all_some (map (clear_for_scene (fst s) ad an) (combine tl (snd s)))) (score_specs cfg))
  end.
Definition scene_num_gt (tl : list nat) (frames : list pfr) : option nat :=
  match scene_dicts tl frames with None => None | Some (_, an) => Some (dsum an) end.

(* ---------------------------------------------------------------------------------------------
   Declarative counterparts: per label, the CLEAR of a two-frame history / of the whole history
   --------------------------------------------------------------------------------------------- *)
Definition prev_res (prev : option pfr) : pframe := match prev with Some p => f_res p | None => [] end.

Definition frame_history (bl : list nat) (mm : mmode) (L : nat) (prev : option pfr) (cur : pfr) : list frame :=
  [map (view mm) (bucket bl L (prev_res prev)); map (view mm) (bucket bl L (f_res cur))].
Definition frame_clear (mm : mmode) (Lt : nat * Q) (prev : option pfr) (cur : pfr) : clear :=
  make_clear (mode_of mm) [Lt] (count_label (fst Lt) (f_gts cur)) (frame_history (f_bl cur) mm (fst Lt) prev cur).

Definition scene_history (tl : list nat) (mm : mmode) (L : nat) (frames : list pfr) : list frame :=
  [] :: map (fun fr => map (view mm) (bucket tl L (f_res fr))) frames.
Fixpoint sum_nat (l : list nat) : nat := match l with [] => 0%nat | x :: t => (x + sum_nat t)%nat end.
Definition scene_clear (tl : list nat) (mm : mmode) (Lt : nat * Q) (frames : list pfr) : clear :=
  make_clear (mode_of mm) [Lt] (sum_nat (map (fun fr => count_label (fst Lt) (f_gts fr)) frames))
             (scene_history tl mm (fst Lt) frames).

Definition scores_spec (tl : list nat) (cfg : tcfg) (f : mmode -> nat * Q -> clear) : scores :=
  map (fun s => map (f (fst s)) (combine tl (snd s))) (score_specs cfg).

(* the frame-level CLEARs of a label along a history of frame results, predecessor threaded *)
Fixpoint frame_clears (mm : mmode) (Lt : nat * Q) (prev : option pfr) (frames : list pfr) : list clear :=
  match frames with
  | [] => []
  | fr :: rest => frame_clear mm Lt prev fr :: frame_clears mm Lt (Some fr) rest
  end.

(* TrackingMetricsScore._sum_clear of every score *)
Definition totals (s : scores) : list (option Q * option Q * nat) := map sum_clear s.

(* renaming of track ids *)
Definition rename_pres (fe fg : nat -> nat) (r : pres) : pres :=
  mkPR (fe (pr_est r)) (pr_elab r)
       (match pr_gt r with
        | Some g => Some (mkPG (fg (pg_id g)) (pg_lab g) (pg_fp g) (pg_labok g) (pg_center g) (pg_iou2d g) (pg_iou3d g) (pg_plane g))
        | None => None
        end).
Definition rename_pfr (fe fg : nat -> nat) (fr : pfr) : pfr :=
  mkF (f_bl fr) (map (rename_pres fe fg) (f_res fr)) (f_gts fr).

(* ---------------------------------------------------------------------------------------------
   check functions for the correspondence (harness/props/tracking_corr.py)
   --------------------------------------------------------------------------------------------- *)
(* one observed CLEAR: predict_num, tp, fp, id_switch, tp_matching_score, MOTA, MOTP, num_ground_truth *)
Record cobs := mkO {
  ob_num : nat; ob_tp : Q; ob_fp : Q; ob_sw : nat; ob_score : Q; ob_mota : option Q; ob_motp : option Q; ob_ngt : nat
}.
(* one observed TrackingMetricsScore: its CLEARs in order and _sum_clear() *)
Record sobs := mkS { s_clears : list cobs; s_mota : option Q; s_motp : option Q; s_sw : nat }.

Definition check_cobs (k : clear) (o : cobs) : bool :=
  check_clear k (ob_num o) (ob_tp o) (ob_fp o) (ob_sw o) (ob_score o) (ob_mota o) (ob_motp o) && Nat.eqb (k_numgt k) (ob_ngt o).

Fixpoint forall2b {A B} (f : A -> B -> bool) (a : list A) (b : list B) : bool :=
  match a, b with
  | [], [] => true
  | x :: s, y :: t => f x y && forall2b f s t
  | _, _ => false
  end.

Definition check_score (ks : list clear) (s : sobs) : bool :=
  forall2b check_cobs ks (s_clears s) && check_sum ks (s_mota s) (s_motp s) (s_sw s).

Definition check_scores (m : option scores) (obs : list sobs) : bool :=
  match m with Some ss => forall2b check_score ss obs | None => false end.

(* a whole run of the manager: every frame's tracking scores and MetricsScore.num_ground_truth, then the
   scene's tracking scores and num_ground_truth *)
Definition check_run (tl : list nat) (cfg : tcfg) (frames : list pfr)
    (fobs : list (list sobs * nat)) (sobs_ : list sobs) (sngt : nat) : bool :=
  let '(st, outs) := run_frames tl cfg [] frames in
  forall2b (fun (mo : option scores * pfr) (o : list sobs * nat) =>
              check_scores (fst mo) (fst o) && Nat.eqb (frame_num_gt (snd mo)) (snd o))
           (combine outs frames) fobs &&
  Nat.eqb (length outs) (length fobs) &&
  check_scores (scene_tracking tl cfg st) sobs_ &&
  match scene_num_gt tl st with Some n => Nat.eqb n sngt | None => false end.
