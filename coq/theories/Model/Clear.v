(* C05 -- model of the CLEAR tracking metrics.
   Source: perception_eval/evaluation/metrics/tracking/clear.py (CLEAR.__init__, _calculate_tp_fp,
   _is_id_switched, _is_same_match, _calculate_score), tracking_metrics_score.py (_sum_clear),
   result/object_result.py (is_result_correct), common/threshold.py (get_label_threshold),
   matching/object_matching.py (is_better_than).
   Definitions only; the control structure of the Python is mirrored (order of tests, both `break`s,
   the carried `is_id_switched` flag, strictness of comparisons).  Proofs: Proofs/ClearProofs.v.

   Facts the harness reads from the real objects through public getters:
     estimated uuid / label, ground-truth uuid / label / is_fp(), `is_label_correct`,
     `get_matching(mode).value`.
   Modelling decisions (assumptions listed in harness/props/C05.py):
     - tp_metrics is the default TPMetricsAp (value 1.0): TP/FP/switch counters are naturals;
     - `inf` (MOTA with 0 ground truths, MOTP with 0 TP) is `None`;
     - target_labels/matching_threshold_list are given zipped (equal lengths, as
       TrackingMetricsScore asserts);
     - get_matching(mode) is never None (3D objects / 2D objects with a ROI). *)
From Coq Require Import List Bool Arith ZArith QArith.
From PE Require Import Base.QUtil.
Import ListNotations.
Open Scope Q_scope.

(* CENTERDISTANCE, PLANEDISTANCE: smaller is better, strict `<`;  IOU2D, IOU3D: larger is better, strict `>` *)
Inductive mode := Dist | Iou.

(* the ground-truth side of an object result *)
Record gtm := mkG {
  g_id : nat;        (* ground_truth_object.uuid *)
  g_lab : nat;       (* ground_truth_object.semantic_label.label *)
  g_fp : bool;       (* ground_truth_object.semantic_label.is_fp() *)
  g_labok : bool;    (* DynamicObjectWithPerceptionResult.is_label_correct *)
  g_score : Q        (* get_matching(mode).value *)
}.

Record result := mkR {
  r_est : nat;            (* estimated_object.uuid *)
  r_elab : nat;           (* estimated_object.semantic_label.label *)
  r_gt : option gtm       (* ground_truth_object is None  <->  None *)
}.

Definition frame := list result.
Definition targets := list (nat * Q).      (* zip target_labels matching_threshold_list *)

(* MatchingMethod.is_better_than *)
Definition better (m : mode) (v t : Q) : bool :=
  match m with Dist => Qltb v t | Iou => Qltb t v end.

(* DynamicObjectWithPerceptionResult.is_result_correct(mode, threshold), threshold not None *)
Definition is_correct (m : mode) (t : Q) (r : result) : bool :=
  match r_gt r with
  | None => false
  | Some g =>
      let is_matching := better m (g_score g) t in
      if g_fp g then negb is_matching else is_matching && g_labok g
  end.

(* the label whose threshold is looked up: GT label if there is a GT, else the estimate's *)
Definition thr_label (r : result) : nat :=
  match r_gt r with Some g => g_lab g | None => r_elab r end.

(* get_label_threshold: first index of the label in target_labels (list.index), None if absent *)
Fixpoint label_threshold (T : targets) (lab : nat) : option Q :=
  match T with
  | [] => None
  | (l, t) :: T' => if Nat.eqb l lab then Some t else label_threshold T' lab
  end.

Definition same_est (c p : result) : bool :=
  Nat.eqb (r_est c) (r_est p) && Nat.eqb (r_elab c) (r_elab p).

(* CLEAR._is_id_switched *)
Definition is_switched (c p : result) : bool :=
  match r_gt c, r_gt p with
  | Some gc, Some gp =>
      let se := same_est c p in
      let sg := Nat.eqb (g_id gc) (g_id gp) in
      if se then negb sg else if sg then negb se else false
  | _, _ => false
  end.

(* CLEAR._is_same_match *)
Definition is_same (c p : result) : bool :=
  match r_gt c, r_gt p with
  | Some gc, Some gp => same_est c p && Nat.eqb (g_id gc) (g_id gp)
  | _, _ => false
  end.

(* get_matching(mode).value of a result; only read for results that have a ground truth
   (ClearProofs.scan_same_sound / is_correct_has_gt: the None branch is never reached) *)
Definition score_of (r : result) : Q :=
  match r_gt r with Some g => g_score g | None => 0 end.

(* the inner loop over the previous frame.  [sw] is the carried `is_id_switched` variable;
   the result is (the previous result the loop broke on with is_same_match, is_id_switched). *)
Fixpoint scan (m : mode) (t : Q) (c : result) (prevs : list result) (sw : bool) : option result * bool :=
  match prevs with
  | [] => (None, sw)
  | p :: ps =>
      if negb (is_correct m t p) then scan m t c ps sw            (* continue *)
      else
        let sw' := is_switched c p in
        if sw' then (None, sw')                                    (* break *)
        else if is_same c p then (Some p, sw')                     (* tp += ..; break *)
        else scan m t c ps sw'
  end.

(* what happens to one current result *)
Inductive decision :=
| DIgnored                      (* threshold None: continue *)
| DCarry (s : Q)                (* same match with a previous TP: TP with the PREVIOUS score *)
| DNew (s : Q) (sw : bool)      (* TP on its own; sw: an id switch is counted *)
| DFp.

Definition decide (m : mode) (T : targets) (prevs : list result) (c : result) : decision :=
  match label_threshold T (thr_label c) with
  | None => DIgnored
  | Some t =>
      match scan m t c prevs false with
      | (Some p, _) => DCarry (score_of p)
      | (None, sw) => if is_correct m t c then DNew (score_of c) sw else DFp
      end
  end.

Record counters := mkC {
  c_tp : nat; c_fp : nat; c_sw : nat; c_score : Q;
  c_num : nat      (* objects_results_num / "predict_num" *)
}.

Definition zero : counters := mkC 0 0 0 0 0.

Definition apply_dec (a : counters) (d : decision) : counters :=
  match d with
  | DIgnored => a
  | DCarry s => mkC (S (c_tp a)) (c_fp a) (c_sw a) (c_score a + s) (c_num a)
  | DNew s sw => mkC (S (c_tp a)) (c_fp a) (if sw then S (c_sw a) else c_sw a) (c_score a + s) (c_num a)
  | DFp => mkC (c_tp a) (S (c_fp a)) (c_sw a) (c_score a) (c_num a)
  end.

(* CLEAR._calculate_tp_fp: local counters start at 0 for each frame *)
Definition calc_tp_fp (m : mode) (T : targets) (prevs curs : frame) : counters :=
  fold_left (fun a c => apply_dec a (decide m T prevs c)) curs zero.

Definition add_counters (a b : counters) (n : nat) : counters :=
  mkC (c_tp a + c_tp b) (c_fp a + c_fp b) (c_sw a + c_sw b) (c_score a + c_score b) (c_num a + n).

(* CLEAR.__init__: for i, cur in enumerate(object_results[1:], 1): prev = object_results[i-1] *)
Fixpoint accumulate (m : mode) (T : targets) (prev : frame) (rest : list frame) (a : counters) : counters :=
  match rest with
  | [] => a
  | cur :: rest' =>
      accumulate m T cur rest' (add_counters a (calc_tp_fp m T prev cur) (length cur))
  end.

Definition clear_counts (m : mode) (T : targets) (h : list frame) : counters :=
  match h with
  | [] => zero
  | f0 :: rest => accumulate m T f0 rest zero
  end.

(* Python's max(0.0, x) = x if x > 0.0 else 0.0 *)
Definition max0 (x : Q) : Q := if Qltb 0 x then x else 0.

(* CLEAR._calculate_score *)
Definition mota_of (numgt : nat) (a : counters) : option Q :=
  match numgt with
  | O => None
  | _ => Some (max0 ((Qnat (c_tp a) - Qnat (c_fp a) - Qnat (c_sw a)) / Qnat numgt))
  end.

Definition motp_of (a : counters) : option Q :=
  match c_tp a with
  | O => None
  | _ => Some (c_score a / Qnat (c_tp a))
  end.

Record clear := mkClear { k_numgt : nat; k_cnt : counters; k_mota : option Q; k_motp : option Q }.

Definition make_clear (m : mode) (T : targets) (numgt : nat) (h : list frame) : clear :=
  let a := clear_counts m T h in mkClear numgt a (mota_of numgt a) (motp_of a).

(* TrackingMetricsScore._sum_clear: the loop state is (mota, motp, num_gt, num_tp, num_id_switch) *)
Definition sum_step (s : Q * Q * nat * nat * nat) (k : clear) : Q * Q * nat * nat * nat :=
  let '(mota, motp, ngt, ntp, nsw) := s in
  let mota' := match k_mota k with Some x => mota + x * Qnat (k_numgt k) | None => mota end in
  let motp' := match k_motp k with Some x => motp + x * Qnat (c_tp (k_cnt k)) | None => motp end in
  (mota', motp', (ngt + k_numgt k)%nat, (ntp + c_tp (k_cnt k))%nat, (nsw + c_sw (k_cnt k))%nat).

Definition sum_clear (ks : list clear) : option Q * option Q * nat :=
  let '(mota, motp, ngt, ntp, nsw) := fold_left sum_step ks (0, 0, O, O, O) in
  (match ngt with O => None | _ => Some (max0 (mota / Qnat ngt)) end,
   match ntp with O => None | _ => Some (motp / Qnat ntp) end,
   nsw).

(* ---------------------------------------------------------------------------------------------
   Declarative specification (no loop state, no order): used by clear_refines_spec
   --------------------------------------------------------------------------------------------- *)
Definition is_target (T : targets) (r : result) : bool :=
  match label_threshold T (thr_label r) with Some _ => true | None => false end.

(* r continues the pairing of a previous-frame TP *)
Definition carriedb (m : mode) (t : Q) (prevs : frame) (r : result) : bool :=
  existsb (fun p => is_correct m t p && is_same r p) prevs.
(* r's pairing differs from the pairing a previous-frame TP had *)
Definition switchedb (m : mode) (t : Q) (prevs : frame) (r : result) : bool :=
  existsb (fun p => is_correct m t p && is_switched r p) prevs.

Definition spec_tp (m : mode) (T : targets) (prevs : frame) (r : result) : bool :=
  match label_threshold T (thr_label r) with
  | None => false
  | Some t => carriedb m t prevs r || is_correct m t r
  end.
Definition spec_fp (m : mode) (T : targets) (prevs : frame) (r : result) : bool :=
  match label_threshold T (thr_label r) with
  | None => false
  | Some t => negb (carriedb m t prevs r) && negb (is_correct m t r)
  end.
Definition spec_sw (m : mode) (T : targets) (prevs : frame) (r : result) : bool :=
  match label_threshold T (thr_label r) with
  | None => false
  | Some t => is_correct m t r && negb (carriedb m t prevs r) && switchedb m t prevs r
  end.
(* the matching score assigned to a TP: the previous frame's for a continued pairing *)
Definition spec_score (m : mode) (T : targets) (prevs : frame) (r : result) : Q :=
  match label_threshold T (thr_label r) with
  | None => 0
  | Some t =>
      match find (fun p => is_correct m t p && is_same r p) prevs with
      | Some p => score_of p
      | None => if is_correct m t r then score_of r else 0
      end
  end.

Definition countb {A} (f : A -> bool) (l : list A) : nat := length (filter f l).

Definition spec_frame (m : mode) (T : targets) (prevs curs : frame) : counters :=
  mkC (countb (spec_tp m T prevs) curs) (countb (spec_fp m T prevs) curs) (countb (spec_sw m T prevs) curs)
      (qsum (map (spec_score m T prevs) curs)) 0.

Fixpoint spec_history (m : mode) (T : targets) (prev : frame) (rest : list frame) : counters :=
  match rest with
  | [] => zero
  | cur :: rest' =>
      let s := spec_frame m T prev cur in
      let r := spec_history m T cur rest' in
      mkC (c_tp s + c_tp r) (c_fp s + c_fp r) (c_sw s + c_sw r) (c_score s + c_score r) (length cur + c_num r)
  end.

Definition spec_counts (m : mode) (T : targets) (h : list frame) : counters :=
  match h with [] => zero | f0 :: rest => spec_history m T f0 rest end.

(* the scores assigned to the TPs of a history, in order (MOTP is their mean) *)
Definition dec_scores (d : decision) : list Q :=
  match d with DCarry s => [s] | DNew s _ => [s] | _ => [] end.
Fixpoint tp_scores (m : mode) (T : targets) (prev : frame) (rest : list frame) : list Q :=
  match rest with
  | [] => []
  | cur :: rest' => flat_map (fun c => dec_scores (decide m T prev c)) cur ++ tp_scores m T cur rest'
  end.
Definition tp_score_list (m : mode) (T : targets) (h : list frame) : list Q :=
  match h with [] => [] | f0 :: rest => tp_scores m T f0 rest end.

(* evaluated results: those of all frames after the first *)
Definition evaluated (h : list frame) : list result := concat (tl h).

(* equality of counters up to == on the score *)
Definition counters_eq (a b : counters) : Prop :=
  c_tp a = c_tp b /\ c_fp a = c_fp b /\ c_sw a = c_sw b /\ c_score a == c_score b /\ c_num a = c_num b.

(* per-frame uniqueness: no two results of a frame share the estimated track (uuid, label) and no
   two share the ground-truth uuid *)
Definition est_key (r : result) : nat * nat := (r_est r, r_elab r).
Definition gt_ids (f : frame) : list nat :=
  flat_map (fun r => match r_gt r with Some g => [g_id g] | None => [] end) f.
Definition frame_unique (f : frame) : Prop :=
  NoDup (map est_key f) /\ NoDup (gt_ids f).

(* weaker: the TPs of the frame form a consistent pairing (same estimated track <-> same GT) *)
Definition same_gt (a b : result) : bool :=
  match r_gt a, r_gt b with Some ga, Some gb => Nat.eqb (g_id ga) (g_id gb) | _, _ => false end.
Definition pairing_consistent (m : mode) (t : Q) (f : frame) : Prop :=
  forall p q, In p f -> In q f -> is_correct m t p = true -> is_correct m t q = true ->
    same_est p q = same_gt p q.

(* renaming of track ids *)
Definition rename_result (fe fg : nat -> nat) (r : result) : result :=
  mkR (fe (r_est r)) (r_elab r)
      (match r_gt r with
       | Some g => Some (mkG (fg (g_id g)) (g_lab g) (g_fp g) (g_labok g) (g_score g))
       | None => None
       end).
Definition rename_history (fe fg : nat -> nat) (h : list frame) : list frame :=
  map (map (rename_result fe fg)) h.

(* ---------------------------------------------------------------------------------------------
   Histories produced by a tracker that follows every target (perfect_tracker, new_id_costs_one,
   swap_costs_two).  A ground truth present in a frame: (uuid, label, matching score); the tracker
   reports it under the estimated uuid [trk uuid] with the ground truth's label.
   --------------------------------------------------------------------------------------------- *)
Record gtobj := mkGT { o_id : nat; o_lab : nat; o_score : Q }.

Definition tracked (trk : nat -> nat) (o : gtobj) : result :=
  mkR (trk (o_id o)) (o_lab o) (Some (mkG (o_id o) (o_lab o) false true (o_score o))).
Definition tracked_frame (trk : nat -> nat) (gs : list gtobj) : frame := map (tracked trk) gs.

(* every ground truth is of a target label and its estimate is within that label's threshold *)
Definition all_matched (m : mode) (T : targets) (gs : list gtobj) : Prop :=
  forall o, In o gs -> exists t, label_threshold T (o_lab o) = Some t /\ better m (o_score o) t = true.
(* ground-truth uuids are unique in a frame and determine the label across the history *)
Definition gt_frame_ok (lab : nat -> nat) (gs : list gtobj) : Prop :=
  NoDup (map o_id gs) /\ forall o, In o gs -> o_lab o = lab (o_id o).

Definition upd (trk : nat -> nat) (g b : nat) : nat -> nat := fun x => if Nat.eqb x g then b else trk x.
Definition swap_trk (trk : nat -> nat) (g1 g2 : nat) : nat -> nat :=
  fun x => if Nat.eqb x g1 then trk g2 else if Nat.eqb x g2 then trk g1 else trk x.

(* ---------------------------------------------------------------------------------------------
   check functions for the correspondence (harness/props/C05.py)
   --------------------------------------------------------------------------------------------- *)
Definition tol : Q := 1 # 1000000000.
Definition qclose (a b : Q) : bool := Qleb (qabs (a - b)) tol.
Definition oq_close (a b : option Q) : bool :=
  match a, b with Some x, Some y => qclose x y | None, None => true | _, _ => false end.

(* observation: predict_num, tp, fp (as the floats the code holds), id_switch, tp_matching_score, MOTA, MOTP *)
Definition check_clear (k : clear) (num : nat) (tp fp : Q) (sw : nat) (score : Q) (mota motp : option Q) : bool :=
  Nat.eqb (c_num (k_cnt k)) num && Qeqb (Qnat (c_tp (k_cnt k))) tp && Qeqb (Qnat (c_fp (k_cnt k))) fp &&
  Nat.eqb (c_sw (k_cnt k)) sw && qclose (c_score (k_cnt k)) score &&
  oq_close (k_mota k) mota && oq_close (k_motp k) motp.

Definition check_sum (ks : list clear) (mota motp : option Q) (sw : nat) : bool :=
  let '(a, p, s) := sum_clear ks in oq_close a mota && oq_close p motp && Nat.eqb s sw.

(* ---------------------------------------------------------------------------------------------
   The other reading of "the pairing a TP had in the previous frame": a previous result is a TP by
   its OWN label's threshold (and only if its label is evaluated at all).  The code judges the
   previous result with the CURRENT result's threshold instead (C05_prev_tp_by_own_label_refuted).
   --------------------------------------------------------------------------------------------- *)
Definition is_tp_own (m : mode) (T : targets) (p : result) : bool :=
  match label_threshold T (thr_label p) with Some t' => is_correct m t' p | None => false end.

Definition spec_tp_own (m : mode) (T : targets) (prevs : frame) (r : result) : bool :=
  match label_threshold T (thr_label r) with
  | None => false
  | Some t => existsb (fun p => is_tp_own m T p && is_same r p) prevs || is_correct m t r
  end.
Definition spec_sw_own (m : mode) (T : targets) (prevs : frame) (r : result) : bool :=
  match label_threshold T (thr_label r) with
  | None => false
  | Some t => is_correct m t r && negb (existsb (fun p => is_tp_own m T p && is_same r p) prevs)
              && existsb (fun p => is_tp_own m T p && is_switched r p) prevs
  end.
