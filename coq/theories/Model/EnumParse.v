(* Model of the string -> enum-member parsers (C20).
   The *shape* of every parser (pre-processing, comparison, what is returned, what happens on a
   miss) is extracted from the Python source by translator/py_to_coq.py into Gen/Enums.v; this
   file is the interpreter that gives those shapes their meaning. *)
From Coq Require Import String List Bool.
From PE Require Import Base.StrUtil.
Import ListNotations.
Open Scope string_scope.

Inductive pre := PreNone | PreLower | PreUpper.
(* how the loop compares a member with the (pre-processed) input *)
Inductive cmp :=
| CmpValue        (* member.value == name  (also `member == name` when the enum overrides __eq__ for str) *)
| CmpValueLower   (* member.value.lower() == name *)
| CmpKey          (* name in cls.__members__ / key == name *)
| CmpNever.       (* `member == name` on an Enum without a str-aware __eq__: never true for a str *)
Inductive ret := RetMember | RetKey.           (* `return v` vs `return k` *)
Inductive miss := MissRaise | MissNone | MissAlias.

Record parser := { p_pre : pre; p_cmp : cmp; p_ret : ret; p_miss : miss }.

(* an enum: (key, value) in definition order; alias table (alias, member key) + default key *)
Record enum := {
  members : list (string * string);
  aliases : list (string * string);
  alias_default : option string
}.

Inductive result :=
| Member (key : string)      (* the enum member with that key *)
| KeyStr (key : string)      (* the key *string* (not a member) *)
| Raises
| RetNone.

Definition result_eqb (a b : result) : bool :=
  match a, b with
  | Member x, Member y => String.eqb x y
  | KeyStr x, KeyStr y => String.eqb x y
  | Raises, Raises => true
  | RetNone, RetNone => true
  | _, _ => false
  end.

Lemma result_eqb_eq : forall a b, result_eqb a b = true <-> a = b.
Proof.
  destruct a, b; simpl; try (split; [discriminate|congruence]); try tauto;
  rewrite String.eqb_eq; split; congruence.
Qed.

Definition apply_pre (p : pre) (s : string) : string :=
  match p with PreNone => s | PreLower => lower s | PreUpper => upper s end.

Definition cmp_key (c : cmp) (kv : string * string) : option string :=
  match c with
  | CmpValue => Some (snd kv)
  | CmpValueLower => Some (lower (snd kv))
  | CmpKey => Some (fst kv)
  | CmpNever => None
  end.

Definition cmp_match (c : cmp) (kv : string * string) (name : string) : bool :=
  match cmp_key c kv with Some x => String.eqb x name | None => false end.

Fixpoint scan (c : cmp) (ms : list (string * string)) (name : string) : option string :=
  match ms with
  | [] => None
  | kv :: t => if cmp_match c kv name then Some (fst kv) else scan c t name
  end.

Fixpoint alias_lookup (al : list (string * string)) (name : string) : option string :=
  match al with
  | [] => None
  | (a, k) :: t => if String.eqb name a then Some k else alias_lookup t name
  end.

Definition on_miss (E : enum) (m : miss) (name : string) : result :=
  match m with
  | MissRaise => Raises
  | MissNone => RetNone
  | MissAlias =>
      match alias_lookup (aliases E) name with
      | Some k => Member k
      | None => match alias_default E with Some k => Member k | None => Raises end
      end
  end.

Definition run_parser (E : enum) (P : parser) (s : string) : result :=
  let name := apply_pre (p_pre P) s in
  match scan (p_cmp P) (members E) name with
  | Some k => match p_ret P with RetMember => Member k | RetKey => KeyStr k end
  | None => on_miss E (p_miss P) name
  end.

(* Objects taking "enum or string" (Shape(shape_type=...), TransformKey(src, dst)):
   [str_branch] says whether the constructor routes strings through the parser. *)
Definition enum_or_str (E : enum) (P : parser) (str_branch : bool) (a : string + string) : result :=
  match a with
  | inr key => Member key                         (* given a member: kept *)
  | inl s => if str_branch then run_parser E P s  (* given a string: parsed *)
             else KeyStr s                         (* stored as is: not a member *)
  end.

(* ---- boolean checkers evaluated on the generated tables *)

(* every member's own value parses to that member *)
Definition roundtrip_ok (E : enum) (P : parser) : bool :=
  forallb (fun kv => result_eqb (run_parser E P (snd kv)) (Member (fst kv))) (members E).

(* first member that does not round-trip (counterexample finder) *)
Definition find_bad_member (E : enum) (P : parser) : option (string * string) :=
  find (fun kv => negb (result_eqb (run_parser E P (snd kv)) (Member (fst kv)))) (members E).

(* the string an input must equal (after pre-processing) to hit member kv *)
Definition hits (P : parser) (kv : string * string) (s : string) : Prop :=
  cmp_key (p_cmp P) kv = Some (apply_pre (p_pre P) s).
