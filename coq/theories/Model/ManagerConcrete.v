(* C13, concrete: the manager state machine of Model/Manager.v INSTANTIATED with the concrete frame models.
   Model/Manager.v is parameterised by abstract  G (one evaluation), W (what is written back), T (tracking scores
   of a frame from its predecessor's results) and Sc (scene score).  Here
     G  := Pipeline.add_frame_result   (matcher -> critical filter -> pass/fail -> per-label AP/APH/mAP Maps)
           + the tracking view of the surviving object results (TrackingPipeline.pfr);
     T  := TrackingPipeline.frame_tracking on the tracking views of the predecessor and of the current frame;
     Sc := get_scene_result: per target label the frames' divide_objects buckets appended and the frames'
           divide_objects_to_num counts added up (loop mirrored), one Ap/Aph per label and one Map per threshold
           list with Model/AP.v, and TrackingPipeline.scene_tracking.
   Definitions only; proofs in Proofs/ManagerConcrete.v, statements in Props/C13Concrete.v.
   No model is duplicated: everything below is glue (record shapes, adapters) around existing definitions.

   Sources: manager/perception_evaluation_manager.py  add_frame_result (l.79-127), _filter_objects (l.129-180),
            get_scene_result (l.182-215); evaluation/metrics/metrics.py evaluate_detection / evaluate_tracking.

   What is an input where.
     manager-level (fixed when the manager is built, [MCfg]): matching mode, label policy, FP-validation flag,
        max_matchable_radii, the MetricsScoreConfig (target labels = evaluator target labels, detection threshold
        lists, tracking threshold lists);
     per call ([CCfg]): CriticalObjectFilterConfig and PerceptionPassFailConfig, the two arguments of
        add_frame_result;
     dataset frame ([CFrame]): the ground-truth objects handed to the matcher, their frame ids, their interned uuids;
     estimates ([CEsts]): the estimated objects, their frame ids, their interned uuids, and the PRE-matching
        estimate x ground-truth tables (centre distance, is_same_label, plane distance, heading weight, IoU 2D/3D).

   Adapters and what they abstract.
     1. The pair tables live in [CEsts] although they are facts about (estimate, ground truth of the frame the
        call names): a call [Add i e c] is meaningful when e's tables were read against dataset frame i.
     2. Track ids: TrackingPipeline identifies tracks by natural numbers (the harness interns uuid strings);
        the interned ids come as the tables [g_track] / [e_track] indexed by object identity, next to the
        objects' own [o_uuid] (used by the uuid filter).  Nothing ties the two together in the model.
     3. [pres_of] turns an object result of the detection model (Filter.Res + the tables) into the object result
        of the tracking model (four matching values).  TrackingPipeline's values are numbers, Pipeline's cells are
        optional (NaN / not computed): a result with a missing value or a missing track id has NO tracking view
        ([k_view = None]); the tracking answers are then [TrackNone] / [sc_tracking = None], never a default.
     4. Exceptions.  The real add_frame_result appends nothing when the evaluation raises; Manager.step appends
        the Core unconditionally.  A raised evaluation is therefore recorded as a Core whose outcome is [Raised*];
        the scene score skips such Cores ([appended]), which is what the real manager's frame_results would hold.
        For the tracking predecessor the abstract machine hands T the LAST Core even if it raised, where the real
        manager would use the last appended frame: the instance answers [TrackPredRaised] in that case (explicit,
        no silent default).  Proofs/ManagerConcrete.v proves that well-formed inputs never raise
        (concrete_G_done), so this only concerns histories containing malformed calls.
     5. A real manager has ONE evaluation task; the instance evaluates the detection Maps and the tracking scores
        of the same frame results side by side.  Each half is the model of the corresponding task. *)
From Coq Require Import List Bool ZArith String Arith QArith.
From PE Require Import Base.QUtil Model.Matching Model.Filter Model.PassFail Model.Pipeline.
From PE Require Model.AP Model.Clear Model.TrackingPipeline Model.Manager.
Import ListNotations.
Open Scope Q_scope.

Module TP := TrackingPipeline.

(* ------------------------------------------------------------------------------------------------ *)
(* the instances of the Section parameters of Model/Manager.v                                        *)
(* ------------------------------------------------------------------------------------------------ *)
(* Frame: one ground-truth frame of the loaded dataset, as handed to the matcher *)
Record CFrame := mkCFrame {
  g_objs : list Obj;            (* FrameGroundTruth.objects; o_id = index *)
  g_frame : list nat;           (* frame id of each ground truth *)
  g_track : list nat            (* interned uuid of each ground truth (tracking) *)
}.

(* Ests: the estimate side of one call *)
Record CEsts := mkCEsts {
  e_objs : list Obj;                        (* estimated objects; o_id = index *)
  e_frame : list nat;                       (* frame id of each estimate *)
  e_track : list nat;                       (* interned uuid of each estimate (tracking) *)
  e_value : list (list (option Q));         (* CenterDistanceMatching(est, gt).value *)
  e_same : list (list bool);                (* is_same_label(est, gt) *)
  e_tables : Tables;                        (* plane distance, heading weight *)
  e_iou2d : list (list (option Q));         (* IOU2dMatching(est, gt).value *)
  e_iou3d : list (list (option Q))          (* IOU3dMatching(est, gt).value *)
}.

(* Cfg: the two configuration arguments of add_frame_result *)
Record CCfg := mkCCfg { cc_crit : Cfg; cc_pf : PF }.

(* fixed for the life of the manager (PerceptionEvaluationConfig) *)
Record MCfg := mkMCfg {
  m_mode : Mode;                  (* matching mode of get_object_results *)
  m_policy : Policy;              (* matching_label_policy *)
  m_fpv : bool;                   (* evaluation task is FP validation *)
  m_radii : option (list Q);      (* max_matchable_radii *)
  m_det : Det;                    (* MetricsScoreConfig: target labels, detection threshold lists *)
  m_trk : TP.tcfg                 (* tracking threshold lists *)
}.

(* evaluator_config.target_labels = metrics_config.target_labels = detection / tracking config target labels *)
Definition m_targets (mc : MCfg) : list nat := d_targets (m_det mc).

(* the facts the tracking view needs on top of Facts / Tables *)
Record TrackFacts := mkTF {
  tf_est : list nat; tf_gt : list nat;
  tf_iou2d : list (list (option Q)); tf_iou3d : list (list (option Q))
}.

(* adapter 3: one object result of the detection model as an object result of the tracking model *)
Definition pres_of (F : Facts) (T : Tables) (X : TrackFacts) (r : Res) : option TP.pres :=
  match nth_error (tf_est X) (est_id r) with
  | None => None
  | Some ue =>
      match r_gt r with
      | None => Some (TP.mkPR ue (o_label (r_est r)) None)
      | Some g =>
          match nth_error (tf_gt X) (o_id g),
                center_v F (est_id r) (o_id g), cell2 (tf_iou2d X) (est_id r) (o_id g),
                cell2 (tf_iou3d X) (est_id r) (o_id g), plane_v T (est_id r) (o_id g) with
          | Some ug, Some c, Some i2, Some i3, Some pl =>
              Some (TP.mkPR ue (o_label (r_est r))
                      (Some (TP.mkPG ug (o_label g) (lbl_is_fp (o_label g)) (r_label_ok r) c i2 i3 pl)))
          | _, _, _, _, _ => None
          end
      end
  end.

(* the frame result as the tracking model keeps it: critical target labels, surviving object results,
   labels of the critical ground truths *)
Definition view_of (F : Facts) (T : Tables) (X : TrackFacts) (cts : list nat) (fr : Frame) : option TP.pfr :=
  match TP.all_some (map (pres_of F T X) (f_results fr)) with
  | Some rs => Some (TP.mkF cts rs (map o_label (f_gts fr)))
  | None => None
  end.

(* Core: what one evaluation leaves behind (PerceptionFrameResult): the outcome of Pipeline.add_frame_result
   (object results after the critical filter, critical ground truths, TP/FP/TN/FN, the frame's Maps -- or the
   exception), the pair facts its object results give access to (get_matching(mode).value and the heading
   weight are recomputed from the objects whenever a score is built), and the tracking view *)
Record CCore := mkCore {
  k_out : outcome;
  k_F : Facts;
  k_T : Tables;
  k_view : option TP.pfr
}.

Definition facts_of (mc : MCfg) (f : CFrame) (e : CEsts) : Facts :=
  scene_facts (m_targets mc) (m_radii mc) (e_frame e) (g_frame f) (e_value e) (e_same e) (e_objs e) (g_objs f).

Definition track_facts_of (f : CFrame) (e : CEsts) : TrackFacts :=
  mkTF (e_track e) (g_track f) (e_iou2d e) (e_iou3d e).

(* G *)
Definition cG (mc : MCfg) (f : CFrame) (e : CEsts) (c : CCfg) : CCore :=
  let F := facts_of mc f e in
  let T := e_tables e in
  let out := add_frame_result (m_mode mc) (m_policy mc) (m_fpv mc) F T (e_objs e) (g_objs f)
                              (cc_crit c) (cc_pf c) (m_det mc) in
  mkCore out F T
    (match out, c_targets (cc_crit c) with
     | Done fr _ _, Some cts => view_of F T (track_facts_of f e) cts fr
     | _, _ => None
     end).

(* W: the ground-truth frame after the critical filter (what the no-copy variant writes onto the dataset) *)
Definition cW (mc : MCfg) (f : CFrame) (e : CEsts) (c : CCfg) : CFrame :=
  match k_out (cG mc f e c) with
  | Done fr _ _ => mkCFrame (f_gts fr) (g_frame f) (g_track f)
  | _ => f
  end.

(* Track: metrics_score.tracking_scores of the frame *)
Inductive CTrack :=
| TrackScores (s : option TP.scores)    (* TrackingPipeline.frame_tracking (None: a KeyError inside it) *)
| TrackNone                             (* the evaluation raised, or the frame has no tracking view *)
| TrackPredRaised.                      (* adapter 4: the Core handed in as predecessor is not an appended frame *)

(* T: by construction a function of the predecessor's and the current frame's tracking views only *)
Definition cT (mc : MCfg) (prev : option CCore) (cur : CCore) : CTrack :=
  match k_view cur with
  | None => TrackNone
  | Some p =>
      match prev with
      | None => TrackScores (TP.frame_tracking (m_targets mc) (m_trk mc) None p)
      | Some pc =>
          match k_view pc with
          | Some q => TrackScores (TP.frame_tracking (m_targets mc) (m_trk mc) (Some q) p)
          | None => TrackPredRaised
          end
      end
  end.

(* ------------------------------------------------------------------------------------------------ *)
(* get_scene_result                                                                                  *)
(* ------------------------------------------------------------------------------------------------ *)
Definition is_done (c : CCore) : bool := match k_out c with Done _ _ _ => true | _ => false end.
(* self.frame_results: an evaluation that raised never got appended (adapter 4) *)
Definition appended (cs : list CCore) : list CCore := filter is_done cs.

Definition core_results (c : CCore) : list Res := match k_out c with Done fr _ _ => f_results fr | _ => [] end.
Definition core_gts (c : CCore) : list Obj := match k_out c with Done fr _ _ => f_gts fr | _ => [] end.
Definition core_labels (c : CCore) : list nat := map o_label (core_gts c).

(* which matching value / which TP weight an Ap reads *)
Inductive vsel := VCenter | VPlane.
Inductive wsel := WAp | WAph.
Definition core_v (vs : vsel) (c : CCore) : nat -> nat -> option Q :=
  match vs with VCenter => center_v (k_F c) | VPlane => plane_v (k_T c) end.
Definition core_w (ws : wsel) (c : CCore) : nat -> nat -> Q :=
  match ws with WAp => unit_w | WAph => heading_w (k_T c) end.
(* what Ap / Aph reads from the object results of one frame *)
Definition core_lres (vs : vsel) (ws : wsel) (c : CCore) : list AP.lres :=
  map (lres_of (core_v vs c) (core_w ws c)) (core_results c).

(* all_num_gt[L]: starts at 0, `+= num_gt_dict[L]` per frame *)
Definition scene_num (L : nat) (fs : list CCore) : nat :=
  fold_left (fun n c => (n + AP.count_label L (core_labels c))%nat) fs 0%nat.

(* all_frame_results[L]: starts as [[]], the frame's bucket appended per frame; Ap flattens the nesting and
   applies get_label_threshold with its single label (AP.label_results = bucket + threshold) *)
Definition scene_bucket (tl : list nat) (vs : vsel) (ws : wsel) (fs : list CCore) (Lt : nat * Q) : list AP.res :=
  List.concat ([] :: map (fun c => AP.label_results tl (fst Lt) (snd Lt) (core_lres vs ws c)) fs).

Definition scene_ap (tl : list nat) (vs : vsel) (ws : wsel) (fs : list CCore) (Lt : nat * Q) : AP.ap_result :=
  AP.ap_model AP.Minimize (scene_num (fst Lt) fs) (scene_bucket tl vs ws fs Lt).

(* Map(all_frame_results, all_num_gt, target_labels, mode, thresholds) *)
Definition scene_map (tl : list nat) (vs : vsel) (fs : list CCore) (thrs : list Q) : MapOut :=
  let lts := combine tl thrs in
  let aps := map (scene_ap tl vs WAp fs) lts in
  let aphs := map (scene_ap tl vs WAph fs) lts in
  mkMapOut (map (fun Lt => scene_num (fst Lt) fs) lts) aps aphs
           (AP.mean_defined (map AP.ap aps)) (AP.mean_defined (map AP.ap aphs)).

Record CScene := mkScene {
  sc_center : list MapOut;                       (* centre-distance Maps *)
  sc_plane : list MapOut;                        (* plane-distance Maps *)
  sc_tracking : option (option TP.scores)        (* outer None: an appended frame without tracking view (adapter 3) *)
}.

(* Sc.  FP validation has no detection_config: no Maps, in the frame (Pipeline.add_frame_result) and in the scene *)
Definition cSc (mc : MCfg) (cs : list CCore) : CScene :=
  let fs := appended cs in
  let tl := m_targets mc in
  mkScene
    (if m_fpv mc then [] else map (scene_map tl VCenter fs) (d_center (m_det mc)))
    (if m_fpv mc then [] else map (scene_map tl VPlane fs) (d_plane (m_det mc)))
    (match TP.all_some (map k_view fs) with
     | Some ps => Some (TP.scene_tracking tl (m_trk mc) ps)
     | None => None
     end).

(* ------------------------------------------------------------------------------------------------ *)
(* the concrete machine = Manager.step / Manager.run at these instances                              *)
(* ------------------------------------------------------------------------------------------------ *)
Definition cop := Manager.op CEsts CCfg.
Definition cout := Manager.out CCore CTrack CScene.
Definition cstate := Manager.state CFrame CCore.

Definition concrete_init (d : list CFrame) : cstate := Manager.init CFrame CCore d.

Definition concrete_step (mc : MCfg) (copy_first : bool) (s : cstate) (o : cop) : cstate * cout :=
  Manager.step CFrame CEsts CCfg CCore CTrack CScene (cG mc) (cW mc) (cT mc) (cSc mc) copy_first s o.

Definition concrete_run (mc : MCfg) (copy_first : bool) (s : cstate) (ops : list cop) : cstate * list cout :=
  Manager.run CFrame CEsts CCfg CCore CTrack CScene (cG mc) (cW mc) (cT mc) (cSc mc) copy_first s ops.

(* the history-independent specification at these instances *)
Definition concrete_cores (mc : MCfg) (d : list CFrame) (ops : list cop) : list CCore :=
  Manager.cores CFrame CEsts CCfg CCore (cG mc) d ops.

Definition concrete_spec_out (mc : MCfg) (d : list CFrame) (before : list cop) (o : cop) : cout :=
  Manager.spec_out CFrame CEsts CCfg CCore CTrack CScene (cG mc) (cT mc) (cSc mc) d before o.

Definition concrete_spec_outs (mc : MCfg) (d : list CFrame) (before ops : list cop) : list cout :=
  Manager.spec_outs CFrame CEsts CCfg CCore CTrack CScene (cG mc) (cT mc) (cSc mc) d before ops.

(* ------------------------------------------------------------------------------------------------ *)
(* vocabulary of the statements                                                                      *)
(* ------------------------------------------------------------------------------------------------ *)
(* the tracking scores answered by the FrameOut's of a run, in order *)
Definition track_outs (outs : list cout) : list CTrack :=
  flat_map (fun o => match o with Manager.FrameOut _ tr => [tr] | _ => [] end) outs.

(* same membership: divide_objects only asks `label in target_labels` *)
Definition same_members (a b : list nat) : Prop :=
  forall l, existsb (Nat.eqb l) a = existsb (Nat.eqb l) b.

(* the confidences the scene Aps rank by: those of the estimates of the appended frames' object results *)
Definition scene_confs (cs : list CCore) : list Q :=
  List.concat (map (fun c => map (fun r => o_conf (r_est r)) (core_results c)) (appended cs)).

Fixpoint sum_nat (l : list nat) : nat := match l with [] => 0%nat | x :: t => (x + sum_nat t)%nat end.

(* when the tracking view exists (adapter 3): every estimate and ground truth has an interned uuid and every
   estimate x ground-truth cell of the four value tables holds a number *)
Definition table_complete (t : list (list (option Q))) (n m : nat) : Prop :=
  forall e g, (e < n)%nat -> (g < m)%nat -> exists v, cell2 t e g = Some v.

Definition track_inputs_ok (f : CFrame) (e : CEsts) : Prop :=
  let n := List.length (e_objs e) in
  let m := List.length (g_objs f) in
  List.length (e_track e) = n /\ List.length (g_track f) = m /\
  table_complete (e_value e) n m /\ table_complete (t_plane (e_tables e)) n m /\
  table_complete (e_iou2d e) n m /\ table_complete (e_iou3d e) n m.

Definition table_completeb (t : list (list (option Q))) (n m : nat) : bool :=
  forallb (fun e => forallb (fun g => match cell2 t e g with Some _ => true | None => false end) (seq 0 m)) (seq 0 n).

Definition track_inputs_okb (f : CFrame) (e : CEsts) : bool :=
  let n := List.length (e_objs e) in
  let m := List.length (g_objs f) in
  Nat.eqb (List.length (e_track e)) n && Nat.eqb (List.length (g_track f)) m &&
  table_completeb (e_value e) n m && table_completeb (t_plane (e_tables e)) n m &&
  table_completeb (e_iou2d e) n m && table_completeb (e_iou3d e) n m.
