(* Model of perception_eval/evaluation/matching/objects_filter.py:
     _is_target_object (l.461-601), filter_objects (l.131-202), filter_object_results (l.37-128),
   with common/threshold.py get_label_threshold and common/label.py Label.contains_any.
   Definitions only; proofs are in Proofs/FilterProofs.v.

   Objects are *facts* read through public getters (see harness/props/C10.py):
   label id, name/attributes, confidence, uuid, frame, ego-relative x / y / planar distance
   (after the transform the code applies), point count.  Python exceptions are explicit
   results ([ErrType] = comparison with None, [ErrIndex] = threshold list too short). *)
From Coq Require Import List Bool ZArith String Arith.
From PE Require Import Base.QUtil.
Import ListNotations.
Open Scope Q_scope.

(* ---- label ids.  The harness numbers the members of each label family so that UNKNOWN and FP
   have fixed ids (AutowareLabel: 0, 1; TrafficLightLabel: 100, 101); every other member gets its
   own id.  CommonLabel.UNKNOWN / CommonLabel.FP compare equal to the member of either family. *)
Definition lbl_is_unknown (l : nat) : bool := Nat.eqb l 0 || Nat.eqb l 100.
Definition lbl_is_fp (l : nat) : bool := Nat.eqb l 1 || Nat.eqb l 101.

(* ---- results of partial Python operations *)
Inductive res (A : Type) : Type :=
| Ok (a : A)
| ErrType      (* TypeError: `x < None`, `None >= n` *)
| ErrIndex.    (* IndexError: threshold_list[label_index] *)
Arguments Ok {A} a.
Arguments ErrType {A}.
Arguments ErrIndex {A}.

Definition bind {A B} (r : res A) (f : A -> res B) : res B :=
  match r with Ok a => f a | ErrType => ErrType | ErrIndex => ErrIndex end.

(* ---- facts about one object *)
Record Obj := mkObj {
  o_id : nat;                   (* identity: index in the caller's list *)
  o_label : nat;                (* semantic_label.label *)
  o_name : string;              (* semantic_label.name *)
  o_attrs : list string;        (* semantic_label.attributes *)
  o_conf : Q;                   (* semantic_score *)
  o_uuid : option string;       (* uuid *)
  o_base : bool;                (* frame_id == FrameID.BASE_LINK *)
  o_pos : option (Q * Q * Q);   (* state.position is not None: ego-relative x, y, get_distance_bev *)
  o_points : option Z;          (* pointcloud_num *)
  o_key : nat                   (* class of DynamicObject.__eq__ (time, label, position, orientation); used by C03 *)
}.

(* ---- filtering parameters (None = argument not given) *)
Record Cfg := mkCfg {
  c_targets : option (list nat);
  c_ignore : option (list string);
  c_max_x : option (list Q);
  c_max_y : option (list Q);
  c_max_dist : option (list Q);
  c_min_dist : option (list Q);
  c_min_pts : option (list Z);
  c_conf : option (list Q);
  c_uuids : option (list string)
}.

(* ---- small list helpers mirroring `in` / list.index *)
Fixpoint mem_nat (x : nat) (l : list nat) : bool :=
  match l with [] => false | y :: t => Nat.eqb x y || mem_nat x t end.

Fixpoint index_of (x : nat) (l : list nat) : option nat :=
  match l with
  | [] => None
  | y :: t => if Nat.eqb x y then Some O else match index_of x t with Some i => Some (S i) | None => None end
  end.

Fixpoint mem_str (x : string) (l : list string) : bool :=
  match l with [] => false | y :: t => String.eqb x y || mem_str x t end.

(* Python `key in name` for str: substring search ("" is contained in every string) *)
Fixpoint is_substring (k s : string) : bool :=
  String.prefix k s || match s with EmptyString => false | String _ t => is_substring k t end.

(* Label.contains / contains_any *)
Definition contains (o : Obj) (key : string) : bool := is_substring key (o_name o) || mem_str key (o_attrs o).
Definition contains_any (o : Obj) (keys : list string) : bool := existsb (contains o) keys.

(* np.mean: nan (None) for the empty list *)
Definition qmean (l : list Q) : option Q :=
  match l with [] => None | _ => Some (qsum l / Qnat (List.length l)) end.

(* get_label_threshold followed by its use in a comparison:
   None (no target list / label not a target) makes the comparison raise TypeError,
   a list shorter than the label's index raises IndexError *)
Definition label_thr {A} (c : Cfg) (o : Obj) (l : list A) : res A :=
  match c_targets c with
  | None => ErrType
  | Some ts =>
      match index_of (o_label o) ts with
      | None => ErrType
      | Some i => match nth_error l i with Some v => Ok v | None => ErrIndex end
      end
  end.

(* the bound used for position/distance tests: mean of the list for "unknown-threshold" estimates *)
Definition num_thr (uut : bool) (c : Cfg) (o : Obj) (l : list Q) : res (option Q) :=
  if uut then Ok (qmean l) else bind (label_thr c o l) (fun v => Ok (Some v)).

(* `if is_target and lst is not None: is_target = is_target and test(threshold)`;
   a nan threshold (Ok None) makes the comparison False *)
Definition step {A} (t : bool) (lst : option (list A)) (thr : list A -> res (option A)) (test : A -> bool) : res bool :=
  if t then
    match lst with
    | None => Ok true
    | Some l =>
        match thr l with
        | Ok (Some v) => Ok (test v)
        | Ok None => Ok false
        | ErrType => ErrType
        | ErrIndex => ErrIndex
        end
    end
  else Ok false.

(* the three position branches of _is_target_object (l.549-556) *)
Definition position_of (tf : bool) (o : Obj) : option (Q * Q * Q) :=
  if negb tf && o_base o then o_pos o          (* no transforms, object already in BASE_LINK *)
  else if tf then o_pos o                      (* position is not None and transforms given *)
  else None.                                   (* bounds and point count are skipped *)

Definition is_contained_unknown (c : Cfg) : bool :=
  match c_targets c with Some ts => existsb lbl_is_unknown ts | None => false end.

Definition use_unknown_threshold (c : Cfg) (is_gt : bool) (o : Obj) : bool :=
  (lbl_is_unknown (o_label o) && negb is_gt) && negb (is_contained_unknown c).

(* `confidence_threshold_list is not None and not is_gt`: the confidence list filters estimates only *)
Definition conf_list (c : Cfg) (is_gt : bool) : option (list Q) := if is_gt then None else c_conf c.

Definition uuid_step (c : Cfg) (is_gt : bool) (o : Obj) (t : bool) : bool :=
  if t then
    match c_uuids c with
    | Some us => if is_gt then match o_uuid o with Some u => mem_str u us | None => false end else true
    | None => true
    end
  else false.

Definition points_step (uut : bool) (c : Cfg) (is_gt : bool) (o : Obj) (t : bool) : res bool :=
  if t then
    match c_min_pts c with
    | Some l =>
        if is_gt then
          bind (if uut then Ok 0%Z else label_thr c o l) (fun n =>
          match o_points o with
          | Some p => Ok (Z.leb n p)           (* pointcloud_num >= min_point_number *)
          | None => ErrType
          end)
        else Ok true
    | None => Ok true
    end
  else Ok false.

Definition is_target (c : Cfg) (tf is_gt : bool) (o : Obj) : res bool :=
  if lbl_is_fp (o_label o) then Ok true else
  let uut := use_unknown_threshold c is_gt o in
  let t1 := match c_targets c with
            | Some (t0 :: ts) => if uut then true else mem_nat (o_label o) (t0 :: ts)
            | _ => true
            end in
  let t2 := match c_ignore c with
            | Some ks => if uut then t1 else t1 && negb (contains_any o ks)
            | None => t1
            end in
  bind (step t2 (conf_list c is_gt)
          (fun l => if uut then Ok (Some 0) else bind (label_thr c o l) (fun v => Ok (Some v)))
          (fun thr => Qltb thr (o_conf o))) (fun t3 =>
  match position_of tf o with
  | Some (x, y, d) =>
      bind (step t3 (c_max_x c) (num_thr uut c o) (fun b => Qltb (qabs x) b)) (fun t4 =>
      bind (step t4 (c_max_y c) (num_thr uut c o) (fun b => Qltb (qabs y) b)) (fun t5 =>
      bind (step t5 (c_max_dist c) (num_thr uut c o) (fun b => Qltb d b)) (fun t6 =>
      bind (step t6 (c_min_dist c) (num_thr uut c o) (fun b => Qltb b d)) (fun t7 =>
      bind (points_step uut c is_gt o t7) (fun t8 =>
      Ok (uuid_step c is_gt o t8))))))
  | None => Ok (uuid_step c is_gt o t3)
  end).

(* the loop of filter_objects / filter_object_results: first exception aborts the call *)
Fixpoint filter_res {A} (p : A -> res bool) (l : list A) : res (list A) :=
  match l with
  | [] => Ok []
  | a :: t => bind (p a) (fun b => bind (filter_res p t) (fun t' => Ok (if b then a :: t' else t')))
  end.

Definition filter_objects (c : Cfg) (tf is_gt : bool) (l : list Obj) : res (list Obj) :=
  filter_res (is_target c tf is_gt) l.

(* ---- object results *)
Record Res := mkRes {
  r_est : Obj;
  r_gt : option Obj;
  r_label_ok : bool;        (* is_label_correct (matching_label_policy.is_matchable) *)
  r_score : option Q        (* pass/fail matching score (plane distance), None without ground truth *)
}.

(* arguments filter_object_results forwards for the estimate / for the ground truth *)
Definition est_side (c : Cfg) : Cfg :=
  mkCfg (c_targets c) None (c_max_x c) (c_max_y c) (c_max_dist c) (c_min_dist c) None (c_conf c) None.
Definition gt_side (c : Cfg) : Cfg :=
  mkCfg (c_targets c) (c_ignore c) (c_max_x c) (c_max_y c) (c_max_dist c) (c_min_dist c) (c_min_pts c) None (c_uuids c).

Definition uuids_nonempty (c : Cfg) : bool :=
  match c_uuids c with Some (_ :: _) => true | _ => false end.

Definition result_target (c : Cfg) (tf : bool) (r : Res) : res bool :=
  bind (is_target (est_side c) tf false (r_est r)) (fun e =>
  match r_gt r with
  | Some g => if e then is_target (gt_side c) tf true g else Ok false
  | None => Ok (e && negb (uuids_nonempty c))
  end).

Definition filter_object_results (c : Cfg) (tf : bool) (rs : list Res) : res (list Res) :=
  filter_res (result_target c tf) rs.

(* ================= declarative specification ================= *)

(* the entry of a per-label list at the position of the object's label in the target list *)
Definition bound_for {A} (c : Cfg) (o : Obj) (l : list A) : option A :=
  match c_targets c with
  | Some ts => match index_of (o_label o) ts with Some i => nth_error l i | None => None end
  | None => None
  end.

Definition holds {A} (ob : option A) (test : A -> bool) : bool :=
  match ob with Some b => test b | None => false end.

(* a criterion that is only applied when its list is configured *)
Definition when {A} (lst : option A) (f : A -> bool) : bool :=
  match lst with Some l => f l | None => true end.

Definition targeted (c : Cfg) (o : Obj) : bool :=
  match c_targets c with Some (t0 :: ts) => mem_nat (o_label o) (t0 :: ts) | _ => true end.

Definition ignored (c : Cfg) (o : Obj) : bool :=
  match c_ignore c with Some ks => contains_any o ks | None => false end.

(* position / distance criteria against a bound selector [sel] *)
Definition in_range (c : Cfg) (sel : list Q -> option Q) (p : Q * Q * Q) : bool :=
  let '(x, y, d) := p in
  when (c_max_x c) (fun l => holds (sel l) (fun b => Qltb (qabs x) b)) &&
  when (c_max_y c) (fun l => holds (sel l) (fun b => Qltb (qabs y) b)) &&
  when (c_max_dist c) (fun l => holds (sel l) (fun b => Qltb d b)) &&
  when (c_min_dist c) (fun l => holds (sel l) (fun b => Qltb b d)).

Definition points_ok (c : Cfg) (is_gt : bool) (o : Obj) : bool :=
  negb is_gt ||
  when (c_min_pts c) (fun l => holds (bound_for c o l) (fun n => holds (o_points o) (fun p => Z.leb n p))).

Definition uuid_ok (c : Cfg) (is_gt : bool) (o : Obj) : bool :=
  negb is_gt || when (c_uuids c) (fun us => holds (o_uuid o) (fun u => mem_str u us)).

(* THE keep predicate *)
Definition kept (c : Cfg) (tf is_gt : bool) (o : Obj) : bool :=
  lbl_is_fp (o_label o) ||
  (if use_unknown_threshold c is_gt o then
     (* unknown-labelled estimate while unknown is not a target: confidence above 0, mean bounds *)
     when (conf_list c is_gt) (fun _ => Qltb 0 (o_conf o)) &&
     when (position_of tf o) (in_range c qmean)
   else
     targeted c o && negb (ignored c o) &&
     when (conf_list c is_gt) (fun l => holds (bound_for c o l) (fun thr => Qltb thr (o_conf o))) &&
     when (position_of tf o) (fun p => in_range c (bound_for c o) p && points_ok c is_gt o) &&
     uuid_ok c is_gt o).

Definition result_kept (c : Cfg) (tf : bool) (r : Res) : bool :=
  kept (est_side c) tf false (r_est r) &&
  match r_gt r with
  | Some g => kept (gt_side c) tf true g
  | None => negb (uuids_nonempty c)
  end.

(* well-formed parameters: every per-label list present comes with a non-empty target list of the
   same length (what CriticalObjectFilterConfig / the manager config construct via check_thresholds) *)
Definition len_ok {A} (c : Cfg) (lst : option (list A)) : Prop :=
  forall l, lst = Some l -> exists ts, c_targets c = Some ts /\ ts <> [] /\ List.length l = List.length ts.

Definition wf_cfg (c : Cfg) : Prop :=
  len_ok c (c_max_x c) /\ len_ok c (c_max_y c) /\ len_ok c (c_max_dist c) /\ len_ok c (c_min_dist c) /\
  len_ok c (c_min_pts c) /\ len_ok c (c_conf c).

(* ground truth carries a point count whenever a point-count bound is applied to it *)
Definition obj_ok (c : Cfg) (is_gt : bool) (o : Obj) : Prop :=
  is_gt = true -> c_min_pts c <> None -> o_points o <> None.

(* order-preserving sub-list *)
Inductive Sublist {A} : list A -> list A -> Prop :=
| SL_nil : Sublist [] []
| SL_skip : forall a l1 l2, Sublist l1 l2 -> Sublist l1 (a :: l2)
| SL_keep : forall a l1 l2, Sublist l1 l2 -> Sublist (a :: l1) (a :: l2).

(* pointwise widening of the bounds: a bound may be removed, max-bounds may grow,
   min-bounds / confidence / point-count thresholds may shrink *)
Definition wider_list {A} (le : A -> A -> Prop) (a b : option (list A)) : Prop :=
  match a, b with
  | _, None => True
  | Some l, Some l' => Forall2 le l l'
  | None, Some _ => False
  end.

Definition wider (c c' : Cfg) : Prop :=
  c_targets c' = c_targets c /\ c_ignore c' = c_ignore c /\ c_uuids c' = c_uuids c /\
  wider_list Qle (c_max_x c) (c_max_x c') /\
  wider_list Qle (c_max_y c) (c_max_y c') /\
  wider_list Qle (c_max_dist c) (c_max_dist c') /\
  wider_list (fun a b => b <= a) (c_min_dist c) (c_min_dist c') /\
  wider_list (fun a b => (b <= a)%Z) (c_min_pts c) (c_min_pts c') /\
  wider_list (fun a b => b <= a) (c_conf c) (c_conf c').

(* bounds and point-count threshold removed: what the third position branch amounts to *)
Definition without_bounds (c : Cfg) : Cfg :=
  mkCfg (c_targets c) (c_ignore c) None None None None None (c_conf c) (c_uuids c).

(* ================= checks used by the correspondence (harness/props/C10.py) ================= *)
Definition ids (l : list Obj) : list nat := map o_id l.

Fixpoint nat_list_eqb (a b : list nat) : bool :=
  match a, b with
  | [], [] => true
  | x :: s, y :: t => Nat.eqb x y && nat_list_eqb s t
  | _, _ => false
  end.

(* expected: Ok kept-ids | ErrType | ErrIndex as observed on the implementation *)
Definition res_ids_eqb (m : res (list nat)) (e : res (list nat)) : bool :=
  match m, e with
  | Ok a, Ok b => nat_list_eqb a b
  | ErrType, ErrType => true
  | ErrIndex, ErrIndex => true
  | _, _ => false
  end.

Definition map_res {A B} (f : A -> B) (r : res A) : res B := bind r (fun a => Ok (f a)).

Definition check_filter_objects (c : Cfg) (tf is_gt : bool) (l : list Obj) (expected : res (list nat)) : bool :=
  res_ids_eqb (map_res ids (filter_objects c tf is_gt l)) expected.

(* results are identified by the id of their estimate *)
Definition check_filter_results (c : Cfg) (tf : bool) (rs : list Res) (expected : res (list nat)) : bool :=
  res_ids_eqb (map_res (map (fun r => o_id (r_est r))) (filter_object_results c tf rs)) expected.

(* the getters is_fp() / is_unknown() agree with the label ids *)
Definition check_label_flags (o : Obj) (is_fp is_unknown : bool) : bool :=
  Bool.eqb (lbl_is_fp (o_label o)) is_fp && Bool.eqb (lbl_is_unknown (o_label o)) is_unknown.
