(* Model of the dataset loader (C16):
     perception_eval/common/dataset.py        load_all_datasets, _load_dataset, _get_sample_tokens
     perception_eval/common/dataset_utils.py  _sample_to_frame, _convert_nuscenes_box_to_dynamic_object,
                                              _get_sample_boxes, _get_transforms, _get_tracking_data
   and of the parts of nuscenes-devkit 1.2.0 they call (modelled from reading its source):
     NuScenes.__init__ / __make_reverse_index__ / get / get_sample_data / get_boxes / get_box,
     Box.translate / Box.rotate, PredictHelper.__init__ / get_past_for_agent / _iterate.

   A dataset is ten tables (lists of records, in the order of the JSON files); tokens are strings,
   timestamps are integers (microseconds), numbers are rationals, rotations are quaternions
   (w, x, y, z) from Model/Transform.v.  Python exceptions are explicit ([Err]).

   What is simplified (all stated as hypotheses of the theorems or in the harness metadata):
     - `get(table, token)` returns the record at the LAST index carrying the token (the dict
       `_token2ind` is overwritten); the reverse indices `sample['data']`, `sample['anns']` and
       PredictHelper's `(sample, instance) -> annotation` map are modelled by token equality,
       which is what the devkit does when tokens are unique (the well-formedness hypothesis);
     - `Quaternion.inverse` is the conjugate (exact for unit quaternions, the devkit divides by the
       squared norm); pyquaternion's silent re-normalisation of non-unit quaternions is not modelled;
     - camera sample_data (box_in_image filtering) and the averaged traffic-light camera transform
       (needs a square root) are [Err Unmodelled]; velocities and raw data are not modelled;
     - float time arithmetic of PredictHelper (`abs(t1 - t0) / 1e6 < 3.0 + 0.15`) is the integer
       comparison `|t1 - t0| < 3150000` (both sides are exact for integer microseconds: checked by
       the correspondence at 3149999 / 3150000 / 3150001).
   Definitions only; proofs are in Proofs/DatasetProofs.v. *)
From Coq Require Import QArith ZArith List String Bool Arith DecimalString.
From PE Require Import Base.QUtil Base.CaseUtil Base.StrUtil Model.EnumParse Gen.Enums Gen.LabelTables
                       Model.Label Model.Transform.
Import ListNotations.
Open Scope string_scope.

(* ------------------------------------------------------------------------------------------ *)
(* the tables                                                                                   *)
(* ------------------------------------------------------------------------------------------ *)
Record sample := mkSample { s_token : string; s_timestamp : Z; s_prev : string; s_next : string }.
Record sample_data := mkSD { sd_token : string; sd_sample : string; sd_ego : string; sd_cs : string; sd_key : bool }.
Record ego_pose := mkEgo { e_token : string; e_rot : quat; e_trans : vec3 }.
Record calibrated_sensor := mkCS { cs_token : string; cs_sensor : string; cs_rot : quat; cs_trans : vec3 }.
Record sensor := mkSensor { sn_token : string; sn_channel : string; sn_modality : string }.
(* [a_size] is the devkit's (width, length, height) as (vx, vy, vz) *)
Record annotation := mkAnn {
  a_token : string; a_sample : string; a_instance : string; a_vis : string; a_attrs : list string;
  a_trans : vec3; a_size : vec3; a_rot : quat; a_prev : string; a_next : string; a_pts : Z }.
Record instance := mkInst { i_token : string; i_category : string }.
Record category := mkCat { c_token : string; c_name : string }.
Record attribute := mkAttr { at_token : string; at_name : string }.
Record visibility := mkVis { v_token : string; v_level : string }.

Record dataset := mkDataset {
  samples : list sample;
  sample_datas : list sample_data;
  ego_poses : list ego_pose;
  calibs : list calibrated_sensor;
  sensors : list sensor;
  anns : list annotation;
  instances : list instance;
  categories : list category;
  attributes : list attribute;
  visibilities : list visibility }.

(* ------------------------------------------------------------------------------------------ *)
(* results with exceptions                                                                      *)
(* ------------------------------------------------------------------------------------------ *)
Inductive error := KeyError | ValueError | DatasetLoadingError | Unmodelled | OutOfFuel.
Inductive res (A : Type) := Ok (x : A) | Err (e : error).
Arguments Ok {A} x.
Arguments Err {A} e.

Definition bind {A B} (r : res A) (f : A -> res B) : res B :=
  match r with Ok x => f x | Err e => Err e end.
Notation "x <- r ;; k" := (bind r (fun x => k)) (at level 61, r at next level, right associativity).

Fixpoint mapM {A B} (f : A -> res B) (l : list A) : res (list B) :=
  match l with
  | [] => Ok []
  | x :: t => y <- f x ;; ys <- mapM f t ;; Ok (y :: ys)
  end.

(* NuScenes.get(table, token): the record at the last index with that token; KeyError if none *)
Section Get.
  Context {A : Type} (tok : A -> string).
  Fixpoint get_last (l : list A) (k : string) : option A :=
    match l with
    | [] => None
    | x :: t => match get_last t k with
                | Some y => Some y
                | None => if String.eqb (tok x) k then Some x else None
                end
    end.
  Definition get (l : list A) (k : string) : res A :=
    match get_last l k with Some x => Ok x | None => Err KeyError end.
End Get.

Definition get_sample (d : dataset) := get s_token (samples d).
Definition get_sd (d : dataset) := get sd_token (sample_datas d).
Definition get_ego (d : dataset) := get e_token (ego_poses d).
Definition get_cs (d : dataset) := get cs_token (calibs d).
Definition get_sensor (d : dataset) := get sn_token (sensors d).
Definition get_ann (d : dataset) := get a_token (anns d).
Definition get_instance (d : dataset) := get i_token (instances d).
Definition get_category (d : dataset) := get c_token (categories d).
Definition get_attribute (d : dataset) := get at_token (attributes d).
Definition get_visibility (d : dataset) := get v_token (visibilities d).

(* ------------------------------------------------------------------------------------------ *)
(* NuScenes.__make_reverse_index__                                                              *)
(* ------------------------------------------------------------------------------------------ *)
(* record['category_name'] = get('category', get('instance', record['instance_token'])['category_token'])['name'] *)
Definition category_name (d : dataset) (a : annotation) : res string :=
  inst <- get_instance d (a_instance a) ;;
  cat <- get_category d (i_category inst) ;;
  Ok (c_name cat).

(* record['channel'], record['sensor_modality'] of a sample_data *)
Definition channel_of (d : dataset) (sd : sample_data) : res (string * string) :=
  cs <- get_cs d (sd_cs sd) ;;
  sn <- get_sensor d (cs_sensor cs) ;;
  Ok (sn_channel sn, sn_modality sn).

Record index := mkIndex {
  ix_anns : list (annotation * string);                 (* annotation, category_name *)
  ix_sds : list (sample_data * (string * string)) }.    (* sample_data, (channel, modality) *)

Definition make_index (d : dataset) : res index :=
  das <- mapM (fun a => n <- category_name d a ;; Ok (a, n)) (anns d) ;;
  dsd <- mapM (fun sd => c <- channel_of d sd ;; Ok (sd, c)) (sample_datas d) ;;
  (* sample['data'] / sample['anns']: every key-frame sample_data and every annotation must
     name an existing sample *)
  _ <- mapM (fun sd => if sd_key sd then get_sample d (sd_sample sd) else Ok (mkSample "" 0 "" ""))
            (sample_datas d) ;;
  _ <- mapM (fun a => get_sample d (a_sample a)) (anns d) ;;
  Ok (mkIndex das dsd).

(* sample['data'][chan]: key frames only; a later sample_data of the same channel replaces an earlier one *)
Fixpoint find_data (l : list (sample_data * (string * string))) (stok chan : string)
                   (acc : option (sample_data * string)) : option (sample_data * string) :=
  match l with
  | [] => acc
  | (sd, (ch, md)) :: t =>
      find_data t stok chan
        (if sd_key sd && String.eqb (sd_sample sd) stok && String.eqb ch chan then Some (sd, md) else acc)
  end.

(* the loader's choice: sample["data"]["LIDAR_TOP"] if present, else sample["data"]["LIDAR_CONCAT"] *)
Definition lidar_sd (ix : index) (s : sample) : option (sample_data * string) :=
  match find_data (ix_sds ix) (s_token s) "LIDAR_TOP" None with
  | Some x => Some x
  | None => find_data (ix_sds ix) (s_token s) "LIDAR_CONCAT" None
  end.

(* specification vocabulary: the annotations of a sample, in the order of the sample_annotation table *)
Definition annotations_of (d : dataset) (s : sample) : list annotation :=
  filter (fun a => String.eqb (a_sample a) (s_token s)) (anns d).

(* sample['anns'] resolved: the sample's annotations in the order of the sample_annotation table *)
Definition sample_anns (ix : index) (stok : string) : list (annotation * string) :=
  filter (fun an => String.eqb (a_sample (fst an)) stok) (ix_anns ix).

(* ------------------------------------------------------------------------------------------ *)
(* boxes                                                                                        *)
(* ------------------------------------------------------------------------------------------ *)
Inductive frame_id := BaseLink | MapFrame.
Inductive task := Detection | Tracking | Sensing.

Definition frame_id_eqb (a b : frame_id) : bool :=
  match a, b with BaseLink, BaseLink => true | MapFrame, MapFrame => true | _, _ => false end.
Definition task_eqb (a b : task) : bool :=
  match a, b with Detection, Detection => true | Tracking, Tracking => true | Sensing, Sensing => true | _, _ => false end.

Definition pose := (vec3 * quat)%type.

(* Box.translate(x): center += x ;  Box.rotate(q): center = R(q) center, orientation = q * orientation *)
Definition box_translate (x : vec3) (p : pose) : pose := (vadd (fst p) x, snd p).
Definition box_rotate (q : quat) (p : pose) : pose := (rot q (fst p), qmul q (snd p)).

(* get_sample_data, lidar branch: global -> ego vehicle -> sensor *)
Definition to_sensor_frame (ego : ego_pose) (cs : calibrated_sensor) (p : pose) : pose :=
  box_rotate (qconj (cs_rot cs)) (box_translate (vneg (cs_trans cs))
    (box_rotate (qconj (e_rot ego)) (box_translate (vneg (e_trans ego)) p))).

(* _get_sample_boxes: BASE_LINK -> get_sample_data(...)[1] ; MAP -> get_boxes(...) *)
Definition box_pose (d : dataset) (fid : frame_id) (sd : sample_data) (modality : string) (a : annotation) : res pose :=
  match fid with
  | MapFrame => Ok (a_trans a, a_rot a)
  | BaseLink =>
      cs <- get_cs d (sd_cs sd) ;;
      _ <- get_sensor d (cs_sensor cs) ;;
      ego <- get_ego d (sd_ego sd) ;;
      if String.eqb modality "camera" then Err Unmodelled
      else Ok (to_sensor_frame ego cs (a_trans a, a_rot a))
  end.

(* ------------------------------------------------------------------------------------------ *)
(* _get_transforms                                                                              *)
(* ------------------------------------------------------------------------------------------ *)
Definition contains (pat s : string) : bool :=
  match String.index 0 pat s with Some _ => true | None => false end.

Definition ego2map_of (ego : ego_pose) : rigid := mkRigid (e_rot ego) (e_trans ego) "BASE_LINK" "MAP".
Definition sensor2ego_of (cs : calibrated_sensor) (src : string) : rigid :=
  mkRigid (cs_rot cs) (cs_trans cs) src "BASE_LINK".

Definition sensor_transforms (d : dataset) (e2m : rigid) (cs : calibrated_sensor) : res (list rigid) :=
  sn <- get_sensor d (cs_sensor cs) ;;
  match run_parser FrameID_enum FrameID_from_value (sn_channel sn) with
  | Member k =>
      if contains "CAM_TRAFFIC_LIGHT" k then Err Unmodelled
      else
        let s2e := sensor2ego_of cs k in
        match dot e2m s2e with
        | DotOk s2m => Ok [s2e; s2m]
        | DotValueError => Err ValueError
        end
  | _ => Err ValueError
  end.

Definition get_transforms (d : dataset) (sd : sample_data) : res registry :=
  ego <- get_ego d (sd_ego sd) ;;
  let e2m := ego2map_of ego in
  rest <- mapM (sensor_transforms d e2m) (calibs d) ;;
  Ok (e2m :: List.concat rest).

(* ------------------------------------------------------------------------------------------ *)
(* PredictHelper: get_past_for_agent(instance, sample, seconds = 3.0, in_agent_frame, just_xy=False) *)
(* ------------------------------------------------------------------------------------------ *)
Definition window_us : Z := 3150000.     (* (seconds + BUFFER) * 1e6 *)
Definition max_history : nat := 6.       (* int(expected_samples_per_sec * seconds) *)

(* inst_sample_to_ann[(sample_token, instance_token)]: the last annotation with that pair *)
Fixpoint find_pair (l : list annotation) (stok itok : string) (acc : option annotation) : option annotation :=
  match l with
  | [] => acc
  | a :: t => find_pair t stok itok
                (if String.eqb (a_sample a) stok && String.eqb (a_instance a) itok then Some a else acc)
  end.

Definition start_annotation (d : dataset) (stok itok : string) : res annotation :=
  match find_pair (anns d) stok itok None with
  | Some a => get_ann d (a_token a)
  | None => Err KeyError
  end.

Definition sample_time (d : dataset) (stok : string) : res Z :=
  s <- get_sample d stok ;; Ok (s_timestamp s).

(* the while loop of _iterate(direction='prev'); [n] = len(annotations) so far.  The loop test
   `time_elapsed <= seconds_with_buffer` is the last branch: an annotation EXACTLY 3.15 s away is
   not appended but the walk continues. *)
Fixpoint iterate (fuel : nat) (d : dataset) (t0 : Z) (cur : annotation) (n : nat) : res (list annotation) :=
  match fuel with
  | O => Err OutOfFuel
  | S f =>
      if Nat.leb max_history n then Ok []
      else if String.eqb (a_prev cur) "" then Ok []
      else
        nxt <- get_ann d (a_prev cur) ;;
        t <- sample_time d (a_sample nxt) ;;
        let el := Z.abs (t - t0) in
        if Z.ltb el window_us then (rest <- iterate f d t0 nxt (S n) ;; Ok (nxt :: rest))
        else if Z.eqb el window_us then iterate f d t0 nxt n
        else Ok []
  end.

Definition iterate_fuel (d : dataset) : nat := S (S (max_history + List.length (anns d))).

Definition past_annotations (d : dataset) (stok itok : string) : res (list annotation) :=
  start <- start_annotation d stok itok ;;
  t0 <- sample_time d (a_sample start) ;;
  iterate (iterate_fuel d) d t0 start 0.

(* _get_tracking_data: translation, rotation, size of each past record AS STORED (global frame),
   whatever the requested frame id: `in_agent_frame` is ignored by the devkit when just_xy=False *)
Record past_state := mkPast { h_pos : vec3; h_ori : quat; h_size : vec3; h_ann : string }.
Definition past_of (a : annotation) : past_state := mkPast (a_trans a) (a_rot a) (a_size a) (a_token a).

(* ------------------------------------------------------------------------------------------ *)
(* _sample_to_frame / _convert_nuscenes_box_to_dynamic_object                                   *)
(* ------------------------------------------------------------------------------------------ *)
Record gt_object := mkObj {
  o_ann : string;                 (* token of the annotation the object was made from (box.token) *)
  o_uuid : string;                (* instance token *)
  o_label : string;               (* key of the AutowareLabel member *)
  o_name : string;                (* original category name kept in Label.name *)
  o_attrs : list string;          (* attribute names *)
  o_size : vec3;                  (* Shape.size = box.wlh = (width, length, height) *)
  o_pts : Z;                      (* pointcloud_num *)
  o_vis : option result;          (* None if the visibility table is empty *)
  o_pos : vec3;
  o_ori : quat;
  o_time : Z;
  o_frame : frame_id;
  o_history : option (list past_state) }.   (* tracked_path: None unless the task is TRACKING *)

Record frame := mkFrame {
  f_time : Z;
  f_name : string;
  f_objects : list gt_object;
  f_transforms : registry }.

Definition label_table (merge : bool) : table := table_of Autoware merge "".

(* _get_box_velocity / NuScenes.box_velocity: the velocity itself is not modelled, but its table
   look-ups are, because they raise KeyError on a dangling `prev` / `next` for EVERY task *)
Definition neighbour_lookup (d : dataset) (k : string) : res unit :=
  if String.eqb k "" then Ok tt
  else b <- get_ann d k ;; _ <- get_sample d (a_sample b) ;; Ok tt.
Definition velocity_lookups (d : dataset) (a : annotation) : res unit :=
  _ <- neighbour_lookup d (a_prev a) ;; neighbour_lookup d (a_next a).

Definition object_visibility (d : dataset) (a : annotation) : res (option result) :=
  match visibilities d with
  | [] => Ok None
  | _ => v <- get_visibility d (a_vis a) ;;
         Ok (Some (run_parser Visibility_enum Visibility_from_value (v_level v)))
  end.

Definition make_object (d : dataset) (tk : task) (fid : frame_id) (merge : bool) (s : sample)
                       (sd : sample_data) (modality : string) (an : annotation * string) : res gt_object :=
  let a := fst an in
  p <- box_pose d fid sd modality a ;;
  vis <- object_visibility d a ;;
  attrs <- mapM (fun t => at_ <- get_attribute d t ;; Ok (at_name at_)) (a_attrs a) ;;
  _ <- velocity_lookups d a ;;
  hist <- (match tk with
           | Tracking => h <- past_annotations d (s_token s) (a_instance a) ;;
                         _ <- mapM (velocity_lookups d) h ;;
                         Ok (Some (map past_of h))
           | _ => Ok None
           end) ;;
  Ok (mkObj (a_token a) (a_instance a) (convert_label (label_table merge) (snd an)) (snd an) attrs
            (a_size a) (a_pts a) vis (fst p) (snd p) (s_timestamp s) fid hist).

(* boxes are made (and moved) for all annotations first, then the transforms, then the objects:
   the order matters only for which exception is seen first *)
Definition sample_to_frame (d : dataset) (ix : index) (tk : task) (fid : frame_id) (merge : bool)
                           (n : nat) (s : sample) : res frame :=
  match lidar_sd ix s with
  | None => Err ValueError                               (* "lidar data isn't found" *)
  | Some (sd, modality) =>
      let sas := sample_anns ix (s_token s) in
      _ <- mapM (fun an => box_pose d fid sd modality (fst an)) sas ;;
      tfs <- get_transforms d sd ;;
      objs <- mapM (make_object d tk fid merge s sd modality) sas ;;
      Ok (mkFrame (s_timestamp s) (NilEmpty.string_of_uint (Nat.to_uint n)) objs tfs)
  end.

Fixpoint frames_from (d : dataset) (ix : index) (tk : task) (fid : frame_id) (merge : bool)
                     (n : nat) (l : list sample) : res (list frame) :=
  match l with
  | [] => Ok []
  | s :: t => f <- sample_to_frame d ix tk fid merge n s ;;
              fs <- frames_from d ix tk fid merge (S n) t ;;
              Ok (f :: fs)
  end.

(* load_all_datasets([root], task, LabelConverter(task, merge, "autoware"), frame_id, False) *)
Definition load (d : dataset) (tk : task) (fid : frame_id) (merge : bool) : res (list frame) :=
  ix <- make_index d ;;
  match samples d with
  | [] => Err DatasetLoadingError
  | _ => frames_from d ix tk fid merge 0 (samples d)
  end.

(* ------------------------------------------------------------------------------------------ *)
(* well-formedness (boolean)                                                                    *)
(* ------------------------------------------------------------------------------------------ *)
Definition unique_tokens (d : dataset) : bool :=
  nodup_str (map s_token (samples d)) && nodup_str (map sd_token (sample_datas d))
  && nodup_str (map e_token (ego_poses d)) && nodup_str (map cs_token (calibs d))
  && nodup_str (map sn_token (sensors d)) && nodup_str (map a_token (anns d))
  && nodup_str (map i_token (instances d)) && nodup_str (map c_token (categories d))
  && nodup_str (map at_token (attributes d)) && nodup_str (map v_token (visibilities d)).

Definition has {A} (tok : A -> string) (l : list A) (k : string) : bool := mem_str k (map tok l).

Definition is_lidar_channel (c : string) : bool := String.eqb c "LIDAR_TOP" || String.eqb c "LIDAR_CONCAT".

Definition sensor_ok (sn : sensor) : bool :=
  match run_parser FrameID_enum FrameID_from_value (sn_channel sn) with
  | Member k => negb (contains "CAM_TRAFFIC_LIGHT" k) && negb (String.eqb k "BASE_LINK") && negb (String.eqb k "MAP")
  | _ => false
  end
  && (negb (is_lidar_channel (sn_channel sn)) || negb (String.eqb (sn_modality sn) "camera")).

Definition references_resolve (d : dataset) : bool :=
  forallb (fun sd => has s_token (samples d) (sd_sample sd) && has e_token (ego_poses d) (sd_ego sd)
                     && has cs_token (calibs d) (sd_cs sd)) (sample_datas d)
  && forallb (fun cs => has sn_token (sensors d) (cs_sensor cs)) (calibs d)
  && forallb sensor_ok (sensors d)
  && forallb (fun a => has s_token (samples d) (a_sample a) && has i_token (instances d) (a_instance a)
                       && (match visibilities d with [] => true | _ => has v_token (visibilities d) (a_vis a) end)
                       && forallb (has at_token (attributes d)) (a_attrs a)
                       && (String.eqb (a_prev a) "" || has a_token (anns d) (a_prev a))
                       && (String.eqb (a_next a) "" || has a_token (anns d) (a_next a))) (anns d)
  && forallb (fun i => has c_token (categories d) (i_category i)) (instances d).

(* every sample has a key-frame lidar sample_data *)
Definition sample_has_lidar (d : dataset) (s : sample) : bool :=
  existsb (fun sd => sd_key sd && String.eqb (sd_sample sd) (s_token s)
                     && match channel_of d sd with Ok (ch, _) => is_lidar_channel ch | Err _ => false end)
          (sample_datas d).

Definition unit_quaternions (d : dataset) : bool :=
  forallb (fun e => unit_quat (e_rot e)) (ego_poses d)
  && forallb (fun c => unit_quat (cs_rot c)) (calibs d)
  && forallb (fun a => unit_quat (a_rot a)) (anns d).

(* an instance is annotated at most once per sample *)
Fixpoint pairs_unique (l : list annotation) : bool :=
  match l with
  | [] => true
  | a :: t => negb (existsb (fun b => String.eqb (a_sample b) (a_sample a) && String.eqb (a_instance b) (a_instance a)) t)
              && pairs_unique t
  end.

(* `prev` leads to an annotation of the same instance in a strictly earlier sample *)
Definition prev_ok (d : dataset) (a : annotation) : bool :=
  String.eqb (a_prev a) "" ||
  match get_last a_token (anns d) (a_prev a), get_last s_token (samples d) (a_sample a) with
  | Some b, Some sa =>
      String.eqb (a_instance b) (a_instance a) &&
      match get_last s_token (samples d) (a_sample b) with
      | Some sb => Z.ltb (s_timestamp sb) (s_timestamp sa)
      | None => false
      end
  | _, _ => false
  end.

Definition wf (d : dataset) : bool :=
  unique_tokens d && references_resolve d
  && negb (match samples d with [] => true | _ => false end)
  && forallb (sample_has_lidar d) (samples d)
  && unit_quaternions d && pairs_unique (anns d) && forallb (prev_ok d) (anns d).

(* the lidar is calibrated at the ego origin (T4 data) *)
Definition identity_calibration (cs : calibrated_sensor) : Prop :=
  qeq (cs_rot cs) qone /\ veq (cs_trans cs) vzero.

(* ------------------------------------------------------------------------------------------ *)
(* the observation made on the implementation, and the comparison (used by the correspondence) *)
(* ------------------------------------------------------------------------------------------ *)
(* m / 2^e: how the harness writes a binary64 value that is not a small dyadic *)
Definition fl (m : Z) (e : N) : Q := Qmake m (Pos.shiftl 1 e).

Record obs_past := mkOPast { op_pos : list Q; op_ori : list Q; op_size : list Q }.
Record obs_object := mkOObj {
  oo_uuid : string; oo_label : string; oo_name : string; oo_attrs : list string; oo_size : list Q;
  oo_pts : Z; oo_vis : option result; oo_pos : list Q; oo_ori : list Q; oo_time : Z; oo_frame : string;
  oo_hist : option (list obs_past) }.
Record obs_rigid := mkORigid { or_pos : list Q; or_rot : list Q; or_src : string; or_dst : string }.
Record obs_frame := mkOFrame {
  of_time : Z; of_name : string; of_objects : list obs_object;
  of_ego2map_matrix : list Q;               (* the 16 entries of transforms[(BASE_LINK, MAP)].matrix *)
  of_transforms : list obs_rigid }.         (* TransformDict items in insertion order *)
Inductive obs_load := OFrames (l : list obs_frame) | OError (e : error).

Definition error_eqb (a b : error) : bool :=
  match a, b with
  | KeyError, KeyError | ValueError, ValueError | DatasetLoadingError, DatasetLoadingError
  | Unmodelled, Unmodelled | OutOfFuel, OutOfFuel => true
  | _, _ => false
  end.

Fixpoint list_check {A B} (f : A -> B -> bool) (a : list A) (b : list B) : bool :=
  match a, b with
  | [], [] => true
  | x :: s, y :: t => f x y && list_check f s t
  | _, _ => false
  end.

Definition frame_key (f : frame_id) : string := match f with BaseLink => "BASE_LINK" | MapFrame => "MAP" end.

(* sizes are copied, not computed: compared exactly *)
Definition vec_exact (v : vec3) (l : list Q) : bool :=
  match l with [x; y; z] => Qeqb (vx v) x && Qeqb (vy v) y && Qeqb (vz v) z | _ => false end.

Definition check_past (m : past_state) (o : obs_past) : bool :=
  vec_close tol9 (h_pos m) (op_pos o) && quat_close_pm tol9 (h_ori m) (op_ori o) && vec_exact (h_size m) (op_size o).

Definition check_object (m : gt_object) (o : obs_object) : bool :=
  String.eqb (o_uuid m) (oo_uuid o) && String.eqb (o_label m) (oo_label o) && String.eqb (o_name m) (oo_name o)
  && list_eqb String.eqb (o_attrs m) (oo_attrs o) && vec_exact (o_size m) (oo_size o)
  && Z.eqb (o_pts m) (oo_pts o) && option_eqb result_eqb (o_vis m) (oo_vis o)
  && vec_close tol9 (o_pos m) (oo_pos o) && quat_close_pm tol9 (o_ori m) (oo_ori o)
  && Z.eqb (o_time m) (oo_time o) && String.eqb (frame_key (o_frame m)) (oo_frame o)
  && match o_history m, oo_hist o with
     | None, None => true
     | Some hm, Some ho => list_check check_past hm ho
     | _, _ => false
     end.

(* the TransformDict built from the registry: one entry per (src, dst), first-insertion order,
   value = the last matrix with these labels *)
Fixpoint dict_keys (reg : registry) (seen : list (string * string)) : list (string * string) :=
  match reg with
  | [] => []
  | m :: t => if existsb (fun k => String.eqb (fst k) (rsrc m) && String.eqb (snd k) (rdst m)) seen
              then dict_keys t seen
              else (rsrc m, rdst m) :: dict_keys t ((rsrc m, rdst m) :: seen)
  end.

Definition check_rigid (reg : registry) (k : string * string) (o : obs_rigid) : bool :=
  String.eqb (fst k) (or_src o) && String.eqb (snd k) (or_dst o) &&
  match reg_get reg (fst k) (snd k) with
  | Some m => vec_close tol9 (rt m) (or_pos o) && quat_close_pm tol9 (rq m) (or_rot o)
  | None => false
  end.

Definition check_frame (m : frame) (o : obs_frame) : bool :=
  Z.eqb (f_time m) (of_time o) && String.eqb (f_name m) (of_name o)
  && list_check check_object (f_objects m) (of_objects o)
  && match reg_get (f_transforms m) "BASE_LINK" "MAP" with
     | Some e2m => mat_close tol9 (to_matrix e2m) (of_ego2map_matrix o)
     | None => false
     end
  && list_check (check_rigid (f_transforms m)) (dict_keys (f_transforms m) []) (of_transforms o).

Definition check_load (d : dataset) (tk : task) (fid : frame_id) (merge : bool) (o : obs_load) : bool :=
  match load d tk fid merge, o with
  | Ok fs, OFrames os => list_check check_frame fs os
  | Err e, OError e' => error_eqb e e'
  | _, _ => false
  end.

(* a dataset and what was observed for several configurations *)
Definition check_case (d : dataset) (l : list (task * frame_id * bool * obs_load)) : bool :=
  forallb (fun c => match c with (tk, fid, merge, o) => check_load d tk fid merge o end) l.
