(* C07: one physical scene rendered in the ego frame and in the map frame.
   This file only adds the glue definitions between the models of the other properties:
   Geom2 (boxes, motions), Transform (rigid transforms), Filter (range filter), Matching, AP. *)
From Coq Require Import List Bool ZArith String.
From PE Require Import Base.QUtil Model.Geom2 Model.Filter Model.Matching Model.AP.
Import ListNotations.
Open Scope Q_scope.

(* the ego pose as a Geom2 motion m = (cos, sin, tx, ty, tz): ego coordinates -> map coordinates.
   What the code does with a map-frame point: transforms.transform((MAP, BASE_LINK), p), i.e. the
   inverse motion. *)
Definition unmove_pt (m : motion) (q : pt) : pt :=
  Geom2.rot (mc m) (- ms m) (fst q - mtx m, snd q - mty m).
Definition unmove_pt3 (m : motion) (q : pt3) : pt3 :=
  let '(x, y, z) := q in
  let p := unmove_pt m (x, y) in (fst p, snd p, z - mtz m).

(* plane distance of map-frame boxes as the code computes it: the two nearest ground-truth
   corners are chosen by their EGO-relative distances (corners transformed back to base_link),
   the distances are then measured between the map-frame corners *)
Definition plane_sq_map (m : motion) (e g : box) : option Q :=
  match plane_sel (map (unmove_pt m) (corners (move_box m g))) with
  | Some ij => plane_sq_at ij (corners (move_box m e)) (corners (move_box m g))
  | None => None
  end.

(* position facts of the range filter: ego-relative x, y and planar distance d *)
Definition pos_facts_ok (p : Q * Q * Q) : Prop :=
  let '(x, y, d) := p in 0 <= d /\ d * d == x * x + y * y.
Definition pos_equiv (p p' : Q * Q * Q) : Prop :=
  fst (fst p) == fst (fst p') /\ snd (fst p) == snd (fst p') /\ snd p == snd p'.

Definition set_pos (o : Obj) (p : option (Q * Q * Q)) : Obj :=
  mkObj (o_id o) (o_label o) (o_name o) (o_attrs o) (o_conf o) (o_uuid o) (o_base o) p (o_points o) (o_key o).

(* score tables that agree up to == *)
Definition cell_equiv (a b : option Q) : Prop :=
  match a, b with
  | None, None => True
  | Some x, Some y => x == y
  | _, _ => False
  end.
