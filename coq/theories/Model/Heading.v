(* Model of the heading comparisons (C09), in pi-units over Q: an angle of x*pi radians is the
   rational x, so a full turn is 2 and every function below is piecewise linear and exact.
     common/object.py         DynamicObject.get_heading_bev, get_heading_error (with its _clip helper)
     evaluation/metrics/detection/tp_metrics.py   TPMetricsAph.get_value
     evaluation/metrics/detection/ap.py           Ap._calculate_tp_fp (cumulative APH weights)
   Definitions only; proofs in Proofs/HeadingProofs.v.

   An orientation is (yaw, sign): the rotation by yaw*pi about z written as the quaternion
   +(cos, 0, 0, sin) or -(cos, 0, 0, sin).  pyquaternion's [yaw_pitch_roll] is a function of the
   rotation only, so the yaw read by the code does not depend on the sign (that it returns the yaw,
   i.e. atan2, cannot be stated in Q and is validated numerically by the correspondence). *)
From Coq Require Import QArith List Bool.
From PE Require Import Base.QUtil Base.CaseUtil.
Import ListNotations.
Open Scope Q_scope.

Definition orientation := (Q * bool)%type.        (* yaw in (-1, 1], quaternion sign *)
(* orientation.yaw_pitch_roll[0] *)
Definition yaw_of (o : orientation) : Q := fst o.

Definition valid_yaw (q : Q) : Prop := -1 < q /\ q <= 1.

(* the yaw (in (-1, 1]) of a rotation by x*pi, for x in (-2, 2]: what yaw_pitch_roll[0] returns
   after two yaw rotations have been composed *)
Definition wrap_yaw (x : Q) : Q :=
  if Qltb 1 x then x - 2 else if Qleb x (-1) then x + 2 else x.

(* get_heading_bev, after [rots] has been obtained:
     trans_rots = -rots - pi/2
     trans_rots = where(trans_rots >  pi, trans_rots - 2pi, trans_rots)
     trans_rots = where(trans_rots < -pi, trans_rots + 2pi, trans_rots) *)
Definition heading_fold (rots : Q) : Q :=
  let t := - rots - (1#2) in
  let t := if Qltb 1 t then t - 2 else t in
  if Qltb t (-1) then t + 2 else t.

(* frame_id == BASE_LINK: rots = orientation.yaw_pitch_roll[0] *)
Definition heading_bev_ego (o : orientation) : Q := heading_fold (yaw_of o).
(* otherwise: the orientation is first taken to BASE_LINK with transforms.transform((frame, BASE_LINK), ...);
   [e] is the yaw of that transform (minus the ego yaw for a real map->base_link transform, 0 for the
   identity matrix TPMetricsAph registers), then rots = yaw of the composed rotation *)
Definition heading_bev_via (e : Q) (o : orientation) : Q := heading_fold (wrap_yaw (yaw_of o + e)).

(* TPMetricsAph.get_value on the two headings:
     diff = abs(pd - gt); if diff > pi: diff = 2pi - diff; return min(1.0, max(0.0, 1.0 - diff/pi)) *)
Definition aph_weight_h (pd gt : Q) : Q :=
  let d := qabs (pd - gt) in
  let d := if Qltb 1 d then 2 - d else d in
  let w := 1 - d in
  let w := if Qltb 0 w then w else 0 in          (* max(0.0, w) *)
  if Qltb w 1 then w else 1.                     (* min(1.0, w) *)

(* estimated object in BASE_LINK: transforms = None *)
Definition aph_weight_ego (est gt : orientation) : Q :=
  aph_weight_h (heading_bev_ego est) (heading_bev_ego gt).
(* any other frame: TransformDict([identity frame->BASE_LINK]) *)
Definition aph_weight_map (est gt : orientation) : Q :=
  aph_weight_h (heading_bev_via 0 est) (heading_bev_via 0 gt).

Definition aph_weight (map_frame : bool) (est gt : orientation) : Q :=
  if map_frame then aph_weight_map est gt else aph_weight_ego est gt.

(* get_heading_error: _clip(yaw2 - yaw1) with yaw1 = self (estimate), yaw2 = other (ground truth) *)
Definition clip (err : Q) : Q :=
  if Qltb err (-1) then err + 2 else if Qltb 1 err then err - 2 else err.
Definition yaw_error (est gt : orientation) : Q := clip (yaw_of gt - yaw_of est).

(* Ap._calculate_tp_fp with TPMetricsAph, all results being TP: running sums of the weights *)
Fixpoint cumsum_from (acc : Q) (l : list Q) : list Q :=
  match l with [] => [] | x :: t => (acc + x) :: cumsum_from (acc + x) t end.
Definition aph_tp_list (map_frame : bool) (pairs : list (orientation * orientation)) : list Q :=
  cumsum_from 0 (map (fun p => aph_weight map_frame (fst p) (snd p)) pairs).

(* ---- specification -------------------------------------------------------------------------- *)
(* the minimal yaw difference: min(|q1 - q2|, 2 - |q1 - q2|), in [0, 1] *)
Definition yaw_dist (q1 q2 : Q) : Q :=
  let a := qabs (q1 - q2) in if Qltb 1 a then 2 - a else a.

(* both objects rotated by the ego yaw e (the pair expressed in the map frame) *)
Definition in_map (e : Q) (o : orientation) : orientation := (wrap_yaw (yaw_of o + e), snd o).

(* ---- checks used by the correspondence ------------------------------------------------------- *)
Definition tol9 : Q := 1 # 1000000000.
(* angles are compared on the circle: x and x +- 2 are the same direction *)
Definition circ_close (tol a b : Q) : bool :=
  Qclose tol a b || Qclose tol (a + 2) b || Qclose tol (a - 2) b.
Fixpoint list_close (tol : Q) (a b : list Q) : bool :=
  match a, b with
  | [], [] => true
  | x :: s, y :: t => Qclose tol x y && list_close tol s t
  | _, _ => false
  end.
