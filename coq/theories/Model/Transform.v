(* Model of perception_eval/common/transform.py (C18): HomogeneousMatrix and TransformDict.
   Rotations are quaternions over Q (Hamilton product, (w, x, y, z) as in pyquaternion); a
   HomogeneousMatrix is a quaternion, a translation and two frame labels (FrameID member keys).
   Definitions only; the proofs are in Proofs/TransformProofs.v.

   What is modelled by a closed form instead of the algorithm the code calls:
     - np.linalg.inv of a rigid matrix     -> [inv]  (conjugate rotation, -R^T t)
     - Quaternion(matrix=R) for R = R(a)R(b) -> the product quaternion a*b (the code gets +-(a*b))
   Both are validated by the correspondence (harness/props/C18.py) and, for [inv], by the theorem
   that [to_matrix (inv T)] is the two-sided matrix inverse of [to_matrix T]. *)
From Coq Require Import QArith List String Bool.
From PE Require Import Base.QUtil Base.CaseUtil Base.StrUtil Model.EnumParse Gen.Enums.
Import ListNotations.
Open Scope Q_scope.

(* ------------------------------------------------------------------------------------------ *)
(* quaternions, vectors                                                                         *)
(* ------------------------------------------------------------------------------------------ *)
Record quat := mkQuat { qw : Q; qx : Q; qy : Q; qz : Q }.
Record vec3 := mkVec { vx : Q; vy : Q; vz : Q }.

Definition qmul (a b : quat) : quat :=
  mkQuat (qw a * qw b - qx a * qx b - qy a * qy b - qz a * qz b)
         (qw a * qx b + qx a * qw b + qy a * qz b - qz a * qy b)
         (qw a * qy b - qx a * qz b + qy a * qw b + qz a * qx b)
         (qw a * qz b + qx a * qy b - qy a * qx b + qz a * qw b).
Definition qconj (q : quat) : quat := mkQuat (qw q) (- qx q) (- qy q) (- qz q).
Definition qneg (q : quat) : quat := mkQuat (- qw q) (- qx q) (- qy q) (- qz q).
Definition qnorm2 (q : quat) : Q := qw q * qw q + qx q * qx q + qy q * qy q + qz q * qz q.
Definition qone : quat := mkQuat 1 0 0 0.
Definition qpure (v : vec3) : quat := mkQuat 0 (vx v) (vy v) (vz v).
Definition qvec (q : quat) : vec3 := mkVec (qx q) (qy q) (qz q).

Definition vadd (a b : vec3) : vec3 := mkVec (vx a + vx b) (vy a + vy b) (vz a + vz b).
Definition vneg (a : vec3) : vec3 := mkVec (- vx a) (- vy a) (- vz a).
Definition vzero : vec3 := mkVec 0 0 0.
Definition vdot (a b : vec3) : Q := vx a * vx b + vy a * vy b + vz a * vz b.

Definition veq (a b : vec3) : Prop := vx a == vx b /\ vy a == vy b /\ vz a == vz b.
Definition qeq (a b : quat) : Prop := qw a == qw b /\ qx a == qx b /\ qy a == qy b /\ qz a == qz b.

(* 3x3 rotation matrix of a quaternion, entry by entry what pyquaternion's [rotation_matrix]
   computes (q_matrix . q_bar_matrix^T, lower-right block). *)
Record mat3 := mkMat3 { k1 : vec3; k2 : vec3; k3 : vec3 }.   (* rows *)
Definition rotm (q : quat) : mat3 :=
  let w := qw q in let x := qx q in let y := qy q in let z := qz q in
  mkMat3 (mkVec (w*w + x*x - y*y - z*z) (2*(x*y - w*z))         (2*(x*z + w*y)))
         (mkVec (2*(x*y + w*z))         (w*w - x*x + y*y - z*z) (2*(y*z - w*x)))
         (mkVec (2*(x*z - w*y))         (2*(y*z + w*x))         (w*w - x*x - y*y + z*z)).
Definition mv3 (M : mat3) (v : vec3) : vec3 := mkVec (vdot (k1 M) v) (vdot (k2 M) v) (vdot (k3 M) v).
(* rotate a vector *)
Definition rot (q : quat) (v : vec3) : vec3 := mv3 (rotm q) v.

(* ------------------------------------------------------------------------------------------ *)
(* 4x4 matrices                                                                                 *)
(* ------------------------------------------------------------------------------------------ *)
Record row4 := mkRow { c0 : Q; c1 : Q; c2 : Q; c3 : Q }.
Record mat4 := mkMat { w0 : row4; w1 : row4; w2 : row4; w3 : row4 }.

Definition rdot (r : row4) (a b c d : Q) : Q := c0 r * a + c1 r * b + c2 r * c + c3 r * d.
Definition rowmul (r : row4) (B : mat4) : row4 :=
  mkRow (rdot r (c0 (w0 B)) (c0 (w1 B)) (c0 (w2 B)) (c0 (w3 B)))
        (rdot r (c1 (w0 B)) (c1 (w1 B)) (c1 (w2 B)) (c1 (w3 B)))
        (rdot r (c2 (w0 B)) (c2 (w1 B)) (c2 (w2 B)) (c2 (w3 B)))
        (rdot r (c3 (w0 B)) (c3 (w1 B)) (c3 (w2 B)) (c3 (w3 B))).
(* numpy's A.dot(B) *)
Definition mmul (A B : mat4) : mat4 := mkMat (rowmul (w0 A) B) (rowmul (w1 A) B) (rowmul (w2 A) B) (rowmul (w3 A) B).
Definition meye : mat4 := mkMat (mkRow 1 0 0 0) (mkRow 0 1 0 0) (mkRow 0 0 1 0) (mkRow 0 0 0 1).

Definition roweq (a b : row4) : Prop := c0 a == c0 b /\ c1 a == c1 b /\ c2 a == c2 b /\ c3 a == c3 b.
Definition meq (A B : mat4) : Prop := roweq (w0 A) (w0 B) /\ roweq (w1 A) (w1 B) /\ roweq (w2 A) (w2 B) /\ roweq (w3 A) (w3 B).

(* __generate_homogeneous_matrix(position, rotation): eye(4) with [:3,:3] = R(q), [:3,3] = t *)
Definition hm (q : quat) (t : vec3) : mat4 :=
  let R := rotm q in
  mkMat (mkRow (vx (k1 R)) (vy (k1 R)) (vz (k1 R)) (vx t))
        (mkRow (vx (k2 R)) (vy (k2 R)) (vz (k2 R)) (vy t))
        (mkRow (vx (k3 R)) (vy (k3 R)) (vz (k3 R)) (vz t))
        (mkRow 0 0 0 1).
(* __extract_position_and_rotation_from_matrix: matrix[:3,3], matrix[:3,:3] *)
Definition mat_position (M : mat4) : vec3 := mkVec (c3 (w0 M)) (c3 (w1 M)) (c3 (w2 M)).
Definition mat_rotation (M : mat4) : mat3 :=
  mkMat3 (mkVec (c0 (w0 M)) (c1 (w0 M)) (c2 (w0 M)))
         (mkVec (c0 (w1 M)) (c1 (w1 M)) (c2 (w1 M)))
         (mkVec (c0 (w2 M)) (c1 (w2 M)) (c2 (w2 M))).
Definition m3eq (A B : mat3) : Prop := veq (k1 A) (k1 B) /\ veq (k2 A) (k2 B) /\ veq (k3 A) (k3 B).

(* ------------------------------------------------------------------------------------------ *)
(* HomogeneousMatrix                                                                            *)
(* ------------------------------------------------------------------------------------------ *)
(* frame labels are FrameID member keys ("BASE_LINK", "MAP", ...) *)
Record rigid := mkRigid { rq : quat; rt : vec3; rsrc : string; rdst : string }.

Definition to_matrix (T : rigid) : mat4 := hm (rq T) (rt T).

(* transform(position): rotate, then translate *)
Definition apply_point (T : rigid) (p : vec3) : vec3 := vadd (rot (rq T) p) (rt T).
(* transform(position, rotation) *)
Definition apply_pose (T : rigid) (pr : vec3 * quat) : vec3 * quat :=
  (apply_point T (fst pr), qmul (rq T) (snd pr)).

(* the same two operations the way the code performs them: build the 4x4 matrix of the pose,
   left-multiply by self.matrix, read the position column / the rotation block back *)
Definition apply_point_via_matrix (T : rigid) (p : vec3) : vec3 :=
  mat_position (mmul (to_matrix T) (hm qone p)).
Definition apply_pose_via_matrix (T : rigid) (pr : vec3 * quat) : mat4 :=
  mmul (to_matrix T) (hm (snd pr) (fst pr)).

(* self.dot(other) *)
Inductive dot_result := DotOk (m : rigid) | DotValueError.
Definition dot (self other : rigid) : dot_result :=
  if negb (String.eqb (rsrc self) (rdst other)) then DotValueError
  else DotOk (mkRigid (qmul (rq self) (rq other))
                      (vadd (rot (rq self) (rt other)) (rt self))
                      (rsrc other) (rdst self)).
(* self.transform(matrix) = matrix.dot(self) *)
Definition transform_matrix (self m : rigid) : dot_result := dot m self.

(* self.inv() *)
Definition inv (T : rigid) : rigid :=
  mkRigid (qconj (rq T)) (vneg (rot (qconj (rq T)) (rt T))) (rdst T) (rsrc T).

(* left fold of a chain T1 : F0->F1, T2 : F1->F2, ... with transform(matrix) *)
Fixpoint chain_from (acc : rigid) (l : list rigid) : dot_result :=
  match l with
  | [] => DotOk acc
  | T :: t => match transform_matrix acc T with
              | DotOk acc' => chain_from acc' t
              | DotValueError => DotValueError
              end
  end.
Fixpoint apply_chain (l : list rigid) (p : vec3) : vec3 :=
  match l with [] => p | T :: t => apply_chain t (apply_point T p) end.
Fixpoint apply_chain_pose (l : list rigid) (pr : vec3 * quat) : vec3 * quat :=
  match l with [] => pr | T :: t => apply_chain_pose t (apply_pose T pr) end.

(* The same folds with every intermediate result written in lowest terms (Qred).  Q arithmetic does
   not cancel common factors, so without this the numerators of a 5-step chain have millions of
   digits; these are the functions the correspondence evaluates.  Proofs/TransformProofs.v shows they
   return the same values (component-wise ==, same labels, same errors) as the plain folds above. *)
Definition vred (v : vec3) : vec3 := mkVec (Qred (vx v)) (Qred (vy v)) (Qred (vz v)).
Definition qred (q : quat) : quat := mkQuat (Qred (qw q)) (Qred (qx q)) (Qred (qy q)) (Qred (qz q)).
Definition rigid_red (T : rigid) : rigid := mkRigid (qred (rq T)) (vred (rt T)) (rsrc T) (rdst T).
Definition pose_red (pr : vec3 * quat) : vec3 * quat := (vred (fst pr), qred (snd pr)).
Fixpoint chain_from_n (acc : rigid) (l : list rigid) : dot_result :=
  match l with
  | [] => DotOk acc
  | T :: t => match transform_matrix acc T with
              | DotOk acc' => chain_from_n (rigid_red acc') t
              | DotValueError => DotValueError
              end
  end.
Fixpoint apply_chain_pose_n (l : list rigid) (pr : vec3 * quat) : vec3 * quat :=
  match l with [] => pr | T :: t => apply_chain_pose_n t (pose_red (apply_pose T pr)) end.

(* ------------------------------------------------------------------------------------------ *)
(* frame keys: a str (inl) or a FrameID member given by its key (inr)                            *)
(* ------------------------------------------------------------------------------------------ *)
Definition spelling := (string + string)%type.

(* TransformKey(src, dst): FrameID.from_value(x) if isinstance(x, str) else x  (shape from Gen/Enums.v) *)
Definition canon (a : spelling) : result :=
  enum_or_str FrameID_enum FrameID_from_value TransformKey_init_str_branch a.

(* HomogeneousMatrix.__init__ does the same with its own copy of the line *)
Definition canon_hm (a : spelling) : result :=
  match a with inl s => run_parser FrameID_enum FrameID_from_value s | inr k => Member k end.

Definition mk_rigid (q : quat) (t : vec3) (src dst : spelling) : option rigid :=
  match canon_hm src, canon_hm dst with
  | Member s, Member d => Some (mkRigid q t s d)
  | _, _ => None                                   (* ValueError from FrameID.from_value *)
  end.

(* ------------------------------------------------------------------------------------------ *)
(* TransformDict                                                                                *)
(* ------------------------------------------------------------------------------------------ *)
Definition registry := list rigid.       (* the matrices in the order given to TransformDict(...) *)

Definition labelled (s d : string) (m : rigid) : bool := String.eqb (rsrc m) s && String.eqb (rdst m) d.

(* {TransformKey(mat.src, mat.dst): mat for mat in matrices}.get(key): a later matrix with the
   same labels replaces an earlier one *)
Fixpoint reg_get (reg : registry) (s d : string) : option rigid :=
  match reg with
  | [] => None
  | m :: t => match reg_get t s d with
              | Some r => Some r
              | None => if labelled s d m then Some m else None
              end
  end.

Inductive lookup_result :=
| LIdentity                 (* the arguments are returned as they are *)
| LUse (m : rigid)          (* m.transform(args) *)
| LKeyError
| LValueError.              (* FrameID.from_value rejected a string *)

(* matrix = get((src,dst)); if None: matrix = get((dst,src)); if None: KeyError; else matrix.inv() *)
Definition reg_lookup_canon (reg : registry) (s d : string) : lookup_result :=
  match reg_get reg s d with
  | Some m => LUse m
  | None => match reg_get reg d s with
            | Some m => LUse (inv m)
            | None => LKeyError
            end
  end.

(* TransformDict.transform(key, ...): the key (a TransformKey, or a (src, dst) tuple that is first
   turned into one) is canonicalised, then `src == dst` on the members decides the identity case. *)
Definition reg_lookup (reg : registry) (a b : spelling) : lookup_result :=
  match canon a, canon b with
  | Member s, Member d => if String.eqb s d then LIdentity else reg_lookup_canon reg s d
  | _, _ => LValueError
  end.

Inductive tresult (A : Type) :=
| TOk (x : A)
| TKeyError
| TValueError.
Arguments TOk {A} x.
Arguments TKeyError {A}.
Arguments TValueError {A}.

Definition reg_transform_point (reg : registry) (a b : spelling) (p : vec3) : tresult vec3 :=
  match reg_lookup reg a b with
  | LIdentity => TOk p
  | LUse m => TOk (apply_point m p)
  | LKeyError => TKeyError
  | LValueError => TValueError
  end.
Definition reg_transform_pose (reg : registry) (a b : spelling) (pr : vec3 * quat) : tresult (vec3 * quat) :=
  match reg_lookup reg a b with
  | LIdentity => TOk pr
  | LUse m => TOk (apply_pose m pr)
  | LKeyError => TKeyError
  | LValueError => TValueError
  end.
Definition reg_transform_matrix (reg : registry) (a b : spelling) (M : rigid) : tresult rigid :=
  match reg_lookup reg a b with
  | LIdentity => TOk M
  | LUse m => match transform_matrix m M with DotOk r => TOk r | DotValueError => TValueError end
  | LKeyError => TKeyError
  | LValueError => TValueError
  end.

(* ------------------------------------------------------------------------------------------ *)
(* boolean checks used by the correspondence                                                    *)
(* ------------------------------------------------------------------------------------------ *)
Definition vec_close (tol : Q) (v : vec3) (l : list Q) : bool :=
  match l with
  | [x; y; z] => Qclose tol (vx v) x && Qclose tol (vy v) y && Qclose tol (vz v) z
  | _ => false
  end.
Definition quat_close (tol : Q) (q : quat) (l : list Q) : bool :=
  match l with
  | [w; x; y; z] => Qclose tol (qw q) w && Qclose tol (qx q) x && Qclose tol (qy q) y && Qclose tol (qz q) z
  | _ => false
  end.
(* as rotations: q and -q are the same orientation *)
Definition quat_close_pm (tol : Q) (q : quat) (l : list Q) : bool :=
  quat_close tol q l || quat_close tol (qneg q) l.
Definition row_close (tol : Q) (r : row4) (l : list Q) : bool :=
  match l with
  | [a; b; c; d] => Qclose tol (c0 r) a && Qclose tol (c1 r) b && Qclose tol (c2 r) c && Qclose tol (c3 r) d
  | _ => false
  end.
(* l = the 16 entries, row-major *)
Definition mat_close (tol : Q) (M : mat4) (l : list Q) : bool :=
  match l with
  | [a0; a1; a2; a3; b0; b1; b2; b3; d0; d1; d2; d3; e0; e1; e2; e3] =>
      row_close tol (w0 M) [a0; a1; a2; a3] && row_close tol (w1 M) [b0; b1; b2; b3]
      && row_close tol (w2 M) [d0; d1; d2; d3] && row_close tol (w3 M) [e0; e1; e2; e3]
  | _ => false
  end.

Definition tol9 : Q := 1 # 1000000000.

(* observed HomogeneousMatrix: matrix entries, position, rotation (up to sign), src, dst *)
Definition rigid_close (T : rigid) (mat pos rotq : list Q) (src dst : string) : bool :=
  mat_close tol9 (to_matrix T) mat && vec_close tol9 (rt T) pos && quat_close_pm tol9 (rq T) rotq
  && String.eqb (rsrc T) src && String.eqb (rdst T) dst.

Definition dot_is_error (r : dot_result) : bool := match r with DotValueError => true | DotOk _ => false end.
Definition dot_check (r : dot_result) (f : rigid -> bool) : bool := match r with DotOk m => f m | DotValueError => false end.

Definition tres_check {A} (r : tresult A) (f : A -> bool) : bool := match r with TOk x => f x | _ => false end.
Definition tres_is_key_error {A} (r : tresult A) : bool := match r with TKeyError => true | _ => false end.
Definition tres_is_value_error {A} (r : tresult A) : bool := match r with TValueError => true | _ => false end.

Definition unit_quat (q : quat) : bool := Qeqb (qnorm2 q) 1.
