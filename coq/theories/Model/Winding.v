(* Model of the point-in-prism test used by the sensing evaluation:
     perception_eval/common/point.py     crop_pointcloud            (winding number in xy + z range)
     perception_eval/common/shape.py     Shape.__calculate_corners  (local footprint of a box)
     perception_eval/common/object.py    DynamicObject.get_footprint / get_corners / crop_pointcloud /
                                         get_inside_pointcloud_num / point_exist
     perception_eval/util/math.py        get_bbox_scale
   Definitions only (proofs: Proofs/WindingProofs.v, statements: Props/C12.v).

   A row of an (N, C) cloud, C >= 2, is [mkPoint x y rest] with [rest] the remaining C-2 columns
   (z, intensity, ...).  numpy arrays are rectangular, so "shape[1] < 3" is the same for every row
   and is modelled per row as [prest p = []].
   An area is the list of its 2n vertices (upper plane then lower plane, as in the code).
   Floats are modelled by rationals: NaN/inf coordinates are outside the model. *)
From Coq Require Import List Bool ZArith Arith.
From PE Require Import Base.QUtil.
Import ListNotations.
Open Scope Q_scope.

Definition vertex : Type := (Q * Q * Q)%type.
Definition vx (v : vertex) : Q := fst (fst v).
Definition vy (v : vertex) : Q := snd (fst v).
Definition vz (v : vertex) : Q := snd v.

Record point := mkPoint { px : Q; py : Q; prest : list Q }.

(* ------------------------------------------------------------------------------------------ *)
(* the per-edge update of the uint8 counter                                                    *)
(*   for i in range(num_vertices): a = area[i], b = area[(i+1) % n], c = area[i+1]             *)
(* ------------------------------------------------------------------------------------------ *)
Definition u8 (z : Z) : Z := (z mod 256)%Z.          (* np.uint8 arithmetic wraps *)

(* incremental_flags = (area[i][1] <= y) * (area[next][1] > y) *)
Definition edge_inc (a b : vertex) (p : point) : bool := Qleb (vy a) (py p) && Qltb (py p) (vy b).
(* decremental_flags = (area[i][1] > y) * (area[next][1] <= y) *)
Definition edge_dec (a b : vertex) (p : point) : bool := Qltb (py p) (vy a) && Qleb (vy b) (py p).

(* if area[i + 1][1] != area[i][1]: vt = (y - area[i][1]) / (area[next][1] - area[i][1]) else: vt = x
   NOTE the test reads area[i+1] (the raw next row, [c]) while the division uses area[next_idx] ([b]);
   they differ only for the closing edge i = n-1, where c is the first vertex of the lower plane. *)
Definition edge_vt (a b c : vertex) (p : point) : Q :=
  if negb (Qeqb (vy c) (vy a)) then (py p - vy a) / (vy b - vy a) else px p.

(* valid_idx = x < area[i][0] + vt * (area[next][0] - area[i][0]) *)
Definition edge_valid (a b c : vertex) (p : point) : bool :=
  Qltb (px p) (vx a + edge_vt a b c p * (vx b - vx a)).

Definition edge3 : Type := (vertex * vertex * vertex)%type.

(* cnt_arr_[incremental_flags] += 1 ; cnt_arr_[decremental_flags] -= 1   (in this order, uint8) *)
Definition edge_step (p : point) (cnt : Z) (e : edge3) : Z :=
  let '(a, b, c) := e in
  let valid := edge_valid a b c p in
  let cnt1 := if edge_inc a b p && valid then u8 (cnt + 1) else cnt in
  if edge_dec a b p && valid then u8 (cnt1 - 1) else cnt1.

Definition rot1 {A} (l : list A) : list A := match l with [] => [] | h :: t => t ++ [h] end.

(* the n triples (area[i], area[(i+1)%n], area[i+1]), i < n = len(area)//2 *)
Definition edges (area : list vertex) : list edge3 :=
  let n := (length area / 2)%nat in
  let ring := firstn n area in
  combine (combine ring (rot1 ring)) (firstn n (tl area)).

(* value of cnt_arr_ for one point after the loop *)
Definition wn_edges (es : list edge3) (p : point) : Z := fold_left (edge_step p) es 0%Z.
Definition wn (area : list vertex) (p : point) : Z := wn_edges (edges area) p.

(* xy_idx = 0 < cnt_arr_ if inside else cnt_arr_ <= 0 *)
Definition xy_sel (inside : bool) (cnt : Z) : bool := if inside then (0 <? cnt)%Z else (cnt <=? 0)%Z.

(* z_min = min(area, key=lambda x: x[2])[2] ; z_max = max(...)[2]  over ALL 2n vertices *)
Definition zmin_of (v0 : vertex) (vs : list vertex) : Q :=
  fold_left (fun m v => if Qltb (vz v) m then vz v else m) vs (vz v0).
Definition zmax_of (v0 : vertex) (vs : list vertex) : Q :=
  fold_left (fun m v => if Qltb m (vz v) then vz v else m) vs (vz v0).

(* the final row mask for one point.  (Staged: the edge list and the z range are computed once per
   area, as in the code; the row is the last argument.) *)
Definition selected (area : list vertex) (inside : bool) : point -> bool :=
  let es := edges area in
  match area with
  | [] => fun p => xy_sel inside (wn_edges es p)
  | v0 :: vs =>
      let zmin := zmin_of v0 vs in
      let zmax := zmax_of v0 vs in
      fun p =>
        let xy := xy_sel inside (wn_edges es p) in
        match prest p with
        | [] => xy                                                   (* shape[1] < 3: xy only *)
        | z :: _ =>
            if inside then xy && (Qleb zmin z && Qleb z zmax)        (* bitwise_and(xy_idx, zmin<=z & z<=zmax) *)
            else xy || (Qltb z zmin || Qltb zmax z)                  (* bitwise_or (xy_idx, z<zmin | zmax<z)   *)
        end
  end.

(* the two RuntimeErrors of crop_pointcloud, in the order they are tested *)
Definition area_ok (area : list vertex) : bool :=
  (3 <=? length area / 2)%nat && (length area mod 2 =? 0)%nat.

Definition crop_pointcloud (ncols : nat) (cloud : list point) (area : list vertex) (inside : bool)
  : option (list point) :=
  if (ncols <? 2)%nat then None
  else if negb (area_ok area) then None
  else Some (filter (selected area inside) cloud).

(* the same selection as row indices (what the correspondence compares) *)
Fixpoint idx_filter_from {A} (f : A -> bool) (i : nat) (l : list A) : list nat :=
  match l with
  | [] => []
  | x :: t => if f x then i :: idx_filter_from f (S i) t else idx_filter_from f (S i) t
  end.
Definition idx_filter {A} (f : A -> bool) (l : list A) : list nat := idx_filter_from f 0 l.

Definition crop_idx (area : list vertex) (inside : bool) (cloud : list point) : list nat :=
  idx_filter (selected area inside) cloud.

(* ------------------------------------------------------------------------------------------ *)
(* boxes: Shape.__calculate_corners, DynamicObject.get_footprint, get_corners                  *)
(* ------------------------------------------------------------------------------------------ *)
(* size = (width, length, height); [r00 r01; r10 r11] is the xy block of the rotation matrix of
   state.orientation (for a yaw-only orientation: [c -s; s c]).  get_footprint rotates the scaled
   local corner (u, v, 0) and keeps x, y; get_corners overwrites z. *)
Record box := mkBox {
  b_x : Q; b_y : Q; b_z : Q;
  b_w : Q; b_l : Q; b_h : Q;
  b_r00 : Q; b_r01 : Q; b_r10 : Q; b_r11 : Q }.

Definition yaw_box (x y z w l h c s : Q) : box := mkBox x y z w l h c (- s) s c.

(* corners[0..3] = (l, w)/2, (-l, w)/2, (-l, -w)/2, (l, -w)/2 ; then  * scale  (x and y only: z is 0) *)
Definition footprint_local (b : box) (k : Q) : list (Q * Q) :=
  [ (b_l b / 2 * k, b_w b / 2 * k);
    (- b_l b / 2 * k, b_w b / 2 * k);
    (- b_l b / 2 * k, - b_w b / 2 * k);
    (b_l b / 2 * k, - b_w b / 2 * k) ].

Definition to_world (b : box) (uv : Q * Q) : Q * Q :=
  (b_r00 b * fst uv + b_r01 b * snd uv + b_x b, b_r10 b * fst uv + b_r11 b * snd uv + b_y b).

(* [Qred] puts a rational in lowest terms; it has no counterpart in the code and no effect on any
   comparison ([Qred q == q]); it only keeps the numbers small when the model is executed. *)
Definition vred (v : vertex) : vertex := (Qred (vx v), Qred (vy v), Qred (vz v)).

(* upper plane (z = pos.z + h/2) then lower plane (z = pos.z - h/2); the height is NOT scaled *)
Definition box_corners (b : box) (k : Q) : list vertex :=
  let fp := map (to_world b) (footprint_local b k) in
  map vred (map (fun q => (fst q, snd q, b_z b + b_h b / 2)) fp ++
            map (fun q => (fst q, snd q, b_z b - b_h b / 2)) fp).

(* DynamicObject.crop_pointcloud(pointcloud, bbox_scale, inside) *)
Definition box_selected (b : box) (k : Q) (inside : bool) : point -> bool :=
  selected (box_corners b k) inside.
Definition box_crop (b : box) (k : Q) (inside : bool) (cloud : list point) : list point :=
  filter (box_selected b k inside) cloud.
Definition box_crop_idx (b : box) (k : Q) (inside : bool) (cloud : list point) : list nat :=
  idx_filter (box_selected b k inside) cloud.
(* get_inside_pointcloud_num, point_exist *)
Definition inside_num (b : box) (k : Q) (cloud : list point) : nat := length (box_crop b k true cloud).
Definition point_exist (b : box) (k : Q) (cloud : list point) : bool := (0 <? inside_num b k cloud)%nat.

(* get_bbox_scale / SensingFrameConfig.get_scale_factor: 0.01 * (s100 - s0) * distance + s0 *)
Definition bbox_scale (distance s0 s100 : Q) : Q := (1 # 100) * (s100 - s0) * distance + s0.

(* ------------------------------------------------------------------------------------------ *)
(* declarative side: cross product, slab inequalities                                          *)
(* ------------------------------------------------------------------------------------------ *)
Definition cross (ax ay bx by_ x y : Q) : Q := (bx - ax) * (y - ay) - (by_ - ay) * (x - ax).

(* the world point with local coordinates (u, v) in the frame of a yaw-only box *)
Definition local_point (cx cy c s u v : Q) (rest : list Q) : point :=
  mkPoint (c * u - s * v + cx) (s * u + c * v + cy) rest.

(* ------------------------------------------------------------------------------------------ *)
(* check functions for the correspondence                                                      *)
(* ------------------------------------------------------------------------------------------ *)
Fixpoint nat_list_eqb (a b : list nat) : bool :=
  match a, b with
  | [], [] => true
  | x :: s, y :: t => Nat.eqb x y && nat_list_eqb s t
  | _, _ => false
  end.

(* crop_pointcloud(cloud, area, inside=True) and (…, inside=False) return rows [ins] / [outs];
   [None] = RuntimeError *)
Definition check_crop (ncols : nat) (cloud : list point) (area : list vertex)
           (ins outs : option (list nat)) : bool :=
  match crop_pointcloud ncols cloud area true, ins, outs with
  | None, None, None => true
  | Some _, Some i, Some o =>
      nat_list_eqb (crop_idx area true cloud) i && nat_list_eqb (crop_idx area false cloud) o
  | _, _, _ => false
  end.

Definition vertex_close (tol : Q) (a b : vertex) : bool :=
  Qleb (qabs (vx a - vx b)) tol && Qleb (qabs (vy a - vy b)) tol && Qleb (qabs (vz a - vz b)) tol.
Fixpoint vertices_close (tol : Q) (a b : list vertex) : bool :=
  match a, b with
  | [], [] => true
  | x :: s, y :: t => vertex_close tol x y && vertices_close tol s t
  | _, _ => false
  end.

(* DynamicObject: get_corners(k) (within tol), crop_pointcloud(cloud, k, True/False),
   get_inside_pointcloud_num, point_exist *)
Definition check_box (b : box) (k : Q) (cloud : list point) (corners : list vertex)
           (ins outs : list nat) (num : nat) (exist : bool) : bool :=
  let n := inside_num b k cloud in                 (* point_exist b k cloud is by definition (0 <? n) *)
  vertices_close (1 # 1000000000) (box_corners b k) corners &&
  nat_list_eqb (box_crop_idx b k true cloud) ins &&
  nat_list_eqb (box_crop_idx b k false cloud) outs &&
  Nat.eqb n num &&
  Bool.eqb (0 <? n)%nat exist.
