(* C06 -- Sutherland-Hodgman clipping of a polygon by a convex counter-clockwise polygon and
   the shoelace area, over Q: an exact executable evaluator of the intersection area of two
   rotated rectangles, INDEPENDENT of shapely.  Used by the correspondence (check_* below)
   to validate `polygon.intersection(polygon).area`.  Definitions only. *)
From Coq Require Import List ZArith QArith Bool.
From PE Require Import Base.QUtil Model.Geom2.
Import ListNotations.
Open Scope Q_scope.

(* [cross a b p] (Model/Geom2.v) > 0: p strictly left of the directed line a -> b; = 0: on it *)
Definition inside (a b p : pt) : bool := Qleb 0 (cross a b p).

(* the point where segment s-e crosses the line a-b (used only when s, e are on different
   sides, so the denominator is not 0); Qred keeps the numbers small ( Qred q == q ) *)
Definition intersect (a b s e : pt) : pt :=
  let ds := cross a b s in
  let de := cross a b e in
  let t := ds / (ds - de) in
  (Qred (fst s + t * (fst e - fst s)), Qred (snd s + t * (snd e - snd s))).

Fixpoint clip_edge_aux (a b prev : pt) (l : list pt) : list pt :=
  match l with
  | [] => []
  | cur :: t =>
      (if inside a b cur
       then (if inside a b prev then [cur] else [intersect a b prev cur; cur])
       else (if inside a b prev then [intersect a b prev cur] else []))
      ++ clip_edge_aux a b cur t
  end.

(* one Sutherland-Hodgman pass: keep the part of [poly] on the left of a -> b *)
Definition clip_edge (a b : pt) (poly : list pt) : list pt :=
  match rev poly with
  | [] => []
  | lastp :: _ => clip_edge_aux a b lastp poly
  end.

Fixpoint clip_edges (first : pt) (cl : list pt) (poly : list pt) : list pt :=
  match cl with
  | [] => poly
  | a :: t => let b := match t with [] => first | b :: _ => b end in
              clip_edges first t (clip_edge a b poly)
  end.

(* subject clipped by every edge of the convex CCW polygon [cl] *)
Definition clip (subj cl : list pt) : list pt :=
  match cl with [] => [] | f :: _ => clip_edges f cl subj end.

(* shoelace: sum over cyclic edges of x_i * y_{i+1} - x_{i+1} * y_i  (= 2 * signed area) *)
Fixpoint shoelace_aux (first prev : pt) (l : list pt) : Q :=
  match l with
  | [] => cross0 prev first
  | p :: t => cross0 prev p + shoelace_aux first p t
  end.
Definition shoelace2 (poly : list pt) : Q :=
  match poly with [] => 0 | f :: t => shoelace_aux f f t end.
Definition poly_area (poly : list pt) : Q := shoelace2 poly / 2.

Definition clip_area (subj cl : list pt) : Q := poly_area (clip subj cl).

(* exact evaluators of the scores of two (rotated) boxes.  The corner coordinates are put in
   lowest terms first ( Qred q == q ): Q arithmetic never reduces by itself and the numerals of
   a moved, rotated box would otherwise grow to hundreds of digits. *)
Definition pt_red (p : pt) : pt := (Qred (fst p), Qred (snd p)).
Definition box_red (b : box) : box :=
  mkBox (Qred (bx b)) (Qred (by_ b)) (Qred (bz b)) (Qred (bc b)) (Qred (bs b))
        (Qred (bw b)) (Qred (bl b)) (Qred (bh b)).
Definition rcorners (b : box) : list pt := map pt_red (corners (box_red b)).
Definition inter_clip (e g : box) : Q := clip_area (rcorners e) (rcorners g).
(* = plane_sq_box e g up to == (Proofs/ClipProofs.v, plane_sq_fast_correct) *)
Definition plane_sq_fast (e g : box) : option Q := plane_sq (rcorners e) (rcorners g).
Definition iou2_clip (e g : box) : Q := iou2_box inter_clip e g.
Definition iou3_clip (e g : box) : Q := iou3_box inter_clip e g.
Definition iou_roi_clip (a b : roi) : Q :=
  iou (clip_area (roi_corners a) (roi_corners b)) (inject_Z (roi_area a)) (inject_Z (roi_area b)).

(* ---------------------------------------------------------------------------------------- *)
(* boolean checks used by the correspondence (harness/props/C06.py)                          *)
(* ---------------------------------------------------------------------------------------- *)
(* |a - b| <= tol * max(1, |a|) : absolute for small values, relative for large ones *)
Definition Qclose_ra (tol a b : Q) : bool := Qleb (qabs (a - b)) (tol * qmax 1 (qabs a)).
Definition Qclose_abs (tol a b : Q) : bool := Qleb (qabs (a - b)) tol.

Definition tol9 : Q := 1 # 1000000000.

(* implementation values are the ROOTS: compare model^2-free value with v*v *)
Definition check_center (e g : box) (v : Q) : bool := Qclose_ra tol9 (center_sq e g) (v * v).

(* plane distance: the value must be the model's; when the 2nd and 3rd corner distance are
   exactly tied the other tie-break is accepted too (numpy's argsort is not stable on every
   platform: the AVX-512 sort is not).  The implementation rounds to 10 decimals. *)
Definition check_plane (e g : box) (v : Q) : bool :=
  match plane_sq_fast e g with
  | None => false
  | Some m =>
      Qclose_ra tol9 m (v * v)
      || (plane_tie23 (rcorners g) &&
          match plane_sq_alt (rcorners e) (rcorners g) with
          | Some m' => Qclose_ra tol9 m' (v * v) | None => false end)
  end.

Definition nat_pair_eqb (a b : nat * nat) : bool := Nat.eqb (fst a) (fst b) && Nat.eqb (snd a) (snd b).
(* reported (left, right) corner indices; [ordered] = false compares them as a set *)
Definition check_plane_lr (g : box) (ordered : bool) (l r : nat) : bool :=
  match plane_lr (rcorners g) with
  | None => false
  | Some lr => nat_pair_eqb lr (l, r) || (negb ordered && nat_pair_eqb lr (r, l))
  end.

(* everything about one ordered pair at once (the corner lists and the clip are computed once) *)
Definition check_scores (e g : box) (ordered : bool) (cd pd i2 i3 : Q) (gl gr el er : nat) : bool :=
  let e := box_red e in let g := box_red g in
  let i := inter_clip e g in
  check_center e g cd && check_plane e g pd &&
  check_plane_lr g ordered gl gr && check_plane_lr g ordered el er &&
  Qclose_abs tol9 (iou i (area_rect e) (area_rect g)) i2 &&
  Qclose_abs tol9 (iou3 i (height_intersection e g) (volume e) (volume g)) i3.
(* the swapped pair: centre distance and the two IoUs *)
Definition check_swapped (e g : box) (cd i2 i3 : Q) : bool :=
  let e := box_red e in let g := box_red g in
  let i := inter_clip g e in
  check_center g e cd &&
  Qclose_abs tol9 (iou i (area_rect g) (area_rect e)) i2 &&
  Qclose_abs tol9 (iou3 i (height_intersection g e) (volume g) (volume e)) i3.

Definition check_iou2 (e g : box) (v : Q) : bool := Qclose_abs tol9 (iou2_clip e g) v.
Definition check_iou3 (e g : box) (v : Q) : bool := Qclose_abs tol9 (iou3_clip e g) v.

(* for yaw = 0 boxes the closed form must agree with the clipper exactly *)
Definition check_aa_closed_form (e g : box) : bool :=
  Qeqb (inter_clip e g) (inter_aa (rect_of_box e) (rect_of_box g)).

(* ROIs: integer arithmetic is exact in binary64 *)
Definition Zsquare_b (n : Z) : bool := Z.eqb (Z.sqrt n * Z.sqrt n) n.
(* v = sqrt(n) computed in binary64: exact when n is a perfect square *)
Definition check_roi_center (a b : roi) (v : Q) : bool :=
  let n := roi_center_sq a b in
  if Zsquare_b n then Qeqb v (inject_Z (Z.sqrt n))
  else Qclose_ra tol9 (inject_Z n) (v * v).
Definition check_roi_center_pt (a : roi) (cx cy : Z) : bool :=
  Z.eqb (fst (roi_center a)) cx && Z.eqb (snd (roi_center a)) cy.

(* a quotient of two integers < 2^53 is exact in binary64 iff its reduced denominator is a
   power of two (and small enough, which the harness guarantees by its value ranges) *)
Definition pow2_b (p : positive) : bool := Z.eqb (Z.land (Zpos p) (Zpos p - 1)) 0.
Definition check_roi_iou (a b : roi) (v : Q) : bool :=
  let m := Qred (iou_roi a b) in
  Qeqb (iou_roi_clip a b) m &&
  (if pow2_b (Qden m) then Qeqb m v else Qclose_abs (1 # 1000000000000000) m v).
