(* C06 -- Matching scores are geometrically exact, bounded and symmetric.
   Models: Model/Geom2.v (exact rational geometry of yaw-only boxes and integer ROIs; every
   distance is SQUARED because Q has no sqrt -- the implementation returns the root) and
   Model/Clip.v (Sutherland-Hodgman + shoelace: the exact evaluator the implementation's IoU
   of rotated boxes is validated against on every run).  Proofs: Proofs/Geom2Proofs.v,
   Proofs/ClipProofs.v.  This file: statements, `exact`, Print Assumptions, non-vacuity.

   What is NOT a theorem here (see harness/props/C06.py `not_proved`): that shapely's
   intersection area -- or the clipper's -- IS the Lebesgue measure of the intersection of two
   ROTATED rectangles.  For rotated boxes the IoU theorems are therefore relative to an
   intersection-area function [inter] with the listed hypotheses (the recorded trusted base),
   and exactness is validated numerically against the clipper.  For axis-aligned boxes and all
   ROIs the intersection is characterised as a point set and the theorems are unconditional. *)
From Coq Require Import List ZArith QArith Bool Lia Lqa.
From PE Require Import Base.QUtil Model.Geom2 Model.Clip Proofs.Geom2Proofs Proofs.ClipProofs.
Import ListNotations.
Open Scope Q_scope.

(* ---------------------------------------------------------------------------------------- *)
(* A. centre distance (squared)                                                              *)
(* ---------------------------------------------------------------------------------------- *)
(* it IS the squared Euclidean distance of the centres (definitionally: no hidden formula),
   symmetric, non-negative, and 0 exactly when the centres coincide *)
Theorem C06_center_distance_laws : forall e g : box,
  center_sq e g = (bx e - bx g) * (bx e - bx g) + (by_ e - by_ g) * (by_ e - by_ g)
                  + (bz e - bz g) * (bz e - bz g) /\
  center_sq e g == center_sq g e /\
  0 <= center_sq e g /\
  (center_sq e g == 0 <-> (bx e == bx g /\ by_ e == by_ g /\ bz e == bz g)).
Proof.
  intros e g. split; [reflexivity|]. split; [apply center_sq_sym|].
  split; [apply center_sq_nonneg|apply center_sq_zero_iff].
Qed.
Print Assumptions C06_center_distance_laws.

(* any common rigid motion: yaw rotation (mc, ms) about the ego + translation (3D) *)
Theorem C06_center_rigid_invariant : forall (m : motion) (e g : box),
  mc m * mc m + ms m * ms m == 1 -> center_sq (move_box m e) (move_box m g) == center_sq e g.
Proof. exact center_sq_rigid. Qed.
Print Assumptions C06_center_rigid_invariant.

(* 2D objects: integer ROI centres offset + size // 2 = floor(offset + size / 2) in both
   coordinates; their squared distance is symmetric, >= 0, 0 iff same centre, translation invariant *)
Theorem C06_roi_center_distance : forall a b : roi,
  (2 * fst (roi_center a) <= 2 * rx a + rw a < 2 * fst (roi_center a) + 2)%Z /\
  (2 * snd (roi_center a) <= 2 * ry a + rh a < 2 * snd (roi_center a) + 2)%Z /\
  roi_center_sq a b = roi_center_sq b a /\ (0 <= roi_center_sq a b)%Z /\
  (roi_center_sq a b = 0%Z <-> roi_center a = roi_center b) /\
  (forall tx ty, roi_center_sq (shift_roi tx ty a) (shift_roi tx ty b) = roi_center_sq a b).
Proof.
  intros a b. split; [apply (roi_center_floor a)|]. split; [apply (roi_center_floor a)|].
  split; [apply roi_center_sq_sym|]. split; [apply roi_center_sq_nonneg|].
  split; [apply roi_center_sq_zero_iff|]. intros. apply roi_center_sq_shift.
Qed.
Print Assumptions C06_roi_center_distance.

(* ---------------------------------------------------------------------------------------- *)
(* B. axis-aligned rectangles and all integer ROIs: unconditional                            *)
(* ---------------------------------------------------------------------------------------- *)
(* exactness: the common points of two rectangles are the rectangle [meet a b]; the closed
   form is its area (width * height) when it is not empty and 0 otherwise *)
Theorem C06_aa_intersection_exact : forall a b : rect,
  (forall p, in_rect a p /\ in_rect b p <-> in_rect (meet a b) p) /\
  (x0 (meet a b) <= x1 (meet a b) -> y0 (meet a b) <= y1 (meet a b) ->
     inter_aa a b == rect_area (meet a b)) /\
  (x1 (meet a b) < x0 (meet a b) \/ y1 (meet a b) < y0 (meet a b) ->
     inter_aa a b == 0 /\ forall p, ~ (in_rect a p /\ in_rect b p)).
Proof.
  intros a b. split; [intros p; apply meet_spec|]. exact (inter_aa_closed_form a b).
Qed.
Print Assumptions C06_aa_intersection_exact.

(* IoU of two rectangles of positive size: in [0,1]; symmetric; 1 EXACTLY for identical ones;
   0 EXACTLY for disjoint or merely touching ones; invariant under a common translation *)
Theorem C06_iou_aa_laws : forall a b : rect,
  rect_pos a -> rect_pos b ->
  0 <= iou_aa a b <= 1 /\
  iou_aa a b == iou_aa b a /\
  iou_aa a a == 1 /\
  (iou_aa a b == 1 <-> (x0 a == x0 b /\ y0 a == y0 b /\ x1 a == x1 b /\ y1 a == y1 b)) /\
  (iou_aa a b == 0 <-> (x1 a <= x0 b \/ x1 b <= x0 a \/ y1 a <= y0 b \/ y1 b <= y0 a)) /\
  (forall tx ty, iou_aa (shift_rect tx ty a) (shift_rect tx ty b) == iou_aa a b).
Proof.
  intros a b Pa Pb. split; [now apply iou_aa_bounds|]. split; [apply iou_aa_sym|].
  split; [now apply iou_aa_identical|]. split; [now apply iou_aa_one_iff|].
  split; [now apply iou_aa_zero_iff|]. intros. apply iou_aa_shift.
Qed.
Print Assumptions C06_iou_aa_laws.

(* a yaw = 0 box has exactly the corners of its rectangle, and the same area *)
Theorem C06_aa_box_is_rect : forall b : box,
  bc b == 1 -> bs b == 0 ->
  Forall2 pt_eq (corners b)
    [(x1 (rect_of_box b), y1 (rect_of_box b)); (x0 (rect_of_box b), y1 (rect_of_box b));
     (x0 (rect_of_box b), y0 (rect_of_box b)); (x1 (rect_of_box b), y0 (rect_of_box b))] /\
  rect_area (rect_of_box b) == area_rect b /\ (box_pos b -> rect_pos (rect_of_box b)).
Proof.
  intros b Hc Hs. split; [exact (corners_aa b Hc Hs)|]. split; [apply rect_of_box_area|apply rect_of_box_pos].
Qed.
Print Assumptions C06_aa_box_is_rect.

(* every pair of integer ROIs with positive size *)
Theorem C06_iou_roi : forall a b : roi,
  roi_pos a -> roi_pos b ->
  0 <= iou_roi a b <= 1 /\ iou_roi a b == iou_roi b a /\ iou_roi a a == 1 /\
  ((rx a + rw a <= rx b \/ rx b + rw b <= rx a \/ ry a + rh a <= ry b \/ ry b + rh b <= ry a)%Z ->
     iou_roi a b == 0) /\
  iou_roi a b == iou_aa (rect_of_roi a) (rect_of_roi b) /\
  (forall tx ty, iou_roi (shift_roi tx ty a) (shift_roi tx ty b) == iou_roi a b).
Proof.
  intros a b Pa Pb. split; [now apply iou_roi_bounds|]. split; [apply iou_roi_sym|].
  split; [now apply iou_roi_identical|]. split; [apply iou_roi_disjoint|].
  split; [apply iou_roi_aa|]. intros. apply iou_roi_shift.
Qed.
Print Assumptions C06_iou_roi.

(* ---------------------------------------------------------------------------------------- *)
(* C. IoU of arbitrary (rotated) boxes, relative to the intersection-area function [inter]   *)
(*    (= shapely's footprint.intersection(footprint).area).  Each theorem lists exactly the   *)
(*    assumptions about [inter] it uses; together they are the recorded trusted base.         *)
(*    box_valid b := positive size /\ bc^2 + bs^2 == 1.                                       *)
(* ---------------------------------------------------------------------------------------- *)
Theorem C06_iou_unit_interval : forall inter : box -> box -> Q,
  (forall e g, box_valid e -> box_valid g -> 0 <= inter e g) ->
  (forall e g, box_valid e -> box_valid g -> inter e g <= area_rect e) ->
  (forall e g, box_valid e -> box_valid g -> inter e g <= area_rect g) ->
  forall e g, box_valid e -> box_valid g ->
  0 <= iou2_box inter e g <= 1 /\ 0 <= iou3_box inter e g <= 1.
Proof.
  intros inter H1 H2 H3 e g Ve Vg. split.
  - now apply iou2_unit_interval.
  - now apply iou3_unit_interval.
Qed.
Print Assumptions C06_iou_unit_interval.

Theorem C06_iou_sym : forall inter : box -> box -> Q,
  (forall e g, box_valid e -> box_valid g -> inter e g == inter g e) ->
  forall e g, box_valid e -> box_valid g ->
  iou2_box inter e g == iou2_box inter g e /\ iou3_box inter e g == iou3_box inter g e.
Proof.
  intros inter H e g Ve Vg. split; [now apply iou2_sym|now apply iou3_sym].
Qed.
Print Assumptions C06_iou_sym.

Theorem C06_iou_identical_one : forall inter : box -> box -> Q,
  (forall e g, box_valid e -> box_valid g -> same_bev e g -> inter e g == area_rect e) ->
  (forall e g, box_valid e -> box_valid g -> same_bev e g -> iou2_box inter e g == 1) /\
  (forall b, box_valid b -> iou3_box inter b b == 1).
Proof.
  intros inter H. split.
  - intros e g Ve Vg S. now apply iou2_identical_one.
  - intros b V. now apply iou3_identical_one.
Qed.
Print Assumptions C06_iou_identical_one.

(* disjoint (or touching) footprints: some edge of one box has the other box on its outside *)
Theorem C06_iou_disjoint_zero : forall inter : box -> box -> Q,
  (forall e g, box_valid e -> box_valid g -> boxes_disjoint e g -> inter e g == 0) ->
  forall e g, box_valid e -> box_valid g -> boxes_disjoint e g ->
  iou2_box inter e g == 0 /\ iou3_box inter e g == 0.
Proof.
  intros inter H e g Ve Vg D. split; [now apply iou2_disjoint_zero|now apply iou3_disjoint_zero].
Qed.
Print Assumptions C06_iou_disjoint_zero.

(* 3D: no common height -> 0, whatever the footprints and whatever [inter] *)
Theorem C06_iou3_height_disjoint_zero : forall (inter : box -> box -> Q) (e g : box),
  bz e + bh e / 2 <= bz g - bh g / 2 \/ bz g + bh g / 2 <= bz e - bh e / 2 ->
  iou3_box inter e g == 0.
Proof. exact iou3_height_disjoint_zero. Qed.
Print Assumptions C06_iou3_height_disjoint_zero.

Theorem C06_iou_rigid_invariant : forall inter : box -> box -> Q,
  (forall m e g, motion_unit m -> box_valid e -> box_valid g ->
     inter (move_box m e) (move_box m g) == inter e g) ->
  forall m e g, mc m * mc m + ms m * ms m == 1 -> box_valid e -> box_valid g ->
  iou2_box inter (move_box m e) (move_box m g) == iou2_box inter e g /\
  iou3_box inter (move_box m e) (move_box m g) == iou3_box inter e g.
Proof.
  intros inter H m e g Um Ve Vg. split; [now apply iou2_rigid_invariant|now apply iou3_rigid_invariant].
Qed.
Print Assumptions C06_iou_rigid_invariant.

Theorem C06_iou3_le_iou2 : forall inter : box -> box -> Q,
  (forall e g, box_valid e -> box_valid g -> 0 <= inter e g) ->
  (forall e g, box_valid e -> box_valid g -> inter e g <= area_rect e) ->
  (forall e g, box_valid e -> box_valid g -> inter e g <= area_rect g) ->
  forall e g, box_valid e -> box_valid g -> iou3_box inter e g <= iou2_box inter e g.
Proof. intros inter H1 H2 H3 e g Ve Vg. now apply iou3_le_iou2. Qed.
Print Assumptions C06_iou3_le_iou2.

(* the number-level inequality behind it:  I h / (V_e + V_g - I h) <= I / (A_e + A_g - I) *)
Theorem C06_iou3_le_iou2_numbers : forall i h ae ag he hg : Q,
  0 <= i -> i <= ae -> i <= ag -> 0 < ae -> 0 < ag ->
  0 <= h -> h <= he -> h <= hg -> 0 < he -> 0 < hg ->
  (i * h) / (ae * he + ag * hg - i * h) <= i / (ae + ag - i).
Proof. exact iou3_le_iou2_num. Qed.
Print Assumptions C06_iou3_le_iou2_numbers.

(* the height intersection is the length of the set of common heights; bounds, symmetry,
   invariance *)
Theorem C06_height_intersection : forall e g : box,
  (let lo := qmax (bz e - bh e / 2) (bz g - bh g / 2) in
   let hi := qmin (bz e + bh e / 2) (bz g + bh g / 2) in
   (forall z, (bz e - bh e / 2 <= z <= bz e + bh e / 2 /\ bz g - bh g / 2 <= z <= bz g + bh g / 2)
              <-> lo <= z <= hi) /\
   (lo <= hi -> height_intersection e g == hi - lo) /\
   (hi < lo -> height_intersection e g == 0)) /\
  0 <= height_intersection e g /\
  (0 <= bh e -> height_intersection e g <= bh e) /\
  (0 <= bh g -> height_intersection e g <= bh g) /\
  height_intersection e g == height_intersection g e /\
  (0 <= bh e -> height_intersection e e == bh e) /\
  (forall m, height_intersection (move_box m e) (move_box m g) == height_intersection e g).
Proof.
  intros e g. split; [exact (height_intersection_spec e g)|].
  split; [apply height_intersection_nonneg|]. split; [apply height_intersection_le_l|].
  split; [apply height_intersection_le_r|]. split; [apply height_intersection_sym|].
  split; [apply height_intersection_self|]. intros m. apply height_intersection_move.
Qed.
Print Assumptions C06_height_intersection.

(* the footprint moves with the box (used by every invariance statement) *)
Theorem C06_corners_covariant : forall (m : motion) (b : box),
  Forall2 pt_eq (corners (move_box m b)) (map (move_pt m) (corners b)).
Proof. exact corners_move. Qed.
Print Assumptions C06_corners_covariant.

(* ---------------------------------------------------------------------------------------- *)
(* D. plane distance (squared)                                                               *)
(* ---------------------------------------------------------------------------------------- *)
(* It is defined for every pair of boxes, and equals the MEAN of the two squared distances
   between corresponding footprint corners (same corner index on estimate and ground truth) at
   the ends i, j of a SIDE of the ground truth (adjacent corners) that is nearest to the ego:
   every other corner is at least as far from the ego as both.  (Implementation: the root of
   this, i.e. the RMS distance.)  The left/right assignment does not enter the value. *)
Theorem C06_plane_is_mean_over_nearest_side : forall e g : box,
  exists i j gi gj ei ej,
    plane_sel (corners g) = Some (i, j) /\
    nth_error (corners g) i = Some gi /\ nth_error (corners g) j = Some gj /\
    nth_error (corners e) i = Some ei /\ nth_error (corners e) j = Some ej /\
    i <> j /\ adjacent4 i j /\
    sqnorm gi <= sqnorm gj /\
    (forall k gk, k <> i -> k <> j -> nth_error (corners g) k = Some gk -> sqnorm gj <= sqnorm gk) /\
    oQeq (plane_sq_box e g) (Some ((1 # 2) * (sqdist_bev ei gi + sqdist_bev ej gj))).
Proof. exact plane_sq_box_spec. Qed.
Print Assumptions C06_plane_is_mean_over_nearest_side.

Theorem C06_plane_nonneg : forall e g : box,
  exists v, plane_sq_box e g = Some v /\ 0 <= v.
Proof.
  intros e g. destruct (plane_sq_box_some e g) as [v Hv]. exists v. split; [exact Hv|].
  now apply (plane_sq_box_nonneg e g).
Qed.
Print Assumptions C06_plane_nonneg.

(* 0 for identical footprints; and 0 ONLY IF the estimate's two selected corners coincide with
   the ground truth's *)
Theorem C06_plane_identical_zero : forall e g : box,
  (same_bev e g -> exists v, plane_sq_box e g = Some v /\ v == 0) /\
  ((exists v, plane_sq_box e g = Some v /\ v == 0) ->
     exists i j gi gj ei ej, plane_sel (corners g) = Some (i, j) /\
       nth_error (corners g) i = Some gi /\ nth_error (corners g) j = Some gj /\
       nth_error (corners e) i = Some ei /\ nth_error (corners e) j = Some ej /\
       pt_eq ei gi /\ pt_eq ej gj).
Proof.
  intros e g. split.
  - intros S. destruct (plane_sq_box_some e g) as [v Hv]. exists v. split; [exact Hv|].
    now apply (plane_sq_box_identical_zero e g).
  - intros H. apply plane_sq_box_zero_inv. now right.
Qed.
Print Assumptions C06_plane_identical_zero.

(* common rotation about the ego (ties between corner distances included: equal rationals stay
   equal; on floats ties can break either way, the harness therefore tests untied cases) *)
Theorem C06_plane_rotation_invariant : forall (c s : Q) (e g : box),
  c * c + s * s == 1 ->
  oQeq (plane_sq_box (move_box (rotation c s) e) (move_box (rotation c s) g)) (plane_sq_box e g).
Proof. exact plane_sq_rotation_invariant. Qed.
Print Assumptions C06_plane_rotation_invariant.

(* ---------------------------------------------------------------------------------------- *)
(* E. the exact evaluator itself (Model/Clip.v)                                              *)
(* ---------------------------------------------------------------------------------------- *)
(* a box footprint is convex and counter-clockwise (precondition of Sutherland-Hodgman), its
   shoelace area is length * width, clipping it by itself returns it: the evaluator gives
   IoU = 1 (2D and 3D) for identical boxes of any yaw, position and size *)
Theorem C06_clip_self : forall b : box, box_valid b ->
  (forall ab, In ab (edges (corners b)) -> forall p, In p (corners b) -> 0 <= cross (fst ab) (snd ab) p) /\
  poly_area (corners b) == bl b * bw b /\
  clip (rcorners b) (rcorners b) = rcorners b /\ inter_clip b b == area_rect b /\
  iou2_clip b b == 1 /\ iou3_clip b b == 1.
Proof.
  intros b V. split.
  { intros ab Hab p Hp. apply Qleb_true. exact (corners_convex_ccw b V ab Hab p Hp). }
  split; [apply poly_area_corners, V|].
  split; [now apply clip_self|]. split; [now apply inter_clip_self|].
  split; [now apply iou2_clip_self|now apply iou3_clip_self].
Qed.
Print Assumptions C06_clip_self.

(* soundness half of the evaluator, for ANY subject polygon and ANY clip polygon: every vertex of
   the clipped polygon is on the inner side of every edge of the clip polygon, and satisfies every
   linear inequality that all subject vertices satisfy (it is in the subject's convex hull).  For
   two boxes: the polygon whose area the evaluator reports lies inside both footprints.
   (Not proved: that nothing of the intersection is missing, and the area's sign -- see above.) *)
Theorem C06_clip_sound :
  (forall (subj cl : list pt) (ab : pt * pt), In ab (edges cl) ->
     forall p, In p (clip subj cl) -> 0 <= cross (fst ab) (snd ab) p) /\
  (forall (subj cl : list pt) (a b : pt), (forall q, In q subj -> 0 <= cross a b q) ->
     forall p, In p (clip subj cl) -> 0 <= cross a b p) /\
  (forall e g : box, box_valid e -> box_valid g ->
     forall p, In p (clip (rcorners e) (rcorners g)) ->
     (forall ab, In ab (edges (rcorners g)) -> 0 <= cross (fst ab) (snd ab) p) /\
     (forall ab, In ab (edges (rcorners e)) -> 0 <= cross (fst ab) (snd ab) p)).
Proof.
  split; [exact clip_within_clip|]. split; [exact clip_within_subject|exact clip_boxes_sound].
Qed.
Print Assumptions C06_clip_sound.

(* the plane-distance evaluator used by the correspondence (corners in lowest terms) computes
   the model's plane distance and the model's left/right corner indices *)
Theorem C06_plane_evaluator_correct : forall e g : box,
  oQeq (plane_sq_fast e g) (plane_sq_box e g) /\ plane_lr (rcorners g) = plane_lr (corners g).
Proof. intros e g. split; [apply plane_sq_fast_correct|apply plane_lr_fast_correct]. Qed.
Print Assumptions C06_plane_evaluator_correct.

(* ---------------------------------------------------------------------------------------- *)
(* non-vacuity: a rotated, partially overlapping pair and a common rigid motion              *)
(* ---------------------------------------------------------------------------------------- *)
Definition ex_e : box := mkBox 1 1 1 1 0 (3 # 2) (5 # 2) (3 # 2).
Definition ex_g : box := mkBox (3 # 2) (5 # 4) (1 # 2) (3 # 5) (4 # 5) 1 2 1.
Definition ex_m : motion := mkMotion (5 # 13) (12 # 13) 1 (-2) (1 # 2).

Example C06_nonvacuous_boxes :
  box_valid ex_e /\ box_valid ex_g /\ motion_unit ex_m /\ ~ same_bev ex_e ex_g /\
  center_sq ex_e ex_g == 9 # 16 /\
  oQeq (plane_sq_box ex_e ex_g) (Some (159 # 80)) /\ plane_lr (corners ex_g) = Some (1%nat, 2%nat) /\
  iou2_clip ex_e ex_g == 151 # 401 /\ iou3_clip ex_e ex_g == 151 # 825 /\
  iou2_clip ex_g ex_e == 151 # 401 /\
  iou2_clip (move_box ex_m ex_e) (move_box ex_m ex_g) == 151 # 401 /\
  oQeq (plane_sq_box (move_box (rotation (5 # 13) (12 # 13)) ex_e) (move_box (rotation (5 # 13) (12 # 13)) ex_g))
       (Some (159 # 80)).
Proof.
  split; [split; [repeat split|]; vm_compute; reflexivity|].
  split; [split; [repeat split|]; vm_compute; reflexivity|].
  split; [vm_compute; reflexivity|].
  split; [intros (_ & _ & H & _); vm_compute in H; discriminate|].
  split; [vm_compute; reflexivity|].
  split; [vm_compute; reflexivity|].
  split; [vm_compute; reflexivity|].
  split; [vm_compute; reflexivity|].
  split; [vm_compute; reflexivity|].
  split; [vm_compute; reflexivity|].
  split; [vm_compute; reflexivity|].
  vm_compute; reflexivity.
Qed.

Example C06_nonvacuous_aa :
  let a := mkRect 0 0 4 2 in let b := mkRect 3 1 5 5 in let c := mkRect 4 0 6 2 in
  rect_pos a /\ rect_pos b /\ inter_aa a b == 1 /\ iou_aa a b == 1 # 15 /\
  rects_disjoint a c /\ iou_aa a c == 0 /\
  iou_roi (mkRoi 100 100 201 101) (mkRoi 150 120 200 100) == 12231 # 28070 /\
  roi_center (mkRoi 100 100 201 101) = (200%Z, 150%Z) /\
  roi_center_sq (mkRoi 100 100 201 101) (mkRoi 150 120 200 100) = 2900%Z.
Proof.
  cbv zeta.
  split; [split; vm_compute; reflexivity|].
  split; [split; vm_compute; reflexivity|].
  split; [vm_compute; reflexivity|].
  split; [vm_compute; reflexivity|].
  split; [left; vm_compute; discriminate|].
  split; [vm_compute; reflexivity|].
  split; [vm_compute; reflexivity|].
  split; [vm_compute; reflexivity|].
  vm_compute; reflexivity.
Qed.

(* the seven hypotheses about [inter] of part C are jointly satisfiable (so the theorems of part C
   are not vacuous): a coarse intersection-area function -- the whole area for identical
   footprints, 0 otherwise -- fulfils all of them *)
Example C06_nonvacuous_inter_hypotheses : exists inter : box -> box -> Q,
  (forall e g, box_valid e -> box_valid g -> 0 <= inter e g) /\
  (forall e g, box_valid e -> box_valid g -> inter e g <= area_rect e) /\
  (forall e g, box_valid e -> box_valid g -> inter e g <= area_rect g) /\
  (forall e g, box_valid e -> box_valid g -> inter e g == inter g e) /\
  (forall e g, box_valid e -> box_valid g -> same_bev e g -> inter e g == area_rect e) /\
  (forall e g, box_valid e -> box_valid g -> boxes_disjoint e g -> inter e g == 0) /\
  (forall m e g, motion_unit m -> box_valid e -> box_valid g ->
     inter (move_box m e) (move_box m g) == inter e g).
Proof. exists inter_toy. exact inter_toy_ok. Qed.
