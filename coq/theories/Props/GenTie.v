(* Redundant tie between the SOURCE of the small decision functions of perception_eval and the hand-written models:
   Gen/Decisions.v is re-generated from the Python `ast` on every run (translator/decisions.py); every theorem below says
   that a generated definition EQUALS the corresponding hand-model definition for ALL inputs (boolean / error-monad equality,
   not just logical equivalence).  Each proof is: open the definitions on both sides, then the one generic tactic [tie]
   (Proofs/GenTieLemmas.v).  A one-token change of the source changes the generated definition and the equation fails. *)
From Coq Require Import List Bool ZArith String Arith Lia.
From PE Require Import Base.QUtil Proofs.GenTieLemmas.
From PE Require Model.AP Model.Matching Model.Filter Model.Clear Model.PassFail.
From PE Require Gen.Decisions.
Import Gen.Decisions.
Open Scope Q_scope.

(* ---- objects_filter._is_target_object = Filter.is_target (the sequential model with its exceptions) ------------------- *)
Theorem GenTie_is_target_object :
  forall (c : Filter.Cfg) (tf is_gt : bool) (o : Filter.Obj),
    Gen__is_target_object.f c tf is_gt o = Filter.is_target c tf is_gt o.
Proof.
  intros.
  cbv beta iota zeta delta [Gen__is_target_object.f Filter.is_target Filter.step Filter.num_thr Filter.label_thr
    Filter.points_step Filter.uuid_step Filter.position_of Filter.use_unknown_threshold Filter.is_contained_unknown
    Filter.conf_list PassFail.get_label_threshold andb orb negb fst snd option_map].
  tie.
Qed.
Print Assumptions GenTie_is_target_object.

(* ---- <Mode>Matching.is_better_than = AP.better_than (value None -> False; strict; distances minimised, IoU maximised) --- *)
Theorem GenTie_CenterDistanceMatching_is_better_than :
  forall (v : option Q) (t : Q),
    Gen_CenterDistanceMatching_is_better_than.f v t = AP.better_than AP.Minimize v t.
Proof. intros. cbv beta iota zeta delta [Gen_CenterDistanceMatching_is_better_than.f AP.better_than andb orb negb]. tie. Qed.
Print Assumptions GenTie_CenterDistanceMatching_is_better_than.

Theorem GenTie_PlaneDistanceMatching_is_better_than :
  forall (v : option Q) (t : Q),
    Gen_PlaneDistanceMatching_is_better_than.f v t = AP.better_than AP.Minimize v t.
Proof. intros. cbv beta iota zeta delta [Gen_PlaneDistanceMatching_is_better_than.f AP.better_than andb orb negb]. tie. Qed.
Print Assumptions GenTie_PlaneDistanceMatching_is_better_than.

Theorem GenTie_IOU2dMatching_is_better_than :
  forall (v : option Q) (t : Q),
    Gen_IOU2dMatching_is_better_than.f v t = AP.better_than AP.Maximize v t.
Proof. intros. cbv beta iota zeta delta [Gen_IOU2dMatching_is_better_than.f AP.better_than andb orb negb]. tie. Qed.
Print Assumptions GenTie_IOU2dMatching_is_better_than.

Theorem GenTie_IOU3dMatching_is_better_than :
  forall (v : option Q) (t : Q),
    Gen_IOU3dMatching_is_better_than.f v t = AP.better_than AP.Maximize v t.
Proof. intros. cbv beta iota zeta delta [Gen_IOU3dMatching_is_better_than.f AP.better_than andb orb negb]. tie. Qed.
Print Assumptions GenTie_IOU3dMatching_is_better_than.

(* the leading asserts: none for the distances, `0.0 <= threshold_value <= 1.0` for the IoUs (the hand models do not model
   this AssertionError; the thresholds they are given are the configured ones) *)
Theorem GenTie_is_better_than_preconditions :
  forall (v : option Q) (t : Q),
    Gen_CenterDistanceMatching_is_better_than.pre v t = true /\
    Gen_PlaneDistanceMatching_is_better_than.pre v t = true /\
    Gen_IOU2dMatching_is_better_than.pre v t = (Qleb 0 t && Qleb t 1)%bool /\
    Gen_IOU3dMatching_is_better_than.pre v t = (Qleb 0 t && Qleb t 1)%bool.
Proof.
  intros.
  cbv beta iota zeta delta [Gen_CenterDistanceMatching_is_better_than.pre Gen_PlaneDistanceMatching_is_better_than.pre
    Gen_IOU2dMatching_is_better_than.pre Gen_IOU3dMatching_is_better_than.pre andb orb negb].
  repeat split; tie.
Qed.
Print Assumptions GenTie_is_better_than_preconditions.

(* the same functions against the `better` of the matcher, of the pass/fail model and of the CLEAR model *)
Theorem GenTie_is_better_than_other_models :
  forall (x t : Q) (v : option Q),
    Gen_CenterDistanceMatching_is_better_than.f (Some x) t = Matching.better (Matching.maximize_of Matching.CENTERDISTANCE) x t /\
    Gen_PlaneDistanceMatching_is_better_than.f (Some x) t = Matching.better (Matching.maximize_of Matching.PLANEDISTANCE) x t /\
    Gen_IOU2dMatching_is_better_than.f (Some x) t = Matching.better (Matching.maximize_of Matching.IOU2D) x t /\
    Gen_IOU3dMatching_is_better_than.f (Some x) t = Matching.better (Matching.maximize_of Matching.IOU3D) x t /\
    Gen_PlaneDistanceMatching_is_better_than.f v t = PassFail.is_better_than v t /\
    Gen_CenterDistanceMatching_is_better_than.f (Some x) t = Clear.better Clear.Dist x t /\
    Gen_IOU3dMatching_is_better_than.f (Some x) t = Clear.better Clear.Iou x t.
Proof.
  intros.
  cbv beta iota zeta delta [Gen_CenterDistanceMatching_is_better_than.f Gen_PlaneDistanceMatching_is_better_than.f
    Gen_IOU2dMatching_is_better_than.f Gen_IOU3dMatching_is_better_than.f Matching.better Matching.maximize_of
    PassFail.is_better_than Clear.better andb orb negb].
  repeat split; tie.
Qed.
Print Assumptions GenTie_is_better_than_other_models.

(* ---- DynamicObjectWithPerceptionResult.is_result_correct = AP.is_result_correct ------------------------------------------ *)
Theorem GenTie_is_result_correct :
  forall (md : Matching.Mode) (t : option Q) (r : AP.res),
    Gen_is_result_correct.f md t r
    = AP.is_result_correct (if Matching.maximize_of md then AP.Maximize else AP.Minimize) t r.
Proof.
  intros.
  cbv beta iota zeta delta [Gen_is_result_correct.f Gen_CenterDistanceMatching_is_better_than.f
    Gen_PlaneDistanceMatching_is_better_than.f Gen_IOU2dMatching_is_better_than.f Gen_IOU3dMatching_is_better_than.f
    AP.is_result_correct AP.better_than Matching.maximize_of andb orb negb].
  tie.
Qed.
Print Assumptions GenTie_is_result_correct.

(* the same source function read through the facts of the pass/fail model (3D: plane distance) and of the CLEAR model *)
Theorem GenTie_is_result_correct_passfail :
  forall (thr : option Q) (r : Filter.Res),
    Gen_is_result_correct_passfail.f thr r = PassFail.is_result_correct thr r.
Proof.
  intros.
  cbv beta iota zeta delta [Gen_is_result_correct_passfail.f Gen_PlaneDistanceMatching_is_better_than.f
    PassFail.is_result_correct PassFail.is_better_than andb orb negb].
  tie.
Qed.
Print Assumptions GenTie_is_result_correct_passfail.

Theorem GenTie_is_result_correct_clear :
  forall (m : Clear.mode) (t : Q) (r : Clear.result),
    Gen_is_result_correct_clear.f m t r = Clear.is_correct m t r.
Proof.
  intros.
  cbv beta iota zeta delta [Gen_is_result_correct_clear.f Gen_CenterDistanceMatching_is_better_than.f
    Gen_IOU3dMatching_is_better_than.f Clear.is_correct Clear.better andb orb negb].
  tie.
Qed.
Print Assumptions GenTie_is_result_correct_clear.

(* ---- MatchingLabelPolicy.is_matchable = Matching.is_matchable ---------------------------------------------------------------- *)
Theorem GenTie_is_matchable :
  forall (p : Matching.Policy) (gt_is_fp same_label est_is_unknown : bool),
    Gen_is_matchable.f p gt_is_fp same_label est_is_unknown = Matching.is_matchable p gt_is_fp same_label est_is_unknown.
Proof. intros. cbv beta iota zeta delta [Gen_is_matchable.f Matching.is_matchable andb orb negb]. tie. Qed.
Print Assumptions GenTie_is_matchable.

(* is_label_correct (property): a ground truth exists and the policy says matchable *)
Theorem GenTie_is_label_correct :
  forall (has_gt : bool) (p : Matching.Policy) (gt_is_fp same_label est_is_unknown : bool),
    Gen_is_label_correct.f has_gt p gt_is_fp same_label est_is_unknown
    = (has_gt && Matching.is_matchable p gt_is_fp same_label est_is_unknown)%bool.
Proof. intros. cbv beta iota zeta delta [Gen_is_label_correct.f Gen_is_matchable.f Matching.is_matchable andb orb negb]. tie. Qed.
Print Assumptions GenTie_is_label_correct.

(* ---- common/threshold.py get_label_threshold = PassFail.get_label_threshold (None / value / IndexError) ----------------------- *)
Theorem GenTie_get_label_threshold :
  forall (A : Type) (targets : option (list nat)) (lbl : nat) (lst : option (list A)),
    Gen_get_label_threshold.f targets lbl lst = PassFail.get_label_threshold targets lbl lst.
Proof. intros. cbv beta iota zeta delta [Gen_get_label_threshold.f PassFail.get_label_threshold andb orb negb]. tie. Qed.
Print Assumptions GenTie_get_label_threshold.

Theorem GenTie_LabelThreshold_get_label_threshold :
  forall (A : Type) (targets : option (list nat)) (lbl : nat) (l : list A),
    Gen_LabelThreshold_get_label_threshold.f targets lbl l = PassFail.get_label_threshold targets lbl (Some l).
Proof.
  intros. cbv beta iota zeta delta [Gen_LabelThreshold_get_label_threshold.f Gen_get_label_threshold.f
    PassFail.get_label_threshold andb orb negb]. tie.
Qed.
Print Assumptions GenTie_LabelThreshold_get_label_threshold.

(* ---- CLEAR._is_id_switched / _is_same_match = Clear.is_switched / Clear.is_same ------------------------------------------------ *)
Theorem GenTie_is_id_switched :
  forall (c p : Clear.result), Gen__is_id_switched.f c p = Clear.is_switched c p.
Proof. intros. cbv beta iota zeta delta [Gen__is_id_switched.f Clear.is_switched Clear.same_est andb orb negb]. tie. Qed.
Print Assumptions GenTie_is_id_switched.

Theorem GenTie_is_same_match :
  forall (c p : Clear.result), Gen__is_same_match.f c p = Clear.is_same c p.
Proof. intros. cbv beta iota zeta delta [Gen__is_same_match.f Clear.is_same Clear.same_est andb orb negb]. tie. Qed.
Print Assumptions GenTie_is_same_match.
