(* C09 -- Heading comparisons use the true minimal yaw difference.
   Model: Model/Heading.v, in pi-units over Q (an angle of x*pi radians is the rational x).
   An orientation is (yaw, quaternion sign) with yaw in (-1, 1] ([valid_yaw]);
   [yaw_dist q1 q2 = min(|q1-q2|, 2-|q1-q2|)] is the minimal yaw difference d/pi in [0, 1];
   [aph_weight map_frame est gt] is TPMetricsAph.get_value (get_heading_bev of both objects, ego-frame
   branch or the map-frame branch with the identity transform TPMetricsAph registers);
   [yaw_error est gt] is the yaw component of get_heading_error (object_result.heading_error[2]).
   All statements are for ALL rational yaws in (-1, 1].  Only statements, `exact`, Print Assumptions
   and non-vacuity examples here. *)
From Coq Require Import QArith List Bool.
From PE Require Import Base.QUtil Model.Heading Proofs.HeadingProofs.
Import ListNotations.
Open Scope Q_scope.

(* the specification is what it says: one of |q1-q2|, 2-|q1-q2|, not larger than either, in [0,1] *)
Theorem C09_yaw_dist_is_minimal_difference : forall q1 q2 : Q,
  valid_yaw q1 -> valid_yaw q2 ->
  (yaw_dist q1 q2 == qabs (q1 - q2) \/ yaw_dist q1 q2 == 2 - qabs (q1 - q2)) /\
  yaw_dist q1 q2 <= qabs (q1 - q2) /\ yaw_dist q1 q2 <= 2 - qabs (q1 - q2) /\
  0 <= yaw_dist q1 q2 <= 1.
Proof.
  intros q1 q2 H1 H2. destruct (yaw_dist_is_min q1 q2 H1 H2) as (A&B&C).
  split; [exact A|]. split; [exact B|]. split; [exact C|]. apply yaw_dist_range; assumption.
Qed.
Print Assumptions C09_yaw_dist_is_minimal_difference.

(* weight = 1 - d/pi, in the ego-frame branch and in the map-frame branch *)
Theorem C09_aph_weight_spec : forall (map_frame : bool) (est gt : orientation),
  valid_yaw (yaw_of est) -> valid_yaw (yaw_of gt) ->
  aph_weight map_frame est gt == 1 - yaw_dist (yaw_of est) (yaw_of gt) /\
  0 <= aph_weight map_frame est gt <= 1.
Proof.
  intros mf est gt H1 H2. split; [apply aph_weight_spec; assumption|apply aph_weight_range; assumption].
Qed.
Print Assumptions C09_aph_weight_spec.

Theorem C09_aph_weight_sym : forall (map_frame : bool) (est gt : orientation),
  valid_yaw (yaw_of est) -> valid_yaw (yaw_of gt) ->
  aph_weight map_frame est gt == aph_weight map_frame gt est.
Proof. exact aph_weight_sym. Qed.
Print Assumptions C09_aph_weight_sym.

Theorem C09_aph_weight_equal_one : forall (map_frame : bool) (est gt : orientation),
  valid_yaw (yaw_of est) -> valid_yaw (yaw_of gt) ->
  yaw_of est == yaw_of gt -> aph_weight map_frame est gt == 1.
Proof. exact aph_weight_equal_one. Qed.
Print Assumptions C09_aph_weight_equal_one.

(* opposite headings: the yaws differ by exactly half a turn (1 in pi-units) *)
Theorem C09_aph_weight_opposite_zero : forall (map_frame : bool) (est gt : orientation),
  valid_yaw (yaw_of est) -> valid_yaw (yaw_of gt) ->
  (yaw_of est - yaw_of gt == 1 \/ yaw_of gt - yaw_of est == 1) -> aph_weight map_frame est gt == 0.
Proof. exact aph_weight_opposite_zero. Qed.
Print Assumptions C09_aph_weight_opposite_zero.

(* ... and only then *)
Theorem C09_aph_weight_endpoints_only : forall (map_frame : bool) (est gt : orientation),
  valid_yaw (yaw_of est) -> valid_yaw (yaw_of gt) ->
  (aph_weight map_frame est gt == 1 -> yaw_of est == yaw_of gt) /\
  (aph_weight map_frame est gt == 0 -> yaw_of est - yaw_of gt == 1 \/ yaw_of gt - yaw_of est == 1).
Proof. exact aph_weight_endpoints_only. Qed.
Print Assumptions C09_aph_weight_endpoints_only.

(* the sign convention of the quaternion is not looked at *)
Theorem C09_aph_weight_sign_independent : forall (map_frame : bool) (q1 q2 : Q) (s1 s2 s1' s2' : bool),
  aph_weight map_frame (q1, s1) (q2, s2) = aph_weight map_frame (q1, s1') (q2, s2') /\
  yaw_error (q1, s1) (q2, s2) = yaw_error (q1, s1') (q2, s2').
Proof.
  intros. split; [apply aph_weight_sign_independent|reflexivity].
Qed.
Print Assumptions C09_aph_weight_sign_independent.

(* the same physical pair expressed in the map frame (both yaws rotated by ANY ego yaw e, with
   wrap-around into (-1, 1]) gets the weight it gets in the ego frame; and the heading that
   get_heading_bev computes through the real map->base_link transform is the ego-frame heading *)
Theorem C09_aph_weight_frame_independent : forall (e : Q) (est gt : orientation),
  valid_yaw (yaw_of est) -> valid_yaw (yaw_of gt) -> valid_yaw e ->
  aph_weight true (in_map e est) (in_map e gt) == aph_weight false est gt /\
  heading_bev_via (- e) (in_map e est) == heading_bev_ego est /\
  valid_yaw (yaw_of (in_map e est)).
Proof.
  intros e est gt H1 H2 He. split; [apply aph_weight_frame_independent; assumption|].
  split; [apply heading_bev_frame_independent; assumption|apply in_map_valid; assumption].
Qed.
Print Assumptions C09_aph_weight_frame_independent.

Theorem C09_yaw_error_range : forall est gt : orientation,
  valid_yaw (yaw_of est) -> valid_yaw (yaw_of gt) -> -1 <= yaw_error est gt <= 1.
Proof. exact yaw_error_range. Qed.
Print Assumptions C09_yaw_error_range.

(* |error| = d whichever of the two has the larger yaw (so also with the roles exchanged) *)
Theorem C09_yaw_error_magnitude : forall est gt : orientation,
  valid_yaw (yaw_of est) -> valid_yaw (yaw_of gt) ->
  qabs (yaw_error est gt) == yaw_dist (yaw_of est) (yaw_of gt) /\
  qabs (yaw_error gt est) == yaw_dist (yaw_of est) (yaw_of gt).
Proof.
  intros est gt H1 H2. split; [apply yaw_error_magnitude; assumption|].
  rewrite <- (yaw_error_antisym est gt H1 H2). apply yaw_error_magnitude; assumption.
Qed.
Print Assumptions C09_yaw_error_magnitude.

(* the signed error turns the estimate's yaw into the ground truth's yaw (modulo a full turn) *)
Theorem C09_yaw_error_direction : forall est gt : orientation,
  valid_yaw (yaw_of est) -> valid_yaw (yaw_of gt) ->
  yaw_of est + yaw_error est gt == yaw_of gt \/ yaw_of est + yaw_error est gt == yaw_of gt + 2 \/
  yaw_of est + yaw_error est gt == yaw_of gt - 2.
Proof. exact yaw_error_direction. Qed.
Print Assumptions C09_yaw_error_direction.

(* Ap.tp_list with TPMetricsAph (all results TP, in confidence order): running sums of 1 - d/pi *)
Theorem C09_aph_tp_list_spec : forall (map_frame : bool) (pairs : list (orientation * orientation)),
  Forall (fun p => valid_yaw (yaw_of (fst p)) /\ valid_yaw (yaw_of (snd p))) pairs ->
  Forall2 Qeq (aph_tp_list map_frame pairs)
              (cumsum_from 0 (map (fun p => 1 - yaw_dist (yaw_of (fst p)) (yaw_of (snd p))) pairs)).
Proof. exact aph_tp_list_spec. Qed.
Print Assumptions C09_aph_tp_list_spec.

(* ---- non-vacuity: the former failing inputs, negative yaws, wrap-around ----------------------- *)
(* yaw +0.3 rad vs -0.3 rad is not on the lattice; the same situation with +1/8 and -1/8 (pi-units) *)
Example C09_nonvacuous_negative_yaw :
  valid_yaw (1#8) /\ valid_yaw (-1#8) /\
  aph_weight false (1#8, true) (-1#8, false) == 3#4 /\ aph_weight true (1#8, true) (-1#8, false) == 3#4 /\
  yaw_error (1#8, true) (-1#8, true) == -1#4 /\ yaw_error (-1#8, true) (1#8, true) == 1#4.
Proof. unfold valid_yaw. repeat split; try reflexivity; lra. Qed.

(* across the wrap: yaws 7/8 and -7/8 are a quarter turn apart, not 7/4 *)
Example C09_nonvacuous_wrap :
  yaw_dist (7#8) (-7#8) == 1#4 /\ aph_weight false (7#8, true) (-7#8, true) == 3#4 /\
  yaw_error (7#8, true) (-7#8, true) == 1#4 /\
  yaw_of (in_map (3#4) (7#8, true)) == -3#8 /\
  aph_weight true (in_map (3#4) (7#8, true)) (in_map (3#4) (-7#8, true)) == 3#4.
Proof. repeat split; reflexivity. Qed.

Example C09_nonvacuous_endpoints :
  aph_weight false (1#2, true) (1#2, false) == 1 /\ aph_weight false (1#2, true) (-1#2, true) == 0 /\
  aph_weight true (1, true) (0, true) == 0 /\
  Forall2 Qeq (aph_tp_list false [((1#8, true), (-1#8, true)); ((1#2, true), (1#2, true))]) [3#4; 7#4].
Proof. repeat split; try reflexivity. repeat constructor; reflexivity. Qed.
