(* C05 (observe_at "MetricsScore.tracking_scores from the manager in tracking tasks") and C13 ("plus the
   immediately preceding frame for tracking scores"): the tracking glue between the manager and CLEAR.
   Model: Model/TrackingPipeline.v (divide_objects / divide_objects_to_num as dictionary folds, the tracking branch
   of PerceptionFrameResult.evaluate_frame, MetricsScore.evaluate_tracking, TrackingMetricsScore.__init__,
   PerceptionEvaluationManager.add_frame_result / get_scene_result) on top of Model/Clear.v.
   Proofs: Proofs/TrackingPipelineProofs.v.  Every theorem quantifies over all histories of frame results (any
   number of frames, any object results, any ground-truth labels), all configured threshold lists and target labels.
   Only statements, `exact`, Print Assumptions and non-vacuity examples here. *)
From Coq Require Import List Bool Arith ZArith QArith Lia Lqa Permutation.
From PE Require Import Base.QUtil Model.Clear Proofs.ClearProofs Model.TrackingPipeline Proofs.TrackingPipelineProofs.
Import ListNotations.
Open Scope Q_scope.

(* ---------------------------------------------------------------------------------------------
   1. The frame-level tracking score of a frame is, per configured (mode, threshold list) and per target
      label L with threshold t, the CLEAR([L],[t]) of the TWO-FRAME history
         [bucket L (previous frame's object results); bucket L (this frame's object results)]
      (both bucketed with this frame's critical target labels; no previous frame: the empty bucket), with
      num_ground_truth = the number of critical ground truths of label L in THIS frame.  The loop model
      (dictionary folds, the nesting loop, the lookups) never fails when the evaluated labels are among the
      critical filter's target labels.
   --------------------------------------------------------------------------------------------- *)
Theorem C05_pipeline_frame_is_two_frame_clear : forall tl cfg (prev : option pfr) (cur : pfr),
  (forall L, In L tl -> mem L (f_bl cur) = true) ->
  frame_tracking tl cfg prev cur =
  Some (map (fun s : mmode * list Q =>
               map (fun Lt : nat * Q =>
                      make_clear (mode_of (fst s)) [Lt] (count_label (fst Lt) (f_gts cur))
                        [map (view (fst s)) (bucket (f_bl cur) (fst Lt) (prev_res prev));
                         map (view (fst s)) (bucket (f_bl cur) (fst Lt) (f_res cur))])
                   (combine tl (snd s)))
            (score_specs cfg)).
Proof. exact frame_tracking_spec. Qed.
Print Assumptions C05_pipeline_frame_is_two_frame_clear.

(* the order of the scores: centre distance, IoU 2D, IoU 3D, plane distance, each in configuration order *)
Theorem C05_pipeline_score_order : forall c,
  score_specs c = map (pair MCenter) (c_center c) ++ map (pair MIou2d) (c_iou2d c) ++
                  map (pair MIou3d) (c_iou3d c) ++ map (pair MPlane) (c_plane c).
Proof. reflexivity. Qed.
Print Assumptions C05_pipeline_score_order.

(* the dictionary handed to TrackingMetricsScore: for every critical target label the nested pair
   [previous bucket, current bucket]; no key is nested twice *)
Theorem C05_pipeline_tracking_results : forall bl prev cur L,
  (mem L bl = true ->
   dget (tracking_results bl prev cur) L =
   Some (Nested (bucket bl L (match prev with Some p => p | None => [] end)) (bucket bl L cur))) /\
  dget (tracking_results bl prev cur) L <> Some Renested.
Proof. intros bl prev cur L. split; [apply tracking_results_get|apply tracking_results_never_renested]. Qed.
Print Assumptions C05_pipeline_tracking_results.

(* hence (C05_clear_partition): every result of bucket L of the frame whose threshold label (the ground truth's
   label if it has one, else the estimate's) is L counts exactly once, as TP or as FP; predict_num is the size of
   the bucket; the ground-truth count is that of the current frame *)
Theorem C05_pipeline_frame_partition : forall mm L t (prev : option pfr) (cur : pfr),
  let k := frame_clear mm (L, t) prev cur in
  let b := bucket (f_bl cur) L (f_res cur) in
  (c_tp (k_cnt k) + c_fp (k_cnt k) = countb (fun r => Nat.eqb L (pthr_label r)) b)%nat /\
  c_num (k_cnt k) = length b /\ k_numgt k = count_label L (f_gts cur).
Proof. exact frame_clear_partition. Qed.
Print Assumptions C05_pipeline_frame_partition.

Theorem C05_pipeline_result_is_tp_xor_fp : forall mm L t prevs a r,
  let a' := apply_dec a (decide (mode_of mm) [(L, t)] prevs (view mm r)) in
  if Nat.eqb L (pthr_label r)
  then (c_tp a' = S (c_tp a) /\ c_fp a' = c_fp a) \/ (c_tp a' = c_tp a /\ c_fp a' = S (c_fp a))
  else a' = a.
Proof. exact bucket_step_partition. Qed.
Print Assumptions C05_pipeline_result_is_tp_xor_fp.

(* the results of bucket L that the label's CLEAR skips are exactly the cross-label pairs: an estimate of target
   label L whose ground truth has another label (second matching stage, or an FP-labelled ground truth) *)
Theorem C05_pipeline_skipped_are_cross_label : forall bl L r, in_bucket bl L r = true ->
  (Nat.eqb L (pthr_label r) = false <-> pr_elab r = L /\ exists g, pr_gt r = Some g /\ pg_lab g <> L).
Proof. exact bucket_skipped_iff. Qed.
Print Assumptions C05_pipeline_skipped_are_cross_label.

(* under per-frame uniqueness (no two results of a frame share the estimated track (uuid, label) or the ground-truth
   uuid -- the matcher pairs every estimate and every ground truth at most once, C01) the frame-level and the
   scene-level counters of every label are the DECLARATIVE counts of C05_clear_refines_spec on the label's buckets:
   TP = correct or continues the pairing of a TP of the previous frame's bucket, switch = new TP whose pairing differs
   from the pairing a TP of the previous frame's bucket had, score = the previous score for continued pairings *)
Theorem C05_pipeline_refines_spec : forall tl mm Lt (prev : option pfr) (cur : pfr) (frames : list pfr),
  (pframe_unique (prev_res prev) -> pframe_unique (f_res cur) ->
   counters_eq (k_cnt (frame_clear mm Lt prev cur))
               (spec_counts (mode_of mm) [Lt]
                  [map (view mm) (bucket (f_bl cur) (fst Lt) (prev_res prev)); map (view mm) (bucket (f_bl cur) (fst Lt) (f_res cur))])) /\
  ((forall fr, In fr frames -> pframe_unique (f_res fr)) ->
   counters_eq (k_cnt (scene_clear tl mm Lt frames))
               (spec_counts (mode_of mm) [Lt] ([] :: map (fun fr => map (view mm) (bucket tl (fst Lt) (f_res fr))) frames))).
Proof. intros tl mm Lt prev cur frames. split; [apply frame_clear_refines_spec|apply scene_clear_refines_spec]. Qed.
Print Assumptions C05_pipeline_refines_spec.

Theorem C05_pipeline_unique_buckets : forall mm bl L (f : pframe),
  NoDup (map (fun r => (pr_est r, pr_elab r)) f) /\ NoDup (pgt_ids f) ->
  NoDup (map est_key (map (view mm) (bucket bl L f))) /\ NoDup (gt_ids (map (view mm) (bucket bl L f))).
Proof. exact bucket_view_unique. Qed.
Print Assumptions C05_pipeline_unique_buckets.

(* C13: add_frame_result evaluates frame i against frame i-1 (the first against no frame) and appends it *)
Theorem C05_pipeline_predecessor_is_previous_frame : forall tl cfg frs st,
  run_frames tl cfg st frs = (st ++ frs, frame_outs tl cfg (last_opt st) frs) /\
  (forall prev fr rest, frame_outs tl cfg prev (fr :: rest) = frame_tracking tl cfg prev fr :: frame_outs tl cfg (Some fr) rest) /\
  (forall (x : pfr), last_opt (st ++ [x]) = Some x) /\ last_opt (@nil pfr) = None.
Proof. intros tl cfg frs st. split; [apply run_frames_spec|split; [reflexivity|split; [intros x; apply last_opt_snoc|reflexivity]]]. Qed.
Print Assumptions C05_pipeline_predecessor_is_previous_frame.

(* ---------------------------------------------------------------------------------------------
   2. The scene-level tracking score is the CLEAR of [[]; b1; ...; bn] with the ground truths summed, and it is the
      SUM of the frame-level scores: for every label, TP, FP, id switches, predict_num, the TP score sum and the
      ground-truth count of the scene are the sums over the frames of the frame-level values (frame i evaluated
      against frame i-1, the first against the empty predecessor); hence scene MOTA / MOTP are the formulas on the
      summed counters.  (Buckets must agree: the critical filters' target labels have the evaluator's membership.)
   --------------------------------------------------------------------------------------------- *)
Theorem C05_pipeline_scene_is_history_clear : forall tl cfg (frames : list pfr), NoDup tl ->
  scene_tracking tl cfg frames =
  Some (map (fun s : mmode * list Q =>
               map (fun Lt : nat * Q =>
                      make_clear (mode_of (fst s)) [Lt]
                        (sum_nat (map (fun fr => count_label (fst Lt) (f_gts fr)) frames))
                        ([] :: map (fun fr => map (view (fst s)) (bucket tl (fst Lt) (f_res fr))) frames))
                   (combine tl (snd s)))
            (score_specs cfg)).
Proof. exact scene_tracking_spec. Qed.
Print Assumptions C05_pipeline_scene_is_history_clear.

(* CLEAR over any history = sum of the CLEARs of its consecutive two-frame histories *)
Theorem C05_pipeline_history_is_sum_of_pairs : forall m T (f0 : frame) (rest : list frame),
  counters_eq (clear_counts m T (f0 :: rest)) (csum (pair_counts m T f0 rest)) /\
  (forall prev cur r, pair_counts m T prev (cur :: r) = clear_counts m T [prev; cur] :: pair_counts m T cur r).
Proof. intros m T f0 rest. split; [apply clear_counts_pairs|reflexivity]. Qed.
Print Assumptions C05_pipeline_history_is_sum_of_pairs.

Theorem C05_pipeline_scene_sums_frames : forall tl mm L t (frames : list pfr),
  (forall fr, In fr frames -> forall l, mem l (f_bl fr) = mem l tl) ->
  let ks := frame_clears mm (L, t) None frames in          (* the frame-level CLEARs, predecessor threaded *)
  let s := scene_clear tl mm (L, t) frames in
  let TP := sumN k_tp ks in let FP := sumN (fun k => c_fp (k_cnt k)) ks in
  let SW := sumN k_sw ks in let G := sumN k_numgt ks in
  let SC := sumQ (fun k => c_score (k_cnt k)) ks in
  c_tp (k_cnt s) = TP /\ c_fp (k_cnt s) = FP /\ c_sw (k_cnt s) = SW /\
  c_num (k_cnt s) = sumN (fun k => c_num (k_cnt k)) ks /\
  c_score (k_cnt s) == SC /\ k_numgt s = G /\
  k_mota s = match G with O => None | _ => Some (max0 ((Qnat TP - Qnat FP - Qnat SW) / Qnat G)) end /\
  oq_eq (k_motp s) (match TP with O => None | _ => Some (SC / Qnat TP) end).
Proof. exact scene_sums_frames. Qed.
Print Assumptions C05_pipeline_scene_sums_frames.

Theorem C05_pipeline_frame_clears_unfold : forall mm Lt prev fr rest,
  frame_clears mm Lt prev (fr :: rest) = frame_clear mm Lt prev fr :: frame_clears mm Lt (Some fr) rest.
Proof. reflexivity. Qed.
Print Assumptions C05_pipeline_frame_clears_unfold.

(* MetricsScore.num_ground_truth: frame = critical ground truths of the target labels; scene = sum over frames *)
Theorem C05_pipeline_num_ground_truth : forall tl (frames : list pfr), NoDup tl ->
  (forall fr, frame_num_gt fr = countb (fun l => mem l (f_bl fr)) (f_gts fr)) /\
  ((forall fr, In fr frames -> forall l, mem l (f_bl fr) = mem l tl) ->
   scene_num_gt tl frames = Some (sum_nat (map frame_num_gt frames))).
Proof. intros tl frames Hn. split; [exact frame_num_gt_count|apply scene_num_gt_sums_frames; exact Hn]. Qed.
Print Assumptions C05_pipeline_num_ground_truth.

(* the totals of every TrackingMetricsScore (frame and scene) are the weighted formulas of C05_sum_clear_weighted *)
Theorem C05_pipeline_totals_weighted : forall tl cfg (prev : option pfr) (cur : pfr) (frames : list pfr) ks,
  In ks (scores_spec tl cfg (fun mm Lt => frame_clear mm Lt prev cur)) \/
  In ks (scores_spec tl cfg (fun mm Lt => scene_clear tl mm Lt frames)) ->
  let G := sumN k_numgt ks in
  let Tp := sumN k_tp ks in
  oq_eq (fst (fst (sum_clear ks))) (match G with O => None | _ => Some (sumQ mota_weight ks / Qnat G) end) /\
  oq_eq (snd (fst (sum_clear ks))) (match Tp with O => None | _ => Some (sumQ motp_weight ks / Qnat Tp) end) /\
  snd (sum_clear ks) = sumN k_sw ks /\
  sumQ mota_weight ks == sumQ clamp_num ks /\
  sumQ motp_weight ks == sumQ (fun k => c_score (k_cnt k)) ks.
Proof.
  intros tl cfg prev cur frames ks [H|H];
    [apply (scores_totals_weighted tl cfg _ ks (fun mm Lt => frame_clear_wf mm Lt prev cur) H)
    |apply (scores_totals_weighted tl cfg _ ks (fun mm Lt => scene_clear_wf tl mm Lt frames) H)].
Qed.
Print Assumptions C05_pipeline_totals_weighted.

(* ---------------------------------------------------------------------------------------------
   3. divide_objects: every object result lands in at most one bucket; an estimate of a target label lands in
      exactly that label's bucket; a result is dropped iff its estimate's label is no target and it has no ground
      truth; the dictionary built by the loop has duplicate-free keys, `d[L]` is the bucket of L (present iff L is
      a target label or the bucket is not empty), and the results are the disjoint union of the buckets and the
      dropped ones.  divide_objects_to_num: the count per target label.
   --------------------------------------------------------------------------------------------- *)
Theorem C05_pipeline_bucket_partition : forall bl (f : pframe),
  (forall L1 L2 r, in_bucket bl L1 r = true -> in_bucket bl L2 r = true -> L1 = L2) /\
  (forall L r, mem (pr_elab r) bl = true -> in_bucket bl L r = Nat.eqb (pr_elab r) L) /\
  (forall r, is_dropped bl r = true \/ exists L, in_bucket bl L r = true) /\
  (forall r, is_dropped bl r = true <-> mem (pr_elab r) bl = false /\ pr_gt r = None) /\
  NoDup (dkeys (divide bl f)) /\
  (forall L, dget (divide bl f) L = if has_key bl f L then Some (bucket bl L f) else None) /\
  Permutation f (concat (map (fun L => bucket bl L f) (dkeys (divide bl f))) ++ dropped bl f).
Proof.
  intros bl f. split; [apply in_bucket_unique|split; [apply in_bucket_target_estimate|split; [apply in_bucket_or_dropped|split; [apply dropped_iff|]]]].
  exact (divide_partition bl f).
Qed.
Print Assumptions C05_pipeline_bucket_partition.

Theorem C05_pipeline_buckets_partition_any_keys : forall bl keys, NoDup keys -> forall f : pframe,
  (forall r l, In r f -> bucket_label bl r = Some l -> In l keys) ->
  Permutation f (concat (map (fun L => bucket bl L f) keys) ++ dropped bl f).
Proof. exact buckets_partition. Qed.
Print Assumptions C05_pipeline_buckets_partition_any_keys.

Theorem C05_pipeline_divide_num : forall bl gts L,
  dget (divide_num bl gts) L = if mem L bl then Some (count_label L gts) else None.
Proof. exact divide_num_get. Qed.
Print Assumptions C05_pipeline_divide_num.

(* ---------------------------------------------------------------------------------------------
   4. Any injective renaming of the estimated and of the ground-truth track ids leaves the frame-level scores of
      every frame, the scene-level scores and the whole run of the manager unchanged.
   --------------------------------------------------------------------------------------------- *)
Theorem C05_pipeline_renaming_invariant : forall fe fg : nat -> nat,
  (forall x y, fe x = fe y -> x = y) -> (forall x y, fg x = fg y -> x = y) ->
  forall tl cfg,
  (forall prev cur, (forall L, In L tl -> mem L (f_bl cur) = true) ->
     frame_tracking tl cfg (option_map (rename_pfr fe fg) prev) (rename_pfr fe fg cur) = frame_tracking tl cfg prev cur) /\
  (forall frames, NoDup tl -> scene_tracking tl cfg (map (rename_pfr fe fg) frames) = scene_tracking tl cfg frames) /\
  (forall frs, (forall fr, In fr frs -> forall L, In L tl -> mem L (f_bl fr) = true) ->
     snd (run_frames tl cfg [] (map (rename_pfr fe fg) frs)) = snd (run_frames tl cfg [] frs) /\
     fst (run_frames tl cfg [] (map (rename_pfr fe fg) frs)) = map (rename_pfr fe fg) (fst (run_frames tl cfg [] frs))).
Proof.
  intros fe fg He Hg tl cfg. split; [|split].
  - intros prev cur. apply (frame_tracking_rename fe fg He Hg).
  - intros frames. apply (scene_tracking_rename fe fg He Hg).
  - intros frs. apply (run_frames_rename fe fg He Hg).
Qed.
Print Assumptions C05_pipeline_renaming_invariant.

Theorem C05_pipeline_renaming_per_label : forall fe fg : nat -> nat,
  (forall x y, fe x = fe y -> x = y) -> (forall x y, fg x = fg y -> x = y) ->
  forall tl mm Lt prev cur frames,
  frame_clear mm Lt (option_map (rename_pfr fe fg) prev) (rename_pfr fe fg cur) = frame_clear mm Lt prev cur /\
  scene_clear tl mm Lt (map (rename_pfr fe fg) frames) = scene_clear tl mm Lt frames.
Proof.
  intros fe fg He Hg tl mm Lt prev cur frames. split; [apply (frame_clear_rename fe fg He Hg)|apply (scene_clear_rename fe fg He Hg)].
Qed.
Print Assumptions C05_pipeline_renaming_per_label.

(* ---------------------------------------------------------------------------------------------
   Non-vacuity: a three-frame history with two target labels (CAR = 1 with centre threshold 1, PEDESTRIAN = 6 with
   1/2), two configured scores (centre distance, plane distance), an UNKNOWN (0) estimate bucketed by its ground
   truth's label, a dropped result, the critical target labels in another order in frame 2, an exchange of two
   identities (2 switches), a pairing carried beyond the threshold with the previous score, a cross-label pair
   skipped by CLEAR, an estimate without ground truth (FP).
   --------------------------------------------------------------------------------------------- *)
Definition exG (id lab : nat) (ok : bool) (c : Q) : option pgt := Some (mkPG id lab false ok c (1#2) (1#2) c).
Definition ex_tl : list nat := [1%nat; 6%nat].
Definition ex_cfg : tcfg := mkCfg [[1; 1#2]] [] [] [[2; 1]].
Definition ex_f1 : pfr := mkF [1%nat; 6%nat]
  [mkPR 0 1 (exG 0 1 true (1#4)); mkPR 1 6 (exG 1 6 true (1#4)); mkPR 2 0 (exG 2 1 true (1#2)); mkPR 7 0 None] [1%nat; 6%nat; 1%nat].
Definition ex_f2 : pfr := mkF [6%nat; 1%nat]
  [mkPR 2 0 (exG 0 1 true (1#8)); mkPR 0 1 (exG 2 1 true 0); mkPR 1 6 (exG 1 6 true (3#4))] [1%nat; 6%nat; 1%nat].
Definition ex_f3 : pfr := mkF [1%nat; 6%nat]
  [mkPR 5 1 (exG 1 6 false (1#8)); mkPR 0 1 (exG 2 1 true 3); mkPR 9 1 None] [6%nat; 1%nat].
Definition ex_frames : list pfr := [ex_f1; ex_f2; ex_f3].

Definition cnt5 (k : clear) : nat * nat * nat * nat * nat := (c_tp (k_cnt k), c_fp (k_cnt k), c_sw (k_cnt k), c_num (k_cnt k), k_numgt k).
Definition cnts (o : option scores) : list (list (nat * nat * nat * nat * nat)) :=
  match o with Some s => map (map cnt5) s | None => [] end.

Example C05_pipeline_nonvacuous_run :
  (forall fr, In fr ex_frames -> forall L, In L ex_tl -> mem L (f_bl fr) = true) /\
  (forall fr, In fr ex_frames -> forall l, mem l (f_bl fr) = mem l ex_tl) /\ NoDup ex_tl /\
  map cnts (snd (run_frames ex_tl ex_cfg [] ex_frames)) =
    [[[(2, 0, 0, 2, 2); (1, 0, 0, 1, 1)]; [(2, 0, 0, 2, 2); (1, 0, 0, 1, 1)]];
     [[(2, 0, 2, 2, 2); (1, 0, 0, 1, 1)]; [(2, 0, 2, 2, 2); (1, 0, 0, 1, 1)]];
     [[(1, 1, 0, 3, 1); (0, 0, 0, 0, 1)]; [(1, 1, 0, 3, 1); (0, 0, 0, 0, 1)]]]%nat /\
  cnts (scene_tracking ex_tl ex_cfg (fst (run_frames ex_tl ex_cfg [] ex_frames))) =
    [[(5, 1, 2, 7, 5); (2, 0, 0, 2, 3)]; [(5, 1, 2, 7, 5); (2, 0, 0, 2, 3)]]%nat /\
  scene_num_gt ex_tl ex_frames = Some 8%nat /\ map frame_num_gt ex_frames = [3; 3; 2]%nat /\
  dkeys (divide [1%nat; 6%nat] (f_res ex_f1)) = [1; 6]%nat /\ length (dropped [1%nat; 6%nat] (f_res ex_f1)) = 1%nat /\
  (* the pedestrian of frame 2 is a TP beyond its threshold, with the score it had in frame 1 *)
  c_score (k_cnt (frame_clear MCenter (6%nat, 1#2) (Some ex_f1) ex_f2)) == 1#4 /\
  (* the cross-label pair of frame 3 is in the CAR bucket and skipped *)
  countb (fun r => Nat.eqb 1 (pthr_label r)) (bucket (f_bl ex_f3) 1 (f_res ex_f3)) = 2%nat /\
  oq_eq (k_mota (scene_clear ex_tl MCenter (1%nat, 1) ex_frames)) (Some (2#5)) /\
  (forall fr, In fr ex_frames -> pframe_unique (f_res fr)).
Proof.
  split; [|split; [|split]].
  - intros fr [<-|[<-|[<-|[]]]] L [<-|[<-|[]]]; reflexivity.
  - intros fr [<-|[<-|[<-|[]]]] l; unfold mem, ex_tl; cbn [f_bl ex_f1 ex_f2 ex_f3 existsb]; destruct (Nat.eqb l 1), (Nat.eqb l 6); reflexivity.
  - repeat constructor; cbn; intuition discriminate.
  - split; [|split; [|split; [|split; [|split; [|split; [|split; [|split; [|split]]]]]]]]; try (vm_compute; reflexivity).
    intros fr [<-|[<-|[<-|[]]]]; split; vm_compute; repeat constructor; simpl; intuition discriminate.
Qed.

Example C05_pipeline_nonvacuous_renaming :
  let fe := fun x => (3 * x + 1)%nat in let fg := fun x => (x + 10)%nat in
  (forall x y, fe x = fe y -> x = y) /\ (forall x y, fg x = fg y -> x = y) /\
  map (rename_pfr fe fg) ex_frames <> ex_frames /\
  map cnts (snd (run_frames ex_tl ex_cfg [] (map (rename_pfr fe fg) ex_frames))) = map cnts (snd (run_frames ex_tl ex_cfg [] ex_frames)) /\
  cnts (scene_tracking ex_tl ex_cfg (map (rename_pfr fe fg) ex_frames)) = cnts (scene_tracking ex_tl ex_cfg ex_frames).
Proof.
  cbv zeta. split; [intros x y H; lia|split; [intros x y H; lia|split; [|split; vm_compute; reflexivity]]].
  intros H. vm_compute in H. discriminate.
Qed.
