(* Redundant tie, TRANSFORM REGISTRY (C18): the methods of common/transform.py that decide which stored matrix answers a query --
   TransformKey.__init__ / __eq__ / __hash__, TransformDict.__init__ / load_key / get / __getitem__ / __setitem__ / __delitem__ /
   transform, HomogeneousMatrix.dot / inv and the label lines of HomogeneousMatrix.__init__ -- translated from their Python `ast`
   on every run (translator/decisions_transform.py -> Gen/decisions_transform.v), EQUAL the hand model Model/Transform.v for ALL
   inputs: every frame spelling (a str, inl, or a FrameID member, inr), every `key` argument (a TransformKey, a tuple / list of any
   length, a non-iterable), every registry, every argument list.

   The generated functions return [res _]: a value, or the CLASS of the exception, so each equation is error for error.  The source
   keeps a dict keyed by TransformKey; the model keeps the list of the registered matrices (the last one with given labels wins).
   The equations go through the explicit abstraction of Proofs/GenTieTransformLemmas.v: [represents d reg] (every canonical key
   finds in the dict [d] what [reg_get] finds in [reg]), which holds for [dict_of reg] -- the dict TransformDict.__init__ builds
   (GenTie_TransformDict___init__).  Each `_outside` companion states what the generated function returns for EVERY input on the
   dict itself (no hypothesis), so that dicts that represent no registry (a key that disagrees with the labels of its value) and
   keys with non-canonical fields are covered.  Numeric 4x4 algebra is a leaf = the model's exact rational forms.
   Every theorem is compiled on its own by harness/lib/core.gen_tie. *)
From Coq Require Import String List Bool Arith.
From PE Require Import Base.QUtil Base.StrUtil Model.EnumParse Gen.Enums Model.Transform Proofs.TransformProofs.
From PE Require Import Gen.decisions_transform.
From PE Require Import Proofs.GenTieTransformLemmas.
Import ListNotations.
Open Scope string_scope.
Open Scope list_scope.
Open Scope nat_scope.

(* ---- TransformKey.__init__: both elements through Transform.canon; a rejected str is a ValueError -------------------------------- *)
Theorem GenTie_TransformKey___init__ :
  forall a b : spelling,
    Gen_TransformKey___init__.f a b =
    match canon a, canon b with
    | Member s, Member d => Ok (mkKey (inr s) (inr d))
    | _, _ => Err ValueError
    end.
Proof. have_init Gen_TransformKey___init__.f. intros a b. rewrite Hinit. reflexivity. Qed.
Print Assumptions GenTie_TransformKey___init__.

(* ---- TransformDict.load_key = the constructor ---------------------------------------------------------------------------------- *)
Theorem GenTie_load_key :
  forall a b : spelling,
    Gen_load_key.f a b =
    match canon a, canon b with
    | Member s, Member d => Ok (mkKey (inr s) (inr d))
    | _, _ => Err ValueError
    end.
Proof. have_init Gen_TransformKey___init__.f. have_load Gen_load_key.f. intros a b. rewrite Hload. reflexivity. Qed.
Print Assumptions GenTie_load_key.

(* ---- HomogeneousMatrix.__init__, the label lines = Transform.canon_hm; the constructor call = Transform.mk_rigid --------------- *)
Theorem GenTie_HomogeneousMatrix_labels :
  forall (a b : spelling) (p : vec3) (r : quat),
    Gen_HomogeneousMatrix_labels.f a b =
    match canon_hm a, canon_hm b with
    | Member s, Member d => Ok (inr s, inr d)
    | _, _ => Err ValueError
    end /\
    hm_new p r a b = match mk_rigid r p a b with Some m => Ok m | None => Err ValueError end.
Proof.
  have_labels Gen_HomogeneousMatrix_labels.f.
  intros a b p r. unfold hm_new, mk_rigid. rewrite Hlabels, (canon_hm_canon a), (canon_hm_canon b). unfold canon1.
  destruct (canon_cases a) as [[s H]|H]; rewrite H; cbn [bind]; [|split; reflexivity].
  destruct (canon_cases b) as [[t H']|H']; rewrite H'; split; reflexivity.
Qed.
Print Assumptions GenTie_HomogeneousMatrix_labels.

(* ---- TransformKey.__eq__: against a key, against a raw tuple / list (ValueError unless two elements), against anything else --- *)
Theorem GenTie_TransformKey___eq__ :
  forall (k : tkey) (other : keyarg),
    Gen_TransformKey___eq__.f k other =
    match other with
    | AKey k' => Ok (frame_eqb (ksrc k) (ksrc k') && frame_eqb (kdst k) (kdst k'))
    | ASeq [a; b] => Ok (frame_eqb (ksrc k) a && frame_eqb (kdst k) b)
    | ASeq _ => Err ValueError
    | AOther => Ok false
    end.
Proof.
  assert (H : forall k other, Gen_TransformKey___eq__.f k other = key_eq_spec k other) by solve_eq.
  exact H.
Qed.
Print Assumptions GenTie_TransformKey___eq__.

(* ... read on canonical keys: the model's comparison of member keys; against a raw tuple of strs: the member VALUES, case-sensitive *)
Theorem GenTie_TransformKey___eq___model :
  forall s d s' d' x y : string,
    Gen_TransformKey___eq__.f (ck s d) (AKey (ck s' d')) = Ok (String.eqb s s' && String.eqb d d') /\
    Gen_TransformKey___eq__.f (ck s d) (ASeq [inr s'; inr d']) = Ok (String.eqb s s' && String.eqb d d') /\
    Gen_TransformKey___eq__.f (ck s d) (ASeq [inl x; inl y]) = Ok ((FrameID_str_eq && value_is s x) && (FrameID_str_eq && value_is d y)).
Proof.
  assert (H : forall k other, Gen_TransformKey___eq__.f k other = key_eq_spec k other) by solve_eq.
  intros. rewrite !H. repeat split.
Qed.
Print Assumptions GenTie_TransformKey___eq___model.

(* ---- TransformKey.__hash__: the hash of the two member values; keys that are == hash equally ------------------------------------ *)
Theorem GenTie_TransformKey___hash__ :
  forall k : tkey,
    Gen_TransformKey___hash__.f k = Ok (frame_hash (ksrc k), frame_hash (kdst k)) /\
    forall k', key_eqb k k' = true -> Gen_TransformKey___hash__.f k = Gen_TransformKey___hash__.f k'.
Proof.
  intros k. split; [reflexivity|]. intros k' H. unfold Gen_TransformKey___hash__.f. cbn [frames_hash].
  apply andb_true_iff in H as [H1 H2]. rewrite (frame_hash_eq _ _ H1), (frame_hash_eq _ _ H2). reflexivity.
Qed.
Print Assumptions GenTie_TransformKey___hash__.

(* ---- TransformDict.__init__: the dict it builds is the abstraction [dict_of] of the matrices, and represents them --------------- *)
Theorem GenTie_TransformDict___init__ :
  forall (reg : registry) (m : rigid),
    Gen_TransformDict___init__.f (IMany reg) = Ok (dict_of reg) /\
    Gen_TransformDict___init__.f (IOne m) = Ok (dict_of [m]) /\
    Gen_TransformDict___init__.f INone = Ok (dict_of []) /\
    Gen_TransformDict___init__.f IOther = Err TypeError /\
    represents (dict_of reg) reg.
Proof.
  have_init Gen_TransformKey___init__.f.
  assert (Hd : dictinit_spec_of Gen_TransformDict___init__.f) by solve_dictinit.
  intros reg m. destruct (Hd reg m) as (A&B&C&D). repeat split; try assumption. apply dict_of_represents.
Qed.
Print Assumptions GenTie_TransformDict___init__.

(* ---- TransformDict.get = Transform.reg_get on the canonicalised key ------------------------------------------------------------ *)
Theorem GenTie_get :
  forall (d : tdict) (reg : registry) (a b : spelling),
    represents d reg ->
    Gen_get.f d (ASeq [a; b]) =
    match canon a, canon b with
    | Member s, Member t => Ok (reg_get reg s t)
    | _, _ => Err ValueError
    end.
Proof.
  have_init Gen_TransformKey___init__.f. have_load Gen_load_key.f. have_get Gen_get.f.
  intros d reg a b R. rewrite Hget. cbn [key_of_arg]. unfold canon2.
  destruct (canon a); try reflexivity. destruct (canon b); try reflexivity. cbn [bind]. rewrite R. reflexivity.
Qed.
Print Assumptions GenTie_get.

(* every input, on the dict itself: a TransformKey is used as it is, a tuple / list is canonicalised first *)
Theorem GenTie_get_outside :
  forall (d : tdict) (ka : keyarg),
    Gen_get.f d ka =
    match ka with
    | AKey k => Ok (dict_find d k)
    | ASeq [a; b] => match canon a, canon b with
                     | Member s, Member t => Ok (dict_find d (mkKey (inr s) (inr t)))
                     | _, _ => Err ValueError
                     end
    | ASeq _ => Err ValueError
    | AOther => Err TypeError
    end.
Proof.
  have_init Gen_TransformKey___init__.f. have_load Gen_load_key.f. have_get Gen_get.f.
  intros d ka. rewrite Hget, key_of_arg_cases. destruct ka as [k|l|]; [| destruct l as [|a [|b [|c l]]] |]; try reflexivity.
  destruct (canon a); try reflexivity. destruct (canon b); reflexivity.
Qed.
Print Assumptions GenTie_get_outside.

(* ---- TransformDict.__getitem__: KeyError where get returns None ------------------------------------------------------------------ *)
Theorem GenTie___getitem__ :
  forall (d : tdict) (reg : registry) (a b : spelling),
    represents d reg ->
    Gen___getitem__.f d (ASeq [a; b]) =
    match canon a, canon b with
    | Member s, Member t => match reg_get reg s t with Some m => Ok m | None => Err KeyError end
    | _, _ => Err ValueError
    end.
Proof.
  have_init Gen_TransformKey___init__.f. have_load Gen_load_key.f. assert (Hgi : getitem_spec_of Gen___getitem__.f) by solve_keyed.
  intros d reg a b R. rewrite Hgi. cbn [key_of_arg]. unfold canon2.
  destruct (canon a); try reflexivity. destruct (canon b); try reflexivity. cbn [bind]. unfold dict_getitem. rewrite R. reflexivity.
Qed.
Print Assumptions GenTie___getitem__.

Theorem GenTie___getitem___outside :
  forall (d : tdict) (ka : keyarg),
    Gen___getitem__.f d ka =
    bind (Gen_get.f d ka) (fun r => match r with Some m => Ok m | None => Err KeyError end).
Proof.
  have_init Gen_TransformKey___init__.f. have_load Gen_load_key.f. have_get Gen_get.f.
  assert (Hgi : getitem_spec_of Gen___getitem__.f) by solve_keyed.
  intros d ka. rewrite Hgi, Hget. destruct (key_of_arg ka); reflexivity.
Qed.
Print Assumptions GenTie___getitem___outside.

(* ---- TransformDict.__setitem__: the canonicalised key is set (replaced in place, else appended); on a dict that represents a
   registry, with a value labelled like the key, the result represents the registry with the value registered last -------------- *)
Theorem GenTie___setitem__ :
  forall (d : tdict) (reg : registry) (a b : spelling) (v : rigid),
    canonical d -> represents d reg -> canon a = Member (rsrc v) -> canon b = Member (rdst v) ->
    Gen___setitem__.f d (ASeq [a; b]) v = Ok (dict_set d (key_of v) v) /\
    canonical (dict_set d (key_of v) v) /\ represents (dict_set d (key_of v) v) (reg ++ [v]).
Proof.
  have_init Gen_TransformKey___init__.f. have_load Gen_load_key.f. assert (Hsi : setitem_spec_of Gen___setitem__.f) by solve_keyed.
  intros d reg a b v C R Ha Hb. rewrite Hsi. cbn [key_of_arg]. unfold canon2. rewrite Ha, Hb.
  split; [reflexivity|]. split; [apply set_canonical, C|apply set_represents; assumption].
Qed.
Print Assumptions GenTie___setitem__.

Theorem GenTie___setitem___outside :
  forall (d : tdict) (ka : keyarg) (v : rigid),
    Gen___setitem__.f d ka v =
    match ka with
    | AKey k => Ok (dict_set d k v)
    | ASeq [a; b] => match canon a, canon b with
                     | Member s, Member t => Ok (dict_set d (mkKey (inr s) (inr t)) v)
                     | _, _ => Err ValueError
                     end
    | ASeq _ => Err ValueError
    | AOther => Err TypeError
    end.
Proof.
  have_init Gen_TransformKey___init__.f. have_load Gen_load_key.f. assert (Hsi : setitem_spec_of Gen___setitem__.f) by solve_keyed.
  intros d ka v. rewrite Hsi, key_of_arg_cases. destruct ka as [k|l|]; [| destruct l as [|a [|b [|c l]]] |]; try reflexivity.
  destruct (canon a); try reflexivity. destruct (canon b); reflexivity.
Qed.
Print Assumptions GenTie___setitem___outside.

(* ---- TransformDict.__delitem__: KeyError exactly when nothing is registered under the canonicalised key ------------------------- *)
Theorem GenTie___delitem__ :
  forall (d : tdict) (reg : registry) (a b : spelling) (s t : string),
    canonical d -> represents d reg -> canon a = Member s -> canon b = Member t ->
    Gen___delitem__.f d (ASeq [a; b]) = dict_del d (mkKey (inr s) (inr t)) /\
    (Gen___delitem__.f d (ASeq [a; b]) = Err KeyError <-> reg_get reg s t = None).
Proof.
  have_init Gen_TransformKey___init__.f. have_load Gen_load_key.f. assert (Hdi : delitem_spec_of Gen___delitem__.f) by solve_keyed.
  intros d reg a b s t C R Ha Hb. rewrite Hdi. cbn [key_of_arg]. unfold canon2. rewrite Ha, Hb. cbn [bind].
  split; [reflexivity|]. rewrite <- R. symmetry. apply (find_none_del d s t C).
Qed.
Print Assumptions GenTie___delitem__.

Theorem GenTie___delitem___outside :
  forall (d : tdict) (ka : keyarg),
    Gen___delitem__.f d ka =
    match ka with
    | AKey k => dict_del d k
    | ASeq [a; b] => match canon a, canon b with
                     | Member s, Member t => dict_del d (mkKey (inr s) (inr t))
                     | _, _ => Err ValueError
                     end
    | ASeq _ => Err ValueError
    | AOther => Err TypeError
    end.
Proof.
  have_init Gen_TransformKey___init__.f. have_load Gen_load_key.f. assert (Hdi : delitem_spec_of Gen___delitem__.f) by solve_keyed.
  intros d ka. rewrite Hdi, key_of_arg_cases. destruct ka as [k|l|]; [| destruct l as [|a [|b [|c l]]] |]; try reflexivity.
  destruct (canon a); try reflexivity. destruct (canon b); reflexivity.
Qed.
Print Assumptions GenTie___delitem___outside.

(* ---- HomogeneousMatrix.inv / dot = Transform.inv / Transform.dot (labels, label check, ValueError) ------------------------------ *)
Theorem GenTie_inv :
  forall m : rigid, Gen_inv.f m = Ok (inv m).
Proof. have_labels Gen_HomogeneousMatrix_labels.f. have_new hm_new. have_inv Gen_inv.f. exact Hinv. Qed.
Print Assumptions GenTie_inv.

Theorem GenTie_dot :
  forall self other : rigid,
    Gen_dot.f self other = match dot self other with DotOk m => Ok m | DotValueError => Err ValueError end.
Proof. have_labels Gen_HomogeneousMatrix_labels.f. have_new hm_new. assert (Hdot : dot_spec_of Gen_dot.f) by solve_dot. exact Hdot. Qed.
Print Assumptions GenTie_dot.

(* ---- TransformDict.transform = Transform.reg_lookup: identity for the same frame, the direct entry, the inverse entry through
   inv(), KeyError; ValueError for a rejected str -- whatever the arguments are ---------------------------------------------------- *)
Theorem GenTie_transform :
  forall (d : tdict) (reg : registry) (a b : spelling) (args : list tval) (kw : kwargs),
    represents d reg ->
    Gen_transform.f d (ASeq [a; b]) args kw =
    match reg_lookup reg a b with
    | LIdentity => pass_through args kw
    | LUse m => hm_transform m args kw
    | LKeyError => Err KeyError
    | LValueError => Err ValueError
    end.
Proof.
  have_labels Gen_HomogeneousMatrix_labels.f. have_new hm_new. have_inv Gen_inv.f.
  have_init Gen_TransformKey___init__.f. have_load Gen_load_key.f. have_get Gen_get.f.
  assert (Htr : transform_spec_of Gen_transform.f) by solve_transform.
  intros d reg a b args kw R. exact (transform_model _ Htr d reg a b args kw R).
Qed.
Print Assumptions GenTie_transform.

(* a TransformKey built by the constructor: the same decision *)
Theorem GenTie_transform_key :
  forall (d : tdict) (reg : registry) (a b : spelling) (k : tkey) (args : list tval) (kw : kwargs),
    represents d reg -> Gen_TransformKey___init__.f a b = Ok k ->
    Gen_transform.f d (AKey k) args kw = Gen_transform.f d (ASeq [a; b]) args kw.
Proof.
  have_labels Gen_HomogeneousMatrix_labels.f. have_new hm_new. have_inv Gen_inv.f.
  have_init Gen_TransformKey___init__.f. have_load Gen_load_key.f. have_get Gen_get.f.
  assert (Htr : transform_spec_of Gen_transform.f) by solve_transform.
  intros d reg a b k args kw R E. rewrite !Htr. cbn [key_of_arg]. rewrite Hinit in E. rewrite E. reflexivity.
Qed.
Print Assumptions GenTie_transform_key.

(* every input, on the dict itself: the same-frame test is done on the key's OWN fields (a tuple is canonicalised first, a
   TransformKey is taken as it is), then get() canonicalises the pair again *)
Theorem GenTie_transform_outside :
  forall (d : tdict) (ka : keyarg) (args : list tval) (kw : kwargs),
    Gen_transform.f d ka args kw =
    bind (key_of_arg ka) (fun k =>
      if frame_eqb (ksrc k) (kdst k) then pass_through args kw
      else bind (canon2 (ksrc k) (kdst k)) (fun k1 =>
           match dict_find d k1 with
           | Some m => hm_transform m args kw
           | None => bind (canon2 (kdst k) (ksrc k)) (fun k2 =>
                     match dict_find d k2 with
                     | Some m => hm_transform (inv m) args kw
                     | None => Err KeyError
                     end)
           end)).
Proof.
  have_labels Gen_HomogeneousMatrix_labels.f. have_new hm_new. have_inv Gen_inv.f.
  have_init Gen_TransformKey___init__.f. have_load Gen_load_key.f. have_get Gen_get.f.
  assert (Htr : transform_spec_of Gen_transform.f) by solve_transform.
  intros d ka args kw. rewrite Htr. reflexivity.
Qed.
Print Assumptions GenTie_transform_outside.

(* the three call forms of the model *)
Theorem GenTie_transform_model :
  forall (d : tdict) (reg : registry) (a b : spelling) (p : vec3) (r : quat) (M : rigid),
    represents d reg ->
    Gen_transform.f d (ASeq [a; b]) [VPoint p] [] = of_tresult VPoint (reg_transform_point reg a b p) /\
    Gen_transform.f d (ASeq [a; b]) [VPoint p; VQuat r] [] = of_tresult pose_val (reg_transform_pose reg a b (p, r)) /\
    Gen_transform.f d (ASeq [a; b]) [VMat M] [] = of_tresult VMat (reg_transform_matrix reg a b M).
Proof.
  have_labels Gen_HomogeneousMatrix_labels.f. have_new hm_new. have_inv Gen_inv.f.
  have_init Gen_TransformKey___init__.f. have_load Gen_load_key.f. have_get Gen_get.f.
  assert (Htr : transform_spec_of Gen_transform.f) by solve_transform.
  intros d reg a b p r M R. rewrite !(transform_model _ Htr d reg a b _ _ R). unfold answer.
  unfold reg_transform_point, reg_transform_pose, reg_transform_matrix.
  destruct (reg_lookup reg a b) as [|m| |]; repeat split; try reflexivity.
  unfold hm_transform. destruct (transform_matrix m M); reflexivity.
Qed.
Print Assumptions GenTie_transform_model.

(* ---- non-vacuity: for each main theorem a direct hit, an inverse hit, an identity and a miss (both sides computed) -------------- *)
Definition gt_q1 : quat := mkQuat (1#5) (2#5) (2#5) (4#5).
Definition gt_q2 : quat := mkQuat (-2#7) (3#7) (6#7) 0.
Definition gt_T1 : rigid := mkRigid gt_q1 (mkVec 1 2 3) "BASE_LINK" "MAP".
Definition gt_T2 : rigid := mkRigid gt_q2 (mkVec (-5#8) 4 (1#2)) "CAM_FRONT" "BASE_LINK".
Definition gt_T3 : rigid := mkRigid gt_q2 (mkVec 7 7 7) "BASE_LINK" "MAP".
Definition gt_reg : registry := [gt_T2; gt_T1].
Definition gt_p : vec3 := mkVec 1 0 (1#2).

Example GenTie_TransformKey___init___nonvacuous :
  Gen_TransformKey___init__.f (inl "Base_Link") (inr "MAP") = Ok (ck "BASE_LINK" "MAP") /\
  Gen_TransformKey___init__.f (inl "RADAR_back") (inl "map") = Ok (ck "RADAR_BACK" "MAP") /\
  Gen_TransformKey___init__.f (inl "zzz") (inr "MAP") = Err ValueError /\
  Gen_load_key.f (inr "MAP") (inl "zzz") = Err ValueError.
Proof. repeat split; vm_compute; reflexivity. Qed.

Example GenTie_TransformKey___eq___nonvacuous :
  Gen_TransformKey___eq__.f (ck "MAP" "BASE_LINK") (AKey (ck "MAP" "BASE_LINK")) = Ok true /\
  Gen_TransformKey___eq__.f (ck "MAP" "BASE_LINK") (AKey (ck "MAP" "MAP")) = Ok false /\
  Gen_TransformKey___eq__.f (ck "MAP" "BASE_LINK") (ASeq [inl "map"; inl "base_link"]) = Ok true /\
  Gen_TransformKey___eq__.f (ck "MAP" "BASE_LINK") (ASeq [inl "MAP"; inl "base_link"]) = Ok false /\
  Gen_TransformKey___eq__.f (ck "MAP" "BASE_LINK") (ASeq [inl "map"]) = Err ValueError /\
  Gen_TransformKey___eq__.f (ck "MAP" "BASE_LINK") AOther = Ok false /\
  Gen_TransformKey___hash__.f (ck "MAP" "BASE_LINK") = Ok ("map", "base_link") /\
  Gen_TransformKey___hash__.f (mkKey (inl "map") (inr "BASE_LINK")) = Ok ("map", "base_link").
Proof. repeat split; vm_compute; reflexivity. Qed.

Example GenTie_TransformDict___init___nonvacuous :
  Gen_TransformDict___init__.f (IMany [gt_T2; gt_T1; gt_T3]) = Ok [(key_of gt_T2, gt_T2); (key_of gt_T1, gt_T3)] /\
  reg_get [gt_T2; gt_T1; gt_T3] "BASE_LINK" "MAP" = Some gt_T3.
Proof. split; vm_compute; reflexivity. Qed.

Example GenTie_get_nonvacuous :
  Gen_get.f (dict_of gt_reg) (ASeq [inl "Base_Link"; inl "map"]) = Ok (Some gt_T1) /\
  Gen_get.f (dict_of gt_reg) (ASeq [inl "map"; inl "base_link"]) = Ok None /\
  Gen_get.f (dict_of gt_reg) (AKey (ck "CAM_FRONT" "BASE_LINK")) = Ok (Some gt_T2) /\
  Gen_get.f (dict_of gt_reg) (ASeq [inl "zzz"; inl "base_link"]) = Err ValueError /\
  Gen_get.f (dict_of gt_reg) (ASeq [inl "map"]) = Err ValueError /\
  Gen_get.f (dict_of gt_reg) AOther = Err TypeError /\
  Gen___getitem__.f (dict_of gt_reg) (ASeq [inl "Base_Link"; inl "map"]) = Ok gt_T1 /\
  Gen___getitem__.f (dict_of gt_reg) (ASeq [inl "map"; inl "base_link"]) = Err KeyError.
Proof. repeat split; vm_compute; reflexivity. Qed.

Example GenTie___setitem___nonvacuous :
  Gen___setitem__.f (dict_of gt_reg) (ASeq [inl "base_link"; inl "MAP"]) gt_T3 = Ok [(key_of gt_T2, gt_T2); (key_of gt_T1, gt_T3)] /\
  Gen___setitem__.f (dict_of gt_reg) (ASeq [inl "map"; inl "base_link"]) (inv gt_T1)
    = Ok [(key_of gt_T2, gt_T2); (key_of gt_T1, gt_T1); (ck "MAP" "BASE_LINK", inv gt_T1)] /\
  Gen___delitem__.f (dict_of gt_reg) (ASeq [inl "base_link"; inl "MAP"]) = Ok [(key_of gt_T2, gt_T2)] /\
  Gen___delitem__.f (dict_of gt_reg) (ASeq [inl "map"; inl "base_link"]) = Err KeyError.
Proof. repeat split; vm_compute; reflexivity. Qed.

Example GenTie_dot_nonvacuous :
  Gen_dot.f gt_T1 gt_T2 = match dot gt_T1 gt_T2 with DotOk m => Ok m | DotValueError => Err ValueError end /\
  (exists C, Gen_dot.f gt_T1 gt_T2 = Ok C /\ rsrc C = "CAM_FRONT" /\ rdst C = "MAP") /\
  Gen_dot.f gt_T2 gt_T1 = Err ValueError /\
  (exists C, Gen_inv.f gt_T1 = Ok C /\ rsrc C = "MAP" /\ rdst C = "BASE_LINK").
Proof.
  split; [vm_compute; reflexivity|]. split; [eexists; split; [vm_compute; reflexivity|split; reflexivity]|].
  split; [vm_compute; reflexivity|]. eexists; split; [vm_compute; reflexivity|split; reflexivity].
Qed.

(* a direct hit, an inverse hit, an identity (a key that is not registered: nothing is looked up), a miss, a rejected str; the
   identity wins over a registered MAP->MAP entry; with both directions registered the direct one answers *)
Example GenTie_transform_nonvacuous :
  Gen_transform.f (dict_of gt_reg) (ASeq [inl "Base_Link"; inl "map"]) [VPoint gt_p] [] = Ok (VPoint (apply_point gt_T1 gt_p)) /\
  Gen_transform.f (dict_of gt_reg) (ASeq [inl "MAP"; inr "BASE_LINK"]) [VPoint gt_p] [] = Ok (VPoint (apply_point (inv gt_T1) gt_p)) /\
  Gen_transform.f (dict_of gt_reg) (ASeq [inl "MAP"; inl "map"]) [VPoint gt_p] [] = Ok (VPoint gt_p) /\
  Gen_transform.f (dict_of gt_reg) (ASeq [inl "map"; inr "CAM_FRONT"]) [VPoint gt_p] [] = Err KeyError /\
  Gen_transform.f (dict_of gt_reg) (ASeq [inl "zzz"; inl "zzz"]) [VPoint gt_p] [] = Err ValueError /\
  Gen_transform.f (dict_of gt_reg) (AKey (ck "MAP" "BASE_LINK")) [VPoint gt_p; VQuat gt_q2] []
    = Ok (pose_val (apply_pose (inv gt_T1) (gt_p, gt_q2))) /\
  Gen_transform.f [(ck "MAP" "MAP", gt_T1)] (ASeq [inl "map"; inl "MAP"]) [VPoint gt_p] [] = Ok (VPoint gt_p) /\
  Gen_transform.f (dict_of [gt_T1; inv gt_T3]) (ASeq [inl "map"; inl "base_link"]) [VPoint gt_p] []
    = Ok (VPoint (apply_point (inv gt_T3) gt_p)) /\
  reg_lookup gt_reg (inl "MAP") (inr "BASE_LINK") = LUse (inv gt_T1) /\
  reg_lookup gt_reg (inl "map") (inr "CAM_FRONT") = LKeyError.
Proof. repeat split; vm_compute; reflexivity. Qed.

(* a TransformKey whose field is a raw str (only possible by assigning the attribute): the same-frame test is case-sensitive on
   the member VALUE, the lookup canonicalises again -- "MAP" -> MAP is looked up as MAP -> MAP and is a KeyError, not the identity *)
Example GenTie_transform_outside_nonvacuous :
  Gen_transform.f (dict_of gt_reg) (AKey (mkKey (inl "map") (inr "MAP"))) [VPoint gt_p] [] = Ok (VPoint gt_p) /\
  Gen_transform.f (dict_of gt_reg) (AKey (mkKey (inl "MAP") (inr "MAP"))) [VPoint gt_p] [] = Err KeyError /\
  Gen_transform.f (dict_of gt_reg) (AKey (mkKey (inl "BASE_LINK") (inr "MAP"))) [VPoint gt_p] [] = Ok (VPoint (apply_point gt_T1 gt_p)) /\
  Gen_transform.f (dict_of gt_reg) (ASeq [inl "map"]) [VPoint gt_p] [] = Err ValueError /\
  Gen_transform.f (dict_of gt_reg) AOther [VPoint gt_p] [] = Err TypeError /\
  Gen_transform.f (dict_of gt_reg) (ASeq [inl "MAP"; inl "map"]) [] [] = Err ValueError /\
  Gen_transform.f (dict_of gt_reg) (ASeq [inl "MAP"; inl "map"]) [] [("position", VPoint gt_p); ("rotation", VQuat gt_q1)]
    = Ok (VTuple [VPoint gt_p; VQuat gt_q1]) /\
  Gen_transform.f (dict_of gt_reg) (ASeq [inl "MAP"; inl "map"]) [] [("positions", VPoint gt_p)] = Err KeyError.
Proof. repeat split; vm_compute; reflexivity. Qed.
