(* Redundant tie, MANAGER layer (property C13): the bookkeeping of PerceptionEvaluationManager -- _filter_objects, add_frame_result,
   get_scene_result -- and _EvaluationMangerBase.get_ground_truth_now_frame are re-translated from the Python `ast` on every run
   (translator/loops_manager.py -> Gen/loops_manager.v) and every theorem below says that a generated definition EQUALS the hand model
   the C13 theorems are about: the state machine `Manager.step` of Model/Manager.v at copy_first = true.
   The frame evaluation is a LEAF: the equations hold for EVERY `world` of leaves (filter_objects, get_object_results,
   filter_object_results, evaluate_frame split into its history-independent part and its tracking part, divide_objects(_to_num), the
   scene scores); the instances mG, mW, mT, mSc of the section variables G, W, T, Sc of Model/Manager.v are written by hand over these
   leaves in Proofs/GenTieManagerLemmas.v.
   ABSTRACTION (the model is more abstract than the code): the generated code works on a heap of FrameGroundTruth objects (a frame
   variable is an address; copy() allocates, `.objects = ...` writes) and on frame results that hold the address of their frame; the
   model keeps the dataset as a list of frame VALUES and the history as a list of Cores.  [abs n h frs] reads the dataset off the first
   n addresses and turns each stored frame result into the pair (result with the address erased and the tracking scores removed,
   content of the frame it holds); [wf n h frs] says the dataset and the held frames are allocated.  Each equation is
   abs (state after the generated function) = Manager.step (abs (state before)), plus the preservation of wf.
   Each theorem is self-contained (compiled on its own by the harness). *)
From Coq Require Import String.
From Coq Require Import List Bool ZArith Arith Lia.
From PE Require Import Base.QUtil Proofs.GenTieManagerLemmas.
From PE Require Model.Filter Model.Lookup Model.Manager.
From PE Require Gen.loops_tracking Gen.loops_interp Gen.loops_manager.
From PE Require Proofs.GenTieTrackingLemmas Proofs.GenTieInterpLemmas.
From PE Require Props.GenTieTracking Props.GenTieInterp.
Import ListNotations.
Import Filter.
Import Gen.loops_manager.
Open Scope list_scope.
Open Scope nat_scope.

(* reads of the heap after copy() / `.objects = ...`: the address just allocated is the one written *)
Ltac heap_simpl :=
  unfold h_alloc, h_set_objects, h_set; cbn [fst snd h_at h_next gf_name gf_transforms gf_objects];
  rewrite ?Nat.eqb_refl; cbn [gf_name gf_transforms gf_objects].
Ltac script_filter :=
  intros; unfold Gen__filter_objects.f, filter_heap, m_filter; cbv zeta; heap_simpl;
  repeat match goal with |- context [match ?x with _ => _ end] =>
    lazymatch x with context [fp_uuids] => destruct x as [[|? ?]|] eqn:? end end;
  cbn [bind fst snd]; heap_simpl; reflexivity.
(* `self.frame_results[-1]` under `len(self.frame_results) > 0` *)
Ltac last_cases frs :=
  let l := fresh "l" in let x := fresh "x" in
  destruct frs as [|x l _] using rev_ind;
  [ rewrite ?last_opt_map; cbn [length Nat.ltb Nat.leb Nat.eqb Manager.last_opt rev option_map]
  | rewrite ?last_opt_map; rewrite ?last_opt_snoc; rewrite ?app_length; cbn [length option_map];
    repeat match goal with
    | |- context [Nat.ltb ?a (length ?l + 1)] => replace (Nat.ltb a (length l + 1)) with true by (symmetry; apply Nat.ltb_lt; lia)
    | |- context [Nat.leb ?a (length ?l + 1)] => replace (Nat.leb a (length l + 1)) with true by (symmetry; apply Nat.leb_le; lia)
    | |- context [Nat.eqb (length ?l + 1) 0] => replace (Nat.eqb (length l + 1) 0) with false by (symmetry; apply Nat.eqb_neq; lia)
    end;
    replace (length l + 1 - 1) with (length l) by lia;
    rewrite ?nth_error_app2 by lia; rewrite ?Nat.sub_diag; cbn [nth_error] ].
Ltac body_spec :=
  intros; cbv zeta; cbn [bind];
  first [ reflexivity
        | f_equal; apply fold_left_ext; intros [[? ?]| |] ?; cbn [bind]; try reflexivity; unfold dappend, dadd;
          repeat match goal with |- context [dget ?d ?k] => destruct (dget d k) end; reflexivity ].
Ltac script_scene w mc h frs :=
  unfold Gen_get_scene_result.f; cbv zeta; rewrite !dict_init_nil;
  destruct (dedup_spec (ec_targets (mc_config mc))) as [HN HI];
  erewrite loop_frames with
    (inner := fun r st_ L => bind st_ (fun '(d1, d2) =>
                bind (dappend d1 L (divide_objects w (fr_results r) (ec_targets (mc_config mc)) L)) (fun e1 =>
                bind (dadd d2 L (divide_objects_to_num w (gf_objects (h_at h (fr_gt r))) (ec_targets (mc_config mc)) L)) (fun e2 =>
                Ok (e1, e2)))))
    (B := fun r L => divide_objects w (fr_results r) (ec_targets (mc_config mc)) L)
    (N := fun r L => divide_objects_to_num w (gf_objects (h_at h (fr_gt r))) (ec_targets (mc_config mc)) L)
    (fnum := fun r => frame_number w (fr_name r));
  first [ exact HN | exact HI | solve [intros; reflexivity] | solve [body_spec] | cbn [bind app] ].

Ltac script_add w mc n h frs t i es c p Hwf Hi :=
  let Hn := fresh "Hn" in let HF := fresh "HF" in
  let Ef := fresh "Ef" in let E1 := fresh "E1" in let E2 := fresh "E2" in let E3 := fresh "E3" in
  destruct Hwf as [Hn HF];
  assert (Ef : Gen__filter_objects.f w mc h es i = Ok (filter_heap w mc h es i, fst (m_filter w mc (h_at h i) es), h_next h))
    by script_filter;
  destruct (filter_heap_spec w mc h es i) as [E1 [E2 E3]];
  unfold mstep, Manager.step, abs; cbn [Manager.ds Manager.hist]; rewrite (dataset_nth w n h i Hi);
  unfold Gen_add_frame_result.f; rewrite Ef; cbn [bind]; cbv zeta;
  unfold new_frame_result, evaluate_frame, mG, mT; cbn [fst snd];
  destruct (m_filter w mc (h_at h i) es) as [rs gs];
  cbn [fst snd fr_name fr_time fr_targets fr_results fr_gt fr_metrics fr_crit fr_pass fr_transforms];
  rewrite ?E2; cbn [gf_name gf_transforms gf_objects fst snd];
  match goal with |- context [eval_core ?a ?b ?c ?d ?e ?f ?g ?h0 ?i0 ?j] =>
    destruct (eval_core a b c d e f g h0 i0 j) as [[rs' gs'] d'] end;
  last_cases frs; (cbn [bind option_map];
  (eexists; eexists; eexists; split; [reflexivity|]);
  (split; [apply (wf_step w n h _ _ _ Hn HF); [unfold h_set_objects, h_set; cbn [h_next]; exact E1|reflexivity]|]);
  (split; [reflexivity|]);
  apply (f_equal2 pair);
  [ apply (f_equal2 (@Manager.mkState _ _));
    [ apply dataset_ext; intros a0 Ha; unfold h_set_objects, h_set; cbn [h_at];
      replace (Nat.eqb a0 (h_next h)) with false by (symmetry; apply Nat.eqb_neq; lia); apply E3; lia
    | apply hist_step with (k := h_next h);
      [ exact HF
      | intros a0 Ha; unfold h_set_objects, h_set; cbn [h_at];
        replace (Nat.eqb a0 (h_next h)) with false by (symmetry; apply Nat.eqb_neq; lia); apply E3; lia
      | unfold core_of, erase, h_set_objects, h_set;
        cbn [h_at fst snd fr_name fr_time fr_targets fr_results fr_gt fr_metrics fr_crit fr_pass fr_transforms fr_det fr_trk];
        rewrite ?Nat.eqb_refl; rewrite ?E2; cbn [gf_name gf_transforms gf_objects]; reflexivity ] ]
  | unfold core_of, erase, h_set_objects, h_set;
    cbn [h_at fst snd fr_name fr_time fr_targets fr_results fr_gt fr_metrics fr_crit fr_pass fr_transforms fr_det fr_trk];
    rewrite ?Nat.eqb_refl; rewrite ?E2; cbn [gf_name gf_transforms gf_objects option_map fst snd fr_results]; reflexivity ]).

(* ---- _filter_objects ------------------------------------------------------------------------------------------------ *)
(* For every heap h, estimates es and frame address a: the function returns the address of a NEW frame (h_next h) whose content is the
   content of a with the ground truths filtered (is_gt = true); every other address -- in particular a itself, the dataset frame --
   keeps its content; the object results are those of the hand model [m_filter] on the CONTENT of a: estimates filtered with
   is_gt = false, matcher on the two FILTERED lists, target-uuid post-filter iff target_uuids is a non-empty list. *)
Theorem GenTie__filter_objects : forall (w : world) (mc : mcfg w) (h : heap w) (es : list (ObjT w)) (a : addr),
  Gen__filter_objects.f w mc h es a = Ok (filter_heap w mc h es a, fst (m_filter w mc (h_at h a) es), h_next h) /\
  h_next (filter_heap w mc h es a) = S (h_next h) /\
  h_at (filter_heap w mc h es a) (h_next h) =
    mkGF (gf_name (h_at h a)) (gf_transforms (h_at h a)) (snd (m_filter w mc (h_at h a) es)) /\
  (forall b, b <> h_next h -> h_at (filter_heap w mc h es a) b = h_at h b).
Proof.
  intros w mc h es a. split; [|exact (filter_heap_spec w mc h es a)]. script_filter.
Qed.
Print Assumptions GenTie__filter_objects.

(* ---- add_frame_result ------------------------------------------------------------------------------------------------ *)
(* For every well-formed state (heap h whose first n addresses are the dataset, stored frame results frs) and every dataset frame
   i < n: the generated add_frame_result returns the new frame result r, APPENDS it (frs ++ [r]), leaves a well-formed state, and
   abs (new state) / the answer (Core of r, its tracking scores) are exactly Manager.step at copy_first = true on abs (old state):
   the dataset is unchanged, the Core is mG of the ORIGINAL content of frame i, the tracking scores are mT of the LAST stored Core
   (none for the first call) and of the new Core. *)
Theorem GenTie_add_frame_result : forall (w : world) (mc : mcfg w) (n : nat) (h : heap w) (frs : list (fresult w)) (t : Z) (i : addr)
    (es : list (ObjT w)) (c : CritT w) (p : PassT w),
  wf w n h frs -> i < n ->
  exists h' r tk,
    Gen_add_frame_result.f w mc h frs t i es c p = Ok (h', frs ++ [r], r) /\
    wf w n h' (frs ++ [r]) /\ fr_trk r = Some tk /\
    (abs w n h' (frs ++ [r]), Manager.FrameOut (core_of w h' r) tk) =
      mstep w mc (abs w n h frs) (Manager.Add i (t, es) (c, p)).
Proof.
  intros w mc n h frs t i es c p Hwf Hi. script_add w mc n h frs t i es c p Hwf Hi.
Qed.
Print Assumptions GenTie_add_frame_result.

(* outside the guard: a frame that is allocated but NOT one of the n dataset frames (a frame built by the caller, or the interpolated
   frame get_ground_truth_now_frame returns).  The model with a dataset of n frames answers NoFrame and changes nothing; the code
   evaluates the frame all the same, exactly as the model does when every allocated frame counts as loaded (n := h_next h) -- in
   particular the frame handed in is not written either. *)
Theorem GenTie_add_frame_result_outside : forall (w : world) (mc : mcfg w) (n : nat) (h : heap w) (frs : list (fresult w)) (t : Z)
    (i : addr) (es : list (ObjT w)) (c : CritT w) (p : PassT w),
  wf w n h frs -> n <= i -> i < h_next h ->
  mstep w mc (abs w n h frs) (Manager.Add i (t, es) (c, p)) = (abs w n h frs, Manager.NoFrame) /\
  exists h' r tk,
    Gen_add_frame_result.f w mc h frs t i es c p = Ok (h', frs ++ [r], r) /\
    wf w (h_next h) h' (frs ++ [r]) /\ fr_trk r = Some tk /\
    (abs w (h_next h) h' (frs ++ [r]), Manager.FrameOut (core_of w h' r) tk) =
      mstep w mc (abs w (h_next h) h frs) (Manager.Add i (t, es) (c, p)).
Proof.
  intros w mc n h frs t i es c p Hwf Hni Hi. split.
  - unfold mstep, Manager.step, abs. cbn [Manager.ds Manager.hist]. rewrite (dataset_none w n h i Hni). reflexivity.
  - assert (Hwf' : wf w (h_next h) h frs) by (destruct Hwf as [_ HF]; split; [apply le_n|exact HF]).
    script_add w mc (h_next h) h frs t i es c p Hwf' Hi.
Qed.
Print Assumptions GenTie_add_frame_result_outside.

(* ---- get_scene_result ------------------------------------------------------------------------------------------------ *)
(* guard: the target labels are pairwise distinct.  Then get_scene_result is the model's scene score mSc of the stored Cores, i.e. the
   answer of Manager.step to a Query: per target label the list  [] :: [bucket of frame 1; ...; bucket of frame k]  in the order the
   frames were added (an initial EMPTY frame, every frame contributes a bucket -- an empty one when it has no results), the counts of
   the frames' (filtered) ground truths added up from 0, used_frame = the frame numbers in order, each score evaluated iff its
   configuration is present (prediction: nothing); the state does not change. *)
Theorem GenTie_get_scene_result : forall (w : world) (mc : mcfg w) (n : nat) (h : heap w) (frs : list (fresult w)),
  NoDup (ec_targets (mc_config mc)) ->
  Gen_get_scene_result.f w mc h frs = Ok (mSc w mc (map (core_of w h) frs)) /\
  mstep w mc (abs w n h frs) Manager.Query = (abs w n h frs, Manager.SceneOut (mSc w mc (map (core_of w h) frs))).
Proof.
  intros w mc n h frs HD. split; [|reflexivity].
  script_scene w mc h frs. unfold mSc, scene_of, used_of. rewrite (dedup_nodup _ HD). rewrite map_map.
  assert (E1 : rep (fold_left (fun g r => itf (fun v L => v ++ [divide_objects w (fr_results r) (ec_targets (mc_config mc)) L])
                                               (ec_targets (mc_config mc)) g) frs (fun _ => [[]])) (ec_targets (mc_config mc))
               = rep (pool_results w (ec_targets (mc_config mc)) (map (core_of w h) frs)) (ec_targets (mc_config mc))).
  { apply rep_ext. intros L HL. rewrite (fold_itf (fresult w) _ (fun r v L => v ++ [divide_objects w (fr_results r) (ec_targets (mc_config mc)) L])).
    rewrite (count_occ_nodup_in _ L HD HL). cbn [Nat.iter nat_rect]. unfold pool_results, bucket. rewrite map_map. cbn [core_of fst erase fr_results].
    exact (pool_results_fold _ _ (fun r => divide_objects w (fr_results r) (ec_targets (mc_config mc)) L) frs [[]]). }
  assert (E2 : rep (fold_left (fun g r => itf (fun m L => (m + divide_objects_to_num w (gf_objects (h_at h (fr_gt r))) (ec_targets (mc_config mc)) L)%nat)
                                               (ec_targets (mc_config mc)) g) frs (fun _ => 0%nat)) (ec_targets (mc_config mc))
               = rep (pool_num w (ec_targets (mc_config mc)) (map (core_of w h) frs)) (ec_targets (mc_config mc))).
  { apply rep_ext. intros L HL.
    rewrite (fold_itf (fresult w) _ (fun r m L => (m + divide_objects_to_num w (gf_objects (h_at h (fr_gt r))) (ec_targets (mc_config mc)) L)%nat)).
    rewrite (count_occ_nodup_in _ L HD HL). cbn [Nat.iter nat_rect]. unfold pool_num, num. rewrite fold_left_map. reflexivity. }
  rewrite E1, E2.
  destruct (has_detection w (ec_metrics (mc_config mc))), (has_tracking w (ec_metrics (mc_config mc))),
    (has_classification w (ec_metrics (mc_config mc))); reflexivity.
Qed.
Print Assumptions GenTie_get_scene_result.

(* outside the guard (ANY target list, repeated labels included): the dicts have one key per DISTINCT label in order of first
   occurrence, and a label that occurs k times in the target list receives every frame's bucket k times and every frame's count k
   times ([mSc_any]; for distinct labels this is [mSc]).  No KeyError is reachable. *)
Theorem GenTie_get_scene_result_outside : forall (w : world) (mc : mcfg w) (h : heap w) (frs : list (fresult w)),
  Gen_get_scene_result.f w mc h frs = Ok (mSc_any w mc (map (core_of w h) frs)).
Proof.
  intros w mc h frs.
  script_scene w mc h frs. unfold mSc_any, scene_of, used_of. rewrite map_map.
  assert (E1 : rep (fold_left (fun g r => itf (fun v L => v ++ [divide_objects w (fr_results r) (ec_targets (mc_config mc)) L])
                                               (ec_targets (mc_config mc)) g) frs (fun _ => [[]])) (dedup (ec_targets (mc_config mc)))
               = rep (pool_results_any w (ec_targets (mc_config mc)) (map (core_of w h) frs)) (dedup (ec_targets (mc_config mc)))).
  { apply rep_ext. intros L HL. rewrite (fold_itf (fresult w) _ (fun r v L => v ++ [divide_objects w (fr_results r) (ec_targets (mc_config mc)) L])).
    unfold pool_results_any, mult, bucket. rewrite fold_left_map. reflexivity. }
  assert (E2 : rep (fold_left (fun g r => itf (fun m L => (m + divide_objects_to_num w (gf_objects (h_at h (fr_gt r))) (ec_targets (mc_config mc)) L)%nat)
                                               (ec_targets (mc_config mc)) g) frs (fun _ => 0%nat)) (dedup (ec_targets (mc_config mc)))
               = rep (pool_num_any w (ec_targets (mc_config mc)) (map (core_of w h) frs)) (dedup (ec_targets (mc_config mc)))).
  { apply rep_ext. intros L HL.
    rewrite (fold_itf (fresult w) _ (fun r m L => (m + divide_objects_to_num w (gf_objects (h_at h (fr_gt r))) (ec_targets (mc_config mc)) L)%nat)).
    unfold pool_num_any, mult, num. rewrite fold_left_map. reflexivity. }
  rewrite E1, E2.
  destruct (has_detection w (ec_metrics (mc_config mc))), (has_tracking w (ec_metrics (mc_config mc))),
    (has_classification w (ec_metrics (mc_config mc))); reflexivity.
Qed.
Print Assumptions GenTie_get_scene_result_outside.

(* ---- get_ground_truth_now_frame ------------------------------------------------------------------------------------------ *)
(* the dispatch on interpolate_ground_truth: False -> get_now_frame (Model/Lookup.get_now_frame through GenTie_get_now_frame; guard: the
   time is not beyond 10^17), True -> get_interpolated_now_frame (the four-way result of Model/Lookup.v through
   GenTie_get_interpolated_now_frame).  One result type: inl = a loaded frame, inr = the two neighbours and the time to interpolate at. *)
Theorem GenTie_get_ground_truth_now_frame : forall (l : list Lookup.frame) (t tol : Z),
  (Z.gtb t Lookup.max_unix_time = false ->
   Gen_get_ground_truth_now_frame.f l t tol false =
     bind (GenTieTrackingLemmas.now_frame_result l (Lookup.get_now_frame l t tol)) (fun x => Ok (option_map inl x))) /\
  (let '(b, a) := Lookup.nb_scan t l 0 None in
   Gen_get_ground_truth_now_frame.f l t tol true = Ok (GenTieInterpLemmas.fw_code (Lookup.gate tol b) (Lookup.gate tol a) t)).
Proof.
  intros l t tol. split.
  - intros Hg. destruct GenTieTracking.GenTie_get_now_frame as [H _].
    unfold Gen_get_ground_truth_now_frame.f, call_get_now_frame.
    change (loops_tracking.Gen_get_now_frame.raises_DatasetLoadingError l t tol) with (@Ok bool (Z.gtb t Lookup.max_unix_time)).
    rewrite Hg. cbn [bind]. rewrite (H l t tol Hg).
    destruct (GenTieTrackingLemmas.now_frame_result l (Lookup.get_now_frame l t tol)); reflexivity.
  - pose proof (GenTieInterp.GenTie_get_interpolated_now_frame l t tol) as H.
    destruct (Lookup.nb_scan t l 0 None) as [b a]. destruct H as [H _].
    unfold Gen_get_ground_truth_now_frame.f. rewrite H. reflexivity.
Qed.
Print Assumptions GenTie_get_ground_truth_now_frame.

(* outside the guard: beyond 10^17 the non-interpolating branch raises (DatasetLoadingError, rendered ErrType) and the model says
   ErrNanosecond; the interpolating branch has no such test (second statement of the main theorem: no guard) *)
Theorem GenTie_get_ground_truth_now_frame_outside : forall (l : list Lookup.frame) (t tol : Z),
  Z.gtb t Lookup.max_unix_time = true ->
  Gen_get_ground_truth_now_frame.f l t tol false = ErrType /\
  Lookup.get_now_frame l t tol = Lookup.RError Lookup.ErrNanosecond.
Proof.
  intros l t tol Hg. split.
  - unfold Gen_get_ground_truth_now_frame.f, call_get_now_frame.
    change (loops_tracking.Gen_get_now_frame.raises_DatasetLoadingError l t tol) with (@Ok bool (Z.gtb t Lookup.max_unix_time)).
    rewrite Hg. reflexivity.
  - exact (proj2 GenTieTracking.GenTie_get_now_frame_outside l t tol Hg).
Qed.
Print Assumptions GenTie_get_ground_truth_now_frame_outside.

(* ---- non-vacuity: a three-frame history on a two-frame dataset in the toy world of Proofs/GenTieManagerLemmas.v ------------------ *)
Definition toy_d : list (gtframe toy) := [@mkGF toy 7%Z tt [1; 12; 23; 104; 95]; @mkGF toy 8%Z tt [3; 14; 60]].
Definition toy_ops : list (Manager.op (ests toy) (ccfg toy)) :=
  [Manager.Add 0 (100%Z, [11; 2; 33; 71]) (30, 0); Manager.Query; Manager.Add 1 (200%Z, [4; 13]) (10, 0);
   Manager.Add 0 (300%Z, []) (40, 0); Manager.Add 5 (400%Z, [1]) (40, 0); Manager.Query].

Example GenTie__filter_objects_nonvacuous :
  (* is_gt = true keeps 95 (below 100), is_gt = false drops 71 (not below 50); the matcher sees the FILTERED lists; frame 0 itself
     is not written; with target uuids the odd estimates are dropped afterwards *)
  let h := toy_heap toy_d in
  (exists h', Gen__filter_objects.f toy (toy_mc None [0; 1; 2]) h [11; 2; 33; 71; 5] 0 =
              Ok (h', [(11, Some 1); (2, Some 12); (33, Some 23); (5, Some 95)], 2) /\
              gf_objects (h_at h' 2) = [1; 12; 23; 95] /\ gf_objects (h_at h' 0) = [1; 12; 23; 104; 95]) /\
  (exists h', Gen__filter_objects.f toy (toy_mc (Some ["u"%string]) [0; 1; 2]) h [11; 2; 33; 71; 5] 0 = Ok (h', [(2, Some 12)], 2)) /\
  (exists h', Gen__filter_objects.f toy (toy_mc (Some []) [0; 1; 2]) h [11; 2] 0 = Ok (h', [(11, Some 1); (2, Some 12)], 2)).
Proof. cbv zeta. split; [|split]; eexists; vm_compute; repeat split. Qed.

Example GenTie_add_frame_result_nonvacuous :
  (* the generated code driven through the whole history = Manager.run on the dataset: same final dataset, same history, same answers
     (frame results, tracking scores with the LAST ADDED predecessor, NoFrame for the index out of range, both scene answers) *)
  let mc := toy_mc None [0; 1; 2] in
  match gen_run toy mc 2 (toy_heap toy_d) [] toy_ops with
  | Ok (h', frs', outs) => (abs toy 2 h' frs', outs) = model_run toy mc toy_d toy_ops /\ length frs' = 3 /\ h_next h' = 5
  | _ => False
  end.
Proof. vm_compute. repeat split. Qed.

Example GenTie_get_scene_result_nonvacuous :
  (* three stored frames (the third without estimates: an EMPTY bucket, its ground truths still counted), label 1 twice in the second
     configuration: bucket and count doubled *)
  let mc := toy_mc None [0; 1; 2] in
  let mc2 := toy_mc None [1; 0; 1] in
  match gen_run toy mc 2 (toy_heap toy_d) [] toy_ops with
  | Ok (h', frs', _) =>
      Gen_get_scene_result.f toy mc h' frs' = Ok (mSc toy mc (map (core_of toy h') frs')) /\
      (exists s, Gen_get_scene_result.f toy mc h' frs' = Ok s /\ ss_used s = [7; 8; 7]%Z /\
         ss_detection s = Some ([7; 8; 7]%Z, [(0, [[]; []; []; []]); (1, [[]; []; [(4, Some 14)]; []]);
                                               (2, [[]; [(11, Some 1); (2, Some 12)]; []; []])],
                                [(0, 3); (1, 2); (2, 3)]) /\ ss_classification s = None) /\
      (exists s, Gen_get_scene_result.f toy mc (toy_heap toy_d) [] = Ok s /\
         ss_detection s = Some ([], [(0, [[]]); (1, [[]]); (2, [[]])], [(0, 0); (1, 0); (2, 0)])) /\
      Gen_get_scene_result.f toy mc2 h' frs' = Ok (mSc_any toy mc2 (map (core_of toy h') frs')) /\
      Gen_get_scene_result.f toy mc2 h' frs' <> Ok (mSc toy mc2 (map (core_of toy h') frs'))
  | _ => False
  end.
Proof.
  vm_compute. split; [reflexivity|]. split; [eexists; repeat split|]. split; [eexists; repeat split|].
  split; [reflexivity|discriminate].
Qed.

Example GenTie_get_ground_truth_now_frame_nonvacuous :
  let l := [Lookup.mkFrame 100 [] None; Lookup.mkFrame 200 [] None] in
  Gen_get_ground_truth_now_frame.f l 120 75000 false = Ok (Some (inl (Lookup.mkFrame 100 [] None))) /\
  Gen_get_ground_truth_now_frame.f l 120 75000 true = Ok (Some (inr (Lookup.mkFrame 100 [] None, Lookup.mkFrame 200 [] None, 120%Z))) /\
  Gen_get_ground_truth_now_frame.f l 120 10 false = Ok None.
Proof. vm_compute. repeat split. Qed.
