(* placeholder while the correspondence is being validated *)
From Coq Require Import List Bool ZArith String.
From PE Require Import Base.QUtil Model.Pipeline Proofs.PipelineProofs.
