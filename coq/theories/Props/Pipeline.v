(* End-to-end composition for ONE frame of the 3D detection pipeline: C01 -> C10 -> C03 -> C04 (-> C08).
   Model: Model/Pipeline.v  (matcher [Model/Matching.v] -> DynamicObjectWithPerceptionResult per index pair
          -> evaluate_frame [Model/Filter.v, Model/PassFail.v] -> divide_objects / Map / Ap [Model/AP.v]);
   proofs: Proofs/PipelineProofs.v; tie to /repo: harness/props/pipeline_corr.py (the real
   PerceptionEvaluationManager.add_frame_result, every observable reproduced from pre-matching facts).

   What this file removes: the two hypotheses of Props/C03.v and Props/C04.v that were "another property's theorem".
     C03  [wf_frame rs gts] (matching one-to-one, its ground truths are the frame's)  -- now PROVED for the results
          the matcher model produces, for all facts tables, policies, modes (C03_pipeline_wf_frame);
     C04  [count_tp ks <= n] (no more TPs than ground truths)                         -- now PROVED for the ranking every
          Ap of the frame sees, n = number of critical ground truths of that label (C04_pipeline_tp_le_gt).

   Hypotheses that remain are on the INPUTS only ([pipeline_hyps], Proofs/PipelineProofs.v):
     ph_scene   [scene_hyps F ests gts]: the objects handed to the matcher are identified by their index
                ([ids_ok]), there are as many as the facts tables describe, and the ground truths' __eq__ keys
                (time, label, position, orientation) are pairwise distinct  (C03_gt_key_collision_example shows why);
     ph_crit    [wf_cfg crit]   per-label lists of the critical filter as long as its non-empty target list;
     ph_pf      [pf_ok pf]      pass/fail threshold list as long as its target list;
     ph_points  [obj_ok crit true g]  a ground truth has a point count if a point bound is configured.
   Nothing is assumed about the facts tables themselves (scores, label compatibility, frame ids). *)
From Coq Require Import List Bool ZArith String Permutation.
From PE Require Import Base.QUtil Model.Matching Model.Filter Model.PassFail Model.Pipeline.
From PE Require Import Proofs.FilterProofs Proofs.PassFailProofs Proofs.PipelineProofs.
From PE Require Model.AP Proofs.APKinds Proofs.APModel.
Import ListNotations.
Open Scope Q_scope.

(* ================================================================================================ *)
(* C03 without the matching hypothesis                                                               *)
(* ================================================================================================ *)

(* 1. C01 discharges C03's hypothesis.  For ALL facts tables F (any size, any scores, any label flags), all
      matching modes, label policies and both task kinds: the matcher model's output turns into object results
      without an index error, they are exactly the matcher's index pairs, and they satisfy [wf_frame]:
      estimates pairwise distinct, ground truths pairwise distinct, every matched ground truth is one of the
      frame's, identities and __eq__ keys of the frame's ground truths distinct. *)
Theorem C03_pipeline_wf_frame : forall md p fpv F T ests gts,
  ids_ok ests = true -> ids_ok gts = true ->
  List.length ests = List.length (f_est_frame F) -> List.length gts = List.length (f_gt_frame F) ->
  NoDup (map o_key gts) ->
  exists rs, matched_results md p fpv F T ests gts = Ok rs /\
             map res_pair rs = get_object_results md p fpv F /\
             wf_frame rs gts.
Proof. exact matched_results_wf_explicit. Qed.
Print Assumptions C03_pipeline_wf_frame.

(* ... hence the complete hypothesis record of Props/C03.v holds for the matcher's results *)
Theorem C03_pipeline_frame_hyps : forall md p fpv F T ests gts crit pf rs,
  pipeline_hyps F ests gts crit pf -> matched_results md p fpv F T ests gts = Ok rs -> frame_hyps crit pf rs gts.
Proof. exact pipeline_frame_hyps. Qed.
Print Assumptions C03_pipeline_frame_hyps.

(* 2. every clause of C03_statement for [frame_pipeline] = matcher -> evaluate_frame, with hypotheses on the
      inputs only: no hypothesis about the matching *)
Definition C03_pipeline_statement : Prop :=
  forall md p fpv F T ests gts crit pf Fr,
    pipeline_hyps F ests gts crit pf -> frame_pipeline md p fpv F T ests gts crit pf = Ok Fr ->
    (* results = TP + FP *)
    Permutation (map est_id (f_tp Fr) ++ map est_id (f_fp Fr)) (map est_id (f_results Fr)) /\
    (* every critical GT exactly once *)
    (forall g, In g (f_gts Fr) ->
       (lbl_is_fp (o_label g) = false ->
          (cnt (o_id g) (gt_ids (f_tp Fr)) + cnt (o_id g) (ids (f_fn Fr)) = 1)%nat) /\
       (lbl_is_fp (o_label g) = true ->
          (cnt (o_id g) (ids (f_tn Fr)) + cnt (o_id g) (gt_ids (f_fp Fr)) = 1)%nat)) /\
    (* ordinary critical GT = TP + FN *)
    List.length (filter ordinary (f_gts Fr)) = (List.length (f_tp Fr) + List.length (f_fn Fr))%nat /\
    (* TP soundness *)
    (forall r, In r (f_tp Fr) ->
       exists g, r_gt r = Some g /\ lbl_is_fp (o_label g) = false /\ r_label_ok r = true /\
                 forall t, thr_of pf (o_label g) = Some t -> exists v, r_score r = Some v /\ v < t) /\
    (* nothing outside the critical region is counted *)
    (forall r, In r (f_tp Fr ++ f_fp Fr) -> kept (est_side crit) true false (r_est r) = true) /\
    (forall g, In g (f_tn Fr ++ f_fn Fr) \/ (exists r, In r (f_tp Fr ++ f_fp Fr) /\ r_gt r = Some g) ->
       In g gts /\ kept crit true true g = true).

Theorem C03_pipeline_all_clauses : C03_pipeline_statement.
Proof. exact pipeline_all_clauses. Qed.
Print Assumptions C03_pipeline_all_clauses.

(* the pipeline does not raise on well-formed inputs: no clause above is vacuous because of an error branch *)
Theorem C03_pipeline_total : forall md p fpv F T ests gts crit pf,
  pipeline_hyps F ests gts crit pf -> exists Fr, frame_pipeline md p fpv F T ests gts crit pf = Ok Fr.
Proof. exact pipeline_total. Qed.
Print Assumptions C03_pipeline_total.

(* outside FP validation every estimate handed to the matcher is the estimate of exactly one object result
   (C01_complete transported to the results the frame receives) *)
Theorem C03_pipeline_estimates_complete : forall md p F T ests gts rs,
  scene_hyps F ests gts -> matched_results md p false F T ests gts = Ok rs ->
  Permutation (map est_id rs) (map o_id ests).
Proof. exact matched_results_complete. Qed.
Print Assumptions C03_pipeline_estimates_complete.

(* ================================================================================================ *)
(* C04 without the counting hypothesis                                                               *)
(* ================================================================================================ *)

(* 3. For EVERY label L and threshold t (target or not), every value / weight table: the ranking that Ap(L, t)
      sees for the frame's surviving results ([label_ranking]: bucket of L by divide_objects with the critical
      targets [cts], stable descending sort by confidence, TP / FP / ignored by get_label_threshold on the GROUND
      TRUTH's label and is_result_correct) has at most as many TPs as there are critical ground truths labelled L
      (= num_ground_truth_dict[L] of divide_objects_to_num). *)
Theorem C04_pipeline_tp_le_gt : forall md p fpv F T ests gts crit pf Fr v w cts L t,
  pipeline_hyps F ests gts crit pf -> frame_pipeline md p fpv F T ests gts crit pf = Ok Fr ->
  (APKinds.count_tp (label_ranking v w cts L t (f_results Fr)) <= num_gt_label L (f_gts Fr))%nat.
Proof. exact pipeline_tp_le_gt. Qed.
Print Assumptions C04_pipeline_tp_le_gt.

(* the AP the composed model computes for label L IS C04's [ap_of_kinds] on that ranking with that count:
   undefined (inf) iff the bucket is empty *)
Theorem C04_pipeline_ap_is_area_of_ranking : forall cts gts' v w rs' L t,
  AP.ap (one_ap cts (map o_label gts') (map (lres_of v w) rs') (L, t)) =
  match AP.label_results cts L t (map (lres_of v w) rs') with
  | [] => None
  | _ => Some (AP.ap_of_kinds (num_gt_label L gts') (label_ranking v w cts L t rs'))
  end.
Proof. exact one_ap_value. Qed.
Print Assumptions C04_pipeline_ap_is_area_of_ranking.

(* one Ap / Aph of the frame (any matching-value table v, any TP weights w in [0,1]): in [0,1], NO count hypothesis *)
Theorem C04_pipeline_one_ap_in_unit_interval : forall md p fpv F T ests gts crit pf Fr v w cts L t a,
  pipeline_hyps F ests gts crit pf -> frame_pipeline md p fpv F T ests gts crit pf = Ok Fr ->
  (forall e g, 0 <= w e g <= 1) ->
  AP.ap (one_ap cts (map o_label (f_gts Fr)) (map (lres_of v w) (f_results Fr)) (L, t)) = Some a ->
  0 <= a <= 1.
Proof. exact pipeline_one_ap_in_unit. Qed.
Print Assumptions C04_pipeline_one_ap_in_unit_interval.

(* the whole metrics side of add_frame_result: for every centre-distance and plane-distance Map of the frame,
   every per-label AP, every per-label APH (heading weights in [0,1]: C09), mAP and mAPH lie in [0,1] *)
Theorem C04_pipeline_ap_in_unit_interval : forall md p fpv F T ests gts crit pf det Fr cm pm,
  pipeline_hyps F ests gts crit pf -> weights_in_unit T ->
  add_frame_result md p fpv F T ests gts crit pf det = Done Fr cm pm ->
  forall M, In M (cm ++ pm) ->
    (forall r a, In r (mo_aps M ++ mo_aphs M) -> AP.ap r = Some a -> 0 <= a <= 1) /\
    (forall x, mo_map M = Some x -> 0 <= x <= 1) /\
    (forall x, mo_maph M = Some x -> 0 <= x <= 1).
Proof. exact pipeline_scores_in_unit. Qed.
Print Assumptions C04_pipeline_ap_in_unit_interval.

(* what [Done] means: the pass/fail side is frame_pipeline, the Maps are those of the surviving results *)
Theorem C04_pipeline_done_inv : forall md p fpv F T ests gts crit pf det Fr cm pm,
  add_frame_result md p fpv F T ests gts crit pf det = Done Fr cm pm ->
  frame_pipeline md p fpv F T ests gts crit pf = Ok Fr /\
  exists cts, c_targets crit = Some cts /\
    (cm, pm) = (if fpv then ([], []) else frame_maps F T cts det (f_results Fr) (f_gts Fr)).
Proof. exact add_frame_result_inv. Qed.
Print Assumptions C04_pipeline_done_inv.

(* ================================================================================================ *)
(* C08: FN counts, using C03's bookkeeping                                                           *)
(* ================================================================================================ *)
(* [pf_looser pf pf']: same pass/fail targets, every threshold at least as large (plane distance).
   The looser run exists, sees the same surviving results and critical ground truths, keeps every TP and has
   no more FNs.  No restriction to ordinary ground truths is needed for the COUNTS: FP-labelled ground truths
   are never TP nor FN (C03_gt_accounted_once). *)
Theorem C08_pipeline_fn_antitone : forall md p fpv F T ests gts crit pf pf' Fr,
  pipeline_hyps F ests gts crit pf -> pf_ok pf' -> pf_looser pf pf' ->
  frame_pipeline md p fpv F T ests gts crit pf = Ok Fr ->
  exists Fr', frame_pipeline md p fpv F T ests gts crit pf' = Ok Fr' /\
    f_results Fr' = f_results Fr /\ f_gts Fr' = f_gts Fr /\
    (forall r, In r (f_tp Fr) -> In r (f_tp Fr')) /\
    (List.length (f_tp Fr) <= List.length (f_tp Fr'))%nat /\
    (List.length (f_fn Fr') <= List.length (f_fn Fr))%nat.
Proof. exact pipeline_fn_antitone. Qed.
Print Assumptions C08_pipeline_fn_antitone.

(* ================================================================================================ *)
(* non-vacuity: one concrete scene (the regression scene `_fixed` of harness/props/pipeline_corr.py, which is
   run against the real manager on every check; irrational distances rounded to 0.1 m here).
   Labels: 0 unknown, 1 false_positive, 2 car, 7 pedestrian.  ALLOW_UNKNOWN.  Matchable radius 2.5 m.
   Critical region |x| < 10, |y| < 5.  Pass/fail: plane distance < 1 for every label (FP label included).
     e0 car        0.5 m from g0 car          TP
     e1 car        exactly 1 m from g1 car    on both thresholds: pass/fail FN, AP(1.0) FP
     e2 UNKNOWN    0.5 m from g2 pedestrian   matched in the label-compatible stage (ALLOW_UNKNOWN): pass/fail TP,
                                              AP(pedestrian, 0.5): exactly on the threshold -> FP, bucket by the GT label
     e3 car        2 m from g3 FP-labelled    missed: g3 is TN, e3 re-emitted as a GT-less FP
     e4 car        0.5 m from g4 FP-labelled  hit: matched FP
     e5 car        no ground truth left       FP
     e6 car / g7 car at x = 30                outside the critical region: not counted
     e7 pedestrian 0.25 m from g8, heading off by pi: plane distance 2.5 -> FN; AP TP with APH weight 0
     e8 car        9.4 m from g6 FP-labelled  (no radius for the FP label): g6 TN, e8 re-emitted
     g5 car        unmatched                  FN *)
(* ================================================================================================ *)
Open Scope string_scope.
Definition eo (id lbl : nat) (name : string) (conf x y d : Q) : Obj :=
  mkObj id lbl name [] conf None true (Some (x, y, d)) None (1000 + id).
Definition go (id lbl : nat) (name : string) (x y d : Q) (u : string) : Obj :=
  mkObj id lbl name [] 1 (Some u) true (Some (x, y, d)) (Some 3%Z) id.

Definition ex_ests : list Obj :=
  [eo 0 2 "car" (1#2) (3#2) 0 (3#2);
   eo 1 2 "car" (1#2) 5 2 (27#5);
   eo 2 0 "unknown" (3#4) (-3) (3#2) (17#5);
   eo 3 2 "car" (1#4) 2 (-4) (9#2);
   eo 4 2 "car" (5#8) (-13#2) (-4) (38#5);
   eo 5 2 "car" (1#2) 8 4 (89#10);
   eo 6 2 "car" (7#8) (61#2) 0 (61#2);
   eo 7 7 "pedestrian" (3#8) 7 (17#4) (41#5);
   eo 8 2 "car" (1#8) (-8) 3 (17#2)].
Definition ex_gts : list Obj :=
  [go 0 2 "car" 1 0 1 "a";
   go 1 2 "car" 4 2 (9#2) "b";
   go 2 7 "pedestrian" (-3) 1 (16#5) "c";
   go 3 1 "false_positive" 4 (-4) (57#10) "d";
   go 4 1 "false_positive" (-6) (-4) (36#5) "e";
   go 5 2 "car" 0 3 3 "a";
   go 6 1 "false_positive" 0 (-2) 2 "b";
   go 7 2 "car" 30 0 30 "c";
   go 8 7 "pedestrian" 7 4 (81#10) "d"].
(* centre distance estimate x ground truth *)
Definition ex_value : list (list (option Q)) :=
  [[Some (1#2); Some (16#5); Some (23#5); Some (47#10); Some (17#2); Some (17#5); Some (5#2); Some (57#2); Some (34#5)];
   [Some (9#2); Some 1; Some (81#10); Some (61#10); Some (25#2); Some (51#10); Some (32#5); Some (251#10); Some (14#5)];
   [Some (43#10); Some 7; Some (1#2); Some (89#10); Some (63#10); Some (17#5); Some (23#5); Some 33; Some (103#10)];
   [Some (41#10); Some (63#10); Some (71#10); Some 2; Some 8; Some (73#10); Some (14#5); Some (283#10); Some (47#5)];
   [Some (17#2); Some (121#10); Some (61#10); Some (21#2); Some (1#2); Some (48#5); Some (34#5); Some (367#10); Some (157#10)];
   [Some (81#10); Some (9#2); Some (57#5); Some (89#10); Some (161#10); Some (81#10); Some 10; Some (112#5); Some 1];
   [Some (59#2); Some (133#5); Some (67#2); Some (134#5); Some (367#10); Some (153#5); Some (153#5); Some (1#2); Some (119#5)];
   [Some (37#5); Some (15#4); Some (21#2); Some (44#5); Some (77#5); Some (71#10); Some (47#5); Some (117#5); Some (1#4)];
   [Some (19#2); Some 12; Some (27#5); Some (139#10); Some (73#10); Some 8; Some (47#5); Some (381#10); Some 15]].
(* plane distance: equal to the centre distance for boxes of equal size and heading; e7 is turned by pi *)
Definition ex_plane : list (list (option Q)) :=
  firstn 7 ex_value ++
  [[Some (42#5); Some 5; Some (49#5); Some 7; Some (29#2); Some (39#5); Some (33#4); Some (45#2); Some (5#2)]] ++
  skipn 8 ex_value.
Definition ex_heading : list (list Q) :=
  map (fun e => map (fun _ => if Nat.eqb e 7 then 0 else 1) (seq 0 9)) (seq 0 9).
Definition car_like := [true; true; false; false; false; true; false; true; false].
Definition ped_like := [false; false; true; false; false; false; false; false; true].
Definition ex_same : list (list bool) :=
  [car_like; car_like; repeat false 9; car_like; car_like; car_like; car_like; ped_like; car_like].
Definition ex_F : Facts :=
  scene_facts [2; 7]%nat (Some [5#2; 5#2]) (repeat O 9) (repeat O 9) ex_value ex_same ex_ests ex_gts.
Definition ex_T : Tables := mkTables ex_plane ex_heading.
Definition ex_crit : Cfg := mkCfg (Some [2; 7]%nat) None (Some [10; 10]) (Some [5; 5]) None None None None None.
Definition ex_pf : PF := mkPF (Some [0; 2; 3; 4; 5; 6; 7; 8; 1]%nat) (Some (repeat 1 9)).
Definition ex_pf_loose : PF := mkPF (Some [0; 2; 3; 4; 5; 6; 7; 8; 1]%nat) (Some (repeat 3 9)).
Definition ex_det : Det := mkDet [2; 7]%nat [[1; 1#2]; [2; 2]] [[1; 1]].

(* the hypotheses of every theorem above hold on it *)
Example Pipeline_nonvacuous_hyps :
  pipeline_hyps ex_F ex_ests ex_gts ex_crit ex_pf /\ weights_in_unit ex_T /\
  pf_ok ex_pf_loose /\ pf_looser ex_pf ex_pf_loose.
Proof.
  split; [|split; [|split]].
  - constructor.
    + apply (scene_ok_hyps ex_F ex_T); vm_compute; reflexivity.
    + unfold wf_cfg, len_ok, ex_crit; simpl.
      repeat split; intros l H; try discriminate; inversion H; subst; (exists [2; 7]%nat; repeat split; [discriminate]).
    + intros ts l H1 H2. inversion H1; inversion H2; subst. reflexivity.
    + intros g _ _ H. exfalso. apply H. reflexivity.
  - apply weights_in_unitb_ok. vm_compute. reflexivity.
  - intros ts l H1 H2. inversion H1; inversion H2; subst. reflexivity.
  - split; [reflexivity|]. cbn [pf_thresholds ex_pf ex_pf_loose repeat]. repeat constructor; discriminate.
Qed.

(* the matcher: the unknown estimate e2 is paired with the pedestrian g2 in the label-compatible stage under
   ALLOW_UNKNOWN; under DEFAULT it is paired only in the second stage, with the FP-labelled g6 *)
Example Pipeline_nonvacuous_matching :
  get_object_results CENTERDISTANCE P_ALLOW_UNKNOWN false ex_F =
    [(7, Some 8); (0, Some 0); (2, Some 2); (4, Some 4); (6, Some 7); (1, Some 1); (3, Some 3); (8, Some 6); (5, None)]%nat /\
  get_object_results CENTERDISTANCE P_DEFAULT false ex_F =
    [(7, Some 8); (0, Some 0); (4, Some 4); (6, Some 7); (1, Some 1); (3, Some 3); (2, Some 6); (5, None); (8, None)]%nat.
Proof. vm_compute. split; reflexivity. Qed.

Definition qred_o (o : option Q) : option Q := option_map Qred o.

(* every status, two labels, buckets by ground-truth label, num_ground_truth, AP / APH / mAP / mAPH *)
Example Pipeline_nonvacuous_run :
  match add_frame_result CENTERDISTANCE P_ALLOW_UNKNOWN false ex_F ex_T ex_ests ex_gts ex_crit ex_pf ex_det with
  | Done fr [m1; m2] [m3] =>
      map res_pair (f_results fr) =
        [(7, Some 8); (0, Some 0); (2, Some 2); (4, Some 4); (1, Some 1); (3, Some 3); (8, Some 6); (5, None)]%nat /\
      ids (f_gts fr) = [0; 1; 2; 3; 4; 5; 6; 8]%nat /\
      map res_pair (f_tp fr) = [(0, Some 0); (2, Some 2)]%nat /\
      map res_pair (f_fp fr) = [(7, Some 8); (4, Some 4); (1, Some 1); (3, None); (8, None); (5, None)]%nat /\
      ids (f_tn fr) = [3; 6]%nat /\ ids (f_fn fr) = [8; 1; 5]%nat /\
      num_success fr = 4%nat /\ num_fail fr = 9%nat /\
      (* centre distance, thresholds (car 1.0, pedestrian 0.5) *)
      mo_nums m1 = [3; 2]%nat /\
      map AP.tp_list (mo_aps m1) = [[0; 1; 1; 1; 1; 1]; [0; 1]] /\
      map AP.fp_list (mo_aps m1) = [[0; 0; 1; 2; 2; 2]; [1; 1]] /\
      map (fun a => qred_o (AP.ap a)) (mo_aps m1) = [Some (1 # 6); Some (1 # 4)] /\
      map (fun a => qred_o (AP.ap a)) (mo_aphs m1) = [Some (1 # 6); Some 0] /\
      qred_o (mo_map m1) = Some (5 # 24) /\ qred_o (mo_maph m1) = Some (1 # 12) /\
      (* centre distance, thresholds (2.0, 2.0) *)
      map (fun a => qred_o (AP.ap a)) (mo_aps m2) = [Some (4 # 9); Some 1] /\
      map (fun a => qred_o (AP.ap a)) (mo_aphs m2) = [Some (4 # 9); Some (1 # 2)] /\
      qred_o (mo_map m2) = Some (13 # 18) /\ qred_o (mo_maph m2) = Some (17 # 36) /\
      (* plane distance, thresholds (1.0, 1.0) *)
      map (fun a => qred_o (AP.ap a)) (mo_aps m3) = [Some (1 # 6); Some (1 # 2)] /\
      qred_o (mo_map m3) = Some (1 # 3)
  | _ => False
  end.
Proof. vm_compute. repeat split. Qed.

(* the counting theorem is tight here: Ap(pedestrian) at 2.0 m counts 2 TPs for 2 critical pedestrians, and a
   third pedestrian-labelled TP is impossible *)
Example Pipeline_nonvacuous_count_tight :
  match frame_pipeline CENTERDISTANCE P_ALLOW_UNKNOWN false ex_F ex_T ex_ests ex_gts ex_crit ex_pf with
  | Ok fr =>
      APKinds.count_tp (label_ranking (center_v ex_F) unit_w [2; 7]%nat 7 2 (f_results fr)) = 2%nat /\
      num_gt_label 7 (f_gts fr) = 2%nat /\
      APKinds.count_tp (label_ranking (center_v ex_F) unit_w [2; 7]%nat 2 2 (f_results fr)) = 2%nat /\
      num_gt_label 2 (f_gts fr) = 3%nat
  | _ => False
  end.
Proof. vm_compute. repeat split. Qed.

(* loosening the pass/fail thresholds from 1 m to 3 m: TP {e0, e2} grows to {e7, e0, e2, e1}, FN {g8, g1, g5} shrinks
   to {g5}; the FP-labelled g3 (2 m) turns from TN into a matched FP, which is why only ordinary ground truths
   are monotone *)
Example Pipeline_nonvacuous_loosening :
  match frame_pipeline CENTERDISTANCE P_ALLOW_UNKNOWN false ex_F ex_T ex_ests ex_gts ex_crit ex_pf_loose with
  | Ok fr =>
      map res_pair (f_tp fr) = [(7, Some 8); (0, Some 0); (2, Some 2); (1, Some 1)]%nat /\
      ids (f_fn fr) = [5]%nat /\ ids (f_tn fr) = [6]%nat
  | _ => False
  end.
Proof. vm_compute. repeat split. Qed.

(* a detection target label without entry in the critical filter: KeyError, reproduced as such *)
Example Pipeline_nonvacuous_keyerror :
  add_frame_result CENTERDISTANCE P_ALLOW_UNKNOWN false ex_F ex_T ex_ests ex_gts
    (mkCfg (Some [2]%nat) None (Some [10]) (Some [5]) None None None None None) ex_pf ex_det = RaisedKey.
Proof. vm_compute. reflexivity. Qed.
