(* C17 -- Ground-truth lookup picks the nearest frame within tolerance; interpolation is exact.
   Model: Model/Lookup.v (get_now_frame, get_interpolated_now_frame, interpolate_ground_truth_frames,
   interpolate_object_list, manager.get_ground_truth_now_frame); proofs: Proofs/LookupProofs.v.
   Only statements, `exact <lemma>`, Print Assumptions and non-vacuity examples.

   Vocabulary (small declarative definitions of Proofs/LookupProofs.v):
     dist t f            = |t - f_stamp f|
     ascending l         = time stamps non-decreasing along l (strictly increasing lists are a special
                           case: C17_strictly_increasing_is_ascending)
     alpha t1 t2 t       = (t - t1) / (t2 - t1)
     vcomb a p q         = (1 - a) p + a q     (componentwise; a point of the segment [p, q] for 0 <= a <= 1)
     vec_eq              = componentwise == on Q
     wrap1 x             = the representative of x modulo 2 in (-1, 1]   (pi-units: modulo 2pi in (-pi, pi])
     to_global e o       = o expressed in the map frame through the frame's BASE_LINK->MAP transform e
     find_id id l        = the FIRST object of l whose uuid is id
     ids l               = map o_id l. *)
From Coq Require Import List Bool ZArith QArith String Sorted.
From PE Require Import Base.QUtil Model.Lookup Proofs.LookupProofs.
Import ListNotations.
Open Scope Z_scope.

(* ------------------------------------------------------------------------------------------ *)
(* get_now_frame, ANY non-empty list (sorted or not, duplicated stamps allowed), any query time up to
   the 10^17 sanity bound, any tolerance (also negative): there is a frame at minimal |dt| that is
   strictly closer than every frame listed before it, and the result is THAT frame (the same Python
   object, identified by its index) iff its |dt| <= tolerance, None otherwise. *)
Theorem C17_now_frame_is_nearest_within_tol : forall l t tol,
  t <= 10 ^ 17 -> l <> [] ->
  exists i f,
    (nth_error l i = Some f /\
     (forall j g, nth_error l j = Some g -> dist t f <= dist t g) /\
     (forall j g, (j < i)%nat -> nth_error l j = Some g -> dist t f < dist t g)) /\
    get_now_frame l t tol = if dist t f <=? tol then RFrame i else RNone.
Proof. exact now_frame_nearest. Qed.
Print Assumptions C17_now_frame_is_nearest_within_tol.

(* the frame singled out above is unique, so the theorem determines the result completely *)
Theorem C17_first_nearest_unique : forall l t i f i' f',
  first_nearest l t i f -> first_nearest l t i' f' -> i = i' /\ f = f'.
Proof. exact first_nearest_unique. Qed.
Print Assumptions C17_first_nearest_unique.

(* the two error branches of get_now_frame *)
Theorem C17_now_frame_errors : forall l t tol,
  (t > 10 ^ 17 -> get_now_frame l t tol = RError ErrNanosecond) /\
  (t <= 10 ^ 17 -> get_now_frame [] t tol = RError ErrEmpty).
Proof. intros l t tol. split; [apply now_frame_nanosecond | apply now_frame_empty]. Qed.
Print Assumptions C17_now_frame_errors.

(* ------------------------------------------------------------------------------------------ *)
(* get_interpolated_now_frame on time-ordered lists: the loop finds
     before = the LAST frame with stamp <= t   (None iff every frame is later than t)
     after  = the FIRST frame with stamp > t   (None iff no frame is later than t)
   together with their time differences.  Holds for t before the first frame, on a frame, between
   frames, after the last frame, for single-frame and empty lists. *)
Theorem C17_neighbours_spec : forall l t b a,
  ascending l -> nb_scan t l 0 None = (b, a) ->
  match b with
  | Some (i, f, d) =>
      nth_error l i = Some f /\ f_stamp f <= t /\ d = t - f_stamp f /\
      (forall j g, nth_error l j = Some g -> f_stamp g <= t -> (j <= i)%nat)
  | None => forall j g, nth_error l j = Some g -> t < f_stamp g
  end /\
  match a with
  | Some (j, f, d) =>
      nth_error l j = Some f /\ t < f_stamp f /\ d = f_stamp f - t /\
      (forall k g, nth_error l k = Some g -> t < f_stamp g -> (j <= k)%nat)
  | None => forall j g, nth_error l j = Some g -> f_stamp g <= t
  end.
Proof.
  intros l t b a Hs H. destruct (neighbours_spec l t b a Hs H) as (Hb & Ha & Hdb & Hda). split.
  - destruct b as [[[i f] d]|]; [|exact Hb]. destruct Hb as (H1 & H2 & H3).
    repeat split; auto. exact (Hdb _ _ _ eq_refl).
  - destruct a as [[[j f] d]|]; [|exact Ha]. destruct Ha as (H1 & H2 & H3).
    repeat split; auto. exact (Hda _ _ _ eq_refl).
Qed.
Print Assumptions C17_neighbours_spec.

(* the after frame is the first later frame for ANY list (this is what the `break` guarantees) *)
Theorem C17_after_is_first_later_any_list : forall l t b a,
  nb_scan t l 0 None = (b, a) ->
  match a with
  | Some (j, f, d) =>
      nth_error l j = Some f /\ t < f_stamp f /\ d = f_stamp f - t /\
      (forall k g, nth_error l k = Some g -> t < f_stamp g -> (j <= k)%nat)
  | None => forall j g, nth_error l j = Some g -> f_stamp g <= t
  end.
Proof.
  intros l t b a H. pose proof (nb_scan_after_any t l 0%nat None b a H) as Ha.
  destruct a as [[[j f] d]|]; [|exact Ha].
  destruct Ha as (k & Hj & Hk & Hlt & Hd & Hfirst). cbn in Hj. subst j. repeat split; auto.
Qed.
Print Assumptions C17_after_is_first_later_any_list.

(* the four cases.  ob / oa are ANY descriptions of the two neighbours satisfying the declarative
   spec (they exist and are unique: C17_neighbours_exist_unique); a neighbour is usable iff its
   |dt| <= tolerance:
     both usable        -> the interpolation of exactly these two frames at t
     only before usable -> the before frame itself        only after usable -> the after frame itself
     none               -> None *)
Theorem C17_interp_gating : forall l t tol ob oa,
  ascending l ->
  match ob with
  | Some (i, f) => nth_error l i = Some f /\ f_stamp f <= t /\
                   (forall j g, nth_error l j = Some g -> f_stamp g <= t -> (j <= i)%nat)
  | None => forall j g, nth_error l j = Some g -> t < f_stamp g
  end ->
  match oa with
  | Some (j, f) => nth_error l j = Some f /\ t < f_stamp f /\
                   (forall k g, nth_error l k = Some g -> t < f_stamp g -> (j <= k)%nat)
  | None => forall j g, nth_error l j = Some g -> f_stamp g <= t
  end ->
  let usable o := match o with
                  | Some (i, f) => if dist t f <=? tol then Some (i, f) else None
                  | None => None
                  end in
  get_interpolated_now_frame l t tol =
    match usable ob, usable oa with
    | Some (i, fb), Some (j, fa) => interpolate_frames i j fb fa t
    | Some (i, _), None => RFrame i
    | None, Some (j, _) => RFrame j
    | None, None => RNone
    end.
Proof. intros l t tol ob oa Hs Hb Ha. exact (interp_gating l t tol ob oa Hs Hb Ha). Qed.
Print Assumptions C17_interp_gating.

Theorem C17_neighbours_exist_unique : forall l t, ascending l ->
  (exists ob oa, before_spec l t ob /\ after_spec l t oa) /\
  (forall o o', before_spec l t o -> before_spec l t o' -> o = o') /\
  (forall o o', after_spec l t o -> after_spec l t o' -> o = o').
Proof.
  intros l t Hs. split; [exact (neighbours_exist l t Hs)|].
  split; [exact (before_spec_unique l t) | exact (after_spec_unique l t)].
Qed.
Print Assumptions C17_neighbours_exist_unique.

Theorem C17_strictly_increasing_is_ascending : forall l,
  StronglySorted (fun a b => f_stamp a < f_stamp b) l -> ascending l.
Proof. exact strictly_increasing_ascending. Qed.
Print Assumptions C17_strictly_increasing_is_ascending.

(* the manager entry point is exactly the two functions *)
Theorem C17_manager_lookup : forall l t tol,
  manager_lookup l t tol false = get_now_frame l t tol /\
  manager_lookup l t tol true = get_interpolated_now_frame l t tol.
Proof. intros; split; reflexivity. Qed.
Print Assumptions C17_manager_lookup.

(* ------------------------------------------------------------------------------------------ *)
(* the interpolated frame *)

(* stamped with exactly the query time, built from exactly the two given frames; it exists whenever
   both frames carry a BASE_LINK->MAP transform and their objects live in "map" or "base_link" *)
Theorem C17_interp_stamp_exact : forall i j fb fa t,
  (forall i' j' f, interpolate_frames i j fb fa t = RInterp i' j' f -> i' = i /\ j' = j /\ if_stamp f = t) /\
  (well_formed fb -> well_formed fa -> exists f, interpolate_frames i j fb fa t = RInterp i j f).
Proof.
  intros i j fb fa t. split.
  - intros i' j' f H. destruct (interp_frames_inv _ _ _ _ _ _ _ _ H) as (H1 & H2 & H3 & _). auto.
  - apply interp_frames_defined.
Qed.
Print Assumptions C17_interp_stamp_exact.

(* put together: on a time-ordered list, when the last frame <= t and the first frame > t are both within
   tolerance (and well formed), the interpolated lookup returns a NEW frame built from exactly these two,
   stamped with exactly the query time (the clauses below then describe its objects) *)
Theorem C17_interpolated_lookup_both_usable : forall l t tol i fb j fa,
  ascending l ->
  (nth_error l i = Some fb /\ f_stamp fb <= t /\
   forall k g, nth_error l k = Some g -> f_stamp g <= t -> (k <= i)%nat) ->
  (nth_error l j = Some fa /\ t < f_stamp fa /\
   forall k g, nth_error l k = Some g -> t < f_stamp g -> (j <= k)%nat) ->
  dist t fb <= tol -> dist t fa <= tol -> well_formed fb -> well_formed fa ->
  exists f, get_interpolated_now_frame l t tol = RInterp i j f /\ if_stamp f = t /\
            f_stamp fb <= t < f_stamp fa.
Proof. exact interp_lookup_both_usable. Qed.
Print Assumptions C17_interpolated_lookup_both_usable.

(* error branches: a neighbour without ego transform -> KeyError; an object in another frame -> NotImplementedError *)
Theorem C17_interp_errors : forall i j fb fa t,
  (f_ego fb = None \/ f_ego fa = None -> interpolate_frames i j fb fa t = RError ErrNoTransform) /\
  (forall o, f_ego fb <> None -> f_ego fa <> None -> In o (f_objs fb) \/ In o (f_objs fa) ->
     o_frame o = FOther -> interpolate_frames i j fb fa t = RError ErrFrameId).
Proof.
  intros i j fb fa t. split; [apply interp_frames_no_transform|].
  intros o. apply interp_frames_bad_frame_id.
Qed.
Print Assumptions C17_interp_errors.

(* an object of the before frame (k-th) whose uuid also occurs in the after frame (o2 = first such
   object): the k-th output object lies at (1-a) p1 + a p2 of its two MAP-frame positions with
   a = (t-t1)/(t2-t1), 0 <= a < 1 -- on the straight segment, at the proportional time; velocity likewise
   (as stored, not rotated); yaw = yaw1 + a * (shortest signed arc from yaw1 to yaw2) [specification of the
   rotation part, see C17_shortest_arc]; uuid and every copied attribute from the before object;
   object time stamp = query time. *)
Theorem C17_interp_on_segment : forall i j fb fa t f eb ea k o1 o2 g1 g2,
  f_stamp fb <= t < f_stamp fa ->
  interpolate_frames i j fb fa t = RInterp i j f ->
  f_ego fb = Some eb -> f_ego fa = Some ea ->
  nth_error (f_objs fb) k = Some o1 ->
  find_id (o_id o1) (f_objs fa) = Some o2 ->
  to_global eb o1 = Some g1 -> to_global ea o2 = Some g2 ->
  let a := alpha (f_stamp fb) (f_stamp fa) t in
  (0 <= a /\ a < 1)%Q /\
  exists o, nth_error (if_objs f) k = Some o /\
    o_id o = o_id o1 /\ o_tag o = o_tag o1 /\ o_time o = t /\ o_frame o = FMap /\
    vec_eq (o_pos o) (vcomb a (o_pos g1) (o_pos g2)) /\
    vec_eq (o_vel o) (vcomb a (o_vel o1) (o_vel o2)) /\
    (o_yaw o == o_yaw g1 + a * wrap1 (o_yaw g2 - o_yaw g1))%Q.
Proof. exact interp_on_segment. Qed.
Print Assumptions C17_interp_on_segment.

(* (1-a) p + a q stays between p and q in every coordinate *)
Theorem C17_segment_between : forall a p q : Q,
  (0 <= a <= 1 -> p <= q -> p <= (1 - a) * p + a * q <= q)%Q.
Proof. exact comb_between. Qed.
Print Assumptions C17_segment_between.

(* wrap1 (u2 - u1) IS the shortest signed arc: congruent to u2 - u1 modulo a full turn, in (-1, 1] *)
Theorem C17_shortest_arc : forall x : Q,
  (-1 < wrap1 x /\ wrap1 x <= 1)%Q /\ exists k : Z, (wrap1 x == x - 2 * inject_Z k)%Q.
Proof. intros x. split; [apply wrap1_range | apply wrap1_congruent]. Qed.
Print Assumptions C17_shortest_arc.

(* at the before frame's own stamp (a = 0) every object of that frame -- paired or not -- is reproduced
   in place: same uuid / attributes, same MAP-frame position, velocity and yaw (exact equality over Q;
   the float computation x1 + (x2 - x1) * 0 / dt is exact too, checked by the correspondence), and
   the ego pose of the frame is reproduced *)
Theorem C17_interp_reproduces_neighbour : forall i j fb fa f eb k o1 g1,
  interpolate_frames i j fb fa (f_stamp fb) = RInterp i j f ->
  f_ego fb = Some eb ->
  nth_error (f_objs fb) k = Some o1 -> to_global eb o1 = Some g1 ->
  exists o, nth_error (if_objs f) k = Some o /\
    o_id o = o_id o1 /\ o_tag o = o_tag o1 /\ o_frame o = FMap /\
    vec_eq (o_pos o) (o_pos g1) /\ vec_eq (o_vel o) (o_vel o1) /\ (o_yaw o == o_yaw g1)%Q /\
    vec_eq (eo_t (if_ego f)) (e_t eb) /\ (eo_yaw (if_ego f) == e_yaw eb)%Q.
Proof. exact interp_reproduces_neighbour. Qed.
Print Assumptions C17_interp_reproduces_neighbour.

(* uuids of the result: all of the before frame in order, then those of the after frame that are new,
   in order (uuids unique inside the after frame); for ANY two frames the uuid set is the union *)
Theorem C17_ids_union_order : forall i j fb fa t f,
  interpolate_frames i j fb fa t = RInterp i j f ->
  (NoDup (ids (f_objs fa)) ->
   ids (if_objs f) = ids (f_objs fb) ++ filter (fun x => negb (mem_id x (ids (f_objs fb)))) (ids (f_objs fa))) /\
  (forall x, In x (ids (if_objs f)) <-> In x (ids (f_objs fb)) \/ In x (ids (f_objs fa))).
Proof.
  intros i j fb fa t f H. split.
  - apply (frame_ids_union_order i j fb fa t f H).
  - intros x. apply (frame_ids_union_any i j fb fa t f x H).
Qed.
Print Assumptions C17_ids_union_order.

(* objects present in only one neighbour are kept: a before-only object stays at its place, an
   after-only object is in the result; both unchanged apart from the conversion to the map frame *)
Theorem C17_singletons_kept : forall i j fb fa t f eb ea,
  interpolate_frames i j fb fa t = RInterp i j f ->
  f_ego fb = Some eb -> f_ego fa = Some ea ->
  (forall k o1 g1, nth_error (f_objs fb) k = Some o1 -> ~ In (o_id o1) (ids (f_objs fa)) ->
     to_global eb o1 = Some g1 -> nth_error (if_objs f) k = Some g1) /\
  (NoDup (ids (f_objs fa)) ->
   forall o2 g2, In o2 (f_objs fa) -> ~ In (o_id o2) (ids (f_objs fb)) ->
     to_global ea o2 = Some g2 -> In g2 (if_objs f)).
Proof. exact frame_singletons_kept. Qed.
Print Assumptions C17_singletons_kept.

(* ------------------------------------------------------------------------------------------ *)
(* non-vacuity and necessity of the hypotheses, on a concrete time line *)
Definition ex_obj (id : string) (tag : Z) (time : Z) (fr : oframe) (x y : Q) (yaw : Q) : obj :=
  mkObj id tag time fr (mkVec x y 0) (mkVec 1 0 0) yaw.
Definition ex_ego (x : Q) : ego := mkEgo 1 0 0 1 (mkVec x 0 0) (1 # 2).   (* quarter turn about z *)
Definition ex_timeline : list frame :=
  [ mkFrame 1000 [ex_obj "a" 0 1000 FBase 1 2 (1 # 4); ex_obj "b" 1 1000 FMap 3 2 0] (Some (ex_ego 10));
    mkFrame 2000 [ex_obj "c" 2 2000 FMap 5 5 0; ex_obj "a" 3 2000 FBase 2 2 (-7 # 8)] (Some (ex_ego 12));
    mkFrame 2100 [] (Some (ex_ego 13)) ].

Example C17_nonvacuous_ascending : ascending ex_timeline /\ ex_timeline <> [].
Proof.
  split; [|discriminate]. unfold ascending, ex_timeline.
  repeat (constructor; [|repeat constructor; cbn; try (intro; discriminate)]). constructor.
Qed.

(* nearest frame: tie between 1000 and 2000 at t = 1500 resolved to the first; tolerance inclusive *)
Example C17_nonvacuous_now_frame :
  get_now_frame ex_timeline 1500 500 = RFrame 0 /\ get_now_frame ex_timeline 1500 499 = RNone /\
  get_now_frame ex_timeline 1501 499 = RFrame 1 /\ get_now_frame ex_timeline 2051 49 = RFrame 2.
Proof. repeat split; vm_compute; reflexivity. Qed.

(* the four gating cases, a query before the first frame, on a frame, after the last frame *)
Example C17_nonvacuous_gating :
  (exists f, get_interpolated_now_frame ex_timeline 1250 750 = RInterp 0 1 f /\ if_stamp f = 1250 /\
             ids (if_objs f) = ["a"; "b"; "c"]%string) /\
  get_interpolated_now_frame ex_timeline 1250 749 = RFrame 0 /\
  get_interpolated_now_frame ex_timeline 1750 749 = RFrame 1 /\
  get_interpolated_now_frame ex_timeline 1500 499 = RNone /\
  get_interpolated_now_frame ex_timeline 990 10 = RFrame 0 /\
  get_interpolated_now_frame ex_timeline 990 9 = RNone /\
  get_interpolated_now_frame ex_timeline 2100 0 = RFrame 2 /\
  get_interpolated_now_frame ex_timeline 2200 100 = RFrame 2 /\
  (exists f, get_interpolated_now_frame ex_timeline 1000 1000 = RInterp 0 1 f).
Proof.
  split; [eexists; split; [vm_compute; reflexivity|split; vm_compute; reflexivity]|].
  repeat split; try (vm_compute; reflexivity). eexists. vm_compute. reflexivity.
Qed.

(* the hypotheses of C17_interp_on_segment are satisfiable: object "a" (base_link, ego turning and
   moving) between frames 0 and 1 at a quarter of the gap; the shortest arc goes through -pi/pi *)
Example C17_nonvacuous_on_segment :
  exists fb fa f eb ea o1 o2 g1 g2 o,
    nth_error ex_timeline 0 = Some fb /\ nth_error ex_timeline 1 = Some fa /\
    f_stamp fb <= 1250 < f_stamp fa /\
    interpolate_frames 0 1 fb fa 1250 = RInterp 0 1 f /\
    f_ego fb = Some eb /\ f_ego fa = Some ea /\
    nth_error (f_objs fb) 0 = Some o1 /\ find_id (o_id o1) (f_objs fa) = Some o2 /\
    to_global eb o1 = Some g1 /\ to_global ea o2 = Some g2 /\
    nth_error (if_objs f) 0 = Some o /\
    (alpha 1000 2000 1250 == 1 # 4)%Q /\
    vec_eq (o_pos g1) (mkVec 8 1 0) /\ vec_eq (o_pos g2) (mkVec 10 2 0) /\
    vec_eq (o_pos o) (mkVec (17 # 2) (5 # 4) 0) /\
    (o_yaw g1 == 3 # 4)%Q /\ (o_yaw g2 == -3 # 8)%Q /\ (o_yaw o == 31 # 32)%Q.
Proof.
  do 10 eexists.
  split; [reflexivity|]. split; [reflexivity|].
  split; [split; vm_compute; congruence|].
  split; [vm_compute; reflexivity|].
  split; [reflexivity|]. split; [reflexivity|]. split; [reflexivity|].
  split; [vm_compute; reflexivity|].
  split; [vm_compute; reflexivity|]. split; [vm_compute; reflexivity|].
  split; [reflexivity|].
  split; [vm_compute; reflexivity|].
  repeat (split; [vm_compute; repeat split; reflexivity|]).
  vm_compute; reflexivity.
Qed.

(* sortedness is necessary for the before-neighbour clause (not a defect: the property speaks about
   time-ordered lists): stamps 10, 30, 20 and t = 25 -- the loop stops at 30 and keeps 10 *)
Example C17_neighbours_need_time_order :
  let l := [mkFrame 10 [] None; mkFrame 30 [] None; mkFrame 20 [] None] in
  exists b a, nb_scan 25 l 0 None = (b, a) /\ ~ before_spec l 25 (strip b).
Proof.
  eexists. eexists. split; [vm_compute; reflexivity|]. cbn. intros (_ & _ & H).
  specialize (H 2%nat (mkFrame 20 [] None) eq_refl). cbn in H. specialize (H ltac:(discriminate)).
  inversion H.
Qed.

(* unique uuids inside the after frame are necessary for "after-only objects are kept": the second of
   two after-only objects sharing a uuid is dropped by `if object2.uuid not in id_list` *)
Example C17_singletons_need_unique_ids :
  let o := ex_obj "z" 0 2000 FMap 0 0 0 in let o' := ex_obj "z" 1 2000 FMap 1 1 0 in
  ~ In o' (interpolate_object_list 1000 2000 1500 [] [o; o']).
Proof. cbn. intros [H|[]]. discriminate H. Qed.
