(* C12 -- Sensing counts exactly the points inside each box; every object classified once.
   Models: Model/Winding.v (crop_pointcloud, box corners, get_bbox_scale), Model/Sensing.v
   (DynamicObjectWithSensingResult, SensingFrameResult.evaluate_frame, manager.crop_pointcloud).
   Only statements, `exact <lemma>`, Print Assumptions and non-vacuity examples.

   Conventions: a cloud row is [mkPoint x y rest] ([rest] = z, intensity, ... or [] for a 2-column
   cloud); a box is position, size (w, l, h) and the xy block of its rotation matrix, [yaw_box] is the
   yaw-only box with direction (c, s) (ANY non-zero rational vector, not only unit ones); the box
   frame coordinates of a row are [local_u], [local_v]. *)
From Coq Require Import List Bool ZArith Arith Permutation.
From PE Require Import Base.QUtil Model.Winding Model.Sensing Proofs.WindingProofs Proofs.SensingProofs.
Import ListNotations.
Open Scope Q_scope.

(* ------------------------------------------------------------------------------------------ *)
(* the edge test                                                                               *)
(* ------------------------------------------------------------------------------------------ *)
(* the division-based test `x < ax + (y-ay)/(by-ay)*(bx-ax)` of crop_pointcloud is the sign of a
   cross product: for an upward edge a->b the row is "valid" iff it lies strictly left of a->b, for
   a downward edge iff it lies strictly right (c is the raw next row read by the horizontal test) *)
Theorem C12_edge_valid_iff_cross : forall (a b c : vertex) (p : point),
  vy c == vy b ->
  (vy a < vy b -> (edge_valid a b c p = true <->
                   0 < cross (vx a) (vy a) (vx b) (vy b) (px p) (py p))) /\
  (vy b < vy a -> (edge_valid a b c p = true <->
                   cross (vx a) (vy a) (vx b) (vy b) (px p) (py p) < 0)).
Proof. exact edge_valid_iff_cross. Qed.
Print Assumptions C12_edge_valid_iff_cross.

(* the uint8 accumulator holds the sum of the per-edge contributions (+1 / -1 / 0) modulo 256;
   `0 < cnt` therefore means "winding number not a multiple of 256", which is why clockwise
   polygons (winding number -1 = 255) are handled like counter-clockwise ones *)
Theorem C12_counter_is_sum_mod_256 : forall (area : list vertex) (p : point),
  wn area p = (contrib_sum p (edges area) mod 256)%Z /\ (0 <= wn area p < 256)%Z.
Proof. intros area p. split; [apply wn_edges_sum|apply wn_range]. Qed.
Print Assumptions C12_counter_is_sum_mod_256.

(* ------------------------------------------------------------------------------------------ *)
(* inside / outside partition: any polygon, any vertex heights, 2, 3 or more columns           *)
(* ------------------------------------------------------------------------------------------ *)
Theorem C12_inside_outside_partition : forall (area : list vertex) (cloud : list point),
  (* per row: selected by exactly one of inside=True / inside=False *)
  (forall p, selected area true p = negb (selected area false p)) /\
  (* the two returned arrays together are the input rows (all columns kept) *)
  Permutation cloud (filter (selected area true) cloud ++ filter (selected area false) cloud) /\
  (length (crop_idx area true cloud) + length (crop_idx area false cloud) = length cloud)%nat /\
  (forall i, (i < length cloud)%nat ->
     (In i (crop_idx area true cloud) /\ ~ In i (crop_idx area false cloud)) \/
     (~ In i (crop_idx area true cloud) /\ In i (crop_idx area false cloud))) /\
  (* the index lists name the returned rows, in input order *)
  (forall inside, map (nth_error cloud) (crop_idx area inside cloud) =
                  map Some (filter (selected area inside) cloud)) /\
  (* with the RuntimeError cases: they do not depend on [inside] *)
  (forall ncols ins, crop_pointcloud ncols cloud area true = Some ins ->
     exists outs, crop_pointcloud ncols cloud area false = Some outs /\ Permutation cloud (ins ++ outs)).
Proof.
  intros area cloud. split; [intros p; apply selected_partition|].
  destruct (crop_partition area cloud) as (P & L & I).
  split; [exact P|]. split; [exact L|]. split; [exact I|].
  split; [intros inside; apply idx_filter_rows|].
  intros ncols ins. apply crop_pointcloud_partition.
Qed.
Print Assumptions C12_inside_outside_partition.

(* ------------------------------------------------------------------------------------------ *)
(* the rectangle: winding-number selection = slab inequalities in the box frame                *)
(* ------------------------------------------------------------------------------------------ *)
(* yaw-only box with centre (x, y, z), size (w, l, h), direction (c, s) <> (0, 0) -- all four sign
   quadrants and the four axis-aligned directions --, footprint scale k > 0.  A row whose box-frame
   coordinates (u, v) are strictly inside the scaled footprint and whose z (if the cloud has one)
   is within [z - h/2, z + h/2] is selected; a row strictly outside the footprint or the z range is
   not.  (Rows exactly on the footprint boundary: half-open rule, not specified.) *)
Theorem C12_rect_inside_iff_slabs : forall (x y z w l h c s k : Q) (p : point),
  0 < w -> 0 < l -> 0 <= h -> 0 < k -> ~ (c == 0 /\ s == 0) ->
  let b := yaw_box x y z w l h c s in
  let u := (c * (px p - x) + s * (py p - y)) / (c * c + s * s) in
  let v := (- s * (px p - x) + c * (py p - y)) / (c * c + s * s) in
  let z_inside := match prest p with [] => True | pz :: _ => z - h / 2 <= pz /\ pz <= z + h / 2 end in
  let z_outside := match prest p with [] => False | pz :: _ => pz < z - h / 2 \/ z + h / 2 < pz end in
  (qabs u < k * (l / 2) /\ qabs v < k * (w / 2) /\ z_inside ->
     box_selected b k true p = true /\ box_selected b k false p = false) /\
  (k * (l / 2) < qabs u \/ k * (w / 2) < qabs v \/ z_outside ->
     box_selected b k true p = false /\ box_selected b k false p = true).
Proof.
  intros x y z w l h c s k p Hw Hl Hh Hk Hcs.
  destruct (local_uv_correct x y c s p Hcs) as [PX PY].
  destruct (rect_inside_iff_slabs x y z w l h c s k _ _ p Hw Hl Hh Hk Hcs PX PY) as [I O].
  destruct (rect_outside_iff_slabs x y z w l h c s k _ _ p Hw Hl Hh Hk Hcs PX PY) as [I' O'].
  split; intros H; split; auto.
Qed.
Print Assumptions C12_rect_inside_iff_slabs.

(* the same for the row built from box-frame coordinates (u, v): x = c u - s v + cx, y = s u + c v + cy *)
Theorem C12_rect_local_point : forall (x y z w l h c s k u v : Q) (rest : list Q),
  0 < w -> 0 < l -> 0 <= h -> 0 < k -> ~ (c == 0 /\ s == 0) ->
  let b := yaw_box x y z w l h c s in
  let p := local_point x y c s u v rest in
  (qabs u < k * (l / 2) /\ qabs v < k * (w / 2) /\ z_in z h rest -> box_selected b k true p = true) /\
  (k * (l / 2) < qabs u \/ k * (w / 2) < qabs v \/ z_out z h rest -> box_selected b k true p = false).
Proof.
  intros x y z w l h c s k u v rest Hw Hl Hh Hk Hcs.
  apply (rect_inside_iff_slabs x y z w l h c s k u v (local_point x y c s u v rest) Hw Hl Hh Hk Hcs);
    reflexivity.
Qed.
Print Assumptions C12_rect_local_point.

(* cloud level: without rows on the box boundary the returned arrays are exactly the rows
   geometrically inside / outside, hence get_inside_pointcloud_num counts exactly those *)
Theorem C12_box_crop_exact : forall (q : yaw_params) (k : Q) (cloud : list point),
  yaw_ok q -> 0 < k ->
  (forall p, In p cloud -> slab_in q k p \/ slab_out q k p) ->
  (forall p, In p (box_crop (box_of q) k true cloud) <-> In p cloud /\ slab_in q k p) /\
  (forall p, In p (box_crop (box_of q) k false cloud) <-> In p cloud /\ slab_out q k p) /\
  inside_num (box_of q) k cloud = length (box_crop (box_of q) k true cloud) /\
  (point_exist (box_of q) k cloud = true <-> exists p, In p cloud /\ slab_in q k p).
Proof.
  intros q k cloud Hq Hk Hb. destruct (box_crop_exact q k cloud Hq Hk Hb) as [I O].
  split; [exact I|]. split; [exact O|]. split; [reflexivity|].
  unfold point_exist, inside_num. rewrite Nat.ltb_lt. split.
  - intros H. destruct (box_crop (box_of q) k true cloud) as [|p t] eqn:E; [cbn in H; inversion H|].
    exists p. apply I. rewrite ?E. left. reflexivity.
  - intros [p Hp]. apply I in Hp. destruct (box_crop (box_of q) k true cloud); [destruct Hp|cbn; apply Nat.lt_0_succ].
Qed.
Print Assumptions C12_box_crop_exact.

(* ------------------------------------------------------------------------------------------ *)
(* enlarging the scale never removes an inside row (ALL rows, boundary rows included)          *)
(* ------------------------------------------------------------------------------------------ *)
Theorem C12_scale_monotone : forall (x y z w l h c s k k' : Q) (cloud : list point),
  0 < w -> 0 < l -> 0 <= h -> 0 < k -> k <= k' -> ~ (c == 0 /\ s == 0) ->
  let b := yaw_box x y z w l h c s in
  (forall p, box_selected b k true p = true -> box_selected b k' true p = true) /\
  (forall i, In i (box_crop_idx b k true cloud) -> In i (box_crop_idx b k' true cloud)) /\
  incl (box_crop b k true cloud) (box_crop b k' true cloud) /\
  (inside_num b k cloud <= inside_num b k' cloud)%nat.
Proof.
  intros x y z w l h c s k k' cloud Hw Hl Hh Hk Hkk Hcs b.
  split; [intros p; apply scale_monotone; assumption|].
  apply scale_monotone_cloud; assumption.
Qed.
Print Assumptions C12_scale_monotone.

(* the distance-dependent factor: linear between the two configured scales, hence monotone in the
   distance when box_scale_100m >= box_scale_0m *)
Theorem C12_bbox_scale_linear : forall d d' s0 s100 : Q,
  bbox_scale 0 s0 s100 == s0 /\ bbox_scale 100 s0 s100 == s100 /\
  (s0 <= s100 -> d <= d' -> bbox_scale d s0 s100 <= bbox_scale d' s0 s100).
Proof.
  intros d d' s0 s100. unfold bbox_scale. split; [ring|]. split; [ring|].
  intros H1 H2. nra.
Qed.
Print Assumptions C12_bbox_scale_linear.

(* ------------------------------------------------------------------------------------------ *)
(* every ground truth is classified exactly once                                               *)
(* ------------------------------------------------------------------------------------------ *)
Theorem C12_object_trichotomy : forall (cfg : sensing_config) (gts : list gt_object)
                                       (cloud : list point) (pcs : list (list point)),
  let fr := evaluate_frame cfg gts cloud pcs in
  let ids := map r_obj (fr_success fr) ++ map r_obj (fr_fail fr) ++ map r_obj (fr_warning fr) in
  (* every index 0 .. |GT|-1 occurs exactly once over the three lists *)
  Permutation (seq 0 (length gts)) ids /\ NoDup ids /\
  (length (fr_success fr) + length (fr_fail fr) + length (fr_warning fr) = length gts)%nat.
Proof.
  intros cfg gts cloud pcs. unfold evaluate_frame.
  pose proof (object_trichotomy cfg cloud gts) as H.
  destruct (eval_detection cfg cloud (indexed gts)) as [[su fa] wa]. cbn.
  destruct H as (P & L & N). auto.
Qed.
Print Assumptions C12_object_trichotomy.

(* which list: warning iff annotated Visibility.NONE (tested first, whatever the count); otherwise
   success iff inside_pointcloud_num >= min_points_threshold, else fail; and the count is the
   number of rows of the inside crop at the object's distance-dependent scale *)
Theorem C12_detection_lists_spec : forall (cfg : sensing_config) (gts : list gt_object)
                                          (cloud : list point) (pcs : list (list point))
                                          (r : sensing_result),
  let fr := evaluate_frame cfg gts cloud pcs in
  let from_gt := exists i g, nth_error gts i = Some g /\ r = sensing_result_of cfg cloud (i, g) in
  (In r (fr_warning fr) <-> from_gt /\ r_occluded r = true) /\
  (In r (fr_success fr) <-> from_gt /\ r_occluded r = false /\ r_detected r = true) /\
  (In r (fr_fail fr) <-> from_gt /\ r_occluded r = false /\ r_detected r = false) /\
  (forall i g, r = sensing_result_of cfg cloud (i, g) ->
     r_obj r = i /\
     r_inside r = box_crop_idx (g_box g) (bbox_scale (g_dist g) (c_s0 cfg) (c_s100 cfg)) true cloud /\
     r_num r = length (r_inside r) /\
     r_num r = inside_num (g_box g) (bbox_scale (g_dist g) (c_s0 cfg) (c_s100 cfg)) cloud /\
     (r_detected r = true <-> (c_min_points cfg <= Z.of_nat (r_num r))%Z) /\
     (r_occluded r = true <-> g_vis g = Some V_NONE)).
Proof.
  intros cfg gts cloud pcs r. unfold evaluate_frame.
  pose proof (detection_lists_spec cfg cloud gts r) as H.
  destruct (eval_detection cfg cloud (indexed gts)) as [[su fa] wa]. cbn.
  destruct H as (A & B & C). split; [exact A|]. split; [exact B|]. split; [exact C|].
  intros i g ->. apply sensing_result_spec.
Qed.
Print Assumptions C12_detection_lists_spec.

(* the rows counted for a yaw-only ground truth are exactly the rows geometrically inside *)
Theorem C12_detection_rows_exact : forall (cfg : sensing_config) (cloud : list point) (i : nat) (t : yaw_gt),
  yaw_ok (fst (fst t)) -> 0 < scale_at cfg t ->
  (forall p, In p cloud -> slab_in (fst (fst t)) (scale_at cfg t) p \/ slab_out (fst (fst t)) (scale_at cfg t) p) ->
  forall j, In j (r_inside (sensing_result_of cfg cloud (i, gt_of t))) <->
            exists p, nth_error cloud j = Some p /\ slab_in (fst (fst t)) (scale_at cfg t) p.
Proof. exact detection_rows_exact. Qed.
Print Assumptions C12_detection_rows_exact.

(* ------------------------------------------------------------------------------------------ *)
(* non-detection                                                                               *)
(* ------------------------------------------------------------------------------------------ *)
(* a row is reported in pointcloud_failed_non_detection iff it is a row of one of the given clouds and
   in the inside selection of no ground-truth box (scaled at that box's distance); each reported
   array is a non-empty, order-preserving sub-array; the crop is idempotent (the manager crops,
   evaluate_frame crops again); the manager's arrays are "inside the area and inside no box" *)
Theorem C12_non_detection_spec : forall (cfg : sensing_config) (gts : list gt_object)
                                        (cloud : list point) (pcs : list (list point)),
  let fr := evaluate_frame cfg gts cloud pcs in
  let in_no_box p := forall g, In g gts -> box_selected (g_box g) (scale_of cfg g) true p = false in
  (forall p, In p (concat (fr_nondet fr)) <-> exists pc, In pc pcs /\ In p pc /\ in_no_box p) /\
  fr_nondet fr = filter (fun pc => match pc with [] => false | _ => true end)
                        (map (filter (outside_all (fun p => p) cfg gts)) pcs) /\
  (forall p, outside_all (fun p => p) cfg gts p = true <-> in_no_box p) /\
  (forall pc, crop_outside_boxes (fun p => p) cfg gts (crop_outside_boxes (fun p => p) cfg gts pc) =
              crop_outside_boxes (fun p => p) cfg gts pc) /\
  (forall areas, manager_crop (fun p => p) cfg gts cloud areas =
     map (fun area => filter (fun p => selected area true p && outside_all (fun p => p) cfg gts p) cloud) areas).
Proof.
  intros cfg gts cloud pcs. cbv zeta. rewrite fr_nondet_eval.
  split; [intros p; exact (non_detection_spec (fun p => p) cfg gts pcs p)|].
  split; [exact (non_detection_shape (fun p => p) cfg gts pcs)|].
  split; [intros p; exact (outside_all_spec (fun p => p) cfg gts p)|].
  split; [intros pc; exact (crop_outside_idempotent (fun p => p) cfg gts pc)|].
  intros areas. exact (manager_crop_spec (fun p => p) cfg gts cloud areas).
Qed.
Print Assumptions C12_non_detection_spec.

(* in geometric terms, for yaw-only ground truths and a row that is on no box boundary *)
Theorem C12_non_detection_slabs : forall (cfg : sensing_config) (ts : list yaw_gt)
                                         (pcs : list (list point)) (p : point),
  (forall t, In t ts -> yaw_ok (fst (fst t)) /\ 0 < scale_at cfg t /\
                        (slab_in (fst (fst t)) (scale_at cfg t) p \/ slab_out (fst (fst t)) (scale_at cfg t) p)) ->
  (In p (concat (eval_non_detection (fun q => q) cfg (map gt_of ts) pcs)) <->
   (exists pc, In pc pcs /\ In p pc) /\ forall t, In t ts -> slab_out (fst (fst t)) (scale_at cfg t) p).
Proof. exact non_detection_slabs. Qed.
Print Assumptions C12_non_detection_slabs.

(* ------------------------------------------------------------------------------------------ *)
(* non-vacuity: concrete inputs satisfying the hypotheses and exercising the interesting branch *)
(* ------------------------------------------------------------------------------------------ *)
Definition ex_box : box := yaw_box 3 4 0 2 4 (3 # 2) (3 # 5) (4 # 5).      (* the box of the harness smoke test *)
Definition ex_cloud : list point :=
  [mkPoint 3 4 [0; 7]; mkPoint 3 4 [2; 8]; mkPoint 10 10 [0; 9]; mkPoint (7 # 2) 6 [(3 # 4); 1]].

Example C12_nonvacuous_rect :
  0 < 2 /\ 0 < 4 /\ 0 <= (3 # 2) /\ 0 < 1 /\ ~ ((3 # 5) == 0 /\ (4 # 5) == 0) /\
  box_crop_idx ex_box 1 true ex_cloud = [0; 3]%nat /\ box_crop_idx ex_box 1 false ex_cloud = [1; 2]%nat /\
  inside_num ex_box 1 ex_cloud = 2%nat /\ inside_num ex_box (1 # 2) ex_cloud = 1%nat.
Proof. repeat split; try lra; try (intros [H _]; lra); vm_compute; reflexivity. Qed.

(* all four quadrants and an axis-aligned direction select the centre and reject a far row *)
Example C12_nonvacuous_quadrants :
  forallb (fun cs => box_selected (yaw_box 1 2 0 2 4 1 (fst cs) (snd cs)) (5 # 4) true (mkPoint (3 # 2) (5 # 2) [0]) &&
                     negb (box_selected (yaw_box 1 2 0 2 4 1 (fst cs) (snd cs)) (5 # 4) true (mkPoint 9 2 [0])))
          [(3 # 5, 4 # 5); (-3 # 5, 4 # 5); (-3 # 5, -4 # 5); (3 # 5, -4 # 5); (1, 0); (0, 1); (-1, 0); (0, -1); (2, 1)] = true.
Proof. vm_compute. reflexivity. Qed.

(* a clockwise ring: the counter wraps to 255 and the row is still inside *)
Definition ex_cw : list vertex :=
  [(0, 0, 0); (0, 2, 0); (2, 2, 0); (2, 0, 0); (0, 0, 1); (0, 2, 1); (2, 2, 1); (2, 0, 1)].
Example C12_nonvacuous_clockwise :
  wn ex_cw (mkPoint 1 1 [(1 # 2)]) = 255%Z /\
  crop_pointcloud 3 [mkPoint 1 1 [(1 # 2)]; mkPoint 3 3 [(1 # 2)]; mkPoint 1 1 [2]] ex_cw true = Some [mkPoint 1 1 [(1 # 2)]] /\
  crop_pointcloud 3 [mkPoint 1 1 [(1 # 2)]; mkPoint 3 3 [(1 # 2)]; mkPoint 1 1 [2]] ex_cw false =
    Some [mkPoint 3 3 [(1 # 2)]; mkPoint 1 1 [2]] /\
  crop_pointcloud 1 [] ex_cw true = None /\ crop_pointcloud 3 [] (firstn 4 ex_cw) true = None.
Proof. vm_compute. repeat split; reflexivity. Qed.

(* a frame with one object in each class, an empty and a non-empty non-detection remainder *)
Definition ex_cfg : sensing_config := mkCfg 1 2 2.
Definition ex_gts : list gt_object :=
  [mkGT ex_box 5 (Some V_FULL);                                   (* 2 rows at scale 1.05 >= 2: success *)
   mkGT (yaw_box (-6) 8 0 2 2 2 0 1) 10 (Some V_PARTIAL);         (* 1 row < 2: fail *)
   mkGT (yaw_box 0 (-5) 0 2 2 2 1 0) 5 (Some V_NONE)].            (* occluded: warning although 2 rows *)
Definition ex_det_cloud : list point :=
  ex_cloud ++ [mkPoint (-6) 8 [0; 0]; mkPoint 0 (-5) [0; 0]; mkPoint (1 # 2) (-5) [0; 0]].
Example C12_nonvacuous_frame :
  let fr := evaluate_frame ex_cfg ex_gts ex_det_cloud [[mkPoint 3 4 [0; 7]]; [mkPoint 3 4 [0; 7]; mkPoint 20 20 [0; 0]]] in
  map r_obj (fr_success fr) = [0]%nat /\ map r_obj (fr_fail fr) = [1]%nat /\ map r_obj (fr_warning fr) = [2]%nat /\
  map r_num (fr_success fr ++ fr_fail fr ++ fr_warning fr) = [2; 1; 2]%nat /\
  fr_nondet fr = [[mkPoint 20 20 [0; 0]]].
Proof. vm_compute. repeat split; reflexivity. Qed.

(* ------------------------------------------------------------------------------------------ *)
(* limit of the general-polygon reading: the counter is a uint8                                *)
(* ------------------------------------------------------------------------------------------ *)
(* "winding number <> 0 => inside" fails when the winding number is a multiple of 256: a square ring
   listed 256 times winds 256 times around its centre, the counter wraps to 0 and the centre is
   reported OUTSIDE (reproduced against crop_pointcloud).  Box prisms have 4 edges and winding
   number 1, so the theorems above are not affected. *)
Definition ex_ring256 : list (Q * Q) := concat (repeat [(0, 0); (2, 0); (2, 2); (0, 2)] 256).
Definition ex_area256 : list vertex :=
  map (fun q => (fst q, snd q, 1)) ex_ring256 ++ map (fun q => (fst q, snd q, 0)) ex_ring256.
Theorem C12_general_polygon_uint8_refuted :
  exists (area : list vertex) (p : point),
    area_ok area = true /\ contrib_sum p (edges area) = 256%Z /\ wn area p = 0%Z /\
    selected area true p = false /\ selected area false p = true.
Proof. exists ex_area256, (mkPoint 1 1 [(1 # 2)]). vm_compute. repeat split; reflexivity. Qed.
Print Assumptions C12_general_polygon_uint8_refuted.
