(* C12 -- Sensing counts exactly the points inside each box; every object classified once.
   Models: Model/Winding.v (crop_pointcloud, box corners), Model/Sensing.v (frame evaluation).
   Only statements, `exact <lemma>`, Print Assumptions and non-vacuity examples. *)
From Coq Require Import List Bool ZArith Arith Permutation.
From PE Require Import Base.QUtil Model.Winding Model.Sensing Proofs.WindingProofs Proofs.SensingProofs.
Import ListNotations.
Open Scope Q_scope.

(* the division-based edge test of crop_pointcloud is the sign of a cross product:
   for an upward edge a->b the point is "valid" iff it lies strictly left of a->b, for a downward
   edge iff it lies strictly right of it (c is the raw next row read by the horizontal-edge test) *)
Theorem C12_edge_valid_iff_cross : forall (a b c : vertex) (p : point),
  vy c == vy b ->
  (vy a < vy b -> (edge_valid a b c p = true <->
                   0 < cross (vx a) (vy a) (vx b) (vy b) (px p) (py p))) /\
  (vy b < vy a -> (edge_valid a b c p = true <->
                   cross (vx a) (vy a) (vx b) (vy b) (px p) (py p) < 0)).
Proof. exact edge_valid_iff_cross. Qed.
Print Assumptions C12_edge_valid_iff_cross.

(* the uint8 accumulator holds the sum of the per-edge contributions modulo 256 *)
Theorem C12_counter_is_sum_mod_256 : forall (area : list vertex) (p : point),
  wn area p = (contrib_sum p (edges area) mod 256)%Z /\ (0 <= wn area p < 256)%Z.
Proof. intros area p. split; [apply wn_edges_sum|apply wn_range]. Qed.
Print Assumptions C12_counter_is_sum_mod_256.
