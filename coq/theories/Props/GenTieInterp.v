(* Redundant tie, INTERPOLATION layer: the functions that build an interpolated ground-truth frame are re-translated from the Python
   `ast` on every run (translator/loops_interp.py -> Gen/loops_interp.v: a `for` is a fold_left in the error monad, a `break` is a flag in
   the loop state, `pre` = the leading asserts, `f` = the body after them) and every theorem below says that a generated definition
   EQUALS the hand-model definition the theorems of Props/C17.v are about (Model/Lookup.v), for ALL inputs (lists of any length: the
   induction is in the loop rules of Proofs/GenTieLoopsLemmas.v).  Each theorem is self-contained (compiled on its own by the harness).
   What a generated function returns OUTSIDE the guard of its main equation is stated by the `_outside` theorem that follows it; a
   theorem without one has no guard.  ErrZeroDiv (= ErrType, header of the generated file) stands for ZeroDivisionError. *)
From Coq Require Import String.
From Coq Require Import List Bool ZArith QArith Arith Lia.
From PE Require Import Base.QUtil Proofs.GenTieLoopsLemmas Proofs.GenTieTrackingLemmas Proofs.GenTieInterpLemmas.
From PE Require Base.StrUtil Model.Lookup Model.Filter Model.Label.
From PE Require Gen.loops_tracking.
From PE Require Gen.loops_interp.
Import Gen.loops_interp.
Import ListNotations.
Import Filter.
Open Scope Q_scope.

(* ---- interpolate_object_list = Lookup.interpolate_object_list (pass1 ++ pass2) ------------------------------------------------- *)
(* no guard: the function is total (it indexes nothing, divides by nothing; the per-object interpolation is the leaf Lookup.interp_obj).
   First loop: every object of list 1, interpolated with the FIRST object of list 2 that has its uuid (the search leaves at the first
   hit), copied when there is none; second loop: the objects of list 2 whose uuid is not yet in id_list, which grows while the loop runs
   (a uuid repeated inside list 2 is taken once).  Second statement: the leading assert. *)
Theorem GenTie_interpolate_object_list :
  (forall (object_list1 object_list2 : list Lookup.obj) (t1 t2 t : Z),
     Gen_interpolate_object_list.f object_list1 object_list2 t1 t2 t = Ok (Lookup.interpolate_object_list t1 t2 t object_list1 object_list2)) /\
  (forall (object_list1 object_list2 : list Lookup.obj) (t1 t2 t : Z),
     Gen_interpolate_object_list.pre object_list1 object_list2 t1 t2 t = Z.leb t1 t && Z.leb t t2).
Proof.
  split.
  - intros l1 l2 t1 t2 t. unfold Gen_interpolate_object_list.f. object_list_script l1 l2 t1 t2 t.
  - intros. unfold Gen_interpolate_object_list.pre. split_ifs; reflexivity.
Qed.
Print Assumptions GenTie_interpolate_object_list.

Example GenTie_interpolate_object_list_nonvacuous :
  let o (id : string) (tag : Z) (x : Q) := Lookup.mkObj id tag 0%Z Lookup.FMap (Lookup.mkVec x 0 0) (Lookup.mkVec 0 0 0) 0 in
  let l1 := [o "a"%string 1%Z 0; o "b"%string 2%Z 0; o "a"%string 3%Z 8] in                  (* uuid "a" twice in list 1 *)
  let l2 := [o "c"%string 4%Z 0; o "a"%string 5%Z 4; o "a"%string 6%Z 40; o "c"%string 7%Z 0; o "d"%string 8%Z 0] in   (* "a", "c" twice in list 2 *)
  exists r, Gen_interpolate_object_list.f l1 l2 0%Z 10%Z 5%Z = Ok r /\
    map Lookup.o_id r = ["a"; "b"; "a"; "c"; "d"]%string /\          (* both "a" of list 1 are kept; "c" of list 2 once *)
    map Lookup.o_tag r = [1; 2; 3; 4; 8]%Z /\                        (* the copied attributes are those of the object of list 1; the FIRST "c" *)
    Forall2 Qeq (map (fun x => Lookup.vx (Lookup.o_pos x)) r) [2; 0; 6; 0; 0] /\   (* both paired with the FIRST "a" of list 2 (x = 4) *)
    r = Lookup.interpolate_object_list 0%Z 10%Z 5%Z l1 l2.
Proof. eexists. split; [vm_compute; reflexivity|]. vm_compute. repeat split; repeat constructor. Qed.

(* ---- interpolate_list = Lookup.lerp element by element (Lookup.vlerp on three components) ------------------------------------------ *)
(* guard: t1 <> t2 (the code divides by t2 - t1 with no test of its own) and list_2 at least as long as list_1 (the leading assert asks
   for equal lengths).  [lerp_list]: list_1[i] + (list_2[i] - list_1[i]) * (t - t1) / (t2 - t1) for every position of list_1.
   Second statement: on the three components of two Lookup.vec3 this is Lookup.vlerp; third: the leading asserts. *)
Theorem GenTie_interpolate_list :
  (forall (list_1 list_2 : list Q) (t1 t2 t : Z),
     t1 <> t2 -> (length list_1 <= length list_2)%nat ->
     Gen_interpolate_list.f list_1 list_2 t1 t2 t = Ok (lerp_list t1 t2 t list_1 list_2)) /\
  (forall (a b : Lookup.vec3) (t1 t2 t : Z),
     t1 <> t2 -> Gen_interpolate_list.f (vec_list a) (vec_list b) t1 t2 t = Ok (vec_list (Lookup.vlerp t1 t2 t a b))) /\
  (forall (list_1 list_2 : list Q) (t1 t2 t : Z),
     Gen_interpolate_list.pre list_1 list_2 t1 t2 t = Z.leb t1 t && Z.leb t t2 && Nat.eqb (length list_1) (length list_2)).
Proof.
  assert (H : forall l1 l2 t1 t2 t, t1 <> t2 -> (length l1 <= length l2)%nat ->
                Gen_interpolate_list.f l1 l2 t1 t2 t = Ok (lerp_list t1 t2 t l1 l2)).
  { intros l1 l2 t1 t2 t Hz Hlen. apply sub_eqb_false in Hz. unfold Gen_interpolate_list.f. interpolate_list_script l1 l2 t1 t2 t Hlen Hz. }
  split; [exact H|]. split.
  - intros a b t1 t2 t Hz. rewrite H by (cbn; auto). rewrite lerp_list_vec. reflexivity.
  - intros. unfold Gen_interpolate_list.pre. split_ifs; reflexivity.
Qed.
Print Assumptions GenTie_interpolate_list.

(* outside the guard: nothing to interpolate: the empty list whatever the times; t1 = t2: ZeroDivisionError in the first iteration (after
   both elements were read); list_2 shorter than list_1: IndexError (at position len(list_2); before the division when list_2 is empty) *)
Theorem GenTie_interpolate_list_outside :
  (forall (list_2 : list Q) (t1 t2 t : Z), Gen_interpolate_list.f [] list_2 t1 t2 t = Ok []) /\
  (forall (a b : Q) (r1 r2 : list Q) (t1 t : Z), Gen_interpolate_list.f (a :: r1) (b :: r2) t1 t1 t = ErrZeroDiv) /\
  (forall (list_1 list_2 : list Q) (t1 t2 t : Z),
     (length list_2 < length list_1)%nat -> t1 <> t2 \/ list_2 = [] -> Gen_interpolate_list.f list_1 list_2 t1 t2 t = ErrIndex).
Proof.
  split; [reflexivity|]. split.
  - intros a b r1 r2 t1 t. unfold Gen_interpolate_list.f, ErrZeroDiv. interpolate_list_zerodiv_script a b r1 r2 t1 t.
  - intros l1 l2 t1 t2 t Hlen Hz. unfold Gen_interpolate_list.f. interpolate_list_index_script l1 l2 t1 t2 t Hlen Hz.
Qed.
Print Assumptions GenTie_interpolate_list_outside.

Example GenTie_interpolate_list_nonvacuous :
  (exists r, Gen_interpolate_list.f [0; 8; 1] [4; 0; 1] 100%Z 200%Z 125%Z = Ok r /\ Forall2 Qeq r [1; 6; 1]) /\
  (exists r, Gen_interpolate_list.f [0; 8; 1] [4; 0; 1] 100%Z 200%Z 100%Z = Ok r /\ Forall2 Qeq r [0; 8; 1]) /\     (* t == t1: list_1 *)
  (exists r, Gen_interpolate_list.f [0; 8] [4; 0; 1] 100%Z 200%Z 200%Z = Ok r /\ Forall2 Qeq r [4; 0]) /\           (* a longer list_2 is cut *)
  Gen_interpolate_list.f [0; 8; 1] [4; 0; 1] 100%Z 100%Z 100%Z = ErrZeroDiv /\
  Gen_interpolate_list.f [0; 8; 1] [4; 0] 100%Z 200%Z 125%Z = ErrIndex /\
  Gen_interpolate_list.f [0] [] 100%Z 100%Z 100%Z = ErrIndex /\
  Gen_interpolate_list.pre [0; 8; 1] [4; 0; 1] 100%Z 100%Z 100%Z = true /\    (* the asserts do not exclude t1 == t2 *)
  Gen_interpolate_list.pre [0; 8] [4; 0; 1] 100%Z 200%Z 150%Z = false.
Proof.
  repeat split; try (vm_compute; reflexivity); eexists; (split; [vm_compute; reflexivity|]); repeat constructor; vm_compute; reflexivity.
Qed.

(* ---- interpolate_quaternion = Lookup.yaw_interp (the fraction (t - t1) / (t2 - t1) handed to the slerp leaf) ------------------------ *)
(* guard: t1 <> t2.  The rotation itself is the LEAF slerp_yaw (shortest arc, Model/Lookup.v); what is tied is the fraction and the order
   of the two quaternions. *)
Theorem GenTie_interpolate_quaternion :
  (forall (quat_1 quat_2 : Q) (t1 t2 t : Z),
     t1 <> t2 -> Gen_interpolate_quaternion.f quat_1 quat_2 t1 t2 t = Ok (Lookup.yaw_interp t1 t2 t quat_1 quat_2)) /\
  (forall (quat_1 quat_2 : Q) (t1 t2 t : Z), Gen_interpolate_quaternion.pre quat_1 quat_2 t1 t2 t = Z.leb t1 t && Z.leb t t2).
Proof.
  split.
  - intros q1 q2 t1 t2 t Hz. apply sub_eqb_false in Hz. unfold Gen_interpolate_quaternion.f. cbv zeta.
    split_ifs; try congruence. reflexivity.
  - intros. unfold Gen_interpolate_quaternion.pre. split_ifs; reflexivity.
Qed.
Print Assumptions GenTie_interpolate_quaternion.

Theorem GenTie_interpolate_quaternion_outside :
  forall (quat_1 quat_2 : Q) (t1 t : Z), Gen_interpolate_quaternion.f quat_1 quat_2 t1 t1 t = ErrZeroDiv.
Proof. intros. unfold Gen_interpolate_quaternion.f. rewrite (sub_eqb_true t1 t1 eq_refl). reflexivity. Qed.
Print Assumptions GenTie_interpolate_quaternion_outside.

Example GenTie_interpolate_quaternion_nonvacuous :
  (exists r, Gen_interpolate_quaternion.f (3 # 4) (- (3 # 4)) 0%Z 4%Z 1%Z = Ok r /\ r == 7 # 8) /\     (* across the cut at pi: the short way *)
  (exists r, Gen_interpolate_quaternion.f (3 # 4) (- (3 # 4)) 0%Z 4%Z 0%Z = Ok r /\ r == 3 # 4) /\
  Gen_interpolate_quaternion.f (3 # 4) (- (3 # 4)) 4%Z 4%Z 4%Z = ErrZeroDiv.
Proof. repeat split; try (vm_compute; reflexivity); eexists; (split; [vm_compute; reflexivity|]); vm_compute; reflexivity. Qed.

(* ---- interpolate_state = the state of Lookup.interp_obj (position, orientation, shape, velocity; velocity Optional) ------------------ *)
(* guard: t1 <> t2 and the second position / velocity tuple at least as long as the first.  [state_result]: position and -- when BOTH
   velocities are not None -- velocity interpolated element by element, None as soon as one velocity is None; the orientation through the
   slerp leaf; the shape is the one of state_1.  Second statement: on the states of two Lookup.obj this is the state of Lookup.interp_obj
   (whose velocity is never None). *)
Theorem GenTie_interpolate_state :
  (forall (p1 : list Q) (o1 : Q) (s1 : Z) (v1 : option (list Q)) (p2 : list Q) (o2 : Q) (s2 : Z) (v2 : option (list Q)) (t1 t2 t : Z),
     t1 <> t2 -> (length p1 <= length p2)%nat -> (forall a b, v1 = Some a -> v2 = Some b -> (length a <= length b)%nat) ->
     Gen_interpolate_state.f (p1, o1, s1, v1) (p2, o2, s2, v2) t1 t2 t = Ok (state_result t1 t2 t p1 o1 s1 v1 p2 o2 v2)) /\
  (forall (a b : Lookup.obj) (t1 t2 t : Z),
     t1 <> t2 -> Gen_interpolate_state.f (state_of a) (state_of b) t1 t2 t = Ok (state_of (Lookup.interp_obj t1 t2 t a b))) /\
  (forall (state_1 state_2 : state) (t1 t2 t : Z), Gen_interpolate_state.pre state_1 state_2 t1 t2 t = Z.leb t1 t && Z.leb t t2).
Proof.
  assert (HL : forall l1 l2 t1 t2 t, t1 <> t2 -> (length l1 <= length l2)%nat ->
                 Gen_interpolate_list.f l1 l2 t1 t2 t = Ok (lerp_list t1 t2 t l1 l2)).
  { intros l1 l2 t1 t2 t Hz Hlen. apply sub_eqb_false in Hz. unfold Gen_interpolate_list.f. interpolate_list_script l1 l2 t1 t2 t Hlen Hz. }
  assert (HQ : forall q1 q2 t1 t2 t, t1 <> t2 -> Gen_interpolate_quaternion.f q1 q2 t1 t2 t = Ok (Lookup.yaw_interp t1 t2 t q1 q2)).
  { intros q1 q2 t1 t2 t Hz. apply sub_eqb_false in Hz. unfold Gen_interpolate_quaternion.f. cbv zeta. split_ifs; try congruence. reflexivity. }
  assert (H : forall p1 o1 s1 v1 p2 o2 s2 v2 t1 t2 t,
                t1 <> t2 -> (length p1 <= length p2)%nat -> (forall a b, v1 = Some a -> v2 = Some b -> (length a <= length b)%nat) ->
                Gen_interpolate_state.f (p1, o1, s1, v1) (p2, o2, s2, v2) t1 t2 t = Ok (state_result t1 t2 t p1 o1 s1 v1 p2 o2 v2)).
  { intros p1 o1 s1 v1 p2 o2 s2 v2 t1 t2 t Hz Hp Hv.
    unfold Gen_interpolate_state.f, st_position, st_orientation, st_shape, st_velocity, mkState.
    interpolate_state_script HL HQ Hz Hp Hv v1 v2. }
  split; [exact H|]. split.
  - intros a b t1 t2 t Hz. unfold state_of. rewrite H; [rewrite state_result_obj; reflexivity | exact Hz | cbn; auto |].
    intros x y Hx Hy. inversion Hx; inversion Hy; subst. cbn; auto.
  - intros. unfold Gen_interpolate_state.pre. split_ifs; reflexivity.
Qed.
Print Assumptions GenTie_interpolate_state.

(* outside the guard: t1 = t2: ZeroDivisionError (from the position, from the quaternion when the position is empty);
   a second position / velocity shorter than the first: IndexError *)
Theorem GenTie_interpolate_state_outside :
  (forall (p1 : list Q) (o1 : Q) (s1 : Z) (v1 : option (list Q)) (p2 : list Q) (o2 : Q) (s2 : Z) (v2 : option (list Q)) (t1 t : Z),
     (length p1 <= length p2)%nat -> Gen_interpolate_state.f (p1, o1, s1, v1) (p2, o2, s2, v2) t1 t1 t = ErrZeroDiv) /\
  (forall (p1 : list Q) (o1 : Q) (s1 : Z) (v1 : option (list Q)) (p2 : list Q) (o2 : Q) (s2 : Z) (v2 : option (list Q)) (t1 t2 t : Z),
     t1 <> t2 -> (length p2 < length p1)%nat -> Gen_interpolate_state.f (p1, o1, s1, v1) (p2, o2, s2, v2) t1 t2 t = ErrIndex) /\
  (forall (p1 : list Q) (o1 : Q) (s1 : Z) (a : list Q) (p2 : list Q) (o2 : Q) (s2 : Z) (b : list Q) (t1 t2 t : Z),
     t1 <> t2 -> (length p1 <= length p2)%nat -> (length b < length a)%nat ->
     Gen_interpolate_state.f (p1, o1, s1, Some a) (p2, o2, s2, Some b) t1 t2 t = ErrIndex).
Proof.
  split; [|split].
  - intros p1 o1 s1 v1 p2 o2 s2 v2 t1 t Hp.
    unfold Gen_interpolate_state.f, st_position, st_orientation, st_shape, st_velocity, mkState. cbv beta delta [fst snd] iota.
    destruct p1 as [|a r1].
    + replace (Gen_interpolate_list.f [] p2 t1 t1 t) with (@Ok (list Q) []) by reflexivity. cbn [bind].
      unfold Gen_interpolate_quaternion.f. rewrite (sub_eqb_true t1 t1 eq_refl). reflexivity.
    + destruct p2 as [|b r2]; [cbn [length] in Hp; lia|].
      replace (Gen_interpolate_list.f (a :: r1) (b :: r2) t1 t1 t) with (@ErrType (list Q)); [reflexivity|].
      symmetry. unfold Gen_interpolate_list.f. interpolate_list_zerodiv_script a b r1 r2 t1 t.
  - intros p1 o1 s1 v1 p2 o2 s2 v2 t1 t2 t Hz Hlen.
    unfold Gen_interpolate_state.f, st_position, st_orientation, st_shape, st_velocity, mkState. cbv beta delta [fst snd] iota.
    replace (Gen_interpolate_list.f p1 p2 t1 t2 t) with (@ErrIndex (list Q)); [reflexivity|].
    symmetry. assert (Hz' : t1 <> t2 \/ p2 = []) by (left; exact Hz).
    unfold Gen_interpolate_list.f. interpolate_list_index_script p1 p2 t1 t2 t Hlen Hz'.
  - intros p1 o1 s1 a p2 o2 s2 b t1 t2 t Hz Hp Hlen.
    unfold Gen_interpolate_state.f, st_position, st_orientation, st_shape, st_velocity, mkState. cbv beta delta [fst snd] iota.
    replace (Gen_interpolate_list.f p1 p2 t1 t2 t) with (Ok (lerp_list t1 t2 t p1 p2)).
    2:{ symmetry. pose proof (sub_eqb_false t1 t2 Hz) as Hz'. unfold Gen_interpolate_list.f. interpolate_list_script p1 p2 t1 t2 t Hp Hz'. }
    cbn [bind]. unfold Gen_interpolate_quaternion.f. rewrite (sub_eqb_false t1 t2 Hz). cbv zeta. cbn [bind].
    replace (Gen_interpolate_list.f a b t1 t2 t) with (@ErrIndex (list Q)); [reflexivity|].
    symmetry. assert (Hz' : t1 <> t2 \/ b = []) by (left; exact Hz).
    unfold Gen_interpolate_list.f. interpolate_list_index_script a b t1 t2 t Hlen Hz'.
Qed.
Print Assumptions GenTie_interpolate_state_outside.

Example GenTie_interpolate_state_nonvacuous :
  (exists p o v, Gen_interpolate_state.f ([0; 8; 1], 3 # 4, 7%Z, Some [1; 0; 0]) ([4; 0; 1], - (3 # 4), 9%Z, Some [3; 0; 0]) 0%Z 4%Z 1%Z
                 = Ok (p, o, 7%Z, Some v) /\ Forall2 Qeq p [1; 6; 1] /\ o == 7 # 8 /\ Forall2 Qeq v [3 # 2; 0; 0]) /\   (* the shape of state_1 *)
  (exists p o, Gen_interpolate_state.f ([0; 8; 1], 0, 7%Z, None) ([4; 0; 1], 0, 9%Z, Some [3; 0; 0]) 0%Z 4%Z 1%Z = Ok (p, o, 7%Z, None)) /\
  (exists p o, Gen_interpolate_state.f ([0; 8; 1], 0, 7%Z, Some [1; 0; 0]) ([4; 0; 1], 0, 9%Z, None) 0%Z 4%Z 1%Z = Ok (p, o, 7%Z, None)) /\
  Gen_interpolate_state.f ([0; 8; 1], 0, 7%Z, None) ([4; 0; 1], 0, 9%Z, None) 4%Z 4%Z 4%Z = ErrZeroDiv.
Proof.
  repeat split; try (vm_compute; reflexivity).
  - do 3 eexists. split; [vm_compute; reflexivity|]. repeat split; repeat constructor; vm_compute; reflexivity.
  - do 2 eexists. vm_compute. reflexivity.
  - do 2 eexists. vm_compute. reflexivity.
Qed.

(* ---- interpolate_dynamic_object = Lookup.interp_obj ----------------------------------------------------------------------------------- *)
(* no guard for the first statement: the result is the COPY OF object_1 (its uuid and everything that is merely deep-copied) with the
   interpolated state and unix_time = int(t); nothing of object_2 but its state is read; an exception of interpolate_state propagates.
   Second statement (guard t1 <> t2, and see GenTie_interpolate_state_outside): on the views of two Lookup.obj this is Lookup.interp_obj. *)
Theorem GenTie_interpolate_dynamic_object :
  (forall (object_1 object_2 : dobj) (t1 t2 t : Z),
     Gen_interpolate_dynamic_object.f object_1 object_2 t1 t2 t =
       bind (Gen_interpolate_state.f (d_state object_1) (d_state object_2) t1 t2 t)
            (fun s => Ok (d_uuid object_1, d_rest object_1, t, s))) /\
  (forall (a b : Lookup.obj) (t1 t2 t : Z),
     t1 <> t2 -> Gen_interpolate_dynamic_object.f (dobj_of a) (dobj_of b) t1 t2 t = Ok (dobj_of (Lookup.interp_obj t1 t2 t a b))) /\
  (forall (object_1 object_2 : dobj) (t1 t2 t : Z),
     Gen_interpolate_dynamic_object.pre object_1 object_2 t1 t2 t = Z.leb t1 t && Z.leb t t2 && String.eqb (d_uuid object_1) (d_uuid object_2)).
Proof.
  assert (H1 : forall o1 o2 t1 t2 t,
             Gen_interpolate_dynamic_object.f o1 o2 t1 t2 t =
               bind (Gen_interpolate_state.f (d_state o1) (d_state o2) t1 t2 t) (fun s => Ok (d_uuid o1, d_rest o1, t, s))).
  { intros o1 o2 t1 t2 t. unfold Gen_interpolate_dynamic_object.f. cbv zeta.
    destruct (Gen_interpolate_state.f (d_state o1) (d_state o2) t1 t2 t) as [s| |]; cbn [bind]; [|reflexivity|reflexivity].
    destruct o1 as [[[u r] tm] st]. reflexivity. }
  split; [exact H1|]. split.
  - assert (HL : forall l1 l2 t1 t2 t, t1 <> t2 -> (length l1 <= length l2)%nat ->
                   Gen_interpolate_list.f l1 l2 t1 t2 t = Ok (lerp_list t1 t2 t l1 l2)).
    { intros l1 l2 t1 t2 t Hz Hlen. apply sub_eqb_false in Hz. unfold Gen_interpolate_list.f. interpolate_list_script l1 l2 t1 t2 t Hlen Hz. }
    assert (HQ : forall q1 q2 t1 t2 t, t1 <> t2 -> Gen_interpolate_quaternion.f q1 q2 t1 t2 t = Ok (Lookup.yaw_interp t1 t2 t q1 q2)).
    { intros q1 q2 t1 t2 t Hz. apply sub_eqb_false in Hz. unfold Gen_interpolate_quaternion.f. cbv zeta. split_ifs; try congruence. reflexivity. }
    assert (HS : forall p1 o1 s1 v1 p2 o2 s2 v2 t1 t2 t,
                   t1 <> t2 -> (length p1 <= length p2)%nat -> (forall a b, v1 = Some a -> v2 = Some b -> (length a <= length b)%nat) ->
                   Gen_interpolate_state.f (p1, o1, s1, v1) (p2, o2, s2, v2) t1 t2 t = Ok (state_result t1 t2 t p1 o1 s1 v1 p2 o2 v2)).
    { intros p1 o1 s1 v1 p2 o2 s2 v2 t1 t2 t Hz Hp Hv.
      unfold Gen_interpolate_state.f, st_position, st_orientation, st_shape, st_velocity, mkState.
      interpolate_state_script HL HQ Hz Hp Hv v1 v2. }
    intros a b t1 t2 t Hz. rewrite H1. unfold dobj_of at 1 2. unfold d_state. cbn [snd]. unfold state_of at 1 2.
    rewrite HS; [rewrite state_result_obj; reflexivity | exact Hz | cbn; auto |].
    intros x y Hx Hy. inversion Hx; inversion Hy; subst. cbn; auto.
  - intros. unfold Gen_interpolate_dynamic_object.pre. split_ifs; reflexivity.
Qed.
Print Assumptions GenTie_interpolate_dynamic_object.

Example GenTie_interpolate_dynamic_object_nonvacuous :
  let o (id : string) (tag : Z) (tm : Z) (x : Q) := Lookup.mkObj id tag tm Lookup.FBase (Lookup.mkVec x 0 0) (Lookup.mkVec 1 0 0) 0 in
  (exists s, Gen_interpolate_dynamic_object.f ("a"%string, 5%Z, 100%Z, ([0], 0, 7%Z, None)) ("b"%string, 6%Z, 200%Z, ([4], 0, 9%Z, None)) 100%Z 200%Z 150%Z
             = Ok ("a"%string, 5%Z, 150%Z, s) /\ st_shape s = 7%Z) /\        (* everything but the state and the time is object_1's *)
  Gen_interpolate_dynamic_object.f (dobj_of (o "a"%string 5%Z 100%Z 0)) (dobj_of (o "a"%string 6%Z 200%Z 4)) 100%Z 200%Z 150%Z
    = Ok (dobj_of (Lookup.interp_obj 100%Z 200%Z 150%Z (o "a"%string 5%Z 100%Z 0) (o "a"%string 6%Z 200%Z 4))) /\
  Lookup.o_tag (Lookup.interp_obj 100%Z 200%Z 150%Z (o "a"%string 5%Z 100%Z 0) (o "a"%string 6%Z 200%Z 4)) = 5%Z /\
  Gen_interpolate_dynamic_object.pre ("a"%string, 5%Z, 100%Z, ([0], 0, 7%Z, None)) ("b"%string, 6%Z, 200%Z, ([4], 0, 9%Z, None)) 100%Z 200%Z 150%Z = false.
Proof. repeat split; try (vm_compute; reflexivity). eexists. split; vm_compute; reflexivity. Qed.

(* ---- get_interpolated_now_frame = Lookup.get_interpolated_now_frame (the four-way return after the neighbour search) -------------------- *)
(* no guard (total).  The function is the neighbour search (Gen_neighbour_search of Gen/loops_tracking.v: the statements before the first
   `return`, tied by GenTie_neighbour_search) followed by the if / elif chain translated here.  [fw_code] on the gated neighbours of the
   model: None when neither is usable, the loaded frame object itself when only one is, the call interpolate_ground_truth_frames(before,
   after, unix_time) (a leaf: the triple of its arguments) when both are.  Second statement: that is the result of the hand model, which
   names a loaded frame by its position in the list ([fw_agrees]: RNone / RFrame i with l[i] the returned frame / Lookup.interpolate_frames
   i j before after unix_time with l[i], l[j] the two frames). *)
Theorem GenTie_get_interpolated_now_frame :
  forall (l : list Lookup.frame) (t tol : Z),
    let '(b, a) := Lookup.nb_scan t l 0 None in
    Gen_get_interpolated_now_frame.f l t tol = Ok (fw_code (Lookup.gate tol b) (Lookup.gate tol a) t) /\
    fw_agrees l (Lookup.get_interpolated_now_frame l t tol) (fw_code (Lookup.gate tol b) (Lookup.gate tol a) t).
Proof.
  intros l t tol.
  assert (HN : loops_tracking.Gen_neighbour_search.f l t tol = Ok (nb_result t tol l)).
  { unfold loops_tracking.Gen_neighbour_search.f. neighbour_script l t tol. }
  pose proof (four_way_agrees l t tol) as HA.
  unfold Gen_get_interpolated_now_frame.f. rewrite HN. unfold nb_result.
  destruct (Lookup.nb_scan t l 0 None) as [b a]. split; [|exact HA].
  cbn [bind]. destruct (Lookup.gate tol b) as [[[? ?] ?]|], (Lookup.gate tol a) as [[[? ?] ?]|]; reflexivity.
Qed.
Print Assumptions GenTie_get_interpolated_now_frame.

Example GenTie_get_interpolated_now_frame_nonvacuous :
  let fr s := Lookup.mkFrame s [] None in
  let l := [fr 100; fr 200; fr 300; fr 400]%Z in
  Gen_get_interpolated_now_frame.f l 250%Z 50%Z = Ok (Some (inr (fr 200%Z, fr 300%Z, 250%Z))) /\       (* both usable: interpolate *)
  Gen_get_interpolated_now_frame.f l 210%Z 50%Z = Ok (Some (inl (fr 200%Z))) /\                         (* only the earlier one *)
  Gen_get_interpolated_now_frame.f l 290%Z 50%Z = Ok (Some (inl (fr 300%Z))) /\                         (* only the later one *)
  Gen_get_interpolated_now_frame.f l 250%Z 49%Z = Ok None /\                                            (* none *)
  Gen_get_interpolated_now_frame.f l 200%Z 0%Z = Ok (Some (inl (fr 200%Z))) /\                          (* exactly on a frame: that frame object *)
  Gen_get_interpolated_now_frame.f l 200%Z 100%Z = Ok (Some (inr (fr 200%Z, fr 300%Z, 200%Z))) /\       (* ... or an interpolation at t == t1 *)
  Lookup.get_interpolated_now_frame l 210%Z 50%Z = Lookup.RFrame 1 /\
  Lookup.get_interpolated_now_frame l 250%Z 49%Z = Lookup.RNone.
Proof. vm_compute. repeat split. Qed.

(* ---- LabelConverter.convert_label = Label.convert_label (the FIRST table entry whose name is the lower-cased label name) ------------- *)
(* no guard (total).  self.label_infos is the table (label key, registered name) in source order; the result is the constructed
   Label(label, name, attributes) -- the name as it was given, not lower-cased -- and the LOG of the entries whose counter `num` was
   incremented: with count_label_number only the first hit (the scan leaves there), nothing otherwise; no hit: label UNKNOWN, no count.
   Label.convert_label is `lookup` with the flags (lower-casing, first match) that translator/py_to_coq.py reads from the same source. *)
Theorem GenTie_convert_label :
  forall (cnt : bool) (tbl : list (string * string)) (name : string) (attributes : list string),
    Gen_convert_label.f cnt tbl name attributes =
      Ok (Some (Label.convert_label tbl name, name, attributes), if cnt then firstn 1 (hits (StrUtil.lower name) tbl) else []).
Proof.
  intros cnt tbl name attrs.
  cbv beta iota zeta delta [Label.convert_label Label.lookup LabelTables.convert_label_lower LabelTables.convert_label_first_match].
  unfold Gen_convert_label.f. convert_label_script cnt tbl name attrs.
Qed.
Print Assumptions GenTie_convert_label.

Example GenTie_convert_label_nonvacuous :
  let tbl := [("CAR", "car"); ("BUS", "bus"); ("TRUCK", "car"); ("CAR", "vehicle.car")]%string in
  Gen_convert_label.f true tbl "Car"%string ["a"%string] = Ok (Some ("CAR", "Car", ["a"]), [("CAR", "car")])%string /\   (* first hit, counted once *)
  Gen_convert_label.f false tbl "BUS"%string [] = Ok (Some ("BUS", "BUS", []), [])%string /\
  Gen_convert_label.f true tbl "tram"%string [] = Ok (Some ("UNKNOWN", "tram", []), [])%string /\
  Label.convert_label tbl "Car"%string = "CAR"%string.
Proof. vm_compute. repeat split. Qed.

(* ---- LabelConverter.convert_name = Label.convert_name (the LAST table entry whose name is the lower-cased label name) ---------------- *)
(* no guard (total).  The scan has no `break`: a later hit overwrites an earlier one, and with count_label_number EVERY hit is counted. *)
Theorem GenTie_convert_name :
  forall (cnt : bool) (tbl : list (string * string)) (name : string),
    Gen_convert_name.f cnt tbl name = Ok (Some (Label.convert_name tbl name), if cnt then hits (StrUtil.lower name) tbl else []).
Proof.
  intros cnt tbl name.
  cbv beta iota zeta delta [Label.convert_name Label.lookup LabelTables.convert_name_lower LabelTables.convert_name_first_match].
  unfold Gen_convert_name.f. convert_name_script cnt tbl name.
Qed.
Print Assumptions GenTie_convert_name.

Example GenTie_convert_name_nonvacuous :
  let tbl := [("CAR", "car"); ("BUS", "bus"); ("TRUCK", "car"); ("CAR", "vehicle.car")]%string in
  Gen_convert_name.f true tbl "Car"%string = Ok (Some "TRUCK", [("CAR", "car"); ("TRUCK", "car")])%string /\     (* last hit, both counted *)
  Gen_convert_name.f false tbl "bus"%string = Ok (Some "BUS", [])%string /\
  Gen_convert_name.f true tbl "tram"%string = Ok (Some "UNKNOWN", [])%string /\
  Label.convert_name tbl "Car"%string = "TRUCK"%string /\ Label.convert_label tbl "Car"%string = "CAR"%string.
Proof. vm_compute. repeat split. Qed.
