(* Redundant tie, SENSING layer (property C12): the scale law (SensingFrameConfig.__init__ / get_scale_factor, get_bbox_scale), the result
   of one object (DynamicObjectWithSensingResult.__init__), the frame evaluation (SensingFrameResult._evaluate_pointcloud_for_detection,
   _evaluate_pointcloud_for_non_detection, evaluate_frame) are
   re-translated from the Python `ast` on every run (translator/loops_sensing.py -> Gen/loops_sensing.v: a `for` is a fold_left in
   the error monad; the geometric primitives are leaves mapped to the functions of Model/Winding.v) and every theorem below says that
   a generated definition EQUALS the hand-model definition the C12 theorems are about (Model/Sensing.v, Model/Winding.v), for ALL
   inputs (lists of any length: the induction is in the loop rules of Proofs/GenTieSensingLemmas.v; one iteration is closed by the
   generic tactic [stie]).
   A main equation is stated for a config object as the constructor builds it ([config_of uuids cfg]); its `_outside` companion says
   what the generated function returns for ANY config object (the scale is  scale_slope_ * distance + box_scale_0m  with the slope
   CACHED by the constructor, whatever box_scale_100m holds), in terms of the model's definitions generalised over the scale function
   (Proofs/GenTieSensingLemmas.v, where they are proved to be the model's at scale_of cfg).
   Each theorem is self-contained (compiled on its own by the harness): the equations of its callees are re-established inside its
   proof by the scripts of this header. *)
From Coq Require Import String.
From Coq Require Import List Bool ZArith Arith QArith Lia.
From PE Require Import Base.QUtil Proofs.GenTieSensingLemmas.
From PE Require Import Model.Winding Model.Sensing.
From PE Require Gen.loops_sensing.
Import Gen.loops_sensing.
Import ListNotations.
Open Scope list_scope.
Open Scope Q_scope.

(* equal rationals as TERMS (numerator and denominator): closes a scale formula written in another order (commutativity /
   associativity; not distributivity, which changes the denominator) *)
Ltac q_leibniz :=
  first [ reflexivity
        | repeat match goal with
                 | x : frame_config |- _ => destruct x
                 | x : sensing_config |- _ => destruct x
                 end;
          cbn [fc_slope fc_s0 fc_s100 fc_min fc_uuids c_s0 c_s100 c_min_points];
          repeat match goal with
                 | |- Ok _ = Ok _ => f_equal
                 | |- mkFC _ _ _ _ _ = mkFC _ _ _ _ _ => f_equal
                 end;
          unfold bbox_scale, Qplus, Qminus, Qmult, Qopp;
          repeat match goal with q : Q |- _ => destruct q end; cbn [Qnum Qden]; f_equal;
          rewrite ?Pos2Z.inj_mul; first [ ring | lia ] ].
Ltac script_config_init :=
  intros; unfold Gen_SensingFrameConfig___init__.f, config_of; cbv zeta; cbn [c_s0 c_s100 c_min_points];
  q_leibniz.
Ltac script_get_scale_any :=
  intros; unfold Gen_get_scale_factor.f; cbv zeta; q_leibniz.
Ltac script_result_any :=
  intros; unfold Gen_DynamicObjectWithSensingResult___init__.f, result_k, is_occluded; cbv zeta; sabstract;
  first [ reflexivity | repeat f_equal; stie ].
(* replaces the generated callees by their equations as soon as their arguments are no longer bound variables *)
Ltac enter HS HI := repeat first [ rewrite HS | rewrite HI | progress cbn [bind] | progress cbv zeta ].
Ltac script_detection_any :=
  let HS := fresh "HS" in let HI := fresh "HI" in
  assert (HS : forall fc d, Gen_get_scale_factor.f fc d = Ok (fc_slope fc * d + fc_s0 fc)) by script_get_scale_any;
  assert (HI : forall ig cloud k m, Gen_DynamicObjectWithSensingResult___init__.f ig cloud k m = Ok (result_k k m cloud ig))
    by script_result_any;
  intros fc su fa wa igs cloud; unfold Gen__evaluate_pointcloud_for_detection.f; cbv zeta;
  rewrite (loop_detection (fc_scale fc) (fc_min fc) cloud);
  [ rewrite ?bind_ret_triple; destruct igs; cbn [length Nat.eqb eval_detection_with app3 bind]; rewrite ?app_nil_r; reflexivity
  | intros su' fa' wa' ig; cbv beta; enter HS HI; unfold result_with, fc_scale; stie ].
Ltac script_non_detection_any :=
  let HS := fresh "HS" in
  assert (HS : forall fc d, Gen_get_scale_factor.f fc d = Ok (fc_slope fc * d + fc_s0 fc)) by script_get_scale_any;
  intros fc nd igs pcs; unfold Gen__evaluate_pointcloud_for_non_detection.f; cbv zeta;
  rewrite (loop_non_detection (fc_scale fc) (map snd igs));
  [ cbn [bind]; reflexivity
  | intros nd' pc; cbv beta; cbn [bind]; cbv zeta;
    rewrite (loop_crop_boxes (fc_scale fc));
    [ cbn [bind]; destruct (crop_outside_with (fc_scale fc) (map snd igs) pc); stie
    | intros pc' ig; cbv beta; enter HS HS; unfold fc_scale; stie ] ].
(* the general equations (any config object), asserted inside the proofs about a config object built by the constructor *)
Ltac assert_detection_any HG :=
  assert (HG : forall fc su fa wa igs cloud,
             Gen__evaluate_pointcloud_for_detection.f fc su fa wa igs cloud =
               Ok (app3 (su, fa, wa) (eval_detection_with (fc_scale fc) (fc_min fc) cloud igs))) by script_detection_any.
Ltac assert_non_detection_any HG :=
  assert (HG : forall fc nd igs pcs,
             Gen__evaluate_pointcloud_for_non_detection.f fc nd igs pcs =
               Ok (nd ++ eval_non_detection_with (fc_scale fc) (map snd igs) pcs)) by script_non_detection_any.
Ltac script_frame_any :=
  let HD := fresh "HD" in let HN := fresh "HN" in
  assert_detection_any HD; assert_non_detection_any HN;
  intros fc su fa wa nd igs cloud pcs; unfold Gen_evaluate_frame.f; rewrite HD; cbn [bind];
  destruct (eval_detection_with (fc_scale fc) (fc_min fc) cloud igs) as [[a b] c]; cbn [app3]; rewrite HN; cbn [bind]; reflexivity.
Ltac at_constructed uuids cfg :=
  change (fc_scale (config_of uuids cfg)) with (scale_of cfg); change (fc_min (config_of uuids cfg)) with (c_min_points cfg).

(* ---- SensingFrameConfig.__init__: the attributes, with scale_slope_ = 0.01 * (box_scale_100m - box_scale_0m) ------------------------ *)
Theorem GenTie_SensingFrameConfig___init__ :
  forall (uuids : option (list string)) (s0 s100 : Q) (m : Z),
    Gen_SensingFrameConfig___init__.f uuids s0 s100 m = Ok (config_of uuids (mkCfg s0 s100 m)).
Proof. script_config_init. Qed.
Print Assumptions GenTie_SensingFrameConfig___init__.

Example GenTie_SensingFrameConfig___init___nonvacuous :
  Gen_SensingFrameConfig___init__.f (Some ["a"%string]) 1 2 3%Z = Ok (mkFC (Some ["a"%string]) 1 2 3%Z ((1 # 100) * (2 - 1))) /\
  Qeqb (fc_slope (config_of None (mkCfg 1 2 3%Z))) (1 # 100) = true.
Proof. vm_compute. split; reflexivity. Qed.

(* ---- SensingFrameConfig.get_scale_factor = Winding.bbox_scale: 0.01 * (s100 - s0) * distance + s0, NOT clamped beyond 100 m --------- *)
Theorem GenTie_get_scale_factor :
  forall (uuids : option (list string)) (cfg : sensing_config) (distance : Q),
    Gen_get_scale_factor.f (config_of uuids cfg) distance = Ok (bbox_scale distance (c_s0 cfg) (c_s100 cfg)).
Proof. intros. unfold Gen_get_scale_factor.f, config_of, bbox_scale. cbv zeta. cbn [fc_slope fc_s0]. q_leibniz. Qed.
Print Assumptions GenTie_get_scale_factor.

(* any config object: the slope cached by the constructor is used; box_scale_100m is not read *)
Theorem GenTie_get_scale_factor_outside :
  forall (fc : frame_config) (distance : Q), Gen_get_scale_factor.f fc distance = Ok (fc_slope fc * distance + fc_s0 fc).
Proof. script_get_scale_any. Qed.
Print Assumptions GenTie_get_scale_factor_outside.

Example GenTie_get_scale_factor_nonvacuous :
  let cfg := mkCfg 1 2 1%Z in
  (exists k, Gen_get_scale_factor.f (config_of None cfg) 50 = Ok k /\ Qeqb k (3 # 2) = true) /\
  (exists k, Gen_get_scale_factor.f (config_of None cfg) 200 = Ok k /\ Qeqb k 3 = true) /\          (* beyond 100 m: no clamping *)
  (exists k, Gen_get_scale_factor.f (mkFC None 1 5 1%Z (1 # 100)) 200 = Ok k /\ Qeqb k 3 = true).   (* a stale slope wins over box_scale_100m *)
Proof. cbv zeta. split; [|split]; eexists; (split; [reflexivity|vm_compute; reflexivity]). Qed.

(* ---- util.math.get_bbox_scale = Winding.bbox_scale (the law the manager's crop uses) ------------------------------------------------- *)
Theorem GenTie_get_bbox_scale :
  forall (distance s0 s100 : Q), Gen_get_bbox_scale.f distance s0 s100 = Ok (bbox_scale distance s0 s100).
Proof. intros. unfold Gen_get_bbox_scale.f, bbox_scale. cbv zeta. q_leibniz. Qed.
Print Assumptions GenTie_get_bbox_scale.

Example GenTie_get_bbox_scale_nonvacuous :
  exists k, Gen_get_bbox_scale.f 200 1 2 = Ok k /\ Qeqb k 3 = true /\ Qeqb (bbox_scale 200 1 2) 3 = true.
Proof. eexists. split; [reflexivity|vm_compute; split; reflexivity]. Qed.

(* ---- DynamicObjectWithSensingResult.__init__ = Sensing.sensing_result_of ---------------------------------------------------------------
   inside_pointcloud = the rows inside the box scaled by scale_factor; is_detected = their number >= min_points_threshold;
   is_occluded = visibility is NONE.  The main equation: scale and threshold of the config, as the frame evaluation passes them *)
Theorem GenTie_DynamicObjectWithSensingResult___init__ :
  forall (cfg : sensing_config) (cloud : list point) (ig : nat * gt_object),
    Gen_DynamicObjectWithSensingResult___init__.f ig cloud (scale_of cfg (snd ig)) (c_min_points cfg) = Ok (sensing_result_of cfg cloud ig).
Proof.
  assert (HI : forall ig cloud k m, Gen_DynamicObjectWithSensingResult___init__.f ig cloud k m = Ok (result_k k m cloud ig))
    by script_result_any.
  intros. rewrite HI. reflexivity.
Qed.
Print Assumptions GenTie_DynamicObjectWithSensingResult___init__.

(* any scale factor, any threshold *)
Theorem GenTie_DynamicObjectWithSensingResult___init___outside :
  forall (ig : nat * gt_object) (cloud : list point) (k : Q) (m : Z),
    Gen_DynamicObjectWithSensingResult___init__.f ig cloud k m =
      Ok (let ins := box_crop_idx (g_box (snd ig)) k true cloud in
          mkRes (fst ig) ins (length ins) (m <=? Z.of_nat (length ins))%Z (is_occluded (g_vis (snd ig)))).
Proof. script_result_any. Qed.
Print Assumptions GenTie_DynamicObjectWithSensingResult___init___outside.

Example GenTie_DynamicObjectWithSensingResult___init___nonvacuous :
  let b := yaw_box 10 0 0 2 4 2 1 0 in
  let cloud := [mkPoint 10 0 [0]; mkPoint (21 # 2) (1 # 2) [0]; mkPoint 20 0 [0]; mkPoint 10 0 [5]] in
  let g v := (7%nat, mkGT b 10 v) in
  Gen_DynamicObjectWithSensingResult___init__.f (g (Some V_FULL)) cloud 1 2%Z = Ok (mkRes 7 [0; 1]%nat 2 true false) /\
  Gen_DynamicObjectWithSensingResult___init__.f (g (Some V_FULL)) cloud 1 3%Z = Ok (mkRes 7 [0; 1]%nat 2 false false) /\   (* >=, not > *)
  Gen_DynamicObjectWithSensingResult___init__.f (g (Some V_NONE)) cloud 1 2%Z = Ok (mkRes 7 [0; 1]%nat 2 true true) /\
  Gen_DynamicObjectWithSensingResult___init__.f (g None) [] 1 0%Z = Ok (mkRes 7 [] 0 true false).             (* empty cloud, threshold 0 *)
Proof. vm_compute. repeat split. Qed.

(* ---- SensingFrameResult._evaluate_pointcloud_for_detection = Sensing.eval_detection ---------------------------------------------------
   every object, in order: scale at ITS distance, result from the detection cloud, appended to exactly one of warning (occluded,
   whatever its point count) / success (detected) / fail; the lists of the frame are EXTENDED (a second call accumulates) *)
Theorem GenTie__evaluate_pointcloud_for_detection :
  forall (uuids : option (list string)) (cfg : sensing_config) (su fa wa : list sensing_result)
         (igs : list (nat * gt_object)) (cloud : list point),
    Gen__evaluate_pointcloud_for_detection.f (config_of uuids cfg) su fa wa igs cloud =
      Ok (let '(a, b, c) := eval_detection cfg cloud igs in (su ++ a, fa ++ b, wa ++ c)).
Proof.
  assert_detection_any HG. intros. rewrite HG. at_constructed uuids cfg. rewrite eval_detection_with_model. reflexivity.
Qed.
Print Assumptions GenTie__evaluate_pointcloud_for_detection.

Theorem GenTie__evaluate_pointcloud_for_detection_outside :
  forall (fc : frame_config) (su fa wa : list sensing_result) (igs : list (nat * gt_object)) (cloud : list point),
    Gen__evaluate_pointcloud_for_detection.f fc su fa wa igs cloud =
      Ok (app3 (su, fa, wa) (eval_detection_with (fc_scale fc) (fc_min fc) cloud igs)).
Proof. script_detection_any. Qed.
Print Assumptions GenTie__evaluate_pointcloud_for_detection_outside.

Example GenTie__evaluate_pointcloud_for_detection_nonvacuous :
  let cfg := mkCfg 1 1 2%Z in
  let b x := yaw_box x 0 0 2 4 2 1 0 in
  let cloud := [mkPoint 10 0 [0]; mkPoint (21 # 2) (1 # 2) [0]; mkPoint 30 0 [0]] in
  let igs := [(0%nat, mkGT (b 10) 10 (Some V_FULL));       (* 2 points: success *)
              (1%nat, mkGT (b 30) 30 None);                (* 1 point: fail *)
              (2%nat, mkGT (b 10) 10 (Some V_NONE));       (* occluded with enough points: warning *)
              (3%nat, mkGT (b 50) 50 (Some V_MOST))] in    (* no point: fail *)
  Gen__evaluate_pointcloud_for_detection.f (config_of None cfg) [] [] [] igs cloud =
    Ok ([mkRes 0 [0; 1]%nat 2 true false], [mkRes 1 [2%nat] 1 false false; mkRes 3 [] 0 false false], [mkRes 2 [0; 1]%nat 2 true true]) /\
  Gen__evaluate_pointcloud_for_detection.f (config_of None cfg) [] [] [] [] cloud = Ok ([], [], []).
Proof. vm_compute. split; reflexivity. Qed.

(* ---- SensingFrameResult._evaluate_pointcloud_for_non_detection = Sensing.eval_non_detection --------------------------------------------
   every cloud, in order: the rows OUTSIDE every scaled box (boxes applied in turn to what is left, each at the scale of its own
   distance); what is left is appended when it is not empty *)
Theorem GenTie__evaluate_pointcloud_for_non_detection :
  forall (uuids : option (list string)) (cfg : sensing_config) (nd : list (list point))
         (igs : list (nat * gt_object)) (pcs : list (list point)),
    Gen__evaluate_pointcloud_for_non_detection.f (config_of uuids cfg) nd igs pcs =
      Ok (nd ++ eval_non_detection (fun p => p) cfg (map snd igs) pcs).
Proof.
  assert_non_detection_any HG. intros. rewrite HG. at_constructed uuids cfg. rewrite eval_non_detection_with_model. reflexivity.
Qed.
Print Assumptions GenTie__evaluate_pointcloud_for_non_detection.

Theorem GenTie__evaluate_pointcloud_for_non_detection_outside :
  forall (fc : frame_config) (nd : list (list point)) (igs : list (nat * gt_object)) (pcs : list (list point)),
    Gen__evaluate_pointcloud_for_non_detection.f fc nd igs pcs =
      Ok (nd ++ eval_non_detection_with (fc_scale fc) (map snd igs) pcs).
Proof. script_non_detection_any. Qed.
Print Assumptions GenTie__evaluate_pointcloud_for_non_detection_outside.

Example GenTie__evaluate_pointcloud_for_non_detection_nonvacuous :
  let cfg := mkCfg 1 1 2%Z in
  let b x := yaw_box x 0 0 2 4 2 1 0 in
  let igs := [(0%nat, mkGT (b 10) 10 None); (1%nat, mkGT (b 11) 11 None)] in          (* overlapping boxes *)
  let pc1 := [mkPoint 10 0 [0]; mkPoint (21 # 2) 0 [0]; mkPoint 20 0 [0]] in           (* first two inside both boxes *)
  let pc2 := [mkPoint 10 0 [0]] in                                                     (* nothing left: not reported *)
  Gen__evaluate_pointcloud_for_non_detection.f (config_of None cfg) [] igs [pc1; pc2; []] = Ok [[mkPoint 20 0 [0]]] /\
  Gen__evaluate_pointcloud_for_non_detection.f (config_of None cfg) [] [] [pc1; []] = Ok [pc1].
Proof. vm_compute. split; reflexivity. Qed.

(* ---- SensingFrameResult.evaluate_frame = Sensing.evaluate_frame -----------------------------------------------------------------------
   detection on the detection cloud, then non-detection on the non-detection clouds, BOTH with the objects handed in and the config
   of the frame; the four lists of the frame are extended *)
Theorem GenTie_evaluate_frame :
  forall (uuids : option (list string)) (cfg : sensing_config) (su fa wa : list sensing_result) (nd : list (list point))
         (gts : list gt_object) (cloud : list point) (pcs : list (list point)),
    Gen_evaluate_frame.f (config_of uuids cfg) su fa wa nd (indexed gts) cloud pcs =
      Ok (let r := evaluate_frame cfg gts cloud pcs in (su ++ fr_success r, fa ++ fr_fail r, wa ++ fr_warning r, nd ++ fr_nondet r)).
Proof.
  assert (HG : forall fc su fa wa nd igs cloud pcs,
             Gen_evaluate_frame.f fc su fa wa nd igs cloud pcs =
               Ok (let '(a, b, c) := app3 (su, fa, wa) (eval_detection_with (fc_scale fc) (fc_min fc) cloud igs) in
                   (a, b, c, nd ++ eval_non_detection_with (fc_scale fc) (map snd igs) pcs))) by script_frame_any.
  intros. rewrite HG. at_constructed uuids cfg.
  rewrite eval_detection_with_model, eval_non_detection_with_model, map_snd_indexed. unfold evaluate_frame.
  destruct (eval_detection cfg cloud (indexed gts)) as [[a b] c]. reflexivity.
Qed.
Print Assumptions GenTie_evaluate_frame.

(* any config object, any (index, object) list *)
Theorem GenTie_evaluate_frame_outside :
  forall (fc : frame_config) (su fa wa : list sensing_result) (nd : list (list point))
         (igs : list (nat * gt_object)) (cloud : list point) (pcs : list (list point)),
    Gen_evaluate_frame.f fc su fa wa nd igs cloud pcs =
      Ok (let '(a, b, c) := app3 (su, fa, wa) (eval_detection_with (fc_scale fc) (fc_min fc) cloud igs) in
          (a, b, c, nd ++ eval_non_detection_with (fc_scale fc) (map snd igs) pcs)).
Proof. script_frame_any. Qed.
Print Assumptions GenTie_evaluate_frame_outside.

Example GenTie_evaluate_frame_nonvacuous :
  let cfg := mkCfg 1 3 1%Z in                     (* scale 1 at 0 m, 3 at 100 m: 1.2 at 10 m, 1.6 at 30 m *)
  let b x := yaw_box x 0 0 2 4 2 1 0 in
  let gts := [mkGT (b 10) 10 (Some V_FULL); mkGT (b 30) 30 None] in
  let cloud := [mkPoint (61 # 5) 0 [0]; mkPoint (67 # 2) 0 [0]] in        (* x = 12.2: inside only when scaled; x = 33.5: outside 1.6 * 2 *)
  let r := evaluate_frame cfg gts cloud [cloud] in
  Gen_evaluate_frame.f (config_of None cfg) [] [] [] [] (indexed gts) cloud [cloud] =
    Ok (fr_success r, fr_fail r, fr_warning r, fr_nondet r) /\
  fr_success r = [mkRes 0 [0%nat] 1 true false] /\ fr_fail r = [mkRes 1 [] 0 false false] /\ fr_nondet r = [[mkPoint (67 # 2) 0 [0]]].
Proof. vm_compute. repeat split. Qed.
