(* C10 -- Object filtering keeps exactly the objects satisfying the configured criteria.
   Model: Model/Filter.v (is_target = _is_target_object in the code's order, filter_objects,
   filter_object_results); spec: [kept] / [Kept]; proofs: Proofs/FilterProofs.v.
   All statements quantify over all object lists, all parameter records and all rational bounds. *)
From Coq Require Import List Bool ZArith String.
From PE Require Import Base.QUtil Model.Filter Proofs.FilterProofs.
Import ListNotations.
Open Scope Q_scope.

(* the full-strength statement, as one proposition *)
Definition C10_statement : Prop :=
  (* exactly the objects satisfying the criteria, in order *)
  (forall c tf is_gt l, wf_cfg c -> (forall o, In o l -> obj_ok c is_gt o) ->
     filter_objects c tf is_gt l = Ok (filter (kept c tf is_gt) l)) /\
  (forall c tf is_gt o, kept c tf is_gt o = true <-> Kept c tf is_gt o) /\
  (* order-preserving sub-list, idempotent -- whatever the parameters, whenever the call returns *)
  (forall c tf is_gt l l', filter_objects c tf is_gt l = Ok l' -> Sublist l' l) /\
  (forall c tf is_gt l l', filter_objects c tf is_gt l = Ok l' -> filter_objects c tf is_gt l' = Ok l') /\
  (* a result stays iff its estimate AND its ground truth pass *)
  (forall c tf rs rs', filter_object_results c tf rs = Ok rs' ->
     forall r, In r rs' <->
       In r rs /\ is_target (est_side c) tf false (r_est r) = Ok true /\
       match r_gt r with
       | Some g => is_target (gt_side c) tf true g = Ok true
       | None => uuids_nonempty c = false
       end) /\
  (* widening any bound never removes a kept object *)
  (forall c c' tf is_gt l l1 l2, wf_cfg c -> wf_cfg c' -> wider c c' ->
     (forall o, In o l -> obj_ok c is_gt o) ->
     filter_objects c tf is_gt l = Ok l1 -> filter_objects c' tf is_gt l = Ok l2 -> Sublist l1 l2).

(* 1. the sequential predicate with its early exits, per-label lookups and mean bounds is the
      declarative conjunction [kept]; hence filter_objects is List.filter of it *)
Theorem C10_filter_is_List_filter_spec :
  forall c tf is_gt l, wf_cfg c -> (forall o, In o l -> obj_ok c is_gt o) ->
    filter_objects c tf is_gt l = Ok (filter (kept c tf is_gt) l).
Proof. exact filter_objects_spec. Qed.
Print Assumptions C10_filter_is_List_filter_spec.

Theorem C10_is_target_is_kept :
  forall c tf is_gt o, wf_cfg c -> obj_ok c is_gt o -> is_target c tf is_gt o = Ok (kept c tf is_gt o).
Proof. exact is_target_spec. Qed.
Print Assumptions C10_is_target_is_kept.

(* what [kept] says, as a proposition over the configured bounds (see [Kept] in Proofs/FilterProofs.v):
   FP-labelled, or unknown estimate (unknown not targeted) with positive confidence inside the MEAN
   bounds, or: label targeted, no ignored attribute, confidence strictly above the label's threshold,
   |x|, |y| strictly below / distance strictly inside the label's bounds, (ground truth only) at least
   the label's point count and uuid among the target uuids *)
Theorem C10_kept_reads_as_documented :
  forall c tf is_gt o, kept c tf is_gt o = true <-> Kept c tf is_gt o.
Proof. exact kept_iff_Kept. Qed.
Print Assumptions C10_kept_reads_as_documented.

Theorem C10_filter_results_is_List_filter_spec :
  forall c tf rs, wf_cfg c -> (forall r, In r rs -> res_ok c r) ->
    filter_object_results c tf rs = Ok (filter (result_kept c tf) rs).
Proof. exact filter_object_results_spec. Qed.
Print Assumptions C10_filter_results_is_List_filter_spec.

(* 2. order-preserving sub-list (no well-formedness needed) *)
Theorem C10_filter_sublist :
  forall c tf is_gt l l', filter_objects c tf is_gt l = Ok l' -> Sublist l' l.
Proof. exact filter_sublist. Qed.
Print Assumptions C10_filter_sublist.

Theorem C10_filter_results_sublist :
  forall c tf rs rs', filter_object_results c tf rs = Ok rs' -> Sublist rs' rs.
Proof. exact filter_results_sublist. Qed.
Print Assumptions C10_filter_results_sublist.

(* 3. idempotent *)
Theorem C10_filter_idempotent :
  forall c tf is_gt l l', filter_objects c tf is_gt l = Ok l' -> filter_objects c tf is_gt l' = Ok l'.
Proof. exact filter_idempotent. Qed.
Print Assumptions C10_filter_idempotent.

Theorem C10_filter_results_idempotent :
  forall c tf rs rs', filter_object_results c tf rs = Ok rs' -> filter_object_results c tf rs' = Ok rs'.
Proof. exact filter_results_idempotent. Qed.
Print Assumptions C10_filter_results_idempotent.

(* 4. a result is removed as soon as either side fails; a result without ground truth is removed
      exactly when a non-empty uuid list is targeted *)
Theorem C10_filter_results_both_sides :
  forall c tf rs rs', filter_object_results c tf rs = Ok rs' ->
    forall r, In r rs' <->
      In r rs /\
      is_target (est_side c) tf false (r_est r) = Ok true /\
      match r_gt r with
      | Some g => is_target (gt_side c) tf true g = Ok true
      | None => uuids_nonempty c = false
      end.
Proof. exact filter_results_both_sides. Qed.
Print Assumptions C10_filter_results_both_sides.

(* 5. monotone in the bounds (max bounds larger, min distance / confidence / point count smaller,
      or a bound removed; the mean bounds used for unknown estimates included) *)
Theorem C10_kept_monotone_in_bounds :
  forall c c' tf is_gt o, wider c c' -> kept c tf is_gt o = true -> kept c' tf is_gt o = true.
Proof. exact kept_wider. Qed.
Print Assumptions C10_kept_monotone_in_bounds.

Theorem C10_filter_monotone_in_bounds :
  forall c c' tf is_gt l l1 l2, wf_cfg c -> wf_cfg c' -> wider c c' ->
    (forall o, In o l -> obj_ok c is_gt o) ->
    filter_objects c tf is_gt l = Ok l1 -> filter_objects c' tf is_gt l = Ok l2 -> Sublist l1 l2.
Proof. exact filter_monotone_in_bounds. Qed.
Print Assumptions C10_filter_monotone_in_bounds.

(* 6. documented relaxation: FP-labelled objects pass every filter, whatever the parameters *)
Theorem C10_fp_label_always_kept :
  forall c tf is_gt o, lbl_is_fp (o_label o) = true -> is_target c tf is_gt o = Ok true.
Proof. exact fp_label_always_kept. Qed.
Print Assumptions C10_fp_label_always_kept.

Theorem C10_fp_label_survives :
  forall c tf is_gt l l' o,
    filter_objects c tf is_gt l = Ok l' -> In o l -> lbl_is_fp (o_label o) = true -> In o l'.
Proof. exact fp_label_survives. Qed.
Print Assumptions C10_fp_label_survives.

(* 7. the third position branch, stated so that it cannot hide: without an ego-relative position
      (object not in BASE_LINK and no transforms, or no position at all) the x/y/distance bounds AND
      the point-count threshold are not applied at all *)
Theorem C10_no_position_skips_bounds :
  forall c tf is_gt o, position_of tf o = None ->
    is_target c tf is_gt o = is_target (without_bounds c) tf is_gt o.
Proof. exact no_position_skips_bounds. Qed.
Print Assumptions C10_no_position_skips_bounds.

(* 8. error branches of malformed parameters (no truth from defaults) *)
Theorem C10_missing_targets_raise :
  forall c tf is_gt o l x y d,
    c_targets c = None -> c_ignore c = None -> c_conf c = None -> c_max_x c = Some l ->
    lbl_is_fp (o_label o) = false -> use_unknown_threshold c is_gt o = false ->
    position_of tf o = Some (x, y, d) ->
    is_target c tf is_gt o = ErrType.
Proof. exact missing_targets_raise. Qed.
Print Assumptions C10_missing_targets_raise.

Theorem C10_short_list_raises :
  forall c tf is_gt o ts l i x y d,
    c_targets c = Some ts -> ts <> [] -> index_of (o_label o) ts = Some i -> (List.length l <= i)%nat ->
    c_ignore c = None -> c_conf c = None -> c_max_x c = Some l ->
    lbl_is_fp (o_label o) = false -> use_unknown_threshold c is_gt o = false ->
    position_of tf o = Some (x, y, d) ->
    is_target c tf is_gt o = ErrIndex.
Proof. exact short_list_raises. Qed.
Print Assumptions C10_short_list_raises.

(* 9. the confidence list never decides on a ground truth (documented: "only used when is_gt=False";
      repaired in /repo by 54ea74c -- before, a ground truth whose own score did not exceed the threshold of
      its label was dropped): for is_gt = true the predicate is the one of the parameters without the list *)
Theorem C10_confidence_estimates_only :
  forall c tf o,
    is_target c tf true o = is_target (without_conf c) tf true o /\
    kept c tf true o = kept (without_conf c) tf true o.
Proof. exact confidence_estimates_only. Qed.
Print Assumptions C10_confidence_estimates_only.

(* the former witness: threshold 1 = the ground truth's own score; it is kept *)
Example C10_nonvacuous_gt_confidence :
  is_target (mkCfg (Some [2]%nat) None (Some [10]) (Some [10]) None None None (Some [1]) None) true true
            (mkObj 0 2 "car" [] 1 (Some "a"%string) true (Some (1, 0, 1)) (Some 3%Z) 0) = Ok true /\
  is_target (mkCfg (Some [2]%nat) None (Some [10]) (Some [10]) None None None (Some [1]) None) true false
            (mkObj 0 2 "car" [] 1 (Some "a"%string) true (Some (1, 0, 1)) (Some 3%Z) 0) = Ok false.
Proof. vm_compute. split; reflexivity. Qed.

Theorem C10_all_clauses : C10_statement.
Proof.
  unfold C10_statement.
  split; [exact filter_objects_spec|].
  split; [exact kept_iff_Kept|].
  split; [exact filter_sublist|].
  split; [exact filter_idempotent|].
  split; [exact filter_results_both_sides|].
  exact filter_monotone_in_bounds.
Qed.
Print Assumptions C10_all_clauses.

(* ---- non-vacuity: a well-formed configuration with every kind of bound, objects exactly on a
   bound, an FP-labelled object, an unknown estimate, and a result dropped for its ground truth *)
Definition ex_cfg : Cfg :=
  mkCfg (Some [2; 7]%nat) (Some ["cycle"%string]) (Some [10; 20]) (Some [5; 5]) None None
        (Some [3; 0]%Z) (Some [1 # 2; 1 # 4]) (Some ["a"%string; "b"%string]).
Definition ex_obj (id lbl : nat) (conf x y : Q) (pts : Z) (u : string) : Obj :=
  mkObj id lbl "vehicle.car" [] conf (Some u) true (Some (x, y, x)) (Some pts) id.

Example C10_nonvacuous_wf : wf_cfg ex_cfg.
Proof.
  unfold wf_cfg, len_ok, ex_cfg; simpl.
  repeat split; intros l H; try discriminate; inversion H; subst;
    (exists [2; 7]%nat; repeat split; [discriminate]).
Qed.

Example C10_nonvacuous_run :
  let objs := [ ex_obj 0 2 1 (9 # 1) 0 3 "a";        (* inside *)
                ex_obj 1 2 1 (10 # 1) 0 3 "a";       (* |x| exactly on the bound: dropped *)
                ex_obj 2 7 1 (15 # 1) 0 0 "b";       (* second label, wider bound *)
                ex_obj 3 1 0 (99 # 1) (99 # 1) 0 "zz"; (* FP label: always kept *)
                ex_obj 4 2 1 (1 # 1) 0 2 "a";        (* too few points *)
                ex_obj 5 2 1 (1 # 1) 0 3 "c" ] in    (* uuid not targeted *)
  map_res ids (filter_objects ex_cfg true true objs) = Ok [0; 2; 3]%nat /\
  (* as estimates (is_gt = false skips the point-count and uuid criteria):
     confidence 1/2 exactly on the threshold is dropped, the unknown estimate is judged against the
     mean bounds (15, 5) and confidence 0 *)
  map_res ids (filter_objects ex_cfg true false
                 [ex_obj 0 2 (1 # 2) 1 0 0 "q"; ex_obj 1 2 (33 # 64) 1 0 0 "q";
                  ex_obj 2 0 (1 # 64) (14 # 1) 0 0 "q"; ex_obj 3 0 (1 # 64) (15 # 1) 0 0 "q"]) = Ok [1; 2]%nat /\
  (* a result whose ground truth fails is removed although its estimate passes *)
  map_res (map (fun r => o_id (r_est r)))
    (filter_object_results ex_cfg true
       [mkRes (ex_obj 0 2 1 1 0 0 "q") (Some (ex_obj 0 2 1 1 0 3 "a")) true None;
        mkRes (ex_obj 1 2 1 1 0 0 "q") (Some (ex_obj 1 2 1 (11 # 1) 0 3 "a")) true None;
        mkRes (ex_obj 2 2 1 1 0 0 "q") None false None]) = Ok [0]%nat.
Proof. vm_compute. repeat split. Qed.
