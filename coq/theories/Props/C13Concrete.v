(* C13, concrete -- the manager state machine with the frame evaluation NO LONGER abstract.
   Props/C13.v proves the refinement of PerceptionEvaluationManager to a history-independent specification for
   ALL functions G (one evaluation), T (tracking scores from the predecessor) and Sc (scene score).  Here the
   same machine (Model/Manager.v, unchanged) is instantiated (Model/ManagerConcrete.v) with
     G  = Pipeline.add_frame_result (matcher -> critical filter -> pass/fail -> per-label AP/APH/mAP Maps),
     T  = TrackingPipeline.frame_tracking on the tracking views of the predecessor's and the current object results,
     Sc = get_scene_result: per-label buckets appended, ground-truth counts added, Map/Ap of Model/AP.v, and
          TrackingPipeline.scene_tracking,
   and the clauses of C13 are stated about THAT machine, for every manager configuration [mc], every loaded
   dataset [d] and every sequence [ops] of add_frame_result / get_scene_result calls.  Proofs:
   Proofs/ManagerConcrete.v.  Only statements, `exact`, Print Assumptions and non-vacuity examples here.
   Adapters between the models and what they abstract: header of Model/ManagerConcrete.v. *)
From Coq Require Import List Bool ZArith String Arith QArith Permutation.
From PE Require Import Base.QUtil Model.Matching Model.Filter Model.PassFail Model.Pipeline Model.ManagerConcrete.
From PE Require Import Proofs.PipelineProofs Proofs.ManagerConcrete.
From PE Require Model.AP Model.Clear Model.TrackingPipeline Model.Manager.
From PE Require Proofs.APKinds Proofs.APModel Proofs.ManagerProofs Proofs.ClearProofs Proofs.TrackingPipelineProofs.
From PE Require Import Props.Pipeline.
Import ListNotations.
Open Scope Q_scope.
Open Scope list_scope.

(* ================================================================================================ *)
(* 1. history independence of the concrete machine                                                   *)
(* ================================================================================================ *)
(* For EVERY manager configuration, dataset and call sequence: the loaded dataset is unchanged and every answer
   is the one of the specification [concrete_spec_outs], in which the answer to a call is computed from the
   ORIGINAL dataset frame, the estimates and the configurations of that call. *)
Theorem C13_concrete_manager_refines_spec : forall (mc : MCfg) (d : list CFrame) (ops : list cop),
  let '(s', outs) := concrete_run mc true (concrete_init d) ops in
  Manager.ds s' = d /\ outs = concrete_spec_outs mc d [] ops.
Proof. exact concrete_manager_refines_spec. Qed.
Print Assumptions C13_concrete_manager_refines_spec.

(* ... where the specification's answer to add_frame_result(ground_truth_frames[i], e, c), after ANY earlier
   calls [before], is: the frame result of Pipeline.add_frame_result on the facts of this call alone, and the
   tracking scores computed from that result and the result of the last earlier evaluation. *)
Theorem C13_concrete_frame_answer_is_pipeline : forall mc d before i e c f,
  nth_error d i = Some f ->
  concrete_spec_out mc d before (Manager.Add i e c) =
    Manager.FrameOut (cG mc f e c) (cT mc (Manager.last_opt (concrete_cores mc d before)) (cG mc f e c)) /\
  k_out (cG mc f e c) =
    add_frame_result (m_mode mc) (m_policy mc) (m_fpv mc)
      (scene_facts (m_targets mc) (m_radii mc) (e_frame e) (g_frame f) (e_value e) (e_same e) (e_objs e) (g_objs f))
      (e_tables e) (e_objs e) (g_objs f) (cc_crit c) (cc_pf c) (m_det mc).
Proof. intros mc d before i e c f H. split; [exact (concrete_frame_answer mc d before i e c f H)|reflexivity]. Qed.
Print Assumptions C13_concrete_frame_answer_is_pipeline.

Theorem C13_concrete_frame_answer_history_independent : forall mc d before1 before2 i e c,
  Manager.last_opt (concrete_cores mc d before1) = Manager.last_opt (concrete_cores mc d before2) ->
  concrete_spec_out mc d before1 (Manager.Add i e c) = concrete_spec_out mc d before2 (Manager.Add i e c).
Proof. exact concrete_frame_answer_history_independent. Qed.
Print Assumptions C13_concrete_frame_answer_history_independent.

(* (c1) tracking: the tracking answer reads the tracking VIEWS (critical target labels, surviving object results
   with their four matching values, critical ground-truth labels) of the predecessor and of the current frame,
   nothing else of the two Cores (not their Maps, not their pass/fail lists), and nothing of earlier calls *)
Theorem C13_concrete_tracking_reads_two_views : forall mc (p1 p2 : option CCore) (c1 c2 : CCore),
  option_map k_view p1 = option_map k_view p2 -> k_view c1 = k_view c2 -> cT mc p1 c1 = cT mc p2 c2.
Proof. exact cT_depends_on_views. Qed.
Print Assumptions C13_concrete_tracking_reads_two_views.

(* a scene query answers with the concrete scene score of the Cores of the calls so far; queries change nothing;
   a run that ends with a query answers exactly that *)
Theorem C13_concrete_scene_is_pooled : forall mc d before,
  concrete_spec_out mc d before (@Manager.Query CEsts CCfg) =
    Manager.SceneOut (cSc mc (concrete_cores mc d before)) /\
  concrete_cores mc d (filter (fun o => match o with Manager.Query => false | _ => true end) before)
    = concrete_cores mc d before /\
  snd (concrete_run mc true (concrete_init d) (before ++ [Manager.Query])) =
    concrete_spec_outs mc d [] before ++ [Manager.SceneOut (cSc mc (concrete_cores mc d before))].
Proof.
  intros mc d before. destruct (concrete_scene_is_pooled mc d before) as [A B].
  split; [exact A|split; [exact B|exact (concrete_run_then_query mc d before)]].
Qed.
Print Assumptions C13_concrete_scene_is_pooled.

(* on well-formed inputs (Props/Pipeline.v: [pipeline_hyps]) whose critical filter has a target list covering
   the detection target labels, the evaluation returns a frame: the exception branches of the model are not
   what makes the statements true *)
Theorem C13_concrete_never_raises : forall mc f e c cts,
  pipeline_hyps (facts_of mc f e) (e_objs e) (g_objs f) (cc_crit c) (cc_pf c) ->
  c_targets (cc_crit c) = Some cts ->
  m_fpv mc = true \/ keys_ok cts (m_det mc) = true ->
  exists fr cm pm,
    k_out (cG mc f e c) = Done fr cm pm /\
    frame_pipeline (m_mode mc) (m_policy mc) (m_fpv mc) (facts_of mc f e) (e_tables e) (e_objs e) (g_objs f)
                   (cc_crit c) (cc_pf c) = Ok fr.
Proof. exact concrete_G_done. Qed.
Print Assumptions C13_concrete_never_raises.

(* ================================================================================================ *)
(* 2. the scene's detection Maps pool the frame results                                              *)
(* ================================================================================================ *)
(* (a) for every Map of every scene answer (any Cores, any order, frames that raised skipped): the
   num_ground_truth of the Ap of label L is the SUM over the appended frames of the number of that frame's
   critical ground truths labelled L -- the number the frame's own Maps report (second conjunct) *)
Theorem C13_concrete_gt_counts_add : forall mc (cs : list CCore) M,
  In M (sc_center (cSc mc cs) ++ sc_plane (cSc mc cs)) ->
  exists thrs,
    mo_nums M = map (fun Lt : nat * Q => sum_nat (map (fun c => num_gt_label (fst Lt) (core_gts c)) (appended cs)))
                    (combine (m_targets mc) thrs).
Proof. exact scene_gt_counts_add. Qed.
Print Assumptions C13_concrete_gt_counts_add.

Theorem C13_concrete_frame_map_counts : forall v T cts dts thrs rs' gts',
  mo_nums (map_out v T cts dts thrs rs' gts') = map (fun Lt : nat * Q => num_gt_label (fst Lt) gts') (combine dts thrs).
Proof. exact frame_map_nums. Qed.
Print Assumptions C13_concrete_frame_map_counts.

(* the loop of get_scene_result (append the frame's bucket, add the frame's count) computes the Ap of the POOLED
   object results against the POOLED critical ground truths: [one_ap] is the frame-level Ap of Model/Pipeline.v *)
Theorem C13_concrete_scene_ap_is_ap_of_pooled_results : forall tl vs ws (fs : list CCore) (Lt : nat * Q),
  scene_ap tl vs ws fs Lt =
  one_ap tl (List.concat (map core_labels fs)) (List.concat (map (core_lres vs ws) fs)) Lt.
Proof. exact scene_ap_is_pooled. Qed.
Print Assumptions C13_concrete_scene_ap_is_ap_of_pooled_results.

(* (b) a one-frame scene reproduces that frame's Maps (every per-label AP, APH, tp/fp lists, counts, mAP, mAPH of
   every centre-distance and plane-distance Map), when the critical filter's target labels have the same
   members as the evaluator's (divide_objects buckets with the former in the frame, the latter in the scene) *)
Theorem C13_concrete_one_frame_scene_eq_frame : forall mc d i e c f fr cm pm cts,
  nth_error d i = Some f ->
  k_out (cG mc f e c) = Done fr cm pm -> c_targets (cc_crit c) = Some cts -> same_members cts (m_targets mc) ->
  exists tr s,
    snd (concrete_run mc true (concrete_init d) [Manager.Add i e c; Manager.Query]) =
      [Manager.FrameOut (cG mc f e c) tr; Manager.SceneOut s] /\
    sc_center s = cm /\ sc_plane s = pm.
Proof. exact one_frame_run. Qed.
Print Assumptions C13_concrete_one_frame_scene_eq_frame.

(* (d) one Ap / Aph of the scene (tp list, fp list, AP) does not depend on the order of the frames when the
   confidences in its bucket are pairwise distinct ... *)
Theorem C13_concrete_scene_ap_order_independent : forall tl vs ws (fs fs' : list CCore) (Lt : nat * Q),
  Permutation fs fs' ->
  ManagerProofs.distinct_keys AP.conf (scene_bucket tl vs ws fs Lt) ->
  scene_ap tl vs ws fs Lt = scene_ap tl vs ws fs' Lt.
Proof. exact scene_ap_perm. Qed.
Print Assumptions C13_concrete_scene_ap_order_independent.

(* ... and for call sequences: if the confidences of the estimates of the surviving object results of the
   evaluated frames are pairwise distinct, ANY reordering of the calls (scene queries interleaved anywhere,
   out-of-range calls included) ends in the same detection Maps *)
Theorem C13_concrete_scene_order_independent : forall mc d (ops ops' : list cop),
  Permutation ops ops' ->
  ManagerProofs.distinct_keys (fun q : Q => q) (scene_confs (concrete_cores mc d ops)) ->
  exists outs outs' s s',
    snd (concrete_run mc true (concrete_init d) (ops ++ [Manager.Query])) = outs ++ [Manager.SceneOut s] /\
    snd (concrete_run mc true (concrete_init d) (ops' ++ [Manager.Query])) = outs' ++ [Manager.SceneOut s'] /\
    sc_center s = sc_center s' /\ sc_plane s = sc_plane s'.
Proof. exact concrete_scene_order_independent. Qed.
Print Assumptions C13_concrete_scene_order_independent.

(* C04 through the pooling: for every call sequence whose evaluated calls have well-formed inputs (Props/Pipeline.v)
   and heading weights in [0,1], every per-label AP and APH, the mAP and the mAPH of every Map of the scene answer
   lie in [0,1]; the counting hypothesis of C04 (no more TPs than ground truths) is PROVED for the pooled bucket
   from the per-frame counting theorem C04_pipeline_tp_le_gt and (a) *)
Theorem C13_concrete_scene_scores_in_unit_interval : forall mc d (ops : list cop),
  (forall i e c f, In (Manager.Add i e c) ops -> nth_error d i = Some f ->
     pipeline_hyps (facts_of mc f e) (e_objs e) (g_objs f) (cc_crit c) (cc_pf c) /\ weights_in_unit (e_tables e)) ->
  forall M, In M (sc_center (cSc mc (concrete_cores mc d ops)) ++ sc_plane (cSc mc (concrete_cores mc d ops))) ->
    (forall r a, In r (mo_aps M ++ mo_aphs M) -> AP.ap r = Some a -> 0 <= a <= 1) /\
    (forall x, mo_map M = Some x -> 0 <= x <= 1) /\ (forall x, mo_maph M = Some x -> 0 <= x <= 1).
Proof. exact concrete_scene_scores_in_unit. Qed.
Print Assumptions C13_concrete_scene_scores_in_unit_interval.

Theorem C13_concrete_scene_tp_le_pooled_gt : forall tl vs ws (fs : list CCore) (Lt : nat * Q),
  (forall c, In c fs -> core_wf c) ->
  (APKinds.count_tp (APModel.ranking AP.Minimize (scene_bucket tl vs ws fs Lt)) <= scene_num (fst Lt) fs)%nat.
Proof. exact scene_tp_le_gt. Qed.
Print Assumptions C13_concrete_scene_tp_le_pooled_gt.

(* ================================================================================================ *)
(* 3. tracking through the machine                                                                   *)
(* ================================================================================================ *)
(* the tracking view exists on complete inputs: every object has an interned uuid, every estimate x ground-truth
   cell of the four value tables is a number *)
Theorem C13_concrete_view_exists : forall mc f e c fr cm pm cts,
  scene_hyps (facts_of mc f e) (e_objs e) (g_objs f) -> track_inputs_ok f e ->
  k_out (cG mc f e c) = Done fr cm pm -> c_targets (cc_crit c) = Some cts ->
  exists p, k_view (cG mc f e c) = Some p /\
            TP.f_bl p = cts /\ TP.f_gts p = map o_label (f_gts fr) /\
            List.length (TP.f_res p) = List.length (f_results fr).
Proof. exact concrete_view_exists. Qed.
Print Assumptions C13_concrete_view_exists.

(* the tracking answers of the machine along ANY call sequence whose evaluations have views are those of
   TrackingPipeline.run_frames on the views: call k is evaluated against call k-1, the first against nothing
   (C05_pipeline_predecessor_is_previous_frame), and the frame results the tracking model accumulates are the views *)
Theorem C13_concrete_tracking_is_run_frames : forall mc d ops ps,
  views (concrete_cores mc d ops) = Some ps ->
  track_outs (snd (concrete_run mc true (concrete_init d) ops)) =
    map TrackScores (snd (TP.run_frames (m_targets mc) (m_trk mc) [] ps)) /\
  fst (TP.run_frames (m_targets mc) (m_trk mc) [] ps) = ps.
Proof. exact concrete_tracking_is_run_frames. Qed.
Print Assumptions C13_concrete_tracking_is_run_frames.

(* (c2) C05_pipeline_scene_sums_frames lifted to the machine.  For every call sequence whose evaluations have
   views [ps], with duplicate-free evaluator target labels and critical filters whose target labels have the
   evaluator's members:
     - the k-th tracking answer is, per configured (mode, thresholds) and label, the CLEAR of the two-frame history
       (view k-1, view k)  [frame_specs = scores_spec of TrackingPipeline.frame_clear, predecessor threaded];
     - the scene answer's tracking score is, per (mode, thresholds) and label, TrackingPipeline.scene_clear;
     - TP, FP, id switches, predict_num, TP score sum and ground-truth count of the scene CLEAR are the sums of the
       frame-level values; scene MOTA / MOTP are the formulas on the summed counters. *)
Theorem C13_concrete_scene_tracking_sums_frames : forall mc d ops ps,
  let tl := m_targets mc in let cfg := m_trk mc in
  views (concrete_cores mc d ops) = Some ps -> NoDup tl ->
  (forall fr, In fr ps -> forall l, TP.mem l (TP.f_bl fr) = TP.mem l tl) ->
  exists outs s,
    snd (concrete_run mc true (concrete_init d) (ops ++ [Manager.Query])) = outs ++ [Manager.SceneOut s] /\
    track_outs outs = map (fun x => TrackScores (Some x)) (frame_specs tl cfg None ps) /\
    sc_tracking s = Some (Some (TP.scores_spec tl cfg (fun mm Lt => TP.scene_clear tl mm Lt ps))) /\
    forall mm L t,
      let ks := TP.frame_clears mm (L, t) None ps in
      let k := TP.scene_clear tl mm (L, t) ps in
      let TP_ := ClearProofs.sumN ClearProofs.k_tp ks in
      let FP_ := ClearProofs.sumN (fun k => Clear.c_fp (Clear.k_cnt k)) ks in
      let SW := ClearProofs.sumN ClearProofs.k_sw ks in
      let G := ClearProofs.sumN Clear.k_numgt ks in
      let SC := ClearProofs.sumQ (fun k => Clear.c_score (Clear.k_cnt k)) ks in
      Clear.c_tp (Clear.k_cnt k) = TP_ /\ Clear.c_fp (Clear.k_cnt k) = FP_ /\ Clear.c_sw (Clear.k_cnt k) = SW /\
      Clear.c_num (Clear.k_cnt k) = ClearProofs.sumN (fun k => Clear.c_num (Clear.k_cnt k)) ks /\
      Clear.c_score (Clear.k_cnt k) == SC /\ Clear.k_numgt k = G /\
      Clear.k_mota k = match G with O => None | _ => Some (Clear.max0 ((Qnat TP_ - Qnat FP_ - Qnat SW) / Qnat G)) end /\
      ClearProofs.oq_eq (Clear.k_motp k) (match TP_ with O => None | _ => Some (SC / Qnat TP_) end).
Proof. exact concrete_scene_tracking_sums_frames. Qed.
Print Assumptions C13_concrete_scene_tracking_sums_frames.

(* the view of a Core carries the critical target labels of ITS call: the hypothesis on f_bl above is a
   hypothesis on the critical filter configurations of the calls *)
Theorem C13_concrete_view_labels_are_critical_targets : forall mc f e c p,
  k_view (cG mc f e c) = Some p -> is_done (cG mc f e c) = true /\ c_targets (cc_crit c) = Some (TP.f_bl p).
Proof. exact cG_view. Qed.
Print Assumptions C13_concrete_view_labels_are_critical_targets.

(* ================================================================================================ *)
(* non-vacuity.  Dataset of three ground-truth frames:
     frame 0  the scene of Props/Pipeline.v (9 estimates, 9 ground truths, labels car / pedestrian / unknown / FP);
     frame A  a car (matched by the estimate, 0.5 m) and a pedestrian (missed);
     frame B  a car 8 m from the only estimate (unmatched: FP + FN).
   Manager: centre-distance matching, ALLOW_UNKNOWN, radius 2.5 m, detection targets [car; pedestrian] with the
   threshold lists of Props/Pipeline.v, tracking with one centre-distance and one plane-distance threshold list. *)
(* ================================================================================================ *)
Open Scope string_scope.
Open Scope list_scope.
Definition half_table (n m : nat) : list (list (option Q)) := repeat (repeat (Some (1#2)) m) n.
Definition cx_mc : MCfg :=
  mkMCfg CENTERDISTANCE P_ALLOW_UNKNOWN false (Some [5#2; 5#2]) ex_det (TP.mkCfg [[1; 1#2]] [] [] [[2; 1]]).
Definition cx_frame0 : CFrame := mkCFrame ex_gts (repeat O 9) (seq 100 9).
Definition cx_ests0 : CEsts :=
  mkCEsts ex_ests (repeat O 9) (seq 200 9) ex_value ex_same ex_T (half_table 9 9) (half_table 9 9).
Definition cx_cfg : CCfg := mkCCfg ex_crit ex_pf.
(* the same frame under a narrower critical region (|x| < 5) *)
Definition cx_cfg_narrow : CCfg :=
  mkCCfg (mkCfg (Some [2; 7]%nat) None (Some [5; 5]) (Some [5; 5]) None None None None None) ex_pf.
Definition cx_frameA : CFrame :=
  mkCFrame [go 0 2 "car" 1 0 1 "a"; go 1 7 "pedestrian" 3 1 (16#5) "c"] [O; O] [100; 102]%nat.
Definition cx_estsA (conf : Q) : CEsts :=
  mkCEsts [eo 0 2 "car" conf (3#2) 0 (3#2)] [O] [200%nat] [[Some (1#2); Some 2]] [[true; false]]
          (mkTables [[Some (1#2); Some 2]] [[1; 1]]) (half_table 1 2) (half_table 1 2).
Definition cx_frameB : CFrame := mkCFrame [go 0 2 "car" 1 0 1 "a"] [O] [100%nat].
Definition cx_estsB (conf : Q) : CEsts :=
  mkCEsts [eo 0 2 "car" conf 8 4 (89#10)] [O] [205%nat] [[Some 8]] [[true]] (mkTables [[Some 8]] [[1]])
          (half_table 1 1) (half_table 1 1).
Definition cx_d : list CFrame := [cx_frame0; cx_frameA; cx_frameB].

(* frame 0, a scene query, frame A, an out-of-range call, frame 0 AGAIN under the narrower filter, a scene query *)
Definition cx_ops : list cop :=
  [Manager.Add 0%nat cx_ests0 cx_cfg; Manager.Query; Manager.Add 1%nat (cx_estsA (3#4)) cx_cfg;
   Manager.Add 7%nat cx_ests0 cx_cfg; Manager.Add 0%nat cx_ests0 cx_cfg_narrow; Manager.Query].

(* what the examples display: per Map (num_ground_truth per label, mAP, mAPH); per CLEAR (num gt, TP, FP, switches) *)
Definition map_digest (m : MapOut) := (mo_nums m, option_map Qred (mo_map m), option_map Qred (mo_maph m)).
Definition clear_digest (ss : TP.scores) :=
  map (map (fun k => (Clear.k_numgt k, Clear.c_tp (Clear.k_cnt k), Clear.c_fp (Clear.k_cnt k), Clear.c_sw (Clear.k_cnt k)))) ss.
Definition out_digest (o : cout) :=
  match o with
  | Manager.FrameOut k tr =>
      (1%nat,
       match k_out k with Done fr cm pm => map map_digest (cm ++ pm) | _ => [] end,
       match tr with TrackScores (Some ss) => clear_digest ss | _ => [] end)
  | Manager.SceneOut s =>
      (2%nat, map map_digest (sc_center s ++ sc_plane s),
       match sc_tracking s with Some (Some ss) => clear_digest ss | _ => [] end)
  | Manager.NoFrame => (3%nat, [], [])
  end.

(* the whole run: the first scene answer reproduces frame 0's Maps (b); the last one has the counts
   3 + 1 + 3 cars and 2 + 1 + 1 pedestrians (a); the re-evaluation of frame 0 under the narrower filter sees the
   ORIGINAL nine ground truths (3 cars, 1 pedestrian survive), the dataset is unchanged *)
Example C13_concrete_nonvacuous_run :
  let '(s', outs) := concrete_run cx_mc true (concrete_init cx_d) cx_ops in
  Manager.ds s' = cx_d /\
  map out_digest outs =
    [(1, [([3; 2], Some (5#24), Some (1#12)); ([3; 2], Some (13#18), Some (17#36)); ([3; 2], Some (1#3), Some (1#3))],
         [[(3, 1, 2, 0); (2, 1, 1, 0)]; [(3, 2, 1, 0); (2, 1, 1, 0)]]);
     (2, [([3; 2], Some (5#24), Some (1#12)); ([3; 2], Some (13#18), Some (17#36)); ([3; 2], Some (1#3), Some (1#3))],
         [[(3, 1, 2, 0); (2, 1, 1, 0)]; [(3, 2, 1, 0); (2, 1, 1, 0)]]);
     (1, [([1; 1], Some (1#1), Some (1#1)); ([1; 1], Some (1#1), Some (1#1)); ([1; 1], Some (1#1), Some (1#1))],
         [[(1, 1, 0, 0); (1, 0, 0, 0)]; [(1, 1, 0, 0); (1, 0, 0, 0)]]);
     (3, [], []);
     (1, [([3; 1], Some (1#6), Some (1#6)); ([3; 1], Some (2#3), Some (2#3)); ([3; 1], Some (2#3), Some (2#3))],
         [[(3, 1, 0, 0); (1, 0, 1, 0)]; [(3, 1, 0, 0); (1, 1, 0, 0)]]);
     (2, [([7; 4], Some (11#56), Some (13#84)); ([7; 4], Some (101#168), Some (10#21)); ([7; 4], Some (17#42), Some (17#42))],
         [[(7, 3, 2, 0); (4, 1, 2, 0)]; [(7, 4, 1, 0); (4, 2, 1, 0)]])]%nat.
Proof. vm_compute. split; reflexivity. Qed.

(* the hypotheses of C13_concrete_never_raises, C13_concrete_one_frame_scene_eq_frame and C13_concrete_view_exists
   hold on frame 0 *)
Example C13_concrete_nonvacuous_frame_hyps :
  pipeline_hyps (facts_of cx_mc cx_frame0 cx_ests0) (e_objs cx_ests0) (g_objs cx_frame0) (cc_crit cx_cfg) (cc_pf cx_cfg) /\
  c_targets (cc_crit cx_cfg) = Some [2; 7]%nat /\ keys_ok [2; 7]%nat (m_det cx_mc) = true /\
  same_members [2; 7]%nat (m_targets cx_mc) /\ track_inputs_ok cx_frame0 cx_ests0 /\
  exists fr cm pm, k_out (cG cx_mc cx_frame0 cx_ests0 cx_cfg) = Done fr cm pm /\ List.length (cm ++ pm) = 3%nat.
Proof.
  split; [exact (proj1 Pipeline_nonvacuous_hyps)|]. split; [reflexivity|]. split; [reflexivity|].
  split; [intros l; reflexivity|]. split; [apply track_inputs_okb_ok; vm_compute; reflexivity|].
  do 3 eexists. split; [vm_compute; reflexivity|reflexivity].
Qed.

(* the hypothesis of C13_concrete_scene_scores_in_unit_interval holds for every call of the run *)
Example C13_concrete_nonvacuous_unit_hyps : forall i e c f,
  In (Manager.Add i e c) cx_ops -> nth_error cx_d i = Some f ->
  pipeline_hyps (facts_of cx_mc f e) (e_objs e) (g_objs f) (cc_crit c) (cc_pf c) /\ weights_in_unit (e_tables e).
Proof.
  intros i e c f [H|[H|[H|[H|[H|[H|[]]]]]]]; try discriminate H; injection H as <- <- <-;
    cbn [nth_error cx_d]; intros E; try discriminate E; injection E as <-;
    (split; [|apply weights_in_unitb_ok; vm_compute; reflexivity]);
    (constructor;
     [match goal with |- scene_hyps (facts_of _ _ ?x) _ _ => apply (scene_ok_hyps _ (e_tables x)) end; vm_compute; reflexivity
     |unfold wf_cfg, len_ok, cx_cfg, cx_cfg_narrow, ex_crit; cbn [cc_crit c_targets c_max_x c_max_y c_max_dist c_min_dist c_min_pts c_conf];
      repeat split; intros l H; try discriminate; inversion H; subst; (exists [2; 7]%nat; repeat split; [discriminate])
     |intros ts l H1 H2; inversion H1; inversion H2; subst; reflexivity
     |intros g _ _ H; exfalso; apply H; reflexivity]).
Qed.

(* the hypotheses of the tracking theorems hold on the run: every evaluated call has a view *)
Example C13_concrete_nonvacuous_tracking_hyps :
  exists ps, views (concrete_cores cx_mc cx_d cx_ops) = Some ps /\ List.length ps = 3%nat /\
             NoDup (m_targets cx_mc) /\
             (forall fr, In fr ps -> forall l, TP.mem l (TP.f_bl fr) = TP.mem l (m_targets cx_mc)).
Proof.
  eexists. split; [vm_compute; reflexivity|]. split; [reflexivity|]. split.
  - repeat constructor; cbn; intuition discriminate.
  - intros fr [<-|[<-|[<-|[]]]] l; reflexivity.
Qed.

(* distinct confidences (3/4 in frame A, 1/2 in frame B): the hypotheses of C13_concrete_scene_order_independent
   hold and both orders give AP(car) = 1/2 with 2 car ground truths *)
Definition cx_ops_ab (ca cb : Q) : list cop := [Manager.Add 1%nat (cx_estsA ca) cx_cfg; Manager.Add 2%nat (cx_estsB cb) cx_cfg].
Definition cx_ops_ba (ca cb : Q) : list cop := [Manager.Add 2%nat (cx_estsB cb) cx_cfg; Manager.Add 1%nat (cx_estsA ca) cx_cfg].
Definition final_scene (ops : list cop) :=
  map out_digest (skipn (List.length ops) (snd (concrete_run cx_mc true (concrete_init cx_d) (ops ++ [Manager.Query])))).

Example C13_concrete_nonvacuous_distinct :
  Permutation (cx_ops_ab (3#4) (1#2)) (cx_ops_ba (3#4) (1#2)) /\
  ManagerProofs.distinct_keys (fun q : Q => q) (scene_confs (concrete_cores cx_mc cx_d (cx_ops_ab (3#4) (1#2)))) /\
  final_scene (cx_ops_ab (3#4) (1#2)) = final_scene (cx_ops_ba (3#4) (1#2)) /\
  final_scene (cx_ops_ab (3#4) (1#2)) =
    [(2, [([2; 1], Some (1#2), Some (1#2)); ([2; 1], Some (1#2), Some (1#2)); ([2; 1], Some (1#2), Some (1#2))],
         [[(2, 1, 1, 0); (1, 0, 0, 0)]; [(2, 1, 1, 0); (1, 0, 0, 0)]])]%nat.
Proof.
  split; [apply perm_swap|]. split; [|split; vm_compute; reflexivity].
  assert (E : scene_confs (concrete_cores cx_mc cx_d (cx_ops_ab (3#4) (1#2))) = [3#4; 1#2]) by (vm_compute; reflexivity).
  rewrite E. cbn [ManagerProofs.distinct_keys]. repeat split; auto.
  intros y [<-|[]] H. vm_compute in H. discriminate H.
Qed.

(* with tied confidences (1/2 and 1/2) the order of the frames changes the scene AP (1/2 against 1/4): the
   hypothesis is needed *)
Example C13_concrete_ties_make_order_matter :
  Permutation (cx_ops_ab (1#2) (1#2)) (cx_ops_ba (1#2) (1#2)) /\
  final_scene (cx_ops_ab (1#2) (1#2)) <> final_scene (cx_ops_ba (1#2) (1#2)).
Proof. split; [apply perm_swap|]. vm_compute. intros H. discriminate H. Qed.

(* the no-copy variant of the machine (filtered ground truths written onto the dataset frame) changes the loaded
   dataset on this input: 8 of the 9 ground truths of frame 0 are left *)
Example C13_concrete_no_copy_changes_dataset :
  map (fun f => List.length (g_objs f)) (Manager.ds (fst (concrete_run cx_mc false (concrete_init cx_d) [Manager.Add 0%nat cx_ests0 cx_cfg])))
  = [8; 2; 1]%nat /\
  map (fun f => List.length (g_objs f)) cx_d = [9; 2; 1]%nat.
Proof. vm_compute. split; reflexivity. Qed.

(* ... and the second of two evaluations of frame 0 (narrow filter, then the original one) no longer answers what
   the specification answers: in the model, as in the earlier behaviour of the code, it sees the ground truths the
   first evaluation left.  (In-model witness: after the write-back the identities of the ground truths are no
   longer their indices, which Model/Pipeline.v assumes; the abstract refutation is C13_no_copy_refuted.) *)
Example C13_concrete_no_copy_refuted :
  let ops := [Manager.Add 0%nat cx_ests0 cx_cfg_narrow; Manager.Add 0%nat cx_ests0 cx_cfg] in
  let '(s', outs) := concrete_run cx_mc false (concrete_init cx_d) ops in
  Manager.ds s' <> cx_d /\
  map out_digest outs <> map out_digest (concrete_spec_outs cx_mc cx_d [] ops) /\
  map out_digest (snd (concrete_run cx_mc true (concrete_init cx_d) ops)) = map out_digest (concrete_spec_outs cx_mc cx_d [] ops).
Proof.
  cbv zeta.
  destruct (concrete_run cx_mc false (concrete_init cx_d) _) as [s' outs] eqn:E.
  assert (E1 : map (fun f => List.length (g_objs f)) (Manager.ds s') = [7; 2; 1]%nat)
    by (apply (f_equal fst) in E; cbn [fst] in E; rewrite <- E; vm_compute; reflexivity).
  apply (f_equal snd) in E. cbn [snd] in E. rewrite <- E. split; [|split].
  - intros H. rewrite H in E1. vm_compute in E1. discriminate E1.
  - vm_compute. intros H. discriminate H.
  - vm_compute. reflexivity.
Qed.
