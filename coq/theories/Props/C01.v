(* C01 -- Matching is one-to-one and accounts for every estimate.
   Model: Model/Matching.v ([match_core] = the two loops + leftovers of get_object_results on an
   n x m score table given as functions [cell] (None = NaN) and [ok] (label compatibility);
   [get_object_results] = the same on facts read from the objects, building the table like
   _get_score_table).  All statements quantify over ALL table sizes, ALL tables, both
   directions of optimisation and both task kinds.  Only statements here; proofs in
   Proofs/MatchingProofs.v. *)
From Coq Require Import List Bool Arith Permutation Sorted.
From PE Require Import Base.QUtil Model.Matching Proofs.MatchingProofs.
Import ListNotations.
Open Scope Q_scope.

(* a result is (estimate index, Some ground-truth index | None) *)

(* each estimate appears in at most one result ... *)
Theorem C01_est_injective : forall mx fpv cell ok n m,
  NoDup (map fst (match_core mx fpv cell ok n m)).
Proof. exact match_core_est_nodup. Qed.
Print Assumptions C01_est_injective.

(* ... hence is paired with at most one ground truth *)
Theorem C01_est_one_partner : forall mx fpv cell ok n m e g1 g2,
  In (e, g1) (match_core mx fpv cell ok n m) -> In (e, g2) (match_core mx fpv cell ok n m) -> g1 = g2.
Proof. exact match_core_est_inj. Qed.
Print Assumptions C01_est_one_partner.

(* each ground truth is paired with at most one estimate *)
Theorem C01_gt_injective : forall mx fpv cell ok n m,
  NoDup (gts_of (match_core mx fpv cell ok n m)).
Proof. exact match_core_gt_nodup. Qed.
Print Assumptions C01_gt_injective.

Theorem C01_gt_one_partner : forall mx fpv cell ok n m e1 e2 g,
  In (e1, Some g) (match_core mx fpv cell ok n m) -> In (e2, Some g) (match_core mx fpv cell ok n m) -> e1 = e2.
Proof. exact match_core_gt_inj. Qed.
Print Assumptions C01_gt_one_partner.

(* every pair has a non-NaN score cell ... *)
Theorem C01_pairs_matchable : forall mx fpv cell ok n m e g,
  In (e, Some g) (match_core mx fpv cell ok n m) -> exists s, cell e g = Some s.
Proof. exact match_core_pair_cell. Qed.
Print Assumptions C01_pairs_matchable.

(* ... which, for the table built from the objects' facts, means: both objects exist, they carry the
   same frame id, and if a matchable threshold is configured for the ground truth's label the
   matching value is strictly better than it (smaller distance / larger IoU) *)
Theorem C01_pairs_same_frame_within_radius : forall md p fpv F e g,
  In (e, Some g) (get_object_results md p fpv F) ->
  exists fe fg thr s,
    nth_error (f_est_frame F) e = Some fe /\ nth_error (f_gt_frame F) g = Some fg /\ fe = fg /\
    nth_error (f_gt_thr F) g = Some thr /\ lookup2 (f_value F) e g = Some (Some s) /\
    forall t, thr = Some t -> if maximize_of md then t < s else s < t.
Proof. exact facts_pair_sound. Qed.
Print Assumptions C01_pairs_same_frame_within_radius.

(* outside FP validation every input estimate appears in exactly one result *)
Theorem C01_complete : forall mx cell ok n m,
  Permutation (map fst (match_core mx false cell ok n m)) (seq 0 n).
Proof. exact match_core_est_perm. Qed.
Print Assumptions C01_complete.

(* nothing appears that was not in the input *)
Theorem C01_no_foreign : forall mx fpv cell ok n m e og,
  In (e, og) (match_core mx fpv cell ok n m) ->
  (e < n)%nat /\ forall g, og = Some g -> (g < m)%nat.
Proof. exact match_core_in_range. Qed.
Print Assumptions C01_no_foreign.

(* FP validation: unpaired estimates are dropped, also when there is no ground truth at all *)
Theorem C01_fpv_drops_unpaired : forall mx cell ok n m,
  (forall e, ~ In (e, None) (match_core mx true cell ok n m)) /\
  match_core mx true cell ok n 0 = [].
Proof. intros. split; [intros e; apply match_core_fpv_no_unpaired|apply match_core_fpv_no_gt]. Qed.
Print Assumptions C01_fpv_drops_unpaired.

(* early returns *)
Theorem C01_early_returns : forall mx fpv cell ok n m,
  match_core mx fpv cell ok 0 m = [] /\
  match_core mx false cell ok n 0 = map unpaired (seq 0 n).
Proof. intros. split; [apply match_core_no_est|apply match_core_no_gt]. Qed.
Print Assumptions C01_early_returns.

(* pairs first (in pick order), then the leftover estimates in increasing input order *)
Theorem C01_order : forall mx fpv cell ok n m,
  exists ps rest,
    match_core mx fpv cell ok n m = map paired ps ++ map unpaired rest /\ StronglySorted lt rest.
Proof. exact match_core_order. Qed.
Print Assumptions C01_order.

(* the explicit fuel (`for _ in range(number of rows)`) is never what ends a loop: after stage 1 the
   masked table restricted to the alive rows/columns is all-NaN, after stage 2 the raw one is *)
Theorem C01_fuel_suffices : forall mx cell ok n m,
  let s := match_stages mx cell ok n m in
  argbest mx (masked cell ok) (st_mid_est s) (st_mid_gt s) = None /\
  argbest mx cell (st_rest_est s) (st_rest_gt s) = None.
Proof. intros. apply (stages_fuel_suffices mx cell ok n m), match_stages_ok. Qed.
Print Assumptions C01_fuel_suffices.

(* popping by position (what the code does) = removing the chosen index value (what the proofs use) *)
Theorem C01_pop_by_position : forall fuel mx key es gs,
  stage_pos fuel mx key es gs = stage fuel mx key es gs.
Proof. exact stage_pos_eq. Qed.
Print Assumptions C01_pop_by_position.

(* non-vacuity: 4 estimates, 3 ground truths, two frames, a radius of 1 m for GT 0 and GT 1:
   est 0 is exactly on the radius of GT 0 (not matchable), est 1 is inside, est 2 is in another
   frame, est 3 shares its label with GT 2 only (stage 1); under ALLOW_ANY the order of picks changes. *)
Definition ex_facts : Facts :=
  mkFacts [0; 0; 1; 0]%nat [0; 0; 0]%nat [Some 1; Some 1; None]
          [false; false; false; false] [false; false; false]
          [[Some 1; Some 3; Some 5]; [Some (1#2); Some 2; Some 4]; [None; None; None]; [Some 3; Some (1#4); Some 2]]
          [[true; false; false]; [true; false; false]; [true; false; false]; [false; false; true]].

Example C01_nonvacuous :
  facts_wf ex_facts = true /\
  get_object_results CENTERDISTANCE P_DEFAULT false ex_facts = [(1, Some 0); (3, Some 2); (0, None); (2, None)]%nat /\
  get_object_results CENTERDISTANCE P_DEFAULT true ex_facts = [(1, Some 0); (3, Some 2)]%nat /\
  get_object_results CENTERDISTANCE P_ALLOW_ANY false ex_facts = [(3, Some 1); (1, Some 0); (0, Some 2); (2, None)]%nat.
Proof. vm_compute. repeat split; reflexivity. Qed.
