(* C07 -- Evaluation results do not depend on the coordinate frame of the objects.
   One physical scene: ego-frame objects (boxes b, points p) and their map-frame rendering through
   the ego pose (move_box m b, move_pt3 m p, apply_point T p).  The theorems say that every number
   and every decision the pipeline derives from the map rendering (the way the code derives it:
   ego-relative coordinates through the inverse transform, corner ranking through the inverse
   transform, distances in the map frame) equals the one derived from the ego rendering; the
   downstream models (filter C10, matcher C01/C02, TP decision and AP C04, heading weight C09)
   are then shown to depend on those numbers only up to ==.
   Statements only; proofs in Proofs/FrameInvProofs.v and in the proofs of C06, C09, C18. *)
From Coq Require Import List Bool ZArith String.
From PE Require Import Base.QUtil Model.Geom2 Model.Filter Model.Matching Model.AP Model.FrameInv
                       Model.Transform Model.Heading
                       Proofs.Geom2Proofs Proofs.TransformProofs Proofs.HeadingProofs
                       Proofs.APKinds Proofs.FrameInvProofs Model.Clear Proofs.ClearEquiv Model.Clip Proofs.ClipArea.
Import ListNotations.
Open Scope Q_scope.

(* ---- A. ego-relative coordinates ------------------------------------------------------------------------ *)
(* any ego pose (unit quaternion + translation): transforming a map-frame point back with the
   inverse of the ego->map transform gives the ego-frame point exactly (C18) *)
Theorem C07_ego_position_recovered_any_pose : forall (T : rigid) (p : vec3),
  qnorm2 (rq T) == 1 -> veq (apply_point (inv T) (apply_point T p)) p.
Proof. intros T p H. now apply inv_apply_cancel_point. Qed.
Print Assumptions C07_ego_position_recovered_any_pose.

(* yaw + translation poses acting on the boxes of C06 *)
Theorem C07_ego_position_recovered : forall (m : motion) (x y z : Q),
  motion_unit m ->
  let '(x', y', z') := unmove_pt3 m (move_pt3 m (x, y, z)) in x' == x /\ y' == y /\ z' == z.
Proof. exact unmove_move_pt3. Qed.
Print Assumptions C07_ego_position_recovered.

(* ---- B. range filtering (the keep predicate of C10) ------------------------------------------------------- *)
(* position facts (x, y, planar distance d >= 0 with d^2 = x^2 + y^2) with equal x and y are
   equivalent, and the keep predicate decides the same on equivalent position facts *)
Theorem C07_range_filter_decision_invariant : forall c is_gt o x y d x' y' d',
  pos_facts_ok (x, y, d) -> pos_facts_ok (x', y', d') -> x == x' -> y == y' ->
  kept c true is_gt (set_pos o (Some (x, y, d))) = kept c true is_gt (set_pos o (Some (x', y', d'))).
Proof.
  intros c is_gt o x y d x' y' d' H1 H2 Hx Hy. apply kept_pos_equiv. now apply pos_facts_equiv.
Qed.
Print Assumptions C07_range_filter_decision_invariant.

(* ---- C. per-pair scores ---------------------------------------------------------------------------------------- *)
Theorem C07_center_distance_invariant : forall (m : motion) (e g : box),
  motion_unit m -> center_sq (move_box m e) (move_box m g) == center_sq e g.
Proof. exact center_sq_rigid. Qed.
Print Assumptions C07_center_distance_invariant.

(* plane distance of the map rendering as the code computes it (corner ranking by the ego-relative
   distances recovered through the inverse transform, distances between map-frame corners) *)
Theorem C07_plane_distance_invariant : forall (m : motion) (e g : box),
  motion_unit m -> oQeq (plane_sq_map m e g) (plane_sq_box e g).
Proof. exact plane_sq_map_invariant. Qed.
Print Assumptions C07_plane_distance_invariant.

Theorem C07_height_intersection_invariant : forall (m : motion) (e g : box),
  height_intersection (move_box m e) (move_box m g) == height_intersection e g.
Proof. exact height_intersection_move. Qed.
Print Assumptions C07_height_intersection_invariant.

(* IoU: conditional on the footprint intersection area being invariant (shapely; trusted base of C06) *)
Theorem C07_iou_invariant : forall inter : box -> box -> Q,
  (forall m e g, motion_unit m -> box_valid e -> box_valid g ->
     inter (move_box m e) (move_box m g) == inter e g) ->
  forall m e g, motion_unit m -> box_valid e -> box_valid g ->
  iou2_box inter (move_box m e) (move_box m g) == iou2_box inter e g /\
  iou3_box inter (move_box m e) (move_box m g) == iou3_box inter e g.
Proof.
  intros inter H m e g Um Ve Vg. split; [now apply iou2_rigid_invariant|now apply iou3_rigid_invariant].
Qed.
Print Assumptions C07_iou_invariant.

(* ... and unconditionally for the exact evaluator of the intersection area (Sutherland-Hodgman + shoelace, Model/Clip.v), with
   which shapely is compared on every run: its rigid invariance is proved in Proofs/ClipArea.v *)
Theorem C07_iou_invariant_exact_evaluator : forall (m : motion) (e g : box),
  motion_unit m -> box_valid e -> box_valid g ->
  iou2_clip (move_box m e) (move_box m g) == iou2_clip e g /\
  iou3_clip (move_box m e) (move_box m g) == iou3_clip e g.
Proof. intros m e g Um Ve Vg. now apply iou_clip_rigid_invariant. Qed.
Print Assumptions C07_iou_invariant_exact_evaluator.

(* heading agreement (APH weight): the pair rotated by any ego yaw e (pi-units, with wrap-around) *)
Theorem C07_heading_weight_invariant : forall (e : Q) (est gt : orientation),
  valid_yaw (yaw_of est) -> valid_yaw (yaw_of gt) -> valid_yaw e ->
  aph_weight true (in_map e est) (in_map e gt) == aph_weight false est gt.
Proof. intros e est gt H1 H2 He. now apply aph_weight_frame_independent. Qed.
Print Assumptions C07_heading_weight_invariant.

(* ---- D. the downstream decisions depend on the scores only up to == ---------------------------------------- *)
(* matching: same pairs, same order, same leftovers for score tables that agree up to == *)
Theorem C07_matching_invariant : forall mx fpv (c c' : nat -> nat -> option Q) ok n m,
  (forall e g, cell_equiv (c e g) (c' e g)) ->
  match_core mx fpv c ok n m = match_core mx fpv c' ok n m.
Proof. exact match_core_equiv. Qed.
Print Assumptions C07_matching_invariant.

(* TP/FP decision of a pair *)
Theorem C07_tp_decision_invariant : forall md v v' t t',
  cell_equiv v v' -> t == t' -> better_than md v t = better_than md v' t'.
Proof. exact better_than_ext. Qed.
Print Assumptions C07_tp_decision_invariant.

(* AP / APH: the same ranking with TP weights that agree up to == *)
Theorem C07_ap_invariant : forall n ks ks',
  Forall2 kind_equiv ks ks' -> weights_ok ks -> ap_of_kinds n ks == ap_of_kinds n ks'.
Proof. exact ap_of_kinds_equiv. Qed.
Print Assumptions C07_ap_invariant.

(* CLEAR (MOTA, MOTP, id switches): two histories of object results with the same identities, labels and
   label decisions and with matching scores that are equal as numbers (sections C above) -- the ego and the
   map rendering of one tracked scene -- give identical TP / FP / id-switch / result counters and equal
   MOTA and MOTP, for every history length, every threshold table and both optimisation directions *)
Theorem C07_clear_invariant : forall md (T T' : Clear.targets) numgt (h h' : list Clear.frame),
  targets_equiv T T' -> Forall2 frame_equiv h h' ->
  let k := make_clear md T numgt h in
  let k' := make_clear md T' numgt h' in
  c_tp (k_cnt k) = c_tp (k_cnt k') /\ c_fp (k_cnt k) = c_fp (k_cnt k') /\ c_sw (k_cnt k) = c_sw (k_cnt k') /\
  c_num (k_cnt k) = c_num (k_cnt k') /\
  oQ_equiv (k_mota k) (k_mota k') /\ oQ_equiv (k_motp k) (k_motp k').
Proof. exact clear_frame_invariant. Qed.
Print Assumptions C07_clear_invariant.

(* ---- non-vacuity: a rational ego pose (yaw with cos = 3/5, sin = 4/5, translation (10, -7, 1/2)) ---------- *)
Example C07_nonvacuous :
  let m := mkMotion (3 # 5) (4 # 5) (-40) (-7) (1 # 2) in
  let e := mkBox 12 3 0 1 0 2 4 (3 # 2) in
  let g := mkBox (25 # 2) (7 # 2) 0 (4 # 5) (3 # 5) 2 4 (3 # 2) in
  motion_unit m /\
  ~ center_sq (move_box m e) (move_box m g) == 0 /\
  plane_sq_map m e g <> None /\
  (* ranking the corners by their MAP-frame norms instead would give another number here *)
  ~ oQeq (plane_sq_box (move_box m e) (move_box m g)) (plane_sq_map m e g).
Proof.
  cbv zeta. split; [vm_compute; reflexivity|]. split; [vm_compute; discriminate|].
  split; vm_compute; discriminate.
Qed.

(* two renderings of a two-frame track whose scores are the same numbers written differently (1/2 = 2/4):
   the hypotheses of C07_clear_invariant hold and the history is not trivial (one TP, one switch) *)
Example C07_nonvacuous_clear :
  let g (i : nat) (s : Q) := Some (mkG i 1 false true s) in
  let h  := [[mkR 7 1 (g 0%nat (1 # 2))]; [mkR 8 1 (g 0%nat (1 # 4))]] in
  let h' := [[mkR 7 1 (g 0%nat (2 # 4))]; [mkR 8 1 (g 0%nat (2 # 8))]] in
  targets_equiv [(1%nat, 1)] [(1%nat, 2 # 2)] /\ Forall2 frame_equiv h h' /\
  c_tp (k_cnt (make_clear Dist [(1%nat, 1)] 1 h)) = 1%nat /\ c_sw (k_cnt (make_clear Dist [(1%nat, 1)] 1 h)) = 1%nat.
Proof.
  cbv zeta. split; [repeat constructor; reflexivity|]. split.
  - repeat constructor; simpl; try reflexivity.
  - split; vm_compute; reflexivity.
Qed.
