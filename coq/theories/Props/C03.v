(* C03 -- Per-frame TP/FP/FN/TN accounting conserves objects.
   Model: Model/PassFail.v (evaluate_frame = critical filtering through the C10 model, then
   get_positive_objects / get_negative_objects as PassFailResult.evaluate calls them);
   proofs: Proofs/PassFailProofs.v.  All statements quantify over all result lists, all ground-truth
   lists, all critical filters and all pass/fail thresholds.

   Hypotheses ([frame_hyps], Proofs/PassFailProofs.v):
     h_crit    wf_cfg crit                 per-label lists as long as the (non-empty) target list
     h_pf      pf_ok pf                    threshold list as long as the pass/fail target list
     h_frame   wf_frame rs gts             matching one-to-one (this is C01's theorem), every matched ground
                                           truth belongs to the frame, identities distinct, ground-truth
                                           __eq__ keys (time, label, position, orientation) pairwise distinct
     h_points  obj_ok crit true g          ground truth has a point count if a point bound is configured
   The confidence list plays no part for ground truth (C10_confidence_estimates_only; repaired in /repo by
   54ea74c), so no hypothesis about ground-truth scores is needed: C03_nonvacuous_gt_confidence. *)
From Coq Require Import List Bool ZArith String Permutation.
From PE Require Import Base.QUtil Model.Filter Model.PassFail Proofs.FilterProofs Proofs.PassFailProofs.
Import ListNotations.
Open Scope Q_scope.

Definition C03_statement : Prop :=
  forall crit pf rs gts F,
    frame_hyps crit pf rs gts -> evaluate_frame crit pf rs gts = Ok F ->
    (* results = TP + FP *)
    Permutation (map est_id (f_tp F) ++ map est_id (f_fp F)) (map est_id (f_results F)) /\
    (* every critical GT exactly once *)
    (forall g, In g (f_gts F) ->
       (lbl_is_fp (o_label g) = false ->
          (cnt (o_id g) (gt_ids (f_tp F)) + cnt (o_id g) (ids (f_fn F)) = 1)%nat) /\
       (lbl_is_fp (o_label g) = true ->
          (cnt (o_id g) (ids (f_tn F)) + cnt (o_id g) (gt_ids (f_fp F)) = 1)%nat)) /\
    (* ordinary critical GT = TP + FN *)
    List.length (filter ordinary (f_gts F)) = (List.length (f_tp F) + List.length (f_fn F))%nat /\
    (* TP soundness *)
    (forall r, In r (f_tp F) ->
       exists g, r_gt r = Some g /\ lbl_is_fp (o_label g) = false /\ r_label_ok r = true /\
                 forall t, thr_of pf (o_label g) = Some t -> exists v, r_score r = Some v /\ v < t) /\
    (* nothing outside the critical region is counted *)
    (forall r, In r (f_tp F ++ f_fp F) -> kept (est_side crit) true false (r_est r) = true) /\
    (forall g, In g (f_tn F ++ f_fn F) \/ (exists r, In r (f_tp F ++ f_fp F) /\ r_gt r = Some g) ->
       In g gts /\ kept crit true true g = true).

(* 1. every surviving result is exactly one of TP / FP *)
Theorem C03_results_partition :
  forall crit pf rs gts F, pf_ok pf -> evaluate_frame crit pf rs gts = Ok F ->
    Permutation (map est_id (f_tp F) ++ map est_id (f_fp F)) (map est_id (f_results F)) /\
    List.length (f_results F) = (List.length (f_tp F) + List.length (f_fp F))%nat.
Proof. exact results_partition. Qed.
Print Assumptions C03_results_partition.

(* 2. every critical ordinary ground truth is the ground truth of exactly one TP xor exactly once in FN
      (and never in TN); every critical FP-labelled ground truth is exactly once in TN xor the ground
      truth of exactly one FP result (and never in FN / under a TP).  [cnt x l] = occurrences of x in l *)
Theorem C03_gt_accounted_once :
  forall crit pf rs gts F, frame_hyps crit pf rs gts -> evaluate_frame crit pf rs gts = Ok F ->
    forall g, In g (f_gts F) ->
      (lbl_is_fp (o_label g) = false ->
         (cnt (o_id g) (gt_ids (f_tp F)) + cnt (o_id g) (ids (f_fn F)) = 1)%nat /\ cnt (o_id g) (ids (f_tn F)) = O) /\
      (lbl_is_fp (o_label g) = true ->
         (cnt (o_id g) (ids (f_tn F)) + cnt (o_id g) (gt_ids (f_fp F)) = 1)%nat /\
         cnt (o_id g) (ids (f_fn F)) = O /\ cnt (o_id g) (gt_ids (f_tp F)) = O).
Proof. exact gt_accounted_once. Qed.
Print Assumptions C03_gt_accounted_once.

(* 3. hence |ordinary critical ground truths| = |TP| + |FN| *)
Theorem C03_ordinary_gt_count :
  forall crit pf rs gts F, frame_hyps crit pf rs gts -> evaluate_frame crit pf rs gts = Ok F ->
    List.length (filter ordinary (f_gts F)) = (List.length (f_tp F) + List.length (f_fn F))%nat.
Proof. exact ordinary_gt_count. Qed.
Print Assumptions C03_ordinary_gt_count.

(* 4. a TP is a surviving result with an ordinary, label-compatible ground truth whose pass/fail score is
      strictly better than the threshold configured for the GROUND TRUTH's label (if one is configured) *)
Theorem C03_tp_sound :
  forall crit pf rs gts F, pf_ok pf -> evaluate_frame crit pf rs gts = Ok F ->
    forall r, In r (f_tp F) ->
      In r (f_results F) /\
      exists g, r_gt r = Some g /\ lbl_is_fp (o_label g) = false /\ r_label_ok r = true /\
                forall t, thr_of pf (o_label g) = Some t -> exists v, r_score r = Some v /\ v < t.
Proof. exact tp_sound. Qed.
Print Assumptions C03_tp_sound.

(* 5. no estimate or ground truth outside the critical region is counted: every counted estimate satisfies
      the critical predicate (on its ego-relative coordinates, whichever frame it is expressed in), every
      ground truth under a TP/FP or in TN/FN is a critical ground truth of the frame *)
Theorem C03_counted_inside :
  forall crit pf rs gts F, frame_hyps crit pf rs gts -> evaluate_frame crit pf rs gts = Ok F ->
    (forall r, In r (f_tp F ++ f_fp F) ->
       kept (est_side crit) true false (r_est r) = true /\
       forall g, r_gt r = Some g -> In g (f_gts F)) /\
    (forall g, In g (f_tn F ++ f_fn F) -> In g (f_gts F)) /\
    (forall g, In g (f_gts F) -> In g gts /\ kept crit true true g = true).
Proof. exact counted_inside. Qed.
Print Assumptions C03_counted_inside.

(* 6. PassFailResult.get_num_success / get_num_fail *)
Theorem C03_num_success_fail :
  forall crit pf rs gts F, pf_ok pf -> evaluate_frame crit pf rs gts = Ok F ->
    num_success F = (List.length (f_tp F) + List.length (f_tn F))%nat /\
    num_fail F = (List.length (f_fp F) + List.length (f_fn F))%nat /\
    (num_success F + num_fail F = List.length (f_results F) + List.length (f_tn F) + List.length (f_fn F))%nat.
Proof. exact num_success_fail. Qed.
Print Assumptions C03_num_success_fail.

(* get_status as documented: no ground truth -> (FP, None); otherwise by is_result_correct, inverted
   for FP-labelled ground truth; threshold None = label only *)
Theorem C03_get_status_cases :
  forall thr r,
    match r_gt r with
    | None => get_status thr r = (FP, None)
    | Some g =>
        get_status thr r =
          match is_result_correct thr r, lbl_is_fp (o_label g) with
          | true, false => (TP, Some TP)
          | true, true => (FP, Some TN)
          | false, false => (FP, Some FN)
          | false, true => (FP, Some FP)
          end /\
        (thr = None -> is_result_correct thr r = r_label_ok r)
    end.
Proof.
  intros thr r. unfold get_status, is_result_correct. destruct (r_gt r) as [g|]; [|reflexivity].
  split; [|intros ->; reflexivity].
  destruct thr; destruct (lbl_is_fp (o_label g)); repeat match goal with |- context [if ?b then _ else _] => destruct b end; reflexivity.
Qed.
Print Assumptions C03_get_status_cases.

Theorem C03_all_clauses : C03_statement.
Proof.
  intros crit pf rs gts F Hh H. pose proof (h_pf _ _ _ _ Hh) as Hpf.
  destruct (counted_inside _ _ _ _ _ Hh H) as (I1 & I2 & I3).
  split; [exact (proj1 (results_partition _ _ _ _ _ Hpf H))|].
  split.
  { intros g Hg. destruct (gt_accounted_once _ _ _ _ _ Hh H g Hg) as [A B]. split; intros E; [apply A|apply B]; exact E. }
  split; [exact (ordinary_gt_count _ _ _ _ _ Hh H)|].
  split.
  { intros r Hr. destruct (tp_sound _ _ _ _ _ Hpf H r Hr) as [_ X]. exact X. }
  split.
  { intros r Hr. apply I1; assumption. }
  intros g [Hg|[r [Hr Eg]]]; apply I3; [apply I2; assumption|]. apply (proj2 (I1 r Hr)). assumption.
Qed.
Print Assumptions C03_all_clauses.

(* ---- non-vacuity: a frame with every status; the hypotheses hold on it ---- *)
Definition xo (id lbl : nat) (conf x y : Q) (u : string) : Obj :=
  mkObj id lbl "car" [] conf (Some u) true (Some (x, y, qabs x + qabs y)) (Some 3%Z) id.
Definition ex_crit : Cfg := mkCfg (Some [2; 7]%nat) None (Some [10; 10]) (Some [5; 5]) None None None (Some [1 # 4; 1 # 4]) None.
Definition ex_pf : PF := mkPF (Some [2; 7; 1]%nat) (Some [1; 1; 1]).
Definition ex_gts : list Obj :=
  [xo 0 2 1 1 0 "a"; xo 1 2 1 4 2 "b"; xo 2 1 1 4 (-4) "c"; xo 3 1 1 (-6) (-4) "d"; xo 4 2 1 0 3 "e"; xo 5 1 1 0 (-3) "f";
   xo 6 2 1 30 0 "g"].
Definition ex_rs : list Res :=
  [mkRes (xo 0 2 (1 # 2) (3 # 2) 0 "") (Some (xo 0 2 1 1 0 "a")) true (Some (1 # 2));       (* TP *)
   mkRes (xo 1 2 (1 # 2) 5 2 "") (Some (xo 1 2 1 4 2 "b")) true (Some 1);                    (* score on the threshold: FN *)
   mkRes (xo 2 2 (1 # 2) 2 (-4) "") (Some (xo 2 1 1 4 (-4) "c")) true (Some 2);              (* FP-labelled GT missed: TN *)
   mkRes (xo 3 2 (1 # 2) (-13 # 2) (-4) "") (Some (xo 3 1 1 (-6) (-4) "d")) true (Some (1 # 2)); (* FP-labelled GT hit: FP *)
   mkRes (xo 4 2 (1 # 2) 8 4 "") None false None;                                            (* no GT: FP *)
   mkRes (xo 5 2 (1 # 2) 31 0 "") (Some (xo 6 2 1 30 0 "g")) true (Some 1)].                 (* outside the region *)

Example C03_nonvacuous_hyps : frame_hyps ex_crit ex_pf ex_rs ex_gts.
Proof.
  constructor.
  - unfold wf_cfg, len_ok, ex_crit; simpl.
    repeat split; intros l H; try discriminate; inversion H; subst; (exists [2; 7]%nat; repeat split; [discriminate]).
  - intros ts l H1 H2. inversion H1; inversion H2; subst. reflexivity.
  - constructor.
    + vm_compute. repeat constructor; simpl; intuition discriminate.
    + vm_compute. repeat constructor; simpl; intuition discriminate.
    + intros r g Hr Hg. simpl in Hr. unfold ex_gts.
      repeat (destruct Hr as [<-|Hr]; [simpl in Hg; inversion Hg; subst; simpl; tauto|]). destruct Hr.
    + vm_compute. repeat constructor; simpl; intuition discriminate.
    + vm_compute. repeat constructor; simpl; intuition discriminate.
  - intros g Hg _ _. simpl in Hg. repeat (destruct Hg as [<-|Hg]; [discriminate|]). destruct Hg.
Qed.

Example C03_nonvacuous_run :
  match evaluate_frame ex_crit ex_pf ex_rs ex_gts with
  | Ok F =>
      map res_pair (f_results F) = [(0, Some 0); (1, Some 1); (2, Some 2); (3, Some 3); (4, None)]%nat /\
      ids (f_gts F) = [0; 1; 2; 3; 4; 5]%nat /\
      map res_pair (f_tp F) = [(0, Some 0)]%nat /\
      map res_pair (f_fp F) = [(1, Some 1); (2, None); (3, Some 3); (4, None)]%nat /\
      ids (f_tn F) = [2; 5]%nat /\ ids (f_fn F) = [1; 4]%nat /\
      num_success F = 3%nat /\ num_fail F = 6%nat
  | _ => False
  end.
Proof. vm_compute. repeat split. Qed.

(* ---- the two hypotheses that are not cosmetic ---- *)
(* two ground truths with the same __eq__ key: the unmatched one is mistaken for the matched one by the
   `in non_candidates` test and is neither TP nor FN *)
Example C03_gt_key_collision_example :
  exists crit pf rs gts F g,
    wf_cfg crit /\ pf_ok pf /\ NoDup (map est_id rs) /\ NoDup (gt_ids rs) /\ NoDup (map o_id gts) /\
    evaluate_frame crit pf rs gts = Ok F /\ In g (f_gts F) /\ lbl_is_fp (o_label g) = false /\
    (cnt (o_id g) (gt_ids (f_tp F)) + cnt (o_id g) (ids (f_fn F)) = 0)%nat.
Proof.
  exists (mkCfg (Some [2]%nat) None None None None None None None None), (mkPF (Some [2]%nat) (Some [1])),
         [mkRes (xo 0 2 (1 # 2) 1 0 "") (Some (mkObj 0 2 "car" [] 1 (Some "a"%string) true (Some (1, 0, 1)) (Some 3%Z) 7)) true (Some 0)],
         [mkObj 0 2 "car" [] 1 (Some "a"%string) true (Some (1, 0, 1)) (Some 3%Z) 7;
          mkObj 1 2 "car" [] 1 (Some "b"%string) true (Some (1, 0, 1)) (Some 3%Z) 7].
  eexists. exists (mkObj 1 2 "car" [] 1 (Some "b"%string) true (Some (1, 0, 1)) (Some 3%Z) 7).
  split. { unfold wf_cfg, len_ok; simpl. repeat split; intros l H; discriminate. }
  split. { intros ts l H1 H2. inversion H1; inversion H2; subst. reflexivity. }
  split. { vm_compute. repeat constructor; simpl; tauto. }
  split. { vm_compute. repeat constructor; simpl; tauto. }
  split. { vm_compute. repeat constructor; simpl; intuition discriminate. }
  split. { vm_compute. reflexivity. }
  vm_compute. repeat split. right; left; reflexivity.
Qed.

(* the former confidence gap (threshold 1 for the ground truth's label = its own score): the ground truth is
   critical, and it is the one FN -- 1 critical GT, TP + FN = 0 + 1 *)
Example C03_nonvacuous_gt_confidence :
  let crit := mkCfg (Some [2; 7]%nat) None (Some [10; 10]) (Some [10; 10]) None None None (Some [1 # 2; 1]) None in
  let pf := mkPF (Some [2; 7]%nat) (Some [1; 1]) in
  let rs := [mkRes (xo 0 2 (9 # 10) 1 0 "") (Some (xo 0 7 1 1 0 "a")) false (Some 0)] in
  let gts := [xo 0 7 1 1 0 "a"] in
  frame_hyps crit pf rs gts /\
  match evaluate_frame crit pf rs gts with
  | Ok F => ids (f_gts F) = [0]%nat /\ f_tp F = [] /\ ids (f_fn F) = [0]%nat /\ map res_pair (f_fp F) = [(0, Some 0)]%nat
  | _ => False
  end.
Proof.
  cbv zeta. split.
  - constructor.
    + unfold wf_cfg, len_ok; simpl. repeat split; intros l H; try discriminate; inversion H; subst;
        (exists [2; 7]%nat; repeat split; [discriminate]).
    + intros ts l H1 H2. inversion H1; inversion H2; subst. reflexivity.
    + constructor; try (vm_compute; repeat constructor; simpl; tauto).
      intros r g [<-|[]] Hg. inversion Hg; subst. left; reflexivity.
    + intros g _ _ H. exfalso. apply H. reflexivity.
  - vm_compute. repeat split.
Qed.
