(* Redundant tie, TRACKING layer: the loop functions of the CLEAR metrics (and the frame lookup) are re-translated from the Python
   `ast` on every run (translator/loops_tracking.py -> Gen/loops_tracking.v: a `for` is a fold_left in the error monad, a `break` is a
   flag in the loop state after which the remaining iterations do nothing) and every theorem below says that a generated definition
   EQUALS the hand-model definition the property theorems (Props/C05.v, Props/C17.v) are about, for ALL inputs (lists of any length:
   the induction is in the loop rules of Proofs/GenTieLoopsLemmas.v).  Each theorem is self-contained (compiled on its own by the
   harness).  What a generated function returns OUTSIDE the guard of its main equation is stated by the `_outside` theorem that
   follows it; a theorem without one has no guard. *)
From Coq Require Import List Bool ZArith Arith Lia.
From PE Require Import Base.QUtil Proofs.GenTieLoopsLemmas Proofs.GenTieTrackingLemmas.
From PE Require Model.Clear Model.Lookup Model.Filter.
From PE Require Gen.loops_tracking.
Import Gen.loops_tracking.
Import ListNotations.
Import Filter.
Open Scope Q_scope.

(* ---- CLEAR._calculate_tp_fp = Clear.calc_tp_fp (one frame against the previous one: search with two breaks, four counters) ---- *)
(* no guard: the function is total (it indexes nothing).  First statement: tp_metrics.get_value is any function w of the result
   (the counters are then the weighted ones, [wcalc]: the weight of a carried TP is that of the PREVIOUS frame's result);
   second statement: for the default TPMetricsAp (1.0 for every TP) the four returned values are the counters of the hand model,
   tp and fp as the floats the code holds. *)
Theorem GenTie_CLEAR__calculate_tp_fp :
  (forall (w : Clear.result -> Q) (m : Clear.mode) (T : Clear.targets) (cur_object_results prev_object_results : Clear.frame),
     Gen_CLEAR__calculate_tp_fp.f w m T cur_object_results prev_object_results =
       Ok (wcalc w m T prev_object_results cur_object_results)) /\
  (forall (m : Clear.mode) (T : Clear.targets) (cur_object_results prev_object_results : Clear.frame),
     Gen_CLEAR__calculate_tp_fp.f (fun _ => 1) m T cur_object_results prev_object_results =
       Ok (let k := Clear.calc_tp_fp m T prev_object_results cur_object_results in
           (Qnat (Clear.c_tp k), Qnat (Clear.c_fp k), Clear.c_sw k, Clear.c_score k))).
Proof.
  assert (H : forall w m T curs prevs, Gen_CLEAR__calculate_tp_fp.f w m T curs prevs = Ok (wcalc w m T prevs curs)).
  { intros w m T curs prevs. unfold Gen_CLEAR__calculate_tp_fp.f. clear_tp_fp_script w m T prevs curs. }
  split; [exact H|].
  intros m T curs prevs. rewrite H, wcalc_one. reflexivity.
Qed.
Print Assumptions GenTie_CLEAR__calculate_tp_fp.

Example GenTie_CLEAR__calculate_tp_fp_nonvacuous :
  let g i s := Some (Clear.mkG i 0 false true s) in
  let prevs := [Clear.mkR 1 0 (g 10%nat (1 # 4)); Clear.mkR 2 0 (g 20%nat (1 # 8)); Clear.mkR 3 0 (g 30%nat 5)] in
  let curs := [Clear.mkR 1 0 (g 10%nat (1 # 2));      (* same pair as a previous TP: carried with the previous score 1/4 *)
               Clear.mkR 2 0 (g 40%nat (3 # 8));      (* track 2 now on another ground truth: TP + id switch *)
               Clear.mkR 3 0 (g 30%nat (3 # 4));      (* the previous pair was not a TP (5 >= 1): TP on its own *)
               Clear.mkR 4 0 None;                    (* no ground truth: FP *)
               Clear.mkR 5 7 None] in                 (* label 7 is not evaluated: skipped *)
  let T := [(0%nat, 1)] in
  Gen_CLEAR__calculate_tp_fp.f (fun _ => 1) Clear.Dist T curs prevs = Ok (1 + 1 + 1, 0 + 1, 1%nat, 0 + (1 # 4) + (3 # 8) + (3 # 4)) /\
  Clear.calc_tp_fp Clear.Dist T prevs curs = Clear.mkC 3 1 1 (0 + (1 # 4) + (3 # 8) + (3 # 4)) 0 /\
  (* the weight of a carried TP is read from the previous frame's result *)
  Gen_CLEAR__calculate_tp_fp.f (fun r => Qnat (Clear.r_est r) + Clear.score_of r) Clear.Dist T [Clear.mkR 1 0 (g 10%nat (1 # 2))] prevs
    = Ok (0 + (Qnat 1 + (1 # 4)), 0, 0%nat, 0 + (1 # 4)).
Proof. vm_compute. repeat split. Qed.

(* ---- CLEAR._calculate_score = Clear.mota_of / Clear.motp_of (inf = None; both divisions are guarded by the code itself) ------- *)
(* no guard: first statement for any attribute values (tp, fp are floats: any rationals), [score_general] =
     ( None if num_ground_truth = 0 else Some (max0 ((tp - fp - id_switch) / num_ground_truth)),  None if tp == 0.0 else Some (score / tp) );
   second statement: on the counters of the hand model these are its MOTA / MOTP. *)
Theorem GenTie_CLEAR__calculate_score :
  (forall (num_ground_truth : nat) (tp fp : Q) (id_switch : nat) (tp_matching_score : Q),
     Gen_CLEAR__calculate_score.f num_ground_truth tp fp id_switch tp_matching_score =
       Ok (score_general num_ground_truth tp fp id_switch tp_matching_score)) /\
  (forall (num_ground_truth : nat) (a : Clear.counters),
     Gen_CLEAR__calculate_score.f num_ground_truth (Qnat (Clear.c_tp a)) (Qnat (Clear.c_fp a)) (Clear.c_sw a) (Clear.c_score a) =
       Ok (Clear.mota_of num_ground_truth a, Clear.motp_of a)).
Proof.
  assert (H : forall n tp fp sw sc, Gen_CLEAR__calculate_score.f n tp fp sw sc = Ok (score_general n tp fp sw sc)).
  { intros. unfold Gen_CLEAR__calculate_score.f. clear_score_script. }
  split; [exact H|]. intros n a. rewrite H, score_general_model. reflexivity.
Qed.
Print Assumptions GenTie_CLEAR__calculate_score.

Example GenTie_CLEAR__calculate_score_nonvacuous :
  Gen_CLEAR__calculate_score.f 4 3 1 1 (3 # 2) = Ok (Some ((3 - 1 - Qnat 1) / Qnat 4), Some ((3 # 2) / 3)) /\
  Gen_CLEAR__calculate_score.f 4 1 3 1 (3 # 2) = Ok (Some 0, Some ((3 # 2) / 1)) /\      (* negative MOTA is clipped to 0.0 *)
  Gen_CLEAR__calculate_score.f 0 3 1 1 (3 # 2) = Ok (None, Some ((3 # 2) / 3)) /\        (* no ground truth: MOTA = inf *)
  Gen_CLEAR__calculate_score.f 4 0 2 0 0 = Ok (Some 0, None) /\                          (* no TP: MOTP = inf *)
  Clear.mota_of 4 (Clear.mkC 3 1 1 (3 # 2) 9) = Some ((3 - 1 - Qnat 1) / Qnat 4).
Proof. vm_compute. repeat split. Qed.

(* ---- CLEAR.__init__ = Clear.make_clear (accumulation over the frames 1 .. n-1, each against the frame before it, then the scores) - *)
(* no guard: the function is total (object_results[i - 1] always exists; for no frame / one frame every counter is 0).
   The result is the tuple of the attributes the constructor sets:
     (objects_results_num, tp, fp, id_switch, tp_matching_score, mota, motp).
   First statement: any tp_metrics w ([init_result]: weighted counters, then score_general); second: the default TPMetricsAp. *)
Theorem GenTie_CLEAR___init__ :
  (forall (w : Clear.result -> Q) (m : Clear.mode) (T : Clear.targets) (num_ground_truth : nat) (object_results : list Clear.frame),
     Gen_CLEAR___init__.f w m T num_ground_truth object_results = Ok (init_result w m T num_ground_truth object_results)) /\
  (forall (m : Clear.mode) (T : Clear.targets) (num_ground_truth : nat) (object_results : list Clear.frame),
     Gen_CLEAR___init__.f (fun _ => 1) m T num_ground_truth object_results =
       Ok (let k := Clear.make_clear m T num_ground_truth object_results in
           (Clear.c_num (Clear.k_cnt k), Qnat (Clear.c_tp (Clear.k_cnt k)), Qnat (Clear.c_fp (Clear.k_cnt k)),
            Clear.c_sw (Clear.k_cnt k), Clear.c_score (Clear.k_cnt k), Clear.k_mota k, Clear.k_motp k))).
Proof.
  assert (HT : forall w m T curs prevs, Gen_CLEAR__calculate_tp_fp.f w m T curs prevs = Ok (wcalc w m T prevs curs)).
  { intros w m T curs prevs. unfold Gen_CLEAR__calculate_tp_fp.f. clear_tp_fp_script w m T prevs curs. }
  assert (HS : forall n tp fp sw sc, Gen_CLEAR__calculate_score.f n tp fp sw sc = Ok (score_general n tp fp sw sc)).
  { intros. unfold Gen_CLEAR__calculate_score.f. clear_score_script. }
  assert (H : forall w m T n h, Gen_CLEAR___init__.f w m T n h = Ok (init_result w m T n h)).
  { intros w m T n h. unfold Gen_CLEAR___init__.f. clear_init_script w m T n h HT HS. }
  split; [exact H|]. intros m T n h. rewrite H, init_result_one. reflexivity.
Qed.
Print Assumptions GenTie_CLEAR___init__.

Example GenTie_CLEAR___init___nonvacuous :
  let g i s := Some (Clear.mkG i 0 false true s) in
  let f0 := [Clear.mkR 1 0 (g 10%nat (1 # 4)); Clear.mkR 2 0 (g 20%nat (1 # 8))] in
  let f1 := [Clear.mkR 1 0 (g 10%nat (1 # 2)); Clear.mkR 2 0 (g 30%nat (3 # 8)); Clear.mkR 4 0 None] in   (* carried, switch, FP *)
  let f2 := [Clear.mkR 1 0 (g 10%nat (1 # 8)); Clear.mkR 5 7 None] in                                    (* carried (score of f1), skipped *)
  let T := [(0%nat, 1)] in
  exists tp fp sc mota motp,
    Gen_CLEAR___init__.f (fun _ => 1) Clear.Dist T 3 [f0; f1; f2] = Ok (5%nat, tp, fp, 1%nat, sc, Some mota, Some motp) /\
    tp == 3 /\ fp == 1 /\ sc == (1 # 4) + (3 # 8) + (1 # 2) /\ mota == 1 # 3 /\ motp == 3 # 8 /\
    Clear.c_tp (Clear.k_cnt (Clear.make_clear Clear.Dist T 3 [f0; f1; f2])) = 3%nat /\
    Gen_CLEAR___init__.f (fun _ => 1) Clear.Dist T 3 [] = Ok (0%nat, 0, 0, 0%nat, 0, Some 0, None) /\
    Gen_CLEAR___init__.f (fun _ => 1) Clear.Dist T 0 [f0] = Ok (0%nat, 0, 0, 0%nat, 0, None, None).
Proof. do 5 eexists. split; [vm_compute; reflexivity|]. vm_compute. repeat split. Qed.

(* ---- common/dataset.py get_now_frame = Lookup.get_now_frame (minimum |dt|, the first on ties, inclusive tolerance) -------------- *)
(* The leading `if unix_time > 10**17: raise DatasetLoadingError` is the definition [raises_DatasetLoadingError]; [f] is the function
   after it.  guard: the time is not beyond 10^17.  The model identifies a frame by its index, the code returns the object:
   [now_frame_result l r] is Ok None for RNone, Ok (Some (the i-th frame of l)) for RFrame i, IndexError for RError ErrEmpty
   (ground_truth_frames[0] on an empty list); the index the model returns is always a position of the list (second statement). *)
Theorem GenTie_get_now_frame :
  (forall (l : list Lookup.frame) (t tol : Z),
     Z.gtb t Lookup.max_unix_time = false ->
     Gen_get_now_frame.f l t tol = now_frame_result l (Lookup.get_now_frame l t tol)) /\
  (forall (l : list Lookup.frame) (t tol : Z) (i : nat),
     Lookup.get_now_frame l t tol = Lookup.RFrame i -> exists fr, nth_error l i = Some fr) /\
  (forall (t tol : Z), Z.gtb t Lookup.max_unix_time = false ->
     Gen_get_now_frame.f [] t tol = ErrIndex /\ Lookup.get_now_frame [] t tol = Lookup.RError Lookup.ErrEmpty).
Proof.
  split; [|split].
  - intros l t tol Hg. unfold Gen_get_now_frame.f. now_frame_script l t tol Hg.
  - intros l t tol i H. apply nth_error_in_range. exact (get_now_frame_index l t tol i H).
  - intros t tol Hg. split; [reflexivity|]. unfold Lookup.get_now_frame. rewrite Hg. reflexivity.
Qed.
Print Assumptions GenTie_get_now_frame.

(* outside the guard (and everywhere): the guard itself is the model's; beyond 10^17 the code raises and the model says ErrNanosecond *)
Theorem GenTie_get_now_frame_outside :
  (forall (l : list Lookup.frame) (t tol : Z),
     Gen_get_now_frame.raises_DatasetLoadingError l t tol = Ok (Z.gtb t Lookup.max_unix_time)) /\
  (forall (l : list Lookup.frame) (t tol : Z),
     Z.gtb t Lookup.max_unix_time = true -> Lookup.get_now_frame l t tol = Lookup.RError Lookup.ErrNanosecond).
Proof.
  split.
  - intros. reflexivity.
  - intros l t tol H. unfold Lookup.get_now_frame. rewrite H. reflexivity.
Qed.
Print Assumptions GenTie_get_now_frame_outside.

Example GenTie_get_now_frame_nonvacuous :
  let fr s := Lookup.mkFrame s [] None in
  let l := [fr 100; fr 200; fr 300; fr 200]%Z in
  Gen_get_now_frame.f l 250%Z 50%Z = Ok (Some (fr 200%Z)) /\ Lookup.get_now_frame l 250%Z 50%Z = Lookup.RFrame 1 /\   (* tie 200 / 300: the first *)
  Gen_get_now_frame.f l 250%Z 49%Z = Ok None /\ Lookup.get_now_frame l 250%Z 49%Z = Lookup.RNone /\                  (* tolerance is inclusive *)
  Gen_get_now_frame.f l 290%Z 10%Z = Ok (Some (fr 300%Z)) /\ Lookup.get_now_frame l 290%Z 10%Z = Lookup.RFrame 2 /\
  Gen_get_now_frame.f [] 290%Z 10%Z = ErrIndex /\
  Gen_get_now_frame.raises_DatasetLoadingError l (10 ^ 17 + 1)%Z 0%Z = Ok true /\
  Gen_get_now_frame.raises_DatasetLoadingError l (10 ^ 17)%Z 0%Z = Ok false.
Proof. vm_compute. repeat split. Qed.

(* ---- get_interpolated_now_frame, the neighbour search = Lookup.nb_scan + Lookup.gate ------------------------------------------ *)
(* The generated function is the part of get_interpolated_now_frame before its first `return`: the loop that keeps the last frame
   not later than the query and leaves at the first later one (`break`), then the two gates.  Its value is
   (before_frame, after_frame, dt_before, dt_after) at that point.  No guard (total).  [nb_result]: the frames of the gated neighbours
   of the model, and the time differences of the ungated ones (0 when there is none).  Second statement: the index a neighbour of the
   model carries is the position of its frame in the list. *)
Theorem GenTie_neighbour_search :
  (forall (l : list Lookup.frame) (t tol : Z), Gen_neighbour_search.f l t tol = Ok (nb_result t tol l)) /\
  (forall (l : list Lookup.frame) (t : Z) (b a : option Lookup.nb),
     Lookup.nb_scan t l 0 None = (b, a) ->
     (forall j f d, b = Some (j, f, d) -> nth_error l j = Some f) /\ (forall j f d, a = Some (j, f, d) -> nth_error l j = Some f)).
Proof.
  split.
  - intros l t tol. unfold Gen_neighbour_search.f. neighbour_script l t tol.
  - intros l t b a E. pose proof (nb_scan_index t l 0 None) as H. rewrite E in H.
    destruct H as [H1 H2]; [intros; discriminate|]. split; intros j f d Ej.
    + destruct (H1 j f d Ej) as [H|[H _]]; [subst; discriminate|]. rewrite Nat.sub_0_r in H. exact H.
    + destruct (H2 j f d Ej) as [H _]. rewrite Nat.sub_0_r in H. exact H.
Qed.
Print Assumptions GenTie_neighbour_search.

Example GenTie_neighbour_search_nonvacuous :
  let fr s := Lookup.mkFrame s [] None in
  let l := [fr 100; fr 200; fr 300; fr 400]%Z in
  Gen_neighbour_search.f l 250%Z 50%Z = Ok (Some (fr 200%Z), Some (fr 300%Z), 50%Z, 50%Z) /\
  Gen_neighbour_search.f l 210%Z 50%Z = Ok (Some (fr 200%Z), None, 10%Z, 90%Z) /\            (* the later frame is too far: gated *)
  Gen_neighbour_search.f l 50%Z 50%Z = Ok (None, Some (fr 100%Z), 0%Z, 50%Z) /\              (* query before the first frame *)
  Gen_neighbour_search.f l 450%Z 50%Z = Ok (Some (fr 400%Z), None, 50%Z, 0%Z) /\             (* after the last one: no break *)
  Gen_neighbour_search.f [] 450%Z 50%Z = Ok (None, None, 0%Z, 0%Z) /\
  Lookup.nb_scan 250%Z l 0 None = (Some (1%nat, fr 200%Z, 50%Z), Some (2%nat, fr 300%Z, 50%Z)).
Proof. vm_compute. repeat split. Qed.
