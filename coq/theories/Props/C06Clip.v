(* C06 (continued) -- the IoU laws as UNCONDITIONAL theorems about the executable evaluator.
   Props/C06.v part C states the BEV / 3D IoU laws relative to an abstract intersection-area
   function [inter] with seven hypotheses.  Here all seven are proved for the concrete
   exact rational evaluator  inter_clip e g = shoelace area of Sutherland-Hodgman(e clipped by g)
   (Model/Clip.v, the function the correspondence compares with shapely on every run), for ALL
   valid boxes and ALL rigid motions, and the IoU laws are instantiated with no hypothesis about
   an oracle:  in [0,1],  1 for identical footprints,  0 for separated-or-touching footprints,
   3D <= BEV,  symmetric in the two boxes,  invariant under a common yaw rotation about the ego + translation.
   Proofs: Proofs/ClipArea.v, Proofs/ClipAreaSym.v.  "Area" is the shoelace sum throughout (no measure theory).
   All seven hypotheses are proved (part H: symmetry; [C06_clip_inter_satisfies_hypotheses]). *)
From Coq Require Import List ZArith QArith Bool Lia Lqa.
From PE Require Import Base.QUtil Model.Geom2 Model.Clip Proofs.Geom2Proofs Proofs.ClipProofs Proofs.ClipArea
  Proofs.ClipAreaSym.
Import ListNotations.
Open Scope Q_scope.

(* ---------------------------------------------------------------------------------------- *)
(* F. the evaluator's intersection area                                                      *)
(* ---------------------------------------------------------------------------------------- *)
(* non-negative, at most either footprint area, the whole area for identical footprints, 0 when
   some edge of one footprint has the other footprint on its outer side (touching included) *)
Theorem C06_clip_inter_bounds : forall e g : box, box_valid e -> box_valid g ->
  0 <= inter_clip e g /\ inter_clip e g <= area_rect e /\ inter_clip e g <= area_rect g.
Proof.
  intros e g Ve Vg. split; [now apply inter_clip_nonneg|]. split; [now apply inter_clip_le_l|now apply inter_clip_le_r].
Qed.
Print Assumptions C06_clip_inter_bounds.

Theorem C06_clip_inter_identical : forall e g : box, box_valid e -> box_valid g ->
  same_bev e g -> inter_clip e g == area_rect e.
Proof. exact inter_clip_same. Qed.
Print Assumptions C06_clip_inter_identical.

Theorem C06_clip_inter_disjoint_zero : forall e g : box, box_valid e -> box_valid g ->
  boxes_disjoint e g -> inter_clip e g == 0.
Proof. exact inter_clip_disjoint. Qed.
Print Assumptions C06_clip_inter_disjoint_zero.

(* common rotation (mc, ms) about the ego followed by any translation: every inside test of the
   clipper is decided the same way, the crossing points move with the boxes, the shoelace sum of
   the closed result is unchanged *)
Theorem C06_clip_inter_rigid_invariant : forall (m : motion) (e g : box),
  mc m * mc m + ms m * ms m == 1 -> inter_clip (move_box m e) (move_box m g) == inter_clip e g.
Proof. intros m e g Um. exact (inter_clip_rigid m Um e g). Qed.
Print Assumptions C06_clip_inter_rigid_invariant.

(* the general facts behind the bounds, for ANY subject polygon that is convex and counter-
   clockwise in the weak sense (every vertex on the inner side of, or on, every edge; [cpairs P]
   = the cyclically consecutive vertex pairs) and ANY clip polygon: the clipped polygon is again
   convex counter-clockwise, its shoelace sum is between 0 and the subject's *)
Theorem C06_clip_area_monotone : forall subj cl : list pt,
  (forall p, In p subj -> forall u v, In (u, v) (cpairs subj) -> 0 <= cross u v p) ->
  (forall p, In p (clip subj cl) -> forall u v, In (u, v) (cpairs (clip subj cl)) -> 0 <= cross u v p) /\
  0 <= shoelace2 (clip subj cl) <= shoelace2 subj.
Proof. exact clip_pass. Qed.
Print Assumptions C06_clip_area_monotone.

(* Green's formula for one Sutherland-Hodgman pass by the directed line a -> b (a proper
   segment: some c is off the line), about ANY origin o on that line: the shoelace sum of the
   clipped polygon is the sum over the subject's edges (s, e) of the kept fraction [lam] of the
   edge times the triangle term [o, s, e]; the chords created on the line contribute nothing *)
Theorem C06_clip_pass_green : forall (a b c o f : pt) (t : list pt),
  ~ cross a b c == 0 -> cross a b o == 0 ->
  shoelace2 (clip_edge a b (f :: t)) == wsum a b o (lastp f t) (f :: t) /\
  (forall s e, 0 <= lam a b s e <= 1).
Proof.
  intros a b c o f t Hc Ho. split; [exact (clip_edge_wsum a b c Hc o f t Ho)|intros; apply lam_range].
Qed.
Print Assumptions C06_clip_pass_green.

(* a pass never increases the number of times the boundary leaves the inner side of ANY line
   n1 -> n2; a box footprint leaves it at most once (this is what excludes a boundary that winds
   twice, for which the bound by the clip polygon's area would be false) *)
Theorem C06_clip_boundary_once : forall (e g : box) (n1 n2 : pt), box_valid e ->
  (cexs (inside n1 n2) (rcorners e) <= 1)%nat /\
  (cexs (inside n1 n2) (clip (rcorners e) (rcorners g)) <= 1)%nat.
Proof.
  intros e g n1 n2 Ve. split; [apply (Uni_rcorners e Ve)|apply (Uni_clip _ _ (Uni_rcorners e Ve))].
Qed.
Print Assumptions C06_clip_boundary_once.

(* ---------------------------------------------------------------------------------------- *)
(* G. the IoU laws of the evaluator: no hypothesis about an intersection-area oracle          *)
(* ---------------------------------------------------------------------------------------- *)
Theorem C06_clip_iou_unit_interval : forall e g : box, box_valid e -> box_valid g ->
  0 <= iou2_clip e g <= 1 /\ 0 <= iou3_clip e g <= 1.
Proof. intros e g Ve Vg. split; [now apply iou2_clip_unit_interval|now apply iou3_clip_unit_interval]. Qed.
Print Assumptions C06_clip_iou_unit_interval.

Theorem C06_clip_iou3_le_iou2 : forall e g : box, box_valid e -> box_valid g ->
  iou3_clip e g <= iou2_clip e g.
Proof. exact iou3_clip_le_iou2_clip. Qed.
Print Assumptions C06_clip_iou3_le_iou2.

Theorem C06_clip_iou_identical_one : forall e g : box, box_valid e -> box_valid g ->
  (same_bev e g -> iou2_clip e g == 1) /\ iou3_clip e e == 1.
Proof. intros e g Ve Vg. split; [now apply iou2_clip_identical_one|now apply iou3_clip_self]. Qed.
Print Assumptions C06_clip_iou_identical_one.

Theorem C06_clip_iou_disjoint_zero : forall e g : box, box_valid e -> box_valid g ->
  boxes_disjoint e g -> iou2_clip e g == 0 /\ iou3_clip e g == 0.
Proof. exact iou_clip_disjoint_zero. Qed.
Print Assumptions C06_clip_iou_disjoint_zero.

Theorem C06_clip_iou_rigid_invariant : forall (m : motion) (e g : box),
  mc m * mc m + ms m * ms m == 1 -> box_valid e -> box_valid g ->
  iou2_clip (move_box m e) (move_box m g) == iou2_clip e g /\
  iou3_clip (move_box m e) (move_box m g) == iou3_clip e g.
Proof. exact iou_clip_rigid_invariant. Qed.
Print Assumptions C06_clip_iou_rigid_invariant.

(* ---------------------------------------------------------------------------------------- *)
(* H. symmetry of the evaluator                                                               *)
(* ---------------------------------------------------------------------------------------- *)
(* clipping e by g and clipping g by e give the same area.  Ingredients (Proofs/ClipAreaSym.v),
   each stated for general polygons below: cutting by a line is additive; a once-traversed
   polygon inside a convex polygon has at most its shoelace sum; a point of the hull of a proper
   convex polygon is a convex combination of vertices, so a pass cannot collapse a polygon whose
   hull has a point strictly inside the clipping line *)
Theorem C06_clip_inter_symmetric : forall e g : box, box_valid e -> box_valid g ->
  inter_clip e g == inter_clip g e.
Proof. exact inter_clip_sym. Qed.
Print Assumptions C06_clip_inter_symmetric.

Theorem C06_clip_iou_symmetric : forall e g : box, box_valid e -> box_valid g ->
  iou2_clip e g == iou2_clip g e /\ iou3_clip e g == iou3_clip g e.
Proof. exact iou_clip_sym. Qed.
Print Assumptions C06_clip_iou_symmetric.

(* all seven hypotheses of Props/C06.v part C (C06_nonvacuous_inter_hypotheses) hold for the
   evaluator itself: every theorem of part C applies to [inter := inter_clip] *)
Theorem C06_clip_inter_satisfies_hypotheses :
  (forall e g, box_valid e -> box_valid g -> 0 <= inter_clip e g) /\
  (forall e g, box_valid e -> box_valid g -> inter_clip e g <= area_rect e) /\
  (forall e g, box_valid e -> box_valid g -> inter_clip e g <= area_rect g) /\
  (forall e g, box_valid e -> box_valid g -> inter_clip e g == inter_clip g e) /\
  (forall e g, box_valid e -> box_valid g -> same_bev e g -> inter_clip e g == area_rect e) /\
  (forall e g, box_valid e -> box_valid g -> boxes_disjoint e g -> inter_clip e g == 0) /\
  (forall m e g, motion_unit m -> box_valid e -> box_valid g ->
     inter_clip (move_box m e) (move_box m g) == inter_clip e g).
Proof.
  split; [exact inter_clip_nonneg_v|]. split; [exact inter_clip_le_l_v|]. split; [exact inter_clip_le_r|].
  split; [exact inter_clip_sym|]. split; [exact inter_clip_same|]. split; [exact inter_clip_disjoint|].
  exact inter_clip_rigid_v.
Qed.
Print Assumptions C06_clip_inter_satisfies_hypotheses.

(* cutting ANY polygon by a proper directed line: the shoelace sums of the two sides add up *)
Theorem C06_clip_cut_additive : forall (a b c : pt) (P : list pt), ~ cross a b c == 0 ->
  shoelace2 (clip_edge a b P) + shoelace2 (clip_edge b a P) == shoelace2 P.
Proof. exact clip_edge_additive. Qed.
Print Assumptions C06_clip_cut_additive.

(* monotonicity of the shoelace sum: Q is traversed once (leaves the inner side of every line at
   most once), R = r0 :: rs is convex counter-clockwise and not a single point, every vertex of
   Q is on the inner side of (or on) every edge of R *)
Theorem C06_shoelace_monotone : forall (r0 : pt) (rs Q : list pt),
  (forall p, In p (r0 :: rs) -> forall u v, In (u, v) (cpairs (r0 :: rs)) -> 0 <= cross u v p) ->
  ~ (forall x, In x rs -> pt_eq x r0) ->
  (forall n1 n2, (cexs (inside n1 n2) Q <= 1)%nat) ->
  (forall p, In p Q -> forall u v, In (u, v) (cpairs (r0 :: rs)) -> 0 <= cross u v p) ->
  shoelace2 Q <= shoelace2 (r0 :: rs).
Proof. exact shoelace_mono. Qed.
Print Assumptions C06_shoelace_monotone.

(* a point on the inner side of every edge of a convex counter-clockwise polygon of positive
   shoelace sum satisfies every linear inequality that all the vertices satisfy *)
Theorem C06_hull_is_convex_combination : forall (n1 n2 p0 : pt) (ps : list pt) (a : pt),
  (forall p, In p (p0 :: ps) -> forall u v, In (u, v) (cpairs (p0 :: ps)) -> 0 <= cross u v p) ->
  0 < shoelace2 (p0 :: ps) ->
  (forall u v, In (u, v) (cpairs (p0 :: ps)) -> 0 <= cross u v a) ->
  (forall v, In v (p0 :: ps) -> cross n1 n2 v <= 0) -> cross n1 n2 a <= 0.
Proof. exact in_hull_conv. Qed.
Print Assumptions C06_hull_is_convex_combination.

(* ---------------------------------------------------------------------------------------- *)
(* non-vacuity: rotated overlapping boxes, a common rigid motion, separated, touching, nested *)
(* ---------------------------------------------------------------------------------------- *)
Definition cx_e : box := mkBox 1 1 1 1 0 (3 # 2) (5 # 2) (3 # 2).
Definition cx_g : box := mkBox (3 # 2) (5 # 4) (1 # 2) (3 # 5) (4 # 5) 1 2 1.
Definition cx_m : motion := mkMotion (5 # 13) (12 # 13) 1 (-2) (1 # 2).
Definition cx_far : box := mkBox 6 (-3) 0 (4 # 5) (3 # 5) 1 2 1.
Definition cx_touch : box := mkBox (13 # 4) 1 1 1 0 1 2 1.
Definition cx_in : box := mkBox 1 1 1 (4 # 5) (3 # 5) (1 # 2) (1 # 2) 1.

Example C06_clip_nonvacuous_overlap :
  box_valid cx_e /\ box_valid cx_g /\ motion_unit cx_m /\ ~ same_bev cx_e cx_g /\
  inter_clip cx_e cx_g == 151 # 96 /\ inter_clip cx_g cx_e == 151 # 96 /\
  area_rect cx_e == 15 # 4 /\ area_rect cx_g == 2 /\
  iou2_clip cx_e cx_g == 151 # 401 /\ iou3_clip cx_e cx_g == 151 # 825 /\
  iou2_clip (move_box cx_m cx_e) (move_box cx_m cx_g) == 151 # 401 /\
  iou3_clip (move_box cx_m cx_e) (move_box cx_m cx_g) == 151 # 825.
Proof.
  split; [split; [repeat split|]; vm_compute; reflexivity|].
  split; [split; [repeat split|]; vm_compute; reflexivity|].
  split; [vm_compute; reflexivity|].
  split; [intros (_ & _ & H & _); vm_compute in H; discriminate|].
  repeat split; vm_compute; reflexivity.
Qed.

(* separated, and touching along a side: the separating edge is the side x = 9/4 of cx_e *)
Example C06_clip_nonvacuous_disjoint :
  box_valid cx_far /\ box_valid cx_touch /\
  boxes_disjoint cx_e cx_far /\ boxes_disjoint cx_far cx_e /\ boxes_disjoint cx_e cx_touch /\
  inter_clip cx_e cx_far == 0 /\ inter_clip cx_far cx_e == 0 /\
  inter_clip cx_e cx_touch == 0 /\ inter_clip cx_touch cx_e == 0 /\
  iou2_clip cx_e cx_far == 0 /\ iou3_clip cx_e cx_touch == 0.
Proof.
  assert (S : forall g, (forall q, In q (corners g) -> 9 # 4 <= fst q) -> separated_by_edge (corners cx_e) (corners g)).
  { intros g H. exists (nth 3 (edges (corners cx_e)) ((0, 0), (0, 0))). split.
    - right; right; right; left; reflexivity.
    - intros q Hq. specialize (H q Hq).
      assert (E : cross (fst (nth 3 (edges (corners cx_e)) ((0, 0), (0, 0))))
                        (snd (nth 3 (edges (corners cx_e)) ((0, 0), (0, 0)))) q == (3 # 2) * ((9 # 4) - fst q)).
      { unfold cross. vm_compute nth. cbn [fst snd]. ring. }
      rewrite E. lra. }
  assert (Sfar : separated_by_edge (corners cx_e) (corners cx_far)).
  { apply S. intros q Hq. vm_compute in Hq.
    destruct Hq as [<-|[<-|[<-|[<-|[]]]]]; vm_compute; discriminate. }
  assert (Stouch : separated_by_edge (corners cx_e) (corners cx_touch)).
  { apply S. intros q Hq. vm_compute in Hq.
    destruct Hq as [<-|[<-|[<-|[<-|[]]]]]; vm_compute; discriminate. }
  split; [split; [repeat split|]; vm_compute; reflexivity|].
  split; [split; [repeat split|]; vm_compute; reflexivity|].
  split; [now left|]. split; [now right|]. split; [now left|].
  repeat split; vm_compute; reflexivity.
Qed.

(* a small rotated box inside a large one: the intersection is the small box, either way *)
Example C06_clip_nonvacuous_nested :
  box_valid cx_in /\ area_rect cx_in == 1 # 4 /\
  inter_clip cx_in cx_e == 1 # 4 /\ inter_clip cx_e cx_in == 1 # 4 /\ iou2_clip cx_in cx_e == 1 # 15.
Proof.
  split; [split; [repeat split|]; vm_compute; reflexivity|].
  repeat split; vm_compute; reflexivity.
Qed.
