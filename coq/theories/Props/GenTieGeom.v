(* Redundant tie, HEADING and BOX-SCORE arithmetic (properties C09, C06): DynamicObject.get_heading_bev, get_heading_error with its inner
   _clip, TPMetricsAp / TPMetricsAph.get_value, _get_height_intersection, _get_volume_intersection, the IoU formulas of IOU2dMatching /
   IOU3dMatching, CenterDistanceMatching._calculate_matching_score, distance_objects, get_position_error, get_distance(_bev) are
   re-translated from the Python `ast` on every run (translator/decisions_geom.py -> Gen/decisions_geom.v) and every theorem below says
   that a generated definition EQUALS the hand-model definition the C09 / C06 theorems are about (Model/Heading.v, Model/Geom2.v), for
   ALL inputs.

   ANGLES are in pi-units (math.pi is the unit of the translation: an angle a is the rational a/pi).
   EQUALITY.  [x =r= y] (Proofs/GenTieGeomLemmas.v): both sides raise the same exception, or both return and the returned rationals are
   [==] -- the SETOID equality of Q (rationals are not normalised: 2 # 4 and 1 # 2 are different terms), so that a formula written in
   another order is the same function; [rel_res (rel_opt Qeq3)] is the same for an optional triple.  Where [=] is written the equation
   is Leibniz.
   Each theorem is self-contained (compiled on its own by the harness): the equations of its callees are re-established inside its
   proof by the scripts of this header. *)
From Coq Require Import List Bool ZArith QArith.
From PE Require Import Base.QUtil Proofs.GenTieGeomLemmas.
From PE Require Import Model.Heading Model.Geom2.
From PE Require Gen.decisions_geom.
Import Gen.decisions_geom.
Open Scope Q_scope.

(* what get_heading_bev returns: which getter in which frame branch *)
Definition heading_bev_model (is_base : bool) (o : orientation) (transforms : option Q) : res Q :=
  if is_base then Ok (heading_bev_ego o)
  else match transforms with Some e => Ok (heading_bev_via e o) | None => Err ValueError end.
(* the denominators of the IoU formulas *)
Definition union3 (inter : box -> box -> Q) (e g : box) : Q := volume e + volume g - inter e g * height_intersection e g.
Definition union2 (inter : box -> box -> Q) (e g : box) : Q := area_rect e + area_rect g - inter e g.
Definition union_roi (a b : roi) : Q := inject_Z (roi_area a) + inject_Z (roi_area b) - inter_aa (rect_of_roi a) (rect_of_roi b).

Ltac script_clip := intros err; unfold Gen_get_heading_error__clip.f; gtie.
Ltac script_heading_bev := intros is_base o t; unfold Gen_get_heading_bev.f, heading_bev_model; gtie.
Ltac assert_heading_bev HB :=
  assert (HB : forall b o t, Gen_get_heading_bev.f b o t =r= heading_bev_model b o t) by script_heading_bev.
(* replaces the calls of get_heading_bev (outermost first, whatever their order) by values related to the model's headings *)
Ltac enter_headings HB :=
  repeat (match goal with
          | |- context [Gen_get_heading_bev.f ?b ?o ?t] =>
              let H := fresh "H" in pose proof (HB b o t) as H; unfold heading_bev_model in H; cbv iota in H; use_callee H; cbv beta zeta
          end).
(* properties of a result, through the equation: the generated call becomes a value v == the model, whose comparisons are split *)
Ltac via_model H v :=
  let E := fresh "E" in let Hv := fresh "Hv" in
  destruct (rel_res_ok_inv _ _ _ H) as (v & E & Hv); exists v; split; [exact E|];
  revert Hv; unfold clip, heading_bev_ego, heading_fold, valid_yaw; q_cases; intros Hv.
Ltac script_height := intros e g; unfold Gen__get_height_intersection.f; gtie.
Ltac script_volume :=
  let HH := fresh "HH" in
  assert (HH : forall e g, Gen__get_height_intersection.f e g =r= Ok (height_intersection e g)) by script_height;
  intros inter e g; unfold Gen__get_volume_intersection.f; cbv zeta;
  let H := fresh "H" in pose proof (HH e g) as H; use_callee H; cbn [rel_res];
  match goal with Q : _ == _ |- _ => rewrite Q end; reflexivity.
Ltac assert_volume HV :=
  assert (HV : forall inter e g, Gen__get_volume_intersection.f inter e g =r= Ok (inter e g * height_intersection e g)) by script_volume.

(* ---- DynamicObject.get_heading_error._clip = Heading.clip: one wrap step per sign ------------------------------------------------------- *)
Theorem GenTie_get_heading_error__clip :
  forall err : Q, Gen_get_heading_error__clip.f err =r= Ok (clip err).
Proof. script_clip. Qed.
Print Assumptions GenTie_get_heading_error__clip.

(* the docstring: "Clip [-2pi, 2pi] to [-pi, pi]".  ONE step is taken, so the result is in [-pi, pi] and the same direction exactly for
   inputs in [-3pi, 3pi]; it is the difference of two yaws of (-pi, pi], i.e. in (-2pi, 2pi), wherever the library calls it *)
Theorem GenTie_get_heading_error__clip_range :
  forall err : Q, -3 <= err <= 3 ->
    exists v, Gen_get_heading_error__clip.f err = Ok v /\ -1 <= v <= 1 /\ (v == err \/ v == err + 2 \/ v == err - 2).
Proof.
  assert (HC : forall err, Gen_get_heading_error__clip.f err =r= Ok (clip err)) by script_clip.
  intros err H. via_model (HC err) v; (split; [lra|]);
    first [ left; lra | right; left; lra | right; right; lra ].
Qed.
Print Assumptions GenTie_get_heading_error__clip_range.

(* outside [-3pi, 3pi] the single step is not enough: the result is outside [-pi, pi] *)
Theorem GenTie_get_heading_error__clip_range_outside :
  forall err : Q,
    (3 < err -> exists v, Gen_get_heading_error__clip.f err = Ok v /\ v == err - 2 /\ 1 < v) /\
    (err < -3 -> exists v, Gen_get_heading_error__clip.f err = Ok v /\ v == err + 2 /\ v < -1).
Proof.
  assert (HC : forall err, Gen_get_heading_error__clip.f err =r= Ok (clip err)) by script_clip.
  intros err. split; intros H; via_model (HC err) v; lra.
Qed.
Print Assumptions GenTie_get_heading_error__clip_range_outside.

Example GenTie_get_heading_error__clip_nonvacuous :
  Gen_get_heading_error__clip.f (3 # 2) = Ok ((3 # 2) - (2 # 1)) /\ Gen_get_heading_error__clip.f (- (3 # 2)) = Ok (- (3 # 2) + (2 # 1)) /\
  Gen_get_heading_error__clip.f 1 = Ok 1 /\ Gen_get_heading_error__clip.f (-1) = Ok (-1) /\           (* +pi and -pi are both kept *)
  (exists v, Gen_get_heading_error__clip.f (7 # 2) = Ok v /\ Qeqb v (3 # 2) = true).                     (* 3.5 pi: one step, still > pi *)
Proof. vm_compute. repeat split. eexists. split; reflexivity. Qed.

(* ---- DynamicObject.get_heading_error = (clip (roll2 - roll1), clip (pitch2 - pitch1), Heading.yaw_error): other - self ------------------ *)
Theorem GenTie_get_heading_error :
  forall (est : orientation) (pitch1 roll1 : Q) (other : option orientation) (pitch2 roll2 : Q),
    rel_res (rel_opt Qeq3) (Gen_get_heading_error.f est pitch1 roll1 other pitch2 roll2)
      (Ok (match other with
           | Some gt => Some (clip (roll2 - roll1), clip (pitch2 - pitch1), yaw_error est gt)
           | None => None
           end)).
Proof.
  assert (HC : forall err, Gen_get_heading_error__clip.f err =r= Ok (clip err)) by script_clip.
  intros est p1 r1 other p2 r2. unfold Gen_get_heading_error.f. destruct other as [gt|]; [|exact I].
  cbv beta zeta.
  repeat (match goal with
          | |- context [Gen_get_heading_error__clip.f ?a] => let H := fresh "H" in pose proof (HC a) as H; use_callee H; cbv beta zeta
          end).
  unfold yaw_error. cbn [rel_res rel_opt]. unfold Qeq3. cbn [fst snd]. repeat split; lra.
Qed.
Print Assumptions GenTie_get_heading_error.

Example GenTie_get_heading_error_nonvacuous :
  (exists t, Gen_get_heading_error.f ((3 # 4), true) 0 0 (Some (- (3 # 4), false)) (1 # 4) (- (1 # 4)) = Ok (Some t) /\
             Qeqb (fst (fst t)) (- (1 # 4)) && Qeqb (snd (fst t)) (1 # 4) && Qeqb (snd t) (1 # 2) = true) /\   (* -3/4 - 3/4 = -3/2 -> +1/2 *)
  Gen_get_heading_error.f (0, true) 0 0 None 0 0 = Ok None.
Proof. split; [eexists; split; [vm_compute; reflexivity | vm_compute; reflexivity] | reflexivity]. Qed.

(* ---- DynamicObject.get_heading_bev ----------------------------------------------------------------------------------------------------
   BASE_LINK object: the yaw of its own orientation, transforms NOT consulted; any other frame: ValueError without transforms, else the
   yaw of the orientation rotated into BASE_LINK; then  -yaw - pi/2  and the two wrap steps = Heading.heading_fold *)
Theorem GenTie_get_heading_bev :
  forall (is_base : bool) (o : orientation) (transforms : option Q),
    Gen_get_heading_bev.f is_base o transforms =r=
      (if is_base then Ok (heading_bev_ego o)
       else match transforms with Some e => Ok (heading_bev_via e o) | None => Err ValueError end).
Proof. intros is_base o t. fold (heading_bev_model is_base o t). revert is_base o t. script_heading_bev. Qed.
Print Assumptions GenTie_get_heading_bev.

(* the input range the two wrap steps handle: each step is taken at most once, so the result is in [-pi, pi] and the same direction as
   -yaw - pi/2 exactly for a yaw in [-7pi/2, 5pi/2].  For a yaw of (-pi, pi] (what yaw_pitch_roll returns) the FIRST step (> pi) is
   never taken, the second is taken for yaw > pi/2, and the result is in [-pi, pi): yaw = pi/2 gives -pi, not +pi *)
Theorem GenTie_get_heading_bev_wraps :
  forall (o : orientation), - (7 # 2) <= yaw_of o <= 5 # 2 ->
    exists h, Gen_get_heading_bev.f true o None = Ok h /\ -1 <= h <= 1 /\
              (h == - yaw_of o - (1 # 2) \/ h == - yaw_of o - (1 # 2) - 2 \/ h == - yaw_of o - (1 # 2) + 2) /\
              (valid_yaw (yaw_of o) -> h < 1 /\ h == (if Qltb (1 # 2) (yaw_of o) then (3 # 2) - yaw_of o else - yaw_of o - (1 # 2))).
Proof.
  assert_heading_bev HB.
  intros o H. pose proof (HB true o None) as H1. unfold heading_bev_model in H1.
  via_model H1 h; (split; [lra|]); (split; [|intros V; destruct (Qltb_spec (1 # 2) (yaw_of o)); lra]);
    first [ left; lra | right; left; lra | right; right; lra ].
Qed.
Print Assumptions GenTie_get_heading_bev_wraps.

Theorem GenTie_get_heading_bev_wraps_outside :
  forall (o : orientation),
    (yaw_of o < - (7 # 2) -> exists h, Gen_get_heading_bev.f true o None = Ok h /\ h == - yaw_of o - (1 # 2) - 2 /\ 1 < h) /\
    (5 # 2 < yaw_of o -> exists h, Gen_get_heading_bev.f true o None = Ok h /\ h == - yaw_of o - (1 # 2) + 2 /\ h < -1).
Proof.
  assert_heading_bev HB.
  intros o. pose proof (HB true o None) as H1. unfold heading_bev_model in H1.
  split; intros H; via_model H1 h; lra.
Qed.
Print Assumptions GenTie_get_heading_bev_wraps_outside.

Example GenTie_get_heading_bev_nonvacuous :
  (exists h, Gen_get_heading_bev.f true ((1 # 2), true) None = Ok h /\ Qeqb h (-1) = true) /\            (* yaw pi/2 -> -pi (not +pi) *)
  (exists h, Gen_get_heading_bev.f true (1, false) None = Ok h /\ Qeqb h (1 # 2) = true) /\              (* yaw pi -> -3pi/2 -> +pi/2 *)
  (exists h, Gen_get_heading_bev.f true (0, true) (Some (1 # 3)) = Ok h /\ Qeqb h (- (1 # 2)) = true) /\ (* BASE_LINK: transforms ignored *)
  (exists h, Gen_get_heading_bev.f false ((3 # 4), true) (Some (1 # 2)) = Ok h /\ Qeqb h (1 # 4) = true) /\  (* 5pi/4 -> -3pi/4 -> pi/4 *)
  Gen_get_heading_bev.f false (0, true) None = Err ValueError.
Proof. repeat split; try (eexists; split; [vm_compute; reflexivity | vm_compute; reflexivity]). Qed.

(* ---- TPMetricsAp.get_value = 1 (Leibniz) ------------------------------------------------------------------------------------------------ *)
Theorem GenTie_TPMetricsAp_get_value : Gen_TPMetricsAp_get_value.f = Ok 1.
Proof. reflexivity. Qed.
Print Assumptions GenTie_TPMetricsAp_get_value.

Example GenTie_TPMetricsAp_get_value_nonvacuous : exists v, Gen_TPMetricsAp_get_value.f = Ok v /\ Qeqb v 1 = true.
Proof. eexists. split; reflexivity. Qed.

(* ---- TPMetricsAph.get_value = Heading.aph_weight ------------------------------------------------------------------------------------
   no ground truth -> 0; estimate in BASE_LINK -> both headings without transforms (aph_weight_ego); any other frame -> both headings
   through the IDENTITY registered as frame -> BASE_LINK (aph_weight_map: the map-frame yaw is used as it is, re-wrapped by wrap_yaw);
   |difference| folded once at pi (2pi - d), weight 1 - d/pi clipped to [0, 1].  Main equation: both objects in the same frame *)
Theorem GenTie_TPMetricsAph_get_value :
  forall (base : bool) (est : orientation) (gt : option orientation),
    Gen_TPMetricsAph_get_value.f base base est gt =r=
      Ok (match gt with Some g => aph_weight (negb base) est g | None => 0 end).
Proof.
  assert_heading_bev HB.
  intros base est gt. unfold Gen_TPMetricsAph_get_value.f. destruct gt as [g|]; [|reflexivity].
  destruct base; cbn [negb]; cbv iota.
  - enter_headings HB. gtie_top.
  - enter_headings HB. gtie_top.
Qed.
Print Assumptions GenTie_TPMetricsAph_get_value.

(* the two objects in DIFFERENT frames: estimate in BASE_LINK and ground truth elsewhere -> ValueError (no transforms are built);
   estimate elsewhere and ground truth in BASE_LINK -> the ground truth's own yaw against the estimate's map-frame yaw *)
Theorem GenTie_TPMetricsAph_get_value_outside :
  forall (est g : orientation),
    Gen_TPMetricsAph_get_value.f true false est (Some g) = Err ValueError /\
    Gen_TPMetricsAph_get_value.f false true est (Some g) =r= Ok (aph_weight_h (heading_bev_via 0 est) (heading_bev_ego g)).
Proof.
  assert_heading_bev HB.
  intros est g. unfold Gen_TPMetricsAph_get_value.f. cbn [negb]. cbv iota. split.
  - pose proof (HB false g None) as H2. unfold heading_bev_model in H2. apply rel_res_err_inv in H2.
    first [ rewrite H2; reflexivity
          | pose proof (HB true est None) as H1; unfold heading_bev_model in H1; use_callee H1; cbv zeta; rewrite H2; reflexivity ].
  - enter_headings HB. gtie_top.
Qed.
Print Assumptions GenTie_TPMetricsAph_get_value_outside.

Example GenTie_TPMetricsAph_get_value_nonvacuous :
  (exists w, Gen_TPMetricsAph_get_value.f true true (0, true) (Some (1, false)) = Ok w /\ Qeqb w 0 = true) /\        (* difference exactly pi: 0 *)
  (exists w, Gen_TPMetricsAph_get_value.f true true ((1 # 4), true) (Some ((1 # 4), false)) = Ok w /\ Qeqb w 1 = true) /\
  (exists w, Gen_TPMetricsAph_get_value.f true true ((3 # 4), true) (Some (- (3 # 4), true)) = Ok w /\ Qeqb w (1 # 2) = true) /\  (* 3pi/2 folded to pi/2 *)
  (exists w, Gen_TPMetricsAph_get_value.f false false ((3 # 4), true) (Some (- (3 # 4), true)) = Ok w /\ Qeqb w (1 # 2) = true) /\ (* the same in the map branch *)
  Gen_TPMetricsAph_get_value.f true true (0, true) None = Ok 0 /\
  Gen_TPMetricsAph_get_value.f true false (0, true) (Some (0, true)) = Err ValueError.
Proof. repeat split; try (eexists; split; [vm_compute; reflexivity | vm_compute; reflexivity]). Qed.

(* ---- _get_height_intersection = Geom2.height_intersection: max(0, min of the tops - max of the bottoms) --------------------------------- *)
Theorem GenTie__get_height_intersection :
  forall (e g : box), Gen__get_height_intersection.f e g =r= Ok (height_intersection e g).
Proof. script_height. Qed.
Print Assumptions GenTie__get_height_intersection.

Example GenTie__get_height_intersection_nonvacuous :
  let b z h := mkBox 0 0 z 1 0 1 1 h in
  (exists v, Gen__get_height_intersection.f (b 0 2) (b 1 2) = Ok v /\ Qeqb v 1 = true) /\
  (exists v, Gen__get_height_intersection.f (b 0 2) (b 5 2) = Ok v /\ Qeqb v 0 = true) /\          (* disjoint: clipped at 0, not -3 *)
  (exists v, Gen__get_height_intersection.f (b 0 4) (b 0 2) = Ok v /\ Qeqb v 2 = true).
Proof. cbv zeta. repeat split; eexists; (split; [vm_compute; reflexivity | vm_compute; reflexivity]). Qed.

(* ---- _get_volume_intersection = area intersection (leaf) * height intersection ---------------------------------------------------------- *)
Theorem GenTie__get_volume_intersection :
  forall (inter : box -> box -> Q) (e g : box),
    Gen__get_volume_intersection.f inter e g =r= Ok (inter e g * height_intersection e g).
Proof. script_volume. Qed.
Print Assumptions GenTie__get_volume_intersection.

Example GenTie__get_volume_intersection_nonvacuous :
  let b z h := mkBox 0 0 z 1 0 1 1 h in
  exists v, Gen__get_volume_intersection.f (fun _ _ => 3) (b 0 2) (b 1 2) = Ok v /\ Qeqb v 3 = true.
Proof. cbv zeta. eexists; (split; [vm_compute; reflexivity | vm_compute; reflexivity]). Qed.

(* ---- IOU3dMatching._calculate_matching_score = Geom2.iou3_box -------------------------------------------------------------------------
   no ground truth -> 0; else intersection / (volume + volume - intersection).  GUARD: the union is not 0 *)
Theorem GenTie_IOU3dMatching__calculate_matching_score :
  forall (inter : box -> box -> Q) (e g : box), ~ union3 inter e g == 0 ->
    Gen_IOU3dMatching__calculate_matching_score.f inter e (Some g) =r= Ok (iou3_box inter e g).
Proof.
  assert_volume HV.
  intros inter e g HU. unfold Gen_IOU3dMatching__calculate_matching_score.f, union3 in *.
  pose proof (HV inter e g) as H. use_callee_as H vi Hvi. cbv zeta.
  match goal with |- context [Qeqb ?u 0] => destruct (Qeqb_spec u 0) as [Z|Z] end.
  - exfalso. apply HU. lra.
  - cbn [rel_res]. unfold iou3_box, iou3. apply Qdiv_comp; lra.
Qed.
Print Assumptions GenTie_IOU3dMatching__calculate_matching_score.

(* union = 0 (e.g. two boxes of height 0, or of zero footprint): the code raises ZeroDivisionError (Python floats), whereas
   Geom2.iou3_box is 0 there (Coq's x / 0 = 0); no ground truth: 0 *)
Theorem GenTie_IOU3dMatching__calculate_matching_score_outside :
  forall (inter : box -> box -> Q) (e g : box),
    (union3 inter e g == 0 -> Gen_IOU3dMatching__calculate_matching_score.f inter e (Some g) = Err ZeroDivisionError) /\
    Gen_IOU3dMatching__calculate_matching_score.f inter e None = Ok 0.
Proof.
  assert_volume HV.
  intros inter e g. split; [|reflexivity]. intros HU. unfold Gen_IOU3dMatching__calculate_matching_score.f, union3 in *.
  pose proof (HV inter e g) as H. use_callee_as H vi Hvi. cbv zeta.
  match goal with |- context [Qeqb ?u 0] => destruct (Qeqb_spec u 0) as [Z|Z] end; [reflexivity|].
  exfalso. apply Z. lra.
Qed.
Print Assumptions GenTie_IOU3dMatching__calculate_matching_score_outside.

Example GenTie_IOU3dMatching__calculate_matching_score_nonvacuous :
  let b z h := mkBox 0 0 z 1 0 1 1 h in
  (exists v, Gen_IOU3dMatching__calculate_matching_score.f (fun _ _ => 1) (b 0 2) (Some (b 1 2)) = Ok v /\ Qeqb v (1 # 3) = true) /\
  Gen_IOU3dMatching__calculate_matching_score.f (fun _ _ => 0) (b 0 0) (Some (b 0 0)) = Err ZeroDivisionError /\     (* zero-volume boxes *)
  Qeqb (iou3_box (fun _ _ => 0) (b 0 0) (b 0 0)) 0 = true /\
  Gen_IOU3dMatching__calculate_matching_score.f (fun _ _ => 1) (b 0 2) None = Ok 0.
Proof. cbv zeta. repeat split; try (eexists; split; [vm_compute; reflexivity | vm_compute; reflexivity]). Qed.

(* ---- IOU2dMatching._calculate_matching_score on 3D objects = Geom2.iou2_box (BEV areas; the intersection area is the leaf) ----------------- *)
Theorem GenTie_IOU2dMatching__calculate_matching_score :
  forall (inter : box -> box -> Q) (e g : box), ~ union2 inter e g == 0 ->
    Gen_IOU2dMatching__calculate_matching_score.f inter e (Some g) =r= Ok (iou2_box inter e g).
Proof.
  intros inter e g HU. unfold Gen_IOU2dMatching__calculate_matching_score.f, union2 in *. cbv zeta.
  match goal with |- context [Qeqb ?u 0] => destruct (Qeqb_spec u 0) as [Z|Z] end; [exfalso; apply HU; lra|].
  cbn [rel_res]. unfold iou2_box, iou. apply Qdiv_comp; lra.
Qed.
Print Assumptions GenTie_IOU2dMatching__calculate_matching_score.

Theorem GenTie_IOU2dMatching__calculate_matching_score_outside :
  forall (inter : box -> box -> Q) (e g : box),
    (union2 inter e g == 0 -> Gen_IOU2dMatching__calculate_matching_score.f inter e (Some g) = Err ZeroDivisionError) /\
    Gen_IOU2dMatching__calculate_matching_score.f inter e None = Ok 0.
Proof.
  intros inter e g. split; [|reflexivity]. intros HU. unfold Gen_IOU2dMatching__calculate_matching_score.f, union2 in *. cbv zeta.
  match goal with |- context [Qeqb ?u 0] => destruct (Qeqb_spec u 0) as [Z|Z] end; [reflexivity|exfalso; apply Z; lra].
Qed.
Print Assumptions GenTie_IOU2dMatching__calculate_matching_score_outside.

Example GenTie_IOU2dMatching__calculate_matching_score_nonvacuous :
  let b w := mkBox 0 0 0 1 0 w 2 1 in
  (exists v, Gen_IOU2dMatching__calculate_matching_score.f (fun _ _ => 2) (b 1) (Some (b 2)) = Ok v /\ Qeqb v (1 # 2) = true) /\   (* 2 / (2 + 4 - 2) *)
  Gen_IOU2dMatching__calculate_matching_score.f (fun _ _ => 0) (b 0) (Some (b 0)) = Err ZeroDivisionError /\
  Gen_IOU2dMatching__calculate_matching_score.f (fun _ _ => 2) (b 1) None = Ok 0.
Proof. cbv zeta. repeat split; try (eexists; split; [vm_compute; reflexivity | vm_compute; reflexivity]). Qed.

(* ---- IOU2dMatching._calculate_matching_score on 2D objects = Geom2.iou_roi (Roi.area; the intersection of two ROIs is Geom2.inter_aa) ------ *)
Theorem GenTie_IOU2dMatching__calculate_matching_score_roi :
  forall (a b : roi), ~ union_roi a b == 0 ->
    Gen_IOU2dMatching__calculate_matching_score_roi.f a (Some b) =r= Ok (iou_roi a b).
Proof.
  intros a b HU. unfold Gen_IOU2dMatching__calculate_matching_score_roi.f, union_roi in *. cbv zeta.
  match goal with |- context [Qeqb ?u 0] => destruct (Qeqb_spec u 0) as [Z|Z] end; [exfalso; apply HU; lra|].
  cbn [rel_res]. unfold iou_roi, iou. apply Qdiv_comp; lra.
Qed.
Print Assumptions GenTie_IOU2dMatching__calculate_matching_score_roi.

Theorem GenTie_IOU2dMatching__calculate_matching_score_roi_outside :
  forall (a b : roi),
    (union_roi a b == 0 -> Gen_IOU2dMatching__calculate_matching_score_roi.f a (Some b) = Err ZeroDivisionError) /\
    Gen_IOU2dMatching__calculate_matching_score_roi.f a None = Ok 0.
Proof.
  intros a b. split; [|reflexivity]. intros HU. unfold Gen_IOU2dMatching__calculate_matching_score_roi.f, union_roi in *. cbv zeta.
  match goal with |- context [Qeqb ?u 0] => destruct (Qeqb_spec u 0) as [Z|Z] end; [reflexivity|exfalso; apply Z; lra].
Qed.
Print Assumptions GenTie_IOU2dMatching__calculate_matching_score_roi_outside.

Example GenTie_IOU2dMatching__calculate_matching_score_roi_nonvacuous :
  (exists v, Gen_IOU2dMatching__calculate_matching_score_roi.f (mkRoi 0 0 2 2) (Some (mkRoi 1 0 2 2)) = Ok v /\ Qeqb v (1 # 3) = true) /\
  Gen_IOU2dMatching__calculate_matching_score_roi.f (mkRoi 0 0 0 0) (Some (mkRoi 5 5 0 0)) = Err ZeroDivisionError.
Proof. repeat split; try (eexists; split; [vm_compute; reflexivity | vm_compute; reflexivity]). Qed.

(* ---- CenterDistanceMatching._calculate_matching_score: None without ground truth, else the leaf distance_objects (Leibniz) ---------------- *)
Theorem GenTie_CenterDistanceMatching__calculate_matching_score :
  forall (dist : box -> box -> Q) (e : box) (g : option box),
    Gen_CenterDistanceMatching__calculate_matching_score.f dist e g = Ok (option_map (dist e) g).
Proof. intros. unfold Gen_CenterDistanceMatching__calculate_matching_score.f. destruct g; reflexivity. Qed.
Print Assumptions GenTie_CenterDistanceMatching__calculate_matching_score.

Example GenTie_CenterDistanceMatching__calculate_matching_score_nonvacuous :
  let b := mkBox 0 0 0 1 0 1 1 1 in
  Gen_CenterDistanceMatching__calculate_matching_score.f (fun _ _ => 5) b (Some b) = Ok (Some 5) /\
  Gen_CenterDistanceMatching__calculate_matching_score.f (fun _ _ => 5) b None = Ok None.
Proof. split; reflexivity. Qed.

(* ---- distance_objects: TypeError for objects of different classes, else the 3D or the ROI-centre distance (leaves; Leibniz) ---------------- *)
Theorem GenTie_distance_objects :
  forall (same_type is_3d : bool) (d3 d2 : Q),
    Gen_distance_objects.f same_type is_3d d3 d2 = (if same_type then Ok (if is_3d then d3 else d2) else Err TypeError).
Proof. intros. unfold Gen_distance_objects.f. destruct same_type, is_3d; reflexivity. Qed.
Print Assumptions GenTie_distance_objects.

Example GenTie_distance_objects_nonvacuous :
  Gen_distance_objects.f true true 3 4 = Ok 3 /\ Gen_distance_objects.f true false 3 4 = Ok 4 /\ Gen_distance_objects.f false true 3 4 = Err TypeError.
Proof. repeat split. Qed.

(* ---- DynamicObject.get_position_error: |other - self| per axis; None without the other object -------------------------------------------- *)
Theorem GenTie_get_position_error :
  forall (p : pt3) (other : option pt3),
    rel_res (rel_opt Qeq3) (Gen_get_position_error.f p other)
      (Ok (option_map (fun q => (qabs (fst (fst q) - fst (fst p)), qabs (snd (fst q) - snd (fst p)), qabs (snd q - snd p))) other)).
Proof. intros p other. unfold Gen_get_position_error.f. destruct other; cbn [option_map rel_res rel_opt]; [|exact I]. cbv zeta. unfold Qeq3. cbn [fst snd]. repeat split; reflexivity. Qed.
Print Assumptions GenTie_get_position_error.

Example GenTie_get_position_error_nonvacuous :
  (exists t, Gen_get_position_error.f (1, 2, 3) (Some (0, 4, 3)) = Ok (Some t) /\
             Qeqb (fst (fst t)) 1 && Qeqb (snd (fst t)) 2 && Qeqb (snd t) 0 = true) /\
  Gen_get_position_error.f (1, 2, 3) None = Ok None.
Proof. split; [eexists; split; [vm_compute; reflexivity | vm_compute; reflexivity] | reflexivity]. Qed.

(* ---- DynamicObject.get_distance / get_distance_bev: the object's own position in BASE_LINK (transforms not consulted), else ValueError
   without transforms, else the transformed position; then the leaf norm / hypot of x, y (Leibniz) ----------------------------------------- *)
Theorem GenTie_get_distance :
  forall (norm : pt3 -> Q) (is_base : bool) (p : pt3) (transforms : option (pt3 -> pt3)),
    Gen_get_distance.f norm is_base p transforms =
      (if is_base then Ok (norm p) else match transforms with Some t => Ok (norm (t p)) | None => Err ValueError end).
Proof. intros. unfold Gen_get_distance.f. destruct is_base; [|destruct transforms]; reflexivity. Qed.
Print Assumptions GenTie_get_distance.

Theorem GenTie_get_distance_bev :
  forall (hypot : Q -> Q -> Q) (is_base : bool) (p : pt3) (transforms : option (pt3 -> pt3)),
    Gen_get_distance_bev.f hypot is_base p transforms =
      (if is_base then Ok (hypot (fst (fst p)) (snd (fst p)))
       else match transforms with Some t => Ok (hypot (fst (fst (t p))) (snd (fst (t p)))) | None => Err ValueError end).
Proof. intros. unfold Gen_get_distance_bev.f. destruct is_base; [|destruct transforms]; reflexivity. Qed.
Print Assumptions GenTie_get_distance_bev.

Example GenTie_get_distance_nonvacuous :
  let sh := fun q : pt3 => (fst (fst q) + 1, snd (fst q), snd q) in
  Gen_get_distance.f (fun q => fst (fst q)) true (1, 2, 3) (Some sh) = Ok 1 /\
  Gen_get_distance.f (fun q => fst (fst q)) false (1, 2, 3) (Some sh) = Ok (1 + 1) /\
  Gen_get_distance.f (fun q => fst (fst q)) false (1, 2, 3) None = Err ValueError.
Proof. repeat split. Qed.
Example GenTie_get_distance_bev_nonvacuous :
  let sh := fun q : pt3 => (fst (fst q) + 1, snd (fst q), snd q) in
  Gen_get_distance_bev.f (fun x y => x + y) false (1, 2, 3) (Some sh) = Ok (1 + 1 + 2) /\
  Gen_get_distance_bev.f (fun x y => x + y) true (1, 2, 3) (Some sh) = Ok (1 + 2) /\
  Gen_get_distance_bev.f (fun x y => x + y) false (1, 2, 3) None = Err ValueError.
Proof. repeat split. Qed.
