(* C04 -- AP, APH and mAP equal the interpolated precision-recall area, within [0,1].
   Model: Model/AP.v (hand-written mirror of ap.py / map.py / is_result_correct), tied to the code by
   the correspondence in harness/props/C04.py.  Statements only; proofs are in Proofs/AP*.v. *)
From Coq Require Import List Bool ZArith Permutation.
From PE Require Import Base.QUtil Model.AP Proofs.APEnvelope Proofs.APRanking Proofs.APKinds Proofs.APModel Proofs.APDecl.
Import ListNotations.
Open Scope Q_scope.

(* The ranking: results sorted by descending confidence (a permutation of the input, sorted,
   equal confidences keep their input order), each classified TP(weight) / FP / ignored. *)
Theorem C04_ranking_is_stable_descending_sort : forall (rs : list res),
  Permutation (sort_desc conf rs) rs /\
  sorted_desc conf (sort_desc conf rs) /\
  (forall c, with_key conf c (sort_desc conf rs) = with_key conf c rs).
Proof.
  intros rs. split; [apply sort_desc_perm|split; [apply sort_desc_sorted|intro c; apply sort_desc_stable]].
Qed.
Print Assumptions C04_ranking_is_stable_descending_sort.

(* A ranked result counts as TP iff its label has a threshold, it has a ground truth, the label is
   compatible and the score beats the threshold (ordinary ground truth); otherwise, if its label has a
   threshold, it counts as FP. *)
Theorem C04_tp_iff_correct : forall m r,
  (thr r = None -> classify m r = IGN) /\
  (forall t v, thr r = Some t -> matching r = Some v -> gt_fp r = false ->
     classify m r = if has_gt r && lab_ok r && better_than m v t then TPw (weight r) else FPr).
Proof.
  intros m r. split.
  - intros H. unfold classify. now rewrite H.
  - intros t v Ht Hv Hfp. unfold classify, is_result_correct. rewrite Ht, Hv, Hfp.
    destruct (has_gt r), (lab_ok r), (better_than m v t); reflexivity.
Qed.
Print Assumptions C04_tp_iff_correct.

(* Ap of a non-empty result list: cumulative TP/FP over the ranking, and AP = the area under the
   all-point-interpolated precision/recall curve (precision at each rank replaced by the maximum
   precision at this and any later rank) of the points (tp_i/(i+1), tp_i/num_gt). *)
Theorem C04_ap_is_interpolated_area : forall m n rs, rs <> [] ->
  let ks := map (classify m) (sort_desc conf rs) in
  let R := ap_model m n rs in
  tp_list R = cumsum 0 (map tpval ks) /\ fp_list R = cumsum 0 (map fpval ks) /\
  exists a, ap R = Some a /\ a == ap_spec (rev (points 0 n (tp_list R))).
Proof.
  intros m n rs H. cbv zeta. rewrite (ap_model_nonempty m n rs H). cbn [tp_list fp_list ap].
  split; [reflexivity|split; [reflexivity|]]. eexists. split; [reflexivity|].
  unfold ap_of_kinds. apply ap_code_eq_spec.
Qed.
Print Assumptions C04_ap_is_interpolated_area.

(* the code's record-high envelope equals the specification for EVERY list of points *)
Theorem C04_envelope_area_eq_all_point_interpolation : forall l : list pt, ap_code l == ap_spec l.
Proof. exact ap_code_eq_spec. Qed.
Print Assumptions C04_envelope_area_eq_all_point_interpolation.

(* ... and that specification is the explicit formula, in rank order (l = points of ranks 0, 1, ...):
     AP = sum_i (r_i - r_{i-1}) * max_{j >= i} p_j      with r_{-1} = 0
   ([ap_decl], Model/AP.v), for any non-negative precisions *)
Theorem C04_area_is_explicit_all_point_formula : forall l : list pt,
  (forall p r, In (p, r) l -> 0 <= p) -> ap_code (rev l) == ap_decl 0 l.
Proof. intros l H. rewrite ap_code_eq_spec. now apply ap_spec_rev_decl. Qed.
Print Assumptions C04_area_is_explicit_all_point_formula.

Theorem C04_empty_results_undefined : forall m n, ap (ap_model m n []) = None.
Proof. reflexivity. Qed.
Print Assumptions C04_empty_results_undefined.

(* With TP weights in [0,1] and no more TPs than ground truths (one-to-one matching: C01/C03),
   AP and APH lie in [0,1]. *)
Theorem C04_ap_in_unit_interval : forall n ks,
  weights_ok ks -> (count_tp ks <= n)%nat -> 0 <= ap_of_kinds n ks <= 1.
Proof. exact ap_in_unit_interval. Qed.
Print Assumptions C04_ap_in_unit_interval.

(* APH (TP weights = heading agreement in [0,1]) never exceeds AP (weights 1) on the same results *)
Theorem C04_aph_le_ap : forall m n rs, res_weights_ok rs ->
  ap_of_kinds n (ranking m rs) <= ap_of_kinds n (ranking m (map with_unit_weight rs)).
Proof. exact aph_le_ap_model. Qed.
Print Assumptions C04_aph_le_ap.

(* AP = 1 when every ground truth is matched by a correct estimate and no wrong estimate outranks one *)
Theorem C04_ap_one_when_perfect : forall n rest,
  (0 < n)%nat -> (forall k, In k rest -> tpval k == 0) ->
  ap_of_kinds n (repeat (TPw 1) n ++ rest) == 1.
Proof. exact ap_one_when_perfect. Qed.
Print Assumptions C04_ap_one_when_perfect.

(* AP = 0 when no estimate is correct *)
Theorem C04_ap_zero_without_tp : forall n ks, (forall k, In k ks -> tpval k == 0) -> ap_of_kinds n ks == 0.
Proof. exact ap_zero_without_tp. Qed.
Print Assumptions C04_ap_zero_without_tp.

(* mAP / mAPH: the mean over the labels whose AP is defined; undefined iff none is defined;
   within any interval containing the per-label values *)
Theorem C04_map_is_mean_of_defined : forall aps,
  mean_defined aps = match somes aps with [] => None | v => Some (qsum v / Qnat (length v)) end /\
  (mean_defined aps = None <-> forall x, ~ In (Some x) aps).
Proof. intros aps. split; [reflexivity|apply mean_defined_none]. Qed.
Print Assumptions C04_map_is_mean_of_defined.

Theorem C04_map_in_unit_interval : forall aps m,
  (forall x, In (Some x) aps -> 0 <= x <= 1) -> mean_defined aps = Some m -> 0 <= m <= 1.
Proof. intros aps m. apply mean_defined_bounds. Qed.
Print Assumptions C04_map_in_unit_interval.

(* ---- non-vacuity ------------------------------------------------------------------------------------ *)
(* the docstring example of ap.py: correct = [T, F, T, T], 4 ground truths -> AP = 0.625 *)
Example C04_nonvacuous_docstring_example :
  ap_of_kinds 4 [TPw 1; FPr; TPw 1; TPw 1] == 5 # 8.
Proof. vm_compute. reflexivity. Qed.

Example C04_nonvacuous_hypotheses :
  weights_ok [TPw (1#2); FPr; IGN; TPw 1] /\ (count_tp [TPw (1#2); FPr; IGN; TPw 1] <= 2)%nat /\
  ~ ap_of_kinds 2 [TPw (1#2); FPr; IGN; TPw 1] == 0.
Proof.
  split; [|split; [vm_compute; auto|vm_compute; discriminate]].
  intros k [<-|[<-|[<-|[<-|[]]]]]; simpl; lra.
Qed.
